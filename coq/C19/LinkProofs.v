(* C19 -- the executable Q model used in the correspondence run and the R model the analytic theorems talk about are the
   same function: Q2R (airtovac_Q a) = airtovac_R (Q2R a), Q2R (vactoair_Q v) = vactoair_R (Q2R v). *)
From Coq Require Import Reals QArith Qreals Lra Lia.
From PV Require Import Generated.AstroConsts C19.Model C19.AirVacProofs.
Open Scope R_scope.

Lemma Q2R_nonzero : forall q : Q, Q2R q <> 0 -> ~ (q == 0)%Q.
Proof. intros q H E. apply H. rewrite (Qeq_eqR _ _ E). unfold Q2R. cbn. lra. Qed.

Lemma Q2R_lit : forall (n : Z) (d : positive), Q2R (n # d) = IZR n / IZR (Zpos d).
Proof. intros. unfold Q2R. cbn. reflexivity. Qed.

Lemma Q2R_sigma2 : forall x : Q, 2000 <= Q2R x -> Q2R (airtovac_sigma2_Q x) = airtovac_sigma2_R (Q2R x).
Proof.
  intros x H. assert (N : ~ (x == 0)%Q) by (apply Q2R_nonzero; lra).
  unfold airtovac_sigma2_Q, airtovac_sigma2_R.
  rewrite Q2R_mult, !Q2R_div by exact N. rewrite Q2R_lit. f_equal; f_equal; lra.
Qed.

Lemma Q2R_fact : forall s : Q, 0 <= Q2R s <= 26 -> Q2R (airtovac_fact_Q s) = airtovac_fact_R (Q2R s).
Proof.
  intros s H. unfold airtovac_fact_Q, airtovac_fact_R.
  assert (N1 : ~ ((476037 # 2000) - s == 0)%Q).
  { apply Q2R_nonzero. rewrite Q2R_minus, Q2R_lit. lra. }
  assert (N2 : ~ ((28681 # 500) - s == 0)%Q).
  { apply Q2R_nonzero. rewrite Q2R_minus, Q2R_lit. lra. }
  rewrite !Q2R_plus, !Q2R_div, !Q2R_minus, !Q2R_lit by assumption. lra.
Qed.

Lemma Q2R_step : forall a x : Q, 2000 <= Q2R x ->
  Q2R (airtovac_step_Q a x) = airtovac_step_R (Q2R a) (Q2R x).
Proof.
  intros a x H. unfold airtovac_step_Q, airtovac_step_R, airtovac_update_Q, airtovac_update_R.
  pose proof (sg_range _ H) as S. rewrite Q2R_mult, Q2R_fact, Q2R_sigma2 by (try exact H; rewrite Q2R_sigma2 by exact H; lra).
  reflexivity.
Qed.

Lemma Q2R_Qred : forall q, Q2R (Qred q) = Q2R q.
Proof. intro q. apply Qeq_eqR. apply Qred_correct. Qed.

Lemma Q2R_2000 : Q2R (2000 # 1) = 2000.
Proof. rewrite Q2R_lit. lra. Qed.

Theorem airtovac_Q_is_R : forall a : Q, Q2R (airtovac_Q a) = airtovac_R (Q2R a).
Proof.
  intro a. unfold airtovac_Q, airtovac_guard_Q.
  destruct (Qle_bool (2000 # 1) a) eqn:E; cbn [negb].
  - apply Qle_bool_iff in E. apply Qle_Rle in E. rewrite Q2R_2000 in E.
    rewrite airtovac_R_above by exact E.
    unfold airtovac_iterations. cbn [iterQ]. rewrite Q2R_Qred.
    destruct (chain_ranges _ E) as (S0 & G0 & V1 & _). cbv zeta in *.
    assert (X1 : Q2R (Qred (airtovac_step_Q a a)) = Q2R a * airtovac_fact_R (airtovac_sigma2_R (Q2R a))).
    { rewrite Q2R_Qred, Q2R_step by exact E. reflexivity. }
    rewrite Q2R_step by (rewrite X1; exact V1). rewrite X1. reflexivity.
  - assert (L : Q2R a < 2000).
    { rewrite <- Q2R_2000. apply Qlt_Rlt. apply Qnot_le_lt. intro C. apply Qle_bool_iff in C. rewrite C in E. discriminate. }
    destruct (below_2000_unchanged _ L) as [-> _]. reflexivity.
Qed.

Theorem vactoair_Q_is_R : forall v : Q, Q2R (vactoair_Q v) = vactoair_R (Q2R v).
Proof.
  intro v. unfold vactoair_Q, vactoair_guard_Q.
  destruct (Qle_bool (2000 # 1) v) eqn:E; cbn [negb].
  - apply Qle_bool_iff in E. apply Qle_Rle in E. rewrite Q2R_2000 in E.
    rewrite vactoair_R_above by exact E. rewrite Q2R_Qred.
    unfold vactoair_body_Q, vactoair_update_Q.
    pose proof (sg_range _ E) as S.
    assert (F : Q2R (vactoair_fact_Q (vactoair_sigma2_Q v)) = airtovac_fact_R (airtovac_sigma2_R (Q2R v))).
    { change (vactoair_fact_Q (vactoair_sigma2_Q v)) with (airtovac_fact_Q (airtovac_sigma2_Q v)).
      rewrite Q2R_fact, Q2R_sigma2 by (try exact E; rewrite Q2R_sigma2 by exact E; lra). reflexivity. }
    rewrite Q2R_div, F. reflexivity.
    apply Q2R_nonzero. rewrite F. generalize (g_range (airtovac_sigma2_R (Q2R v))). lra.
  - assert (L : Q2R v < 2000).
    { rewrite <- Q2R_2000. apply Qlt_Rlt. apply Qnot_le_lt. intro C. apply Qle_bool_iff in C. rewrite C in E. discriminate. }
    destruct (below_2000_unchanged _ L) as [_ ->]. reflexivity.
Qed.

Lemma Q_models_are_R_models : forall a : Q,
  Q2R (airtovac_Q a) = airtovac_R (Q2R a) /\ Q2R (vactoair_Q a) = vactoair_R (Q2R a).
Proof. intro a. split. apply airtovac_Q_is_R. apply vactoair_Q_is_R. Qed.
