(* C07: the configuration of the model as read off the source (Generated/Maskbits.v, rewritten on every run). *)
From Coq Require Import ZArith List Bool String.
From PV Require Import Yanny.Bytes C07.Model C07.FileModel Generated.Maskbits.

(* the return chain of sdss_flagexist, evaluated for the four flag combinations *)
Definition code_ret4 : ret4 := ret4_of (fun fe we => map efield_of (exist_ret_code fe we)).

Definition code_cfg : cfg :=
  mkcfg load_upper scan_bits accumulate_is_add acc_dtype_uint64 lookup_first upper_group upper_labels exist_all code_ret4.

(* which table / column of the raw yanny object set_maskbits reads for which role *)
Definition bs2 (p : string * string) : bytes * bytes := (bs (fst p), bs (snd p)).
Definition code_names : fnames :=
  mknames (bs src_bits_size) (bs2 src_bits_flag) (bs2 src_bits_label) (bs2 src_bits_bit)
          (bs src_alias_guard) (bs src_alias_size) (bs2 src_alias_alias) (bs2 src_alias_flag).
