"""C20 -- a failing pipeline call leaves the process environment as it found it."""
import itertools
import os

from harness import common as C
from translate import c20 as T

ID = 'C20'
PROPS_V = 'C20/Props.v'
LEVEL = 'proof'
TRUSTED = [
    'translate/c20.py: Python ast -> environment-program skeleton (idioms: save/get/del/pop/set/restore, try/finally/except, '
    'literal-tuple loops unrolled, writers of the same module inlined, everything else = Call that may raise)',
    'C20.Model.accepts (trace matcher, evaluated by vm_compute) checks on every real run that the skeleton covers the observed os.environ operations; proved complete (C20_accepts_complete: every execution trace of a skeleton is accepted), its soundness (accepted => some execution has that trace) is not proved',
    'harness/impl/c20_impl.py: sys.settrace fault injector + tracing os.environ wrapper; CPython exception/finally semantics',
    'collaborators in other modules do not write the environment (observed on every run through the full-environment diff, not proved)',
]
ASSUMPTIONS = [
    'faults are injected at Python-level calls made directly by the entry point (and by template_metadata); C-level builtins are not fault points',
    'template_input is driven through its dump-file path (readspec/skymask/preprocess_spectra are skipped when the dump file exists); fault points before and after that branch are all exercised',
]

DEFAULT_VARS = {'window_score': ['PHOTO_CALIB', 'PHOTO_RESOLVE'], 'template_input': ['RUN2D', 'RUN1D']}
_meta = {}


def translate(ctx):
    text, info = T.generate(C.REPO)
    path = os.path.join(C.COQ, 'Generated', 'EnvSkeletons.v')
    if text is not None:
        info['changed'] = C.write_if_changed(path, text)
    else:
        info['restored_committed_file'] = C.restore_generated('coq/Generated/EnvSkeletons.v')
        info['note'] = 'source shape not recognised; the committed Generated/EnvSkeletons.v is kept and only the fault-injection run ties the result to the code'
    _meta.update(info.get('functions', {}))
    return {'EnvSkeletons': info}


def ev_term(ev, names):
    kind, name, ok = ev
    i = names.index(name)
    if kind == 'get':
        return '(EvGet %d %s)' % (i, C.boollit(ok))
    if kind == 'del':
        return '(EvDel %d %s)' % (i, C.boollit(ok))
    return '(EvSet %d)' % i


HEADER = '''From Coq Require Import List. Import ListNotations.
From PV Require Import C20.Model Generated.EnvSkeletons.'''


def correspond(ctx, proof_ok=True):
    ok, log = C.coq_make(['C20/Model.vo', 'Generated/EnvSkeletons.vo'])
    if not ok:
        raise RuntimeError('C20 model does not build:\n' + log[-2000:])
    if not _meta:
        translate(ctx)
    all_runs = []      # (target, run, result)
    for target in ('window_score', 'template_input'):
        names = (_meta.get(target) or {}).get('vars') or DEFAULT_VARS[target]
        for v in DEFAULT_VARS[target]:
            if v not in names:
                names = names + [v]
        workdir = os.path.join(ctx.work, target)
        # initial states of the touched variables: unset / some other value / the empty string / (template_input) the very
        # value the parameter file is about to set -- restoration logic keyed on "did it change?" or on truthiness shows only there
        FILEVAL = {'RUN2D': 'v9_9_9', 'RUN1D': 'v8_8_8'}
        def choices(v):
            c = ['orig-value', None, '']
            if v in FILEVAL:
                c.append(FILEVAL[v])
            if v == 'PHOTO_RESOLVE':
                c = ['orig-value', None]          # must be a usable directory or absent
            return c
        states = [dict(zip(names, combo)) for combo in itertools.product(*[choices(v) for v in names])]
        variants = [{'rescore': False, 'stub_score': True}, {'rescore': True, 'stub_score': True},
                    {'rescore': False, 'stub_score': False}] if target == 'window_score' else [{'flux': False}, {'flux': False, 'method': 'hmf'}]
        if target == 'template_input' and ctx.thorough:
            variants.append({'flux': True})
        base = []
        for st in states:
            for va in variants:
                base.append({'init': st, 'fault': None, 'args': va})
        # phase 1: fault-free runs (also creates the input files once)
        first = C.run_impl('c20_impl.py', {'target': target, 'workdir': workdir, 'vars': names, 'runs': base[:1]})
        optkeys = (first.get('paths') or {}).get('optional_keywords') or []
        if target == 'template_input' and optkeys:
            # the source reads parameter-file keywords the standard file does not define: run every initial state
            # once more with a file that sets them, so that code guarded by `'key' in par` is exercised as well
            for st in states:
                base.append({'init': st, 'fault': None, 'args': {'flux': False, 'optional_keywords': True}})
        ctx.coverage.setdefault('optional_keywords', {})[target] = optkeys
        nb = min(C.NPROC, max(1, len(base) - 1))
        rest = base[1:]
        outs = C.run_impl_parallel('c20_impl.py', [{'target': target, 'workdir': workdir, 'vars': names, 'runs': rest[i::nb]}
                                                    for i in range(nb)]) if rest else []
        res0 = [first['results'][0]] + [None] * len(rest)
        for i, o in enumerate(outs):
            for k, r in enumerate(o['results']):
                res0[1 + i + k * nb] = r
        ctx.coverage['pydl_file'] = first['pydl_file']
        # phase 2: every fault point of every (state, variant)
        fault_runs = []
        for b, r in zip(base, res0):
            all_runs.append((target, names, b, r))
            n = r['ncalls']
            both_set = all(v == 'orig-value' for v in b['init'].values())
            stride = 1 if (ctx.thorough or target == 'window_score') else (2 if both_set else 13)
            for k in range(0, n, stride):
                fault_runs.append(dict(b, fault=k))
        nb = C.NPROC
        outs = C.run_impl_parallel('c20_impl.py', [{'target': target, 'workdir': workdir, 'vars': names, 'runs': fault_runs[i::nb]}
                                                    for i in range(nb) if fault_runs[i::nb]])
        res = [None] * len(fault_runs)
        for i, o in enumerate(outs):
            for k, r in enumerate(o['results']):
                res[i + k * nb] = r
        for b, r in zip(fault_runs, res):
            all_runs.append((target, names, b, r))
    # Coq: does the generated skeleton accept each observed trace; restoration verdicts
    terms = []
    for target, names, run, r in all_runs:
        tr = C.coq_list([ev_term(e, names) for e in r['trace']])
        restored = not r['env_diff']
        terms.append('(CRun %s_skel %s_vars %s %s %s)' % (target, target, tr, C.boollit(r['outcome'] == 'raised'), C.boollit(restored)))
    cc = C.CoqCases(ctx.work, HEADER, 'run_cases', shard=40)
    verdicts = cc.run(terms)
    dist = {}
    for (target, names, run, r), v in zip(all_runs, verdicts):
        k = '%s:%s:%s' % (target, 'fault' if run['fault'] is not None else 'nofault', r['outcome'])
        dist[k] = dist.get(k, 0) + 1
    fired = sum(1 for _, _, run, r in all_runs if run['fault'] is not None and r['fired_at'])
    ctx.coverage.update({
        'evaluations': len(all_runs),
        'distinct_nontrivial': len(set((t, str(sorted(run['init'].items())), str(run['args']), run['fault']) for t, _, run, _ in all_runs if run['fault'] is not None)),
        'rule': 'one evaluation = one real execution of window_score / template_input with an exception injected at the k-th '
                'Python-level call made by the entry point (k = every call index of the fault-free run; in the quick tier template_input uses every 2nd index '
                'with both variables set to an unrelated value and every 13th for the other states: unset, empty string, or equal to the value the parameter file sets), for every combination of initial states of the touched variables (unset / other value / empty string / for RUN2D,RUN1D also the value the parameter file sets); '
                'the full process environment is compared before/after and the observed os.environ operations must be a trace of the '
                'generated skeleton (Coq: accepts).  non-trivial = a run with an injected fault; distinct by (entry point, state, variant, k)',
        'runs_by_kind': dist,
        'faults_fired': fired,
        'not_restored': sum(1 for v in verdicts if v & 2),
        'trace_not_accepted': sum(1 for v in verdicts if v & 1),
        'samples': [{'target': t, 'init': run['init'], 'fault': run['fault'], 'args': run['args'], 'outcome': r['outcome'],
                     'exc': r['exc'], 'fired_at': r['fired_at'], 'trace': r['trace'], 'env_diff': r['env_diff']}
                    for t, _, run, r in (all_runs[:2] + all_runs[-2:])],
    })
    seen = set()
    for (target, names, run, r), v, term in zip(all_runs, verdicts, terms):
        if v & 2:
            sig = 'C20:%s:not-restored:%s' % (target, ','.join(sorted(r['env_diff'])))
            if sig in seen:
                continue
            seen.add(sig)
            ctx.violation(sig, '%s leaves %s changed when call #%s (%s) fails' % (target, sorted(r['env_diff']), run['fault'], r['fired_at']),
                          {'kind': 'failing-input', 'target': target, 'init': run['init'], 'fault': run['fault'], 'args': run['args'],
                           'vars': names, 'observed': r, 'coq_case': term[:2000], 'verdict': v}, True)
        elif v & 1:
            sig = 'C20:%s:trace-not-in-skeleton' % target
            if sig in seen:
                continue
            seen.add(sig)
            ctx.violation(sig, 'observed os.environ operations of %s are not a behaviour of the generated skeleton' % target,
                          {'kind': 'broken-correspondence', 'item': 'C20.Model.accepts %s_skel' % target, 'init': run['init'],
                           'fault': run['fault'], 'args': run['args'], 'observed': r, 'coq_case': term[:2000]}, False)


def replay(ctx, rep):
    if 'target' not in rep:
        print('replay file has no fault schedule (kind=%s item=%s)' % (rep.get('kind'), rep.get('item')))
        return 2
    out = C.run_impl('c20_impl.py', {'target': rep['target'], 'workdir': os.path.join(ctx.work, 'replay'), 'vars': rep['vars'],
                                     'runs': [{'init': rep['init'], 'fault': rep['fault'], 'args': rep['args']}]})
    print('schedule:', rep['target'], rep['init'], 'fault at call', rep['fault'])
    print('now     :', out['results'][0])
    print('before  :', rep.get('observed'))
    return 0
