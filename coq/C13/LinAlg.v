(* Linear algebra over Q on lists (definitions only; proofs are in C13/LinAlgProofs.v).
   Own copy for C13 / C15 (coq/Lib is shared and read-only for this builder).
   Vectors are lists, matrices are lists of rows.  `solve_checked` / `inverse_checked` return
   `Some` only after re-multiplying, so their soundness does not depend on the elimination code. *)
From Coq Require Import QArith Qabs List Bool.
From PV Require Import Lib.WLS.
Import ListNotations.
Open Scope Q_scope.

Definition vec := list Q.
Definition mat := list (list Q).

Fixpoint vsub (u v : vec) : vec :=
  match u, v with a :: u', b :: v' => (a - b) :: vsub u' v' | _, _ => [] end.
Fixpoint map2 {A B C : Type} (f : A -> B -> C) (u : list A) (v : list B) : list C :=
  match u, v with a :: u', b :: v' => f a b :: map2 f u' v' | _, _ => [] end.

Definition mat_vec (A : mat) (x : vec) : vec := map (fun r => dot r x) A.
Definition col (j : nat) (A : mat) : vec := map (fun r => nth j r 0) A.
Definition ncols (A : mat) : nat := match A with [] => O | r :: _ => length r end.
Definition transpose (A : mat) : mat := map (fun j => col j A) (seq 0 (ncols A)).
Definition mat_mul (A B : mat) : mat := let Bt := transpose B in map (fun r => map (fun c => dot r c) Bt) A.
Definition unit_vec (n i : nat) : vec := map (fun j => if Nat.eqb i j then 1 else 0) (seq 0 n).
Definition identity (n : nat) : mat := map (unit_vec n) (seq 0 n).
Definition madd (A B : mat) : mat := map2 vadd A B.
Definition zero_mat (m : nat) : mat := repeat (zeros m) m.
Definition outer_w (w : Q) (r : vec) : mat := map (fun a => vscale (w * a) r) r.
Definition diag (A : mat) : vec := map (fun i => nth i (nth i A []) 0) (seq 0 (length A)).
Definition vred (v : vec) : vec := map Qred v.
Definition mred (A : mat) : mat := map vred A.

(* exact comparison *)
Fixpoint veq_bool (u v : vec) : bool :=
  match u, v with
  | [], [] => true
  | a :: u', b :: v' => Qeq_bool a b && veq_bool u' v'
  | _, _ => false
  end.
Fixpoint meq_bool (A B : mat) : bool :=
  match A, B with
  | [], [] => true
  | a :: A', b :: B' => veq_bool a b && meq_bool A' B'
  | _, _ => false
  end.

(* pointwise Qeq *)
Definition veq (u v : vec) : Prop := Forall2 Qeq u v.
Definition meq (A B : mat) : Prop := Forall2 veq A B.

Definition Qlt_bool (a b : Q) : bool := negb (Qle_bool b a).

Fixpoint opt_all {A : Type} (l : list (option A)) : option (list A) :=
  match l with
  | [] => Some []
  | None :: _ => None
  | Some a :: l' => match opt_all l' with Some r => Some (a :: r) | None => None end
  end.

Definition sqr (q : Q) : Q := q * q.
Definition hadamard (A B : mat) : mat := map2 (map2 Qmult) A B.

(* reduced variants (same values up to Qeq; used by the checkers to keep numerals small) *)
Fixpoint dotr (u v : vec) : Q :=
  match u, v with a :: u', b :: v' => Qred (a * b + dotr u' v') | _, _ => 0 end.
Definition mat_vec_r (A : mat) (x : vec) : vec := map (fun r => dotr r x) A.
(* Lib.WLS.chi2 with reduction after every step (chi2r_correct: same value) *)
Fixpoint chi2r (D : list obs) (x : vec) : Q :=
  match D with
  | [] => 0
  | o :: D' => let '(r, w, y) := o in Qred (w * ((dotr r x - y) * (dotr r x - y)) + chi2r D' x)
  end.
Definition mat_mul_r (A B : mat) : mat := let Bt := transpose B in map (fun r => map (fun c => dotr r c) Bt) A.

(* ------------------------------------------------------------------ Gauss-Jordan *)
Definition qnz (q : Q) : bool := negb (Qeq_bool q 0).

Fixpoint pick_pivot (c : nat) (rows : list vec) : option (vec * list vec) :=
  match rows with
  | [] => None
  | r :: rs =>
      if qnz (nth c r 0) then Some (r, rs)
      else match pick_pivot c rs with Some (p, rest) => Some (p, r :: rest) | None => None end
  end.

Definition row_norm (c : nat) (r : vec) : vec := let p := nth c r 0 in map (fun a => Qred (a / p)) r.
Definition row_elim (c : nat) (p r : vec) : vec := let f := nth c r 0 in map2 (fun a b => Qred (a - f * b)) r p.

Fixpoint gj (fuel c : nat) (done todo : list vec) : option (list vec) :=
  match fuel with
  | O => match todo with [] => Some done | _ => None end
  | S f =>
      match pick_pivot c todo with
      | None => None
      | Some (p, rest) =>
          let p' := row_norm c p in
          gj f (S c) (map (row_elim c p') done ++ [p']) (map (row_elim c p') rest)
      end
  end.

(* solve A X = B for square A (rows); None when singular / malformed *)
Definition solve_multi (A B : mat) : option mat :=
  let n := length A in
  match gj n 0 [] (map2 (@app Q) A B) with
  | Some rows => Some (map (skipn n) rows)
  | None => None
  end.

Definition solve_checked (A : mat) (b : vec) : option vec :=
  match solve_multi A (map (fun bi => [bi]) b) with
  | Some X =>
      let x := map (fun r => nth 0 r 0) X in
      if Nat.eqb (length x) (length A) && veq_bool (mat_vec A x) b then Some x else None
  | None => None
  end.

Definition inverse_checked (A : mat) : option mat :=
  let n := length A in
  match solve_multi A (identity n) with
  | Some X =>
      if Nat.eqb (length X) n && meq_bool (mat_mul A X) (identity n) && meq_bool (mat_mul X A) (identity n)
      then Some X else None
  | None => None
  end.

(* ------------------------------------------------------------------ normal equations *)
(* D : list (row * weight * y)  (Lib.WLS.obs) ; m = number of unknowns *)
Fixpoint normal_mat (m : nat) (D : list obs) : mat :=
  match D with
  | [] => zero_mat m
  | o :: D' => let '(r, w, y) := o in madd (outer_w w r) (normal_mat m D')
  end.
Fixpoint normal_rhs (m : nat) (D : list obs) : vec :=
  match D with
  | [] => zeros m
  | o :: D' => let '(r, w, y) := o in vadd (vscale (w * y) r) (normal_rhs m D')
  end.

(* weighted least squares through the checked solver *)
Definition wls_solve (m : nat) (D : list obs) : option vec :=
  solve_checked (mred (normal_mat m D)) (vred (normal_rhs m D)).

(* ------------------------------------------------------------------ tolerant comparison *)
Definition qclose (tol a b : Q) : bool := Qle_bool (Qabs (a - b)) tol.
(* |a-b| <= tol * (1 + |b|) *)
Definition qclose_rel (tol a b : Q) : bool := Qle_bool (Qabs (a - b)) (tol * (1 + Qabs b)).
Fixpoint vclose (cl : Q -> Q -> bool) (u v : vec) : bool :=
  match u, v with
  | [], [] => true
  | a :: u', b :: v' => cl a b && vclose cl u' v'
  | _, _ => false
  end.
Fixpoint mclose (cl : Q -> Q -> bool) (A B : mat) : bool :=
  match A, B with
  | [], [] => true
  | a :: A', b :: B' => vclose cl a b && mclose cl A' B'
  | _, _ => false
  end.
Definition vsum (v : vec) : Q := fold_right Qplus 0 v.
Definition vabs (v : vec) : vec := map Qabs v.
Definition vmaxabs (v : vec) : Q := fold_right (fun a m => if Qle_bool m (Qabs a) then Qabs a else m) 0 v.

(* comparisons relative to a given scale s (no absolute term: valid at any absolute scale of the data) *)
Definition qclose_s (tol s a b : Q) : bool := Qle_bool (Qabs (a - b)) (tol * (s + Qabs b)).
(* ... relative to the largest entry of the reference *)
Definition vclose_max (tol : Q) (u ref : vec) : bool := vclose (qclose_s tol (vmaxabs ref)) u ref.
Definition mclose_max (tol : Q) (A R : mat) : bool := mclose (qclose_s tol (vmaxabs (map vmaxabs R))) A R.

(* the normal equations N x = rhs of the weighted problem D hold at sol up to tol, purely relative to the size of the
   terms of each equation (no absolute term: the test means the same at any absolute scale of weights and data) *)
Definition grad_small (tol : Q) (m : nat) (D : list obs) (sol : vec) : bool :=
  let N := normal_mat m D in
  let rhs := normal_rhs m D in
  forallb (fun p => let '(r, b) := p in
             Qle_bool (Qabs (dot r sol - b)) (tol * (dot (vabs r) (vabs sol) + Qabs b)))
          (combine N rhs)
  && Nat.eqb (length sol) m.

