(* C17: djs_maskinterp on n-D arrays.  The loop `ynew[line] = djs_maskinterp1(yval[line], ...)` over the lines
   along the chosen axis acts independently on every line: each line of the output is the 1-D result for
   that line of the input (M and S). *)
From Coq Require Import ZArith QArith List Bool Lia.
Import ListNotations.
From PV Require Import C17.Model C17.ProofsReject C17.ProofsInterp.
Open Scope Q_scope.

Lemma set_nth_length : forall k v l, length (set_nth k v l) = length l.
Proof.
  intros. unfold set_nth. destruct (k <? length l)%nat eqn:E; [|reflexivity].
  apply Nat.ltb_lt in E. rewrite app_length, firstn_length. cbn [length]. rewrite skipn_length. lia.
Qed.

Lemma set_nth_nth : forall k v l j, (k < length l)%nat ->
  nth j (set_nth k v l) 0 = if (j =? k)%nat then v else nth j l 0.
Proof.
  intros k v l j Hk. unfold set_nth. replace (k <? length l)%nat with true by (symmetry; apply Nat.ltb_lt; exact Hk).
  destruct (Nat.lt_trichotomy j k) as [L|[L|L]].
  - replace (j =? k)%nat with false by (symmetry; apply Nat.eqb_neq; lia).
    rewrite app_nth1 by (rewrite firstn_length; lia).
    rewrite <- (firstn_skipn k l) at 2. rewrite (app_nth1 (firstn k l)) by (rewrite firstn_length; lia). reflexivity.
  - subst. rewrite Nat.eqb_refl. rewrite app_nth2 by (rewrite firstn_length; lia).
    rewrite firstn_length. replace (k - Nat.min k (length l))%nat with O by lia. reflexivity.
  - replace (j =? k)%nat with false by (symmetry; apply Nat.eqb_neq; lia).
    rewrite app_nth2 by (rewrite firstn_length; lia).
    rewrite firstn_length. replace (j - Nat.min k (length l))%nat with (S (j - S k)) by lia. cbn [nth].
    rewrite <- (firstn_skipn (S k) l) at 2.
    rewrite (app_nth2 (firstn (S k) l)) by (rewrite firstn_length; lia).
    rewrite firstn_length. f_equal. lia.
Qed.

Lemma scatter_length : forall line vals out, length (scatter out line vals) = length out.
Proof.
  induction line as [|k line IH]; intros vals out; [reflexivity|].
  destruct vals as [|v vals]; [reflexivity|]. cbn [scatter]. rewrite IH. apply set_nth_length.
Qed.

Lemma pos_in_none : forall k line, pos_in k line = None <-> ~ In k line.
Proof.
  induction line as [|j r IH]; cbn; [tauto|].
  destruct (Nat.eqb_spec k j) as [->|N].
  - split; [discriminate | intros H; exfalso; apply H; left; reflexivity].
  - destruct (pos_in k r); cbn.
    + split; [discriminate|]. intros H. exfalso.
      destruct (in_dec Nat.eq_dec k r) as [I|I]; [apply H; right; exact I|].
      assert (X : Some n = None) by (apply IH; exact I). discriminate.
    + split; [|reflexivity]. intros _ [E|H]; [congruence | apply (proj1 IH eq_refl H)].
Qed.

Lemma pos_in_some : forall k line p, pos_in k line = Some p -> nth_error line p = Some k.
Proof.
  induction line as [|j r IH]; intros p H; cbn in H; [discriminate|].
  destruct (Nat.eqb_spec k j) as [->|N].
  - injection H as <-. reflexivity.
  - destruct (pos_in k r) as [q|] eqn:E; [|discriminate]. injection H as <-. cbn. apply IH. reflexivity.
Qed.

Lemma pos_in_nth : forall line p, NoDup line -> (p < length line)%nat -> pos_in (nth p line O) line = Some p.
Proof.
  induction line as [|j r IH]; intros p Hd Hp; [cbn in Hp; lia|].
  apply NoDup_cons_iff in Hd as [D1 D2]. destruct p as [|p]; cbn.
  - rewrite Nat.eqb_refl. reflexivity.
  - cbn in Hp. destruct (Nat.eqb_spec (nth p r O) j) as [E|N].
    + exfalso. apply D1. rewrite <- E. apply nth_In. lia.
    + rewrite IH by (try assumption; lia). reflexivity.
Qed.

Lemma scatter_nth : forall line vals out j,
  NoDup line -> length vals = length line -> (forall k, In k line -> (k < length out)%nat) ->
  nth j (scatter out line vals) 0 = match pos_in j line with Some p => nth p vals 0 | None => nth j out 0 end.
Proof.
  induction line as [|k line IH]; intros vals out j Hd Hl Hb; [reflexivity|].
  destruct vals as [|v vals]; [discriminate|]. cbn [scatter pos_in].
  apply NoDup_cons_iff in Hd as [D1 D2].
  rewrite IH; [| exact D2 | cbn in Hl; lia | intros q Hq; rewrite set_nth_length; apply Hb; right; exact Hq].
  destruct (Nat.eqb_spec j k) as [->|N].
  - replace (pos_in k line) with (@None nat) by (symmetry; apply pos_in_none, D1).
    rewrite set_nth_nth by (apply Hb; left; reflexivity). rewrite Nat.eqb_refl. reflexivity.
  - destruct (pos_in j line) as [p|]; cbn [option_map]; [reflexivity|].
    rewrite set_nth_nth by (apply Hb; left; reflexivity).
    replace (j =? k)%nat with false by (symmetry; apply Nat.eqb_neq; exact N). reflexivity.
Qed.

Lemma NoDup_app_l : forall (a b : list nat), NoDup (a ++ b) -> NoDup a.
Proof.
  induction a as [|x a IH]; intros b H; [constructor|]. cbn in H. apply NoDup_cons_iff in H as [H1 H2].
  constructor; [intros F; apply H1, in_or_app; left; exact F | apply (IH b H2)].
Qed.
Lemma NoDup_app_r : forall (a b : list nat), NoDup (a ++ b) -> NoDup b.
Proof.
  induction a as [|x a IH]; intros b H; [exact H|]. cbn in H. apply NoDup_cons_iff in H as [_ H2]. apply (IH b H2).
Qed.

Section Lines.
  Variable F : list nat -> list Q.                       (* the 1-D result for a line *)
  Hypothesis F_length : forall line, length (F line) = length line.

  Let step := fun (out : list Q) (line : list nat) => scatter out line (F line).

  Lemma fold_length : forall lines out, length (fold_left step lines out) = length out.
  Proof.
    induction lines as [|l r IH]; intros out; [reflexivity|]. cbn [fold_left]. rewrite IH. apply scatter_length.
  Qed.

  Lemma fold_untouched : forall lines out j,
    NoDup (concat lines) -> (forall k, In k (concat lines) -> (k < length out)%nat) -> ~ In j (concat lines) ->
    nth j (fold_left step lines out) 0 = nth j out 0.
  Proof.
    induction lines as [|l r IH]; intros out j Hd Hb Hj; [reflexivity|]. cbn [fold_left concat] in *.
    rewrite IH.
    - unfold step. rewrite scatter_nth.
      + replace (pos_in j l) with (@None nat); [reflexivity|]. symmetry. apply pos_in_none.
        intros H. apply Hj, in_or_app. left. exact H.
      + apply NoDup_app_l in Hd. exact Hd.
      + apply F_length.
      + intros k Hk. apply Hb, in_or_app. left. exact Hk.
    - apply NoDup_app_r in Hd. exact Hd.
    - intros k Hk. unfold step. rewrite scatter_length. apply Hb, in_or_app. right. exact Hk.
    - intros H. apply Hj, in_or_app. right. exact H.
  Qed.

  Lemma NoDup_app_disjoint : forall (a b : list nat) x, NoDup (a ++ b) -> In x a -> In x b -> False.
  Proof.
    induction a as [|y a IH]; intros b x Hd Ha Hb; [destruct Ha|]. cbn in Hd. apply NoDup_cons_iff in Hd as [D1 D2].
    destruct Ha as [->|Ha]; [apply D1, in_or_app; right; exact Hb | apply (IH b x D2 Ha Hb)].
  Qed.

  Lemma fold_line : forall lines out line p,
    NoDup (concat lines) -> (forall k, In k (concat lines) -> (k < length out)%nat) ->
    In line lines -> (p < length line)%nat ->
    nth (nth p line O) (fold_left step lines out) 0 = nth p (F line) 0.
  Proof.
    induction lines as [|l r IH]; intros out line p Hd Hb Hin Hp; [destruct Hin|]. cbn [fold_left concat] in *.
    assert (Dl : NoDup l) by (apply NoDup_app_l in Hd; exact Hd).
    assert (Dr : NoDup (concat r)) by (apply NoDup_app_r in Hd; exact Hd).
    assert (Br : forall k, In k (concat r) -> (k < length (step out l))%nat)
      by (intros k Hk; unfold step; rewrite scatter_length; apply Hb, in_or_app; right; exact Hk).
    destruct (in_dec (list_eq_dec Nat.eq_dec) line r) as [Hr|Hr].
    - apply IH; assumption.
    - destruct Hin as [->|Hin]; [|contradiction].
      rewrite fold_untouched; [| exact Dr | exact Br |].
      + unfold step. rewrite scatter_nth; [| exact Dl | apply F_length | intros k Hk; apply Hb, in_or_app; left; exact Hk].
        rewrite pos_in_nth by assumption. reflexivity.
      + intros H. apply (NoDup_app_disjoint line (concat r) (nth p line O) Hd); [apply nth_In; exact Hp | exact H].
  Qed.
End Lines.

Lemma nth_map_lt : forall {A} (f : A -> Q) (l : list A) p d0 d, (p < length l)%nat ->
  nth p (map f l) d = f (nth p l d0).
Proof.
  intros A f l p d0 d H. rewrite nth_indep with (d' := f d0) by (rewrite map_length; exact H). apply map_nth.
Qed.

Lemma gather_length : forall {A} (d : A) flat line, length (gather d flat line) = length line.
Proof. intros. unfold gather. apply map_length. Qed.

Lemma maskinterp1_model_length : forall ys mask xval,
  length mask = length ys -> (forall xs, xval = Some xs -> length xs = length ys) ->
  length (maskinterp1_model ys mask xval) = length ys.
Proof.
  intros ys mask xval Lm Lx. unfold maskinterp1_model.
  destruct (forallb negb mask); [reflexivity|].
  set (xs := match xval with Some xs => xs | None => index_x (length ys) end).
  assert (Lxs : length xs = length ys).
  { unfold xs. destruct xval as [x|]; [apply Lx; reflexivity | unfold index_x; rewrite map_length, seq_length; reflexivity]. }
  destruct (good_pts xs ys mask) as [|g [|g2 r]]; [reflexivity | apply map_length|].
  rewrite map_length, !combine_length. lia.
Qed.

Lemma maskinterp1_spec_length : forall ys mask xval,
  length mask = length ys -> (forall xs, xval = Some xs -> length xs = length ys) ->
  length (maskinterp1_spec ys mask xval) = length ys.
Proof.
  intros ys mask xval Lm Lx. unfold maskinterp1_spec.
  set (xs := match xval with Some xs => xs | None => index_x (length ys) end).
  assert (Lxs : length xs = length ys).
  { unfold xs. destruct xval as [x|]; [apply Lx; reflexivity | unfold index_x; rewrite map_length, seq_length; reflexivity]. }
  rewrite map_length, !combine_length. lia.
Qed.

Lemma line_model_length : forall ys mask xval line, length (line_model ys mask xval line) = length line.
Proof.
  intros. unfold line_model. rewrite maskinterp1_model_length; rewrite ?gather_length; try reflexivity.
  intros xs H. destruct xval as [x|]; cbn in H; [|discriminate]. injection H as <-. apply gather_length.
Qed.

Lemma line_spec_length : forall ys mask xval line, length (line_spec ys mask xval line) = length line.
Proof.
  intros. unfold line_spec. rewrite maskinterp1_spec_length; rewrite ?gather_length; try reflexivity.
  intros xs H. destruct xval as [x|]; cbn in H; [|discriminate]. injection H as <-. apply gather_length.
Qed.

(* maskinterp_axis (M): every line of the output is djs_maskinterp1 of that line of the input *)
Theorem maskinterp_axis_model : forall ys mask xval lines line,
  NoDup (concat lines) -> (forall k, In k (concat lines) -> (k < length ys)%nat) -> In line lines ->
  gather 0 (maskinterp_nd_model ys mask xval lines) line = line_model ys mask xval line.
Proof.
  intros ys mask xval lines line Hd Hb Hin.
  apply nth_ext with (d := 0) (d' := 0); [rewrite gather_length, line_model_length; reflexivity|].
  intros p Hp. rewrite gather_length in Hp. unfold gather.
  rewrite (nth_map_lt _ line p O 0 Hp). unfold maskinterp_nd_model.
  apply (fold_line (line_model ys mask xval) (line_model_length ys mask xval)); try assumption.
  intros k Hk. rewrite map_length. apply Hb, Hk.
Qed.

(* samples on no line stay 0 (ynew = zeros); with lines covering the array there are none *)
Theorem maskinterp_axis_rest : forall ys mask xval lines j,
  NoDup (concat lines) -> (forall k, In k (concat lines) -> (k < length ys)%nat) -> ~ In j (concat lines) ->
  nth j (maskinterp_nd_model ys mask xval lines) 0 = 0.
Proof.
  intros ys mask xval lines j Hd Hb Hj. unfold maskinterp_nd_model.
  rewrite (fold_untouched (line_model ys mask xval) (line_model_length ys mask xval)); try assumption.
  - destruct (Nat.lt_ge_cases j (length ys)) as [L|L].
    + rewrite (nth_map_lt _ ys j 0 0 L). reflexivity.
    + apply nth_overflow. rewrite map_length. exact L.
  - intros k Hk. rewrite map_length. apply Hb, Hk.
Qed.

Lemma find_line_nth : forall lines line p,
  NoDup (concat lines) -> In line lines -> (p < length line)%nat ->
  find_line (nth p line O) lines = Some (line, p).
Proof.
  induction lines as [|l r IH]; intros line p Hd Hin Hp; [destruct Hin|]. cbn [find_line concat] in *.
  assert (Dl : NoDup l) by (apply NoDup_app_l in Hd; exact Hd).
  destruct (in_dec (list_eq_dec Nat.eq_dec) line r) as [Hr|Hr].
  - replace (pos_in (nth p line O) l) with (@None nat).
    + apply IH; [apply NoDup_app_r in Hd; exact Hd | exact Hr | exact Hp].
    + symmetry. apply pos_in_none. intros H.
      apply (NoDup_app_disjoint l (concat r) (nth p line O) Hd H).
      apply in_concat. exists line. split; [exact Hr | apply nth_In; exact Hp].
  - destruct Hin as [->|Hin]; [|contradiction]. rewrite pos_in_nth by assumption. reflexivity.
Qed.

(* maskinterp_axis (S) *)
Theorem maskinterp_axis_spec : forall ys mask xval lines line,
  NoDup (concat lines) -> (forall k, In k (concat lines) -> (k < length ys)%nat) -> In line lines ->
  gather 0 (maskinterp_nd_spec ys mask xval lines) line = line_spec ys mask xval line.
Proof.
  intros ys mask xval lines line Hd Hb Hin.
  apply nth_ext with (d := 0) (d' := 0); [rewrite gather_length, line_spec_length; reflexivity|].
  intros p Hp. rewrite gather_length in Hp. unfold gather.
  rewrite (nth_map_lt _ line p O 0 Hp). unfold maskinterp_nd_spec.
  assert (Hk : (nth p line O < length ys)%nat).
  { apply Hb, in_concat. exists line. split; [exact Hin | apply nth_In; exact Hp]. }
  rewrite (nth_map_lt _ (seq 0 (length ys)) _ O 0) by (rewrite seq_length; exact Hk).
  rewrite seq_nth by exact Hk. cbn [plus].
  rewrite (find_line_nth lines line p Hd Hin Hp). reflexivity.
Qed.
