(* C03 -- the skeleton of yanny.write() / yanny.append() that translate/c03.py regenerates from the source
   (Generated/YannyOps.v) is the one the model implements: running it (SkelSem.run_write / run_append) IS
   Model.do_write / Model.do_append, for every file system, object and argument. *)
From Coq Require Import String.
From Coq Require Import NArith ZArith List Bool Lia.
Import ListNotations.
From PV Require Import Yanny.Bytes Yanny.BytesFacts Yanny.Types Yanny.Parse Yanny.Render
  C03.SkelLang Generated.YannyOps C03.Model C03.SkelSem C03.Proofs.
Open Scope N_scope.
Open Scope list_scope.
Local Open Scope string_scope.

(* ---------------------------------------------------------------- the reference skeletons (what Model.v transliterates) *)
Definition ref_write_skel : list st :=
  [SIf (GIsNone "newfile") [SIf (GLenPos (XSelf "filename")) [SAssign "newfile" (XSelf "filename")] [SRaise "ValueError"]] [];
   SIf (GAccess (XLocal "newfile") "F_OK") [SRaise "PydlutilsException"] [];
   SIf (GIsNone "comments") [SAssign "basefile" (XOpaque "os.path.basename(newfile)");
   SAssign "timestamp" (XNow "%Y-%m-%d %H:%M:%S UTC");
   SAssign "comments" (XOpaque "f'#\n# {basefile}\n#\n# Created by pydl.pydlutils.yanny.yanny\n#\n# {timestamp}\n#\n'")] [SIf (GIsInstance "comments" "(str,)") [SIf (GNot (GStartsWith (XLocal "comments") "#")) [SAssign "comments" (XCat (XLit "# ") (XLocal "comments"))] [];
   SIf (GNot (GEndsWith (XLocal "comments") "
")) [SAug "comments" (XLit "
")] []] [SAssign "comments" (XCat (XJoin "
" (XMapFmt "# {0}" (XLocal "comments"))) (XLit "
"))]];
   SAssign "contents" (XCat (XLit "#%yanny
") (XLocal "comments"));
   SFor "key" (ISelfPairs) [SAug "contents" (XFmt "{0} {1}
" [XLocal "key"; XSelfItem (XLocal "key")])];
   SIf (GLenPos (XSymbols "enum")) [SAug "contents" (XCat (XCat (XLit "
") (XJoin "

" (XSymbols "enum"))) (XLit "
"))] [];
   SIf (GLenPos (XSymbols "struct")) [SAug "contents" (XCat (XCat (XLit "
") (XJoin "

" (XSymbols "struct"))) (XLit "
"))] [];
   SAug "contents" (XLit "
");
   SFor "sym" (ISelfTables) [SAssign "columns" (XOpaque "self.columns(sym)");
   SRows "for k in range(self.size(sym)):
    line = list()
    line.append(sym)
    for col in columns:
        if self.isarray(sym, col):
            datum = '{' + ' '.join([self.protect(x) for x in self[sym][col][k]]) + '}'
        else:
            datum = self.protect(self[sym][col][k])
        line.append(datum)
    contents += '{0}\n'.format(' '.join(line))"];
   SOpenWrite (XLocal "newfile") "w" (XLocal "contents");
   SSetSelf "_contents" (XLocal "contents");
   SSetSelf "filename" (XLocal "newfile");
   SParse;
   SReturn].


Definition ref_append_skel (k : bool) : list st :=
  [SIf (GLenZero (XSelf "filename")) [SRaise "ValueError"] [];
   SIf (GNot (GIsInstance "datatable" "dict")) [SRaise "ValueError"] [];
   SAssign "timestamp" (XNow "%Y-%m-%d %H:%M:%S UTC");
   SAssign "contents" (XLit "");
   SFor "key" (IDictKeys "datatable") [SIf (GOr (GIn (XUpper (XLocal "key")) (CSelfTables)) (GEq (XLocal "key") (XLit "symbols"))) [SContinue] [];
   SAug "contents" (XFmt "{0} {1}
" [XLocal "key"; XItem "datatable" (XLocal "key")])];
   SFor "sym" (ISelfTables) [SIf (GIn (XLower (XLocal "sym")) (CName "datatable")) [SAssign "datasym" (XLower (XLocal "sym"))] [SAssign "datasym" (XLocal "sym")];
   SIf (GIn (XLocal "datasym") (CName "datatable")) [SAssign "columns" (XOpaque "self.columns(sym)");
   SRows "for k in range(len(datatable[datasym][columns[0]])):
    line = list()
    line.append(sym)
    for col in columns:
        if self.isarray(sym, col):
            datum = '{' + ' '.join([self.protect(x) for x in datatable[datasym][col][k]]) + '}'
        else:
            datum = self.protect(datatable[datasym][col][k])
        line.append(datum)
    contents += '{0}\n'.format(' '.join(line))"] []];
   SIf (GLenPos (XLocal "contents")) ([SAssign "contents" (XCat (XFmt "# Appended by yanny.py at {0}.
" [XLocal "timestamp"]) (XLocal "contents"))] ++
   (if k then [SIf (GAnd (GLenPos (XSelf "_contents")) (GNot (GEndsWith (XSelf "_contents") "
"))) [SAssign "contents" (XCat (XLit "
") (XLocal "contents"))] []] else []) ++
   [SIf (GAccess (XSelf "filename") "W_OK") [SOpenWrite (XSelf "filename") "a" (XLocal "contents");
   SAugSelf "_contents" (XLocal "contents");
   SParse] [SRaise "PydlutilsException"]]) [SWarn "PydlutilsUserWarning"];
   SReturn].


Local Close Scope string_scope.

(* the source's skeletons are the reference ones (append: with or without the statement that terminates an
   unterminated last line -- Model.append_fix is read off the generated skeleton) *)
Lemma write_skel_is_ref : write_skel = ref_write_skel.
Proof. reflexivity. Qed.
Lemma append_skel_is_ref : append_skel = ref_append_skel append_fix.
Proof. reflexivity. Qed.

(* ---------------------------------------------------------------- unfolding equations of the interpreter *)
Fixpoint loop_for (clock : bytes) (v cname : string) (body : list st) (its : list (val * val)) (e : env) : res :=
  match its with
  | [] => RNext e
  | (k, x) :: its' =>
      match exec_list clock body (bind (bind e v k) (v ++ "$" ++ cname)%string x) with
      | RNext e' | RCont e' => loop_for clock v cname body its' (restrict e e')
      | r => r
      end
  end.

Definition exec_unf (clock : bytes) (s : st) (e : env) : res :=
  match s with
  | SIf g a b => match evg clock e g with Some true => exec_list clock a e | Some false => exec_list clock b e | None => RStuck end
  | SFor v it body => match items e it with None => RStuck | Some (its, cname) => loop_for clock v cname body its e end
  | _ => exec clock s e
  end.

Lemma exec_eq clock s e : exec clock s e = exec_unf clock s e.
Proof.
  destruct s; try reflexivity.
  - cbn [exec exec_unf].
    assert (H : forall l e0, (fix execs (l : list st) (e : env) {struct l} : res :=
               match l with [] => RNext e | s' :: l' => match exec clock s' e with RNext e' => execs l' e' | r => r end end) l e0
              = exec_list clock l e0).
    { induction l as [|s l IH]; intros e0; [reflexivity|]. cbn [exec_list]. destruct (exec clock s e0); auto. }
    destruct (evg clock e g) as [[|]|]; auto.
  - cbn [exec exec_unf]. destruct (items e it) as [[its cname]|]; [|reflexivity].
    assert (H : forall l e0, (fix execs (l : list st) (e : env) {struct l} : res :=
               match l with [] => RNext e | s' :: l' => match exec clock s' e with RNext e' => execs l' e' | r => r end end) l e0
              = exec_list clock l e0).
    { induction l as [|s l IH]; intros e0; [reflexivity|]. cbn [exec_list]. destruct (exec clock s e0); auto. }
    revert e. induction its as [|[k x] its IH]; intros e; [reflexivity|]. cbn [loop_for]. rewrite H.
    destruct (exec_list clock body _); auto.
Qed.

Lemma exec_list_cons clock s l e :
  exec_list clock (s :: l) e = match exec_unf clock s e with RNext e' => exec_list clock l e' | r => r end.
Proof. cbn [exec_list]. now rewrite exec_eq. Qed.
Lemma exec_list_nil clock e : exec_list clock [] e = RNext e.
Proof. reflexivity. Qed.

Lemma loop_for_cons clock v cname body k x its e :
  loop_for clock v cname body ((k, x) :: its) e =
  match exec_list clock body (bind (bind e v k) (v ++ "$" ++ cname)%string x) with
  | RNext e' | RCont e' => loop_for clock v cname body its (restrict e e')
  | r => r
  end.
Proof. reflexivity. Qed.
Lemma loop_for_nil clock v cname body e : loop_for clock v cname body [] e = RNext e.
Proof. reflexivity. Qed.
Arguments parse : simpl never.
Arguments fs_set : simpl never.
Arguments fs_get : simpl never.
Arguments join : simpl never.
Arguments render_row : simpl never.
Arguments exec_list : simpl never.
Arguments loop_for : simpl never.
Arguments upper : simpl never.
Arguments lower : simpl never.
Arguments beq : simpl never.
Arguments ends_with : simpl never.
Arguments app : simpl never.
Arguments concat : simpl never.
Arguments adata_get : simpl never.
Arguments table_names : simpl never.

Ltac xc := unfold bind, restrict, set_obj, add_contents; cbn; change (Pos.to_nat 1) with 1%nat; cbn.
Ltac xs := first [rewrite exec_list_nil | rewrite exec_list_cons]; xc.

Notation wloc nf cm c := [("newfile"%string, nf); ("comments"%string, cm); ("contents"%string, VStr c)] (only parsing).

Lemma write_pairs_loop fs o w nf cm pairs : forall c,
  loop_for [] "key" "self" [SAug "contents" (XFmt "{0} {1}
" [XLocal "key"; XSelfItem (XLocal "key")])]
    (map (fun kv : bytes * bytes => (VStr (fst kv), VStr (snd kv))) pairs) (mkenv fs o (wloc nf cm c) w)
  = RNext (mkenv fs o (wloc nf cm (c ++ concat (map render_pair pairs))) w).
Proof.
  induction pairs as [|[k v] pairs IH]; intros c.
  - cbn [map concat]. rewrite loop_for_nil. now rewrite app_nil_r.
  - cbn [map]. rewrite loop_for_cons. xc. xs. xs.
    rewrite IH.
    assert (E : (c ++ k ++ 32 :: v ++ [10]) ++ concat (map render_pair pairs) = c ++ concat (map render_pair ((k, v) :: pairs))).
    { cbn [map]. change (concat (render_pair (k, v) :: map render_pair pairs)) with (render_pair (k, v) ++ concat (map render_pair pairs)).
      unfold render_pair at 2. cbn [fst snd]. change (32 :: v ++ [10]) with ([SP] ++ v ++ [NL]). rewrite <- !app_assoc. reflexivity. }
    rewrite E. reflexivity.
Qed.

(* the tables loop of write() *)
Lemma write_tables_loop fs o w nf cm tabs : forall c,
  loop_for [] "sym" "self" [SAssign "columns" (XOpaque "self.columns(sym)"); SRows ROWS_SELF]
    (map (fun t => (VStr (pt_name t), VRows (pt_rows t))) tabs) (mkenv fs o (wloc nf cm c) w)
  = RNext (mkenv fs o (wloc nf cm (c ++ concat (map (fun t => concat (map (render_row (pt_name t)) (pt_rows t))) tabs))) w).
Proof.
  induction tabs as [|t tabs IH]; intros c.
  - cbn [map concat]. rewrite loop_for_nil. now rewrite app_nil_r.
  - cbn [map]. rewrite loop_for_cons. xc. xs. xs. xs.
    rewrite IH. rewrite <- app_assoc. reflexivity.
Qed.

Lemma write_enum_block fs o w nf cm c rest :
  exec_list [] (SIf (GLenPos (XSymbols "enum")) [SAug "contents" (XCat (XCat (XLit "
") (XJoin "

" (XSymbols "enum"))) (XLit "
"))] [] :: rest) (mkenv fs o (wloc nf cm c) w)
  = exec_list [] rest (mkenv fs o (wloc nf cm (c ++ render_block (pd_enums (o_state o)))) w).
Proof.
  rewrite exec_list_cons. xc. unfold render_block. destruct (pd_enums (o_state o)) as [|t ts] eqn:E.
  - xs. now rewrite app_nil_r.
  - xs. xs. rewrite E. change [10; 10] with [NL; NL]. change [10] with [NL]. now rewrite <- !app_assoc.
Qed.
Lemma write_struct_block fs o w nf cm c rest :
  exec_list [] (SIf (GLenPos (XSymbols "struct")) [SAug "contents" (XCat (XCat (XLit "
") (XJoin "

" (XSymbols "struct"))) (XLit "
"))] [] :: rest) (mkenv fs o (wloc nf cm c) w)
  = exec_list [] rest (mkenv fs o (wloc nf cm (c ++ render_block (pd_structs (o_state o)))) w).
Proof.
  rewrite exec_list_cons. xc. unfold render_block. destruct (pd_structs (o_state o)) as [|t ts] eqn:E.
  - xs. now rewrite app_nil_r.
  - xs. xs. rewrite E. change [10; 10] with [NL; NL]. change [10] with [NL]. now rewrite <- !app_assoc.
Qed.

Lemma write_text_is_render cmts st :
  (((((([35; 37; 121; 97; 110; 110; 121; 10] ++ join [10] (map (fun c : bytes => 35 :: 32 :: c ++ []) cmts) ++ [10]) ++
       concat (map render_pair (pd_pairs st))) ++ render_block (pd_enums st)) ++ render_block (pd_structs st)) ++ [10]) ++
   concat (map (fun t : ptable => concat (map (render_row (pt_name t)) (pt_rows t))) (pd_tables st)))
  = render_obj cmts st.
Proof.
  unfold render_obj, render_header.
  rewrite (map_ext (fun c : bytes => 35 :: 32 :: c ++ []) (fun c => HASH :: SP :: c)) by (intros c; now rewrite app_nil_r).
  change [35; 37; 121; 97; 110; 110; 121; 10] with (S_MAGIC ++ [NL]). change [10] with [NL].
  rewrite <- !app_assoc. reflexivity.
Qed.

Theorem run_write_ref fs o nf cmts : nf <> Some [] -> run_write ref_write_skel fs o nf cmts = do_write fs o nf cmts.
Proof.
  intros Hnf. unfold run_write, ref_write_skel, do_write.
  assert (MAIN : forall p, p <> [] ->
    finish (fs, o) (exec_list [] (tl ref_write_skel) (mkenv fs o [("newfile"%string, VStr p); ("comments"%string, VList cmts)] false))
    = match fs_get fs p with
      | Some _ => (fs, o, Refused)
      | None => let c := render_obj cmts (o_state o) in let fs' := fs_set fs p c in
                match parse c with Some p' => (fs', mkobj p c (o_raw o) p', Ok) | None => (fs', mkobj p c (o_raw o) (o_state o), Crashed) end
      end).
  { intros p Hp. unfold ref_write_skel. cbn [tl]. xs. destruct (fs_get fs p) as [old|] eqn:Eg.
    - xs. reflexivity.
    - repeat xs. rewrite write_pairs_loop. rewrite write_enum_block, write_struct_block. repeat xs. rewrite write_tables_loop. repeat xs. rewrite !write_text_is_render. destruct (parse (render_obj cmts (o_state o))); repeat xs; reflexivity. }
  fold ref_write_skel. destruct nf as [p|].
  - destruct p as [|p0 p1]; [congruence|]. specialize (MAIN (p0 :: p1)). unfold ref_write_skel in *. cbn [tl] in MAIN.
    xs. xs. apply MAIN. discriminate.
  - destruct (o_file o) as [|p0 p1] eqn:Ef.
    + unfold ref_write_skel. xs. xs. rewrite Ef. repeat xs. reflexivity.
    + specialize (MAIN (p0 :: p1)). unfold ref_write_skel in *. cbn [tl] in MAIN.
      xs. xs. rewrite Ef. xs. rewrite ?Ef. xs. rewrite ?Ef. xs. rewrite ?Ef. apply MAIN. discriminate.
Qed.

(* ---------------------------------------------------------------- append() *)
Notation aloc dd clock c := [("datatable"%string, VDict dd); ("timestamp"%string, VStr clock); ("contents"%string, VStr c)] (only parsing).

Lemma append_pairs_loop clock fs o w dd l : forall c,
  loop_for clock "key" "datatable"
    [SIf (GOr (GIn (XUpper (XLocal "key")) (CSelfTables)) (GEq (XLocal "key") (XLit "symbols"))) [SContinue] [];
     SAug "contents" (XFmt "{0} {1}
" [XLocal "key"; XItem "datatable" (XLocal "key")])]
    (map (fun kv : bytes * avalue => (VStr (fst kv), match snd kv with AText t => VStr t | ARows r => VRows r end)) l)
    (mkenv fs o (aloc dd clock c) w)
  = match append_pairs (o_state o) l with
    | Some ps => RNext (mkenv fs o (aloc dd clock (c ++ ps)) w)
    | None => RStuck
    end.
Proof.
  induction l as [|[k v] l IH]; intros c.
  - cbn [map append_pairs]. rewrite loop_for_nil. now rewrite app_nil_r.
  - cbn [map append_pairs fst snd]. rewrite loop_for_cons. xc. xs.
    unfold is_table_key. unfold S_SYMBOLS.
    destruct (existsb (beq (upper k)) (table_names (o_state o))) eqn:E1.
    + cbn [orb]. xs. etransitivity; [exact (IH c)|]. destruct (append_pairs (o_state o) l); reflexivity.
    + cbn [orb]. destruct (beq k [115; 121; 109; 98; 111; 108; 115]) eqn:E2.
      * xs. etransitivity; [exact (IH _)|]. destruct (append_pairs (o_state o) l); reflexivity.
      * xs. destruct v as [t|rows].
        -- xs. xs. etransitivity; [exact (IH _)|]. destruct (append_pairs (o_state o) l) as [rest|]; [|reflexivity].
           unfold render_pair. cbn [fst snd]. change (32 :: t ++ [10]) with ([SP] ++ t ++ [NL]). now rewrite <- !app_assoc.
        -- xs. destruct (append_pairs (o_state o) l); reflexivity.
Qed.

Lemma append_tables_loop clock fs o w dd ts : forall c,
  loop_for clock "sym" "self"
    [SIf (GIn (XLower (XLocal "sym")) (CName "datatable")) [SAssign "datasym" (XLower (XLocal "sym"))] [SAssign "datasym" (XLocal "sym")];
     SIf (GIn (XLocal "datasym") (CName "datatable")) [SAssign "columns" (XOpaque "self.columns(sym)"); SRows ROWS_DATA] []]
    (map (fun t : ptable => (VStr (pt_name t), VRows (pt_rows t))) ts)
    (mkenv fs o (aloc dd clock c) w)
  = match append_rows (map pt_name ts) dd with
    | Some rs => RNext (mkenv fs o (aloc dd clock (c ++ rs)) w)
    | None => RStuck
    end.
Proof.
  induction ts as [|t ts IH]; intros c.
  - cbn [map append_rows]. rewrite loop_for_nil. now rewrite app_nil_r.
  - cbn [map append_rows]. rewrite loop_for_cons. xc. xs.
    destruct (adata_get dd (lower (pt_name t))) as [v1|] eqn:E1.
    + repeat xs. rewrite !E1. destruct v1 as [tx|rows]; repeat xs.
      * destruct (append_rows (map pt_name ts) dd); reflexivity.
      * etransitivity; [exact (IH _)|].
        destruct (append_rows (map pt_name ts) dd); [|reflexivity]. now rewrite <- app_assoc.
    + repeat xs. rewrite ?E1. repeat xs. destruct (adata_get dd (pt_name t)) as [[tx|rows]|] eqn:E2; repeat xs; rewrite ?E2; repeat xs.
      * destruct (append_rows (map pt_name ts) dd); reflexivity.
      * etransitivity; [exact (IH _)|].
        destruct (append_rows (map pt_name ts) dd); [|reflexivity]. now rewrite <- app_assoc.
      * etransitivity; [exact (IH _)|]. destruct (append_rows (map pt_name ts) dd); reflexivity.
Qed.

Theorem run_append_ref fs o d clock : run_append (ref_append_skel append_fix) fs o d clock = do_append fs o d clock.
Proof.
  unfold run_append, do_append, append_sep, table_names. generalize append_fix as k. intros k.
  match goal with |- _ = ?r => set (R := r) end.
  unfold ref_append_skel. destruct k; cbv beta iota zeta delta [app]; subst R.
  all: destruct (o_file o) as [|f0 f1] eqn:Ef; [repeat xs; rewrite ?Ef; repeat xs; reflexivity|].
  all: repeat xs; rewrite ?Ef; repeat xs; rewrite (append_pairs_loop clock fs o false d d []).
  all: destruct (append_pairs (o_state o) d) as [ps|]; [|reflexivity]; rewrite app_nil_l; repeat xs.
  all: pose proof (append_tables_loop clock fs o false d (pd_tables (o_state o)) ps) as L; unfold ROWS_DATA in L; rewrite L; clear L.
  all: destruct (append_rows (map pt_name (pd_tables (o_state o))) d) as [rs|]; [|reflexivity].
  all: destruct (ps ++ rs) as [|b0 body] eqn:Eb; [repeat xs; reflexivity|].
  - repeat xs. destruct (o_contents o) as [|c0 cs] eqn:Ec; [|destruct (ends_with [10] (c0 :: cs)) eqn:Ee]; cbn [negb]; repeat xs; rewrite ?Ef.
    all: destruct (fs_get fs (f0 :: f1)) as [old|] eqn:Eg; repeat xs; rewrite ?Ef, ?Eg, ?Ec; repeat xs; try reflexivity.
    all: change NL with 10 in *; rewrite ?Ee; unfold S_APPENDED.
    all: repeat (rewrite <- app_assoc || rewrite <- app_comm_cons || rewrite app_nil_l).
    all: match goal with |- context [parse ?x] => destruct (parse x) end; repeat xs; rewrite ?Ec; try reflexivity.
  - repeat xs; rewrite ?Ef.
    destruct (fs_get fs (f0 :: f1)) as [old|] eqn:Eg; repeat xs; rewrite ?Ef, ?Eg; repeat xs; try reflexivity.
    change NL with 10 in *; unfold S_APPENDED.
    repeat (rewrite <- app_assoc || rewrite <- app_comm_cons || rewrite app_nil_l).
    match goal with |- context [parse ?x] => destruct (parse x) end; repeat xs; try reflexivity.
Qed.

(* ---------------------------------------------------------------- the obligations: the SOURCE's skeletons, run, are the model *)
Theorem source_write_is_model fs o nf cmts : nf <> Some [] -> run_write write_skel fs o nf cmts = do_write fs o nf cmts.
Proof. rewrite write_skel_is_ref. apply run_write_ref. Qed.

Theorem source_append_is_model fs o d clock : run_append append_skel fs o d clock = do_append fs o d clock.
Proof. rewrite append_skel_is_ref. apply run_append_ref. Qed.

(* consequences read off the source's skeleton alone: a refused write() / a refused or warned append() returns the
   file system and the object (file name included) exactly as they were *)
Theorem source_write_refusal_changes_nothing fs o p cmts old : p <> [] -> fs_get fs p = Some old ->
  run_write write_skel fs o (Some p) cmts = (fs, o, Refused).
Proof. intros Hp H. rewrite source_write_is_model by congruence. now apply (write_existing_refused fs o p cmts old). Qed.

Theorem source_append_not_ok_changes_nothing fs o d clock fs' o' out :
  run_append append_skel fs o d clock = (fs', o', out) -> out = Refused \/ out = Warned \/ out = ValueErr \/ out = Unmodelled ->
  (fs', o') = (fs, o).
Proof.
  rewrite source_append_is_model. intros H Hout.
  apply (not_ok_changes_nothing (fs, o) (AppendMixed d clock) fs' o' out); [exact H|exact Hout].
Qed.
