(* Yanny/Types.v -- the value types shared by the parser model (M), the renderer model and the
   specification (sem).  DEFINITIONS ONLY. *)
From Coq Require Import NArith ZArith List Bool.
Import ListNotations.
From PV Require Import Yanny.Bytes.
Open Scope N_scope.

(* a scalar as the file carries it: a decimal integer, or a token kept as TEXT
   (strings, enum labels, and floats -- float text is opaque to the model) *)
Inductive sval := SInt (z : Z) | STok (t : bytes).
Inductive cell := Sc (v : sval) | Ar (l : list sval).

(* numpy element kinds the reader can produce *)
Inductive npk := NI2 | NI4 | NI8 | NF4 | NF8 | NS (w : N).

Record pcol := mkpcol { pc_name : bytes; pc_type : bytes; pc_np : npk; pc_arr : option N }.
Record ptable := mkptable { pt_name : bytes; pt_cols : list pcol; pt_rows : list (list cell) }.
(* what a read returns: ordered pairs, the typedef texts, the tables in typedef order *)
Record pdoc := mkpdoc { pd_pairs : list (bytes * bytes); pd_enums : list bytes; pd_structs : list bytes;
                        pd_tables : list ptable }.

(* raw mode: no dtype; the column's declared type text if the lookup succeeds *)
Record rtable := mkrtable { rt_name : bytes; rt_cols : list (bytes * option bytes); rt_rows : list (list cell) }.
Record rdoc := mkrdoc { rd_pairs : list (bytes * bytes); rd_enums : list bytes; rd_structs : list bytes;
                        rd_tables : list rtable }.

(* ---- boolean equalities (used by run_case) ---- *)
Fixpoint list_eqb {A} (e : A -> A -> bool) (a b : list A) : bool :=
  match a, b with
  | [], [] => true
  | x :: a', y :: b' => e x y && list_eqb e a' b'
  | _, _ => false
  end.
Definition opt_eqb {A} (e : A -> A -> bool) (a b : option A) : bool :=
  match a, b with Some x, Some y => e x y | None, None => true | _, _ => false end.
Definition sval_eqb (a b : sval) : bool :=
  match a, b with SInt x, SInt y => Z.eqb x y | STok x, STok y => beq x y | _, _ => false end.
Definition cell_eqb (a b : cell) : bool :=
  match a, b with Sc x, Sc y => sval_eqb x y | Ar x, Ar y => list_eqb sval_eqb x y | _, _ => false end.
Definition npk_eqb (a b : npk) : bool :=
  match a, b with
  | NI2, NI2 | NI4, NI4 | NI8, NI8 | NF4, NF4 | NF8, NF8 => true
  | NS x, NS y => N.eqb x y
  | _, _ => false
  end.
Definition pcol_eqb (a b : pcol) : bool :=
  beq (pc_name a) (pc_name b) && beq (pc_type a) (pc_type b) && npk_eqb (pc_np a) (pc_np b)
  && opt_eqb N.eqb (pc_arr a) (pc_arr b).
Definition ptable_eqb (a b : ptable) : bool :=
  beq (pt_name a) (pt_name b) && list_eqb pcol_eqb (pt_cols a) (pt_cols b)
  && list_eqb (list_eqb cell_eqb) (pt_rows a) (pt_rows b).
Definition pair_eqb (a b : bytes * bytes) : bool := beq (fst a) (fst b) && beq (snd a) (snd b).
Definition pdoc_eqb (a b : pdoc) : bool :=
  list_eqb pair_eqb (pd_pairs a) (pd_pairs b) && list_eqb beq (pd_enums a) (pd_enums b)
  && list_eqb beq (pd_structs a) (pd_structs b) && list_eqb ptable_eqb (pd_tables a) (pd_tables b).
Definition rtable_eqb (a b : rtable) : bool :=
  beq (rt_name a) (rt_name b)
  && list_eqb (fun x y => beq (fst x) (fst y) && opt_eqb beq (snd x) (snd y)) (rt_cols a) (rt_cols b)
  && list_eqb (list_eqb cell_eqb) (rt_rows a) (rt_rows b).
Definition rdoc_eqb (a b : rdoc) : bool :=
  list_eqb pair_eqb (rd_pairs a) (rd_pairs b) && list_eqb beq (rd_enums a) (rd_enums b)
  && list_eqb beq (rd_structs a) (rd_structs b) && list_eqb rtable_eqb (rd_tables a) (rd_tables b).

(* raw view of a typed document (what raw mode must return for the same file) *)
Definition raw_of (p : pdoc) : rdoc :=
  mkrdoc (pd_pairs p) (pd_enums p) (pd_structs p)
         (map (fun t => mkrtable (pt_name t) (map (fun c => (pc_name c, Some (pc_type c))) (pt_cols t)) (pt_rows t))
              (pd_tables p)).
