(* C14 -- IDL built-in replacements (smooth, median, uniq, rebin) follow IDL semantics.
   Property theorems only; each is closed by `exact` and followed by Print Assumptions.
   M = transliterated models (smooth's index arithmetic, rebin's shape tests, branch selectors and
   shrink arithmetic are GENERATED from pydl/smooth.py and pydl/rebin.py on every run),
   S = specification models (C14/Model.v).  All statements hold for every length / width / shape. *)
From Coq Require Import ZArith QArith Qround List Bool Sorted Permutation.
Import ListNotations.
From PV Require Import Generated.Smooth Generated.Rebin Generated.Uniq Generated.Median C14.Model C14.Proofs C14.ProofsUniq C14.ProofsRebin C14.ProofsMedian C14.ProofsLift C14.ProofsND C14.ProofsUniqValues.
Open Scope Z_scope.

(* ================================================================== smooth *)

(* the generated code equals the IDL specification: for all arrays and widths without edge_truncate,
   and for all widths with width - 1 <= n (in particular owidth <= n) with edge_truncate *)
Theorem C14_smooth_refines_spec : forall xs ow et,
  et = false \/ smooth_width ow - 1 <= lenZ xs ->
  Forall2 Qeq (smooth xs ow et) (smooth_spec xs ow et).
Proof. exact smooth_refines_spec. Qed.
Print Assumptions C14_smooth_refines_spec.

(* smooth_interior: h <= i <= n-1-h  ->  out_i = mean xs[i-h .. i+h]   (w = 2h+1 the width made odd) *)
Theorem C14_smooth_interior : forall xs ow et k,
  let h := odd_width ow / 2 in
  3 <= odd_width ow -> h <= Z.of_nat k <= lenZ xs - 1 - h ->
  exists v, nth_error (smooth xs ow et) k = Some v /\ v == window_mean xs h (Z.of_nat k).
Proof. exact smooth_interior. Qed.
Print Assumptions C14_smooth_interior.

(* the window of an interior point reads only genuine elements xs[i-h .. i+h] *)
Theorem C14_window_reads_array : forall xs lo cnt k,
  0 <= lo -> lo + Z.of_nat cnt <= lenZ xs -> (k < cnt)%nat ->
  nth_error (window xs lo cnt) k = nth_error xs (Z.to_nat (lo + Z.of_nat k)).
Proof. exact window_reads_array. Qed.
Print Assumptions C14_window_reads_array.

(* smooth_edges_untouched (all widths, also wider than the array) *)
Theorem C14_smooth_edges_untouched : forall xs ow k,
  let h := odd_width ow / 2 in
  (k < length xs)%nat -> (Z.of_nat k < h \/ lenZ xs - 1 - h < Z.of_nat k) ->
  nth_error (smooth xs ow false) k = nth_error xs k.
Proof. exact smooth_edges_untouched. Qed.
Print Assumptions C14_smooth_edges_untouched.

(* smooth_edge_truncate: every output sample is the boxcar mean over clamped subscripts *)
Theorem C14_smooth_edge_truncate : forall xs ow k,
  let h := odd_width ow / 2 in
  3 <= odd_width ow -> odd_width ow - 1 <= lenZ xs -> (k < length xs)%nat ->
  exists v, nth_error (smooth xs ow true) k = Some v /\ v == boxcar xs h (Z.of_nat k).
Proof. exact smooth_edge_truncate. Qed.
Print Assumptions C14_smooth_edge_truncate.

(* ... whose clamped window reads the element nearest to each requested subscript *)
Theorem C14_cwindow_reads_array : forall xs lo cnt k, 1 <= lenZ xs -> (k < cnt)%nat ->
  nth_error (cwindow xs lo cnt) k = nth_error xs (Z.to_nat (clampZ (lenZ xs) (lo + Z.of_nat k))) /\
  0 <= clampZ (lenZ xs) (lo + Z.of_nat k) < lenZ xs.
Proof. exact cwindow_reads_array. Qed.
Print Assumptions C14_cwindow_reads_array.

Theorem C14_boxcar_interior : forall xs h i,
  0 <= h -> h <= i -> i <= lenZ xs - 1 - h -> boxcar xs h i = window_mean xs h i.
Proof. exact boxcar_interior. Qed.
Print Assumptions C14_boxcar_interior.

(* even widths are made odd; the generated parity rule is the IDL rule *)
Theorem C14_smooth_even_width_made_odd : forall xs ow et, Z.even ow = true -> smooth xs ow et = smooth xs (ow + 1) et.
Proof. exact smooth_even_width_made_odd. Qed.
Print Assumptions C14_smooth_even_width_made_odd.
Theorem C14_smooth_width_rule : forall ow, smooth_width ow = odd_width ow.
Proof. exact smooth_width_odd. Qed.
Print Assumptions C14_smooth_width_rule.

(* width < 3 is the identity *)
Theorem C14_smooth_narrow_identity : forall xs ow et, smooth_width ow < 3 -> smooth xs ow et = xs.
Proof. exact smooth_narrow_identity. Qed.
Print Assumptions C14_smooth_narrow_identity.

Theorem C14_smooth_length : forall xs ow et, length (smooth xs ow et) = length xs.
Proof. exact smooth_length. Qed.
Print Assumptions C14_smooth_length.

(* ================================================================== median *)

Theorem C14_median_plain_refines_spec : forall xs even, median_plain xs even = median_spec xs even.
Proof. exact median_plain_refines_spec. Qed.
Print Assumptions C14_median_plain_refines_spec.

(* median_plain: upper middle element of the sorted data for even counts unless `even` *)
Theorem C14_median_plain : forall xs even,
  exists s, Permutation s xs /\ StronglySorted Qle s /\
    median_spec xs even =
      (if Nat.even (length xs) && even
       then ((nth (Nat.div (length xs) 2 - 1) s 0%Q + nth (Nat.div (length xs) 2) s 0%Q) / 2)%Q
       else nth (Nat.div (length xs) 2) s 0%Q).
Proof. exact median_spec_meaning. Qed.
Print Assumptions C14_median_plain.

(* median(array, axis=...) on a 2-D array: acts independently on every line along the axis and equals the
   1-D median (/EVEN behaviour, as the docstring says) of each line *)
Theorem C14_median_axis_rows : forall x axis, axis <> 0 -> median_axis x axis = map (fun r => median_spec r true) x.
Proof. exact median_axis_rows. Qed.
Print Assumptions C14_median_axis_rows.
Theorem C14_median_axis_columns : forall x,
  median_axis x 0 = map (fun j => median_spec (column j x) true) (seq 0 (ncols x)).
Proof. exact median_axis_columns. Qed.
Print Assumptions C14_median_axis_columns.
Theorem C14_median_axis_line : forall x,
  (forall axis k r, axis <> 0 -> nth_error x k = Some r ->
                    nth_error (median_axis x axis) k = Some (median_spec r true)) /\
  (forall j, (j < ncols x)%nat -> nth_error (median_axis x 0) j = Some (median_spec (column j x) true)) /\
  length (median_axis x 0) = ncols x /\ (forall axis, axis <> 0 -> length (median_axis x axis) = length x).
Proof. exact median_axis_line. Qed.
Print Assumptions C14_median_axis_line.

(* running median: zero padding of medfilt never visible; M = S for odd 1 <= width <= n *)
Theorem C14_median_filter1_refines_spec : forall xs width,
  Z.odd width = true -> 1 <= width <= lenZ xs ->
  median_filter1 xs width = F1Ok (median_filter1_spec xs width).
Proof. exact median_filter1_refines_spec. Qed.
Print Assumptions C14_median_filter1_refines_spec.

Theorem C14_median_filter_interior : forall xs width k,
  let h := width / 2 in
  Z.odd width = true -> 1 <= width <= lenZ xs -> h <= Z.of_nat k <= lenZ xs - 1 - h ->
  exists out, median_filter1 xs width = F1Ok out /\
              nth_error out k = Some (window_median xs h (Z.of_nat k)).
Proof. exact median_filter1_interior. Qed.
Print Assumptions C14_median_filter_interior.

Theorem C14_window_median_meaning : forall xs h i, 0 <= h -> h <= i <= lenZ xs - 1 - h ->
  exists s, Permutation s (window xs (i - h) (Z.to_nat (2 * h + 1))) /\ StronglySorted Qle s /\
            length s = Z.to_nat (2 * h + 1) /\ nth_error s (Z.to_nat h) = Some (window_median xs h i).
Proof. exact window_median_meaning. Qed.
Print Assumptions C14_window_median_meaning.

Theorem C14_median_filter_edges_untouched : forall xs width k,
  let h := width / 2 in
  Z.odd width = true -> 1 <= width <= lenZ xs -> (k < length xs)%nat ->
  (Z.of_nat k < h \/ lenZ xs - 1 - h < Z.of_nat k) ->
  exists out, median_filter1 xs width = F1Ok out /\ nth_error out k = nth_error xs k.
Proof. exact median_filter1_edges_untouched. Qed.
Print Assumptions C14_median_filter_edges_untouched.

(* 2-D *)
Theorem C14_median_filter2_refines_spec : forall x width,
  Z.odd width = true -> 1 <= width -> width <= lenZ x -> width <= Z.of_nat (ncols x) ->
  median_filter2 x width = F2Ok (median_filter2_spec x width).
Proof. exact median_filter2_refines_spec. Qed.
Print Assumptions C14_median_filter2_refines_spec.

Theorem C14_median_filter2_interior : forall x width a b,
  let h := width / 2 in
  Z.odd width = true -> 1 <= width -> width <= lenZ x -> width <= Z.of_nat (ncols x) ->
  h <= Z.of_nat a <= lenZ x - 1 - h -> h <= Z.of_nat b <= Z.of_nat (ncols x) - 1 - h ->
  exists out row, median_filter2 x width = F2Ok out /\ nth_error out a = Some row /\
                  nth_error row b = Some (window2_median x h (Z.of_nat a) (Z.of_nat b)).
Proof. exact median_filter2_interior. Qed.
Print Assumptions C14_median_filter2_interior.

Theorem C14_median_filter2_edges_untouched : forall x width a b,
  let h := width / 2 in
  Z.odd width = true -> 1 <= width -> width <= lenZ x -> width <= Z.of_nat (ncols x) ->
  (a < length x)%nat -> (b < ncols x)%nat ->
  (Z.of_nat a < h \/ lenZ x - 1 - h < Z.of_nat a \/ Z.of_nat b < h \/ Z.of_nat (ncols x) - 1 - h < Z.of_nat b) ->
  exists out row, median_filter2 x width = F2Ok out /\ nth_error out a = Some row /\
                  nth_error row b = Some (get2 x (Z.of_nat a) (Z.of_nat b)).
Proof. exact median_filter2_edges_untouched. Qed.
Print Assumptions C14_median_filter2_edges_untouched.

(* the sort used by both models really sorts *)
Theorem C14_sortQ_sorts : forall l, Permutation (sortQ l) l /\ StronglySorted Qle (sortQ l).
Proof. exact (fun l => conj (sortQ_perm l) (sortQ_sorted l)). Qed.
Print Assumptions C14_sortQ_sorts.

(* ================================================================== uniq *)

(* the comparison as written in uniq.py (GENERATED: uniq_plain_differs / uniq_indexed_differs over the dtype's
   equality) is the dtype's disequality; roll shift, size test, returned subscripts and the all-equal value are
   GENERATED too and enter every theorem below through Model.uniq / Model.uniq_indexed *)
Theorem C14_uniq_generated_comparison :
  (gneqbZ_plain = neqbZ /\ gneqbZ_indexed = neqbZ) /\ (gneqbQ_plain = neqbQ /\ gneqbQ_indexed = neqbQ).
Proof. exact (conj gneqbZ_is_ne gneqbQ_is_ne). Qed.
Print Assumptions C14_uniq_generated_comparison.

(* uniq_spec, integer and float arrays: sorted and non-empty -> the last subscript of every run *)
Theorem C14_uniq_spec_int : forall l, l <> [] -> is_sortedb Z.leb l = true -> uniq Z gneqbZ_plain l = runs_last Z neqbZ l.
Proof. exact uniqZ_spec. Qed.
Print Assumptions C14_uniq_spec_int.
Theorem C14_uniq_spec_float : forall l, l <> [] -> is_sortedb Qle_bool l = true -> uniq Q gneqbQ_plain l = runs_last Q neqbQ l.
Proof. exact uniqQ_spec. Qed.
Print Assumptions C14_uniq_spec_float.

(* what runs_last is: exactly the subscripts k with k = n-1 or x[k] != x[k+1], each once, increasing *)
Theorem C14_runs_last_meaning : forall (A : Type) (neqb : A -> A -> bool) (dflt : A) (l : list A) (j : Z),
  In j (runs_last A neqb l) <->
  (exists k : nat, j = Z.of_nat k /\ (k < length l)%nat /\
                   (S k = length l \/ neqb (nth k l dflt) (nth (S k) l dflt) = true)).
Proof. exact runs_last_In. Qed.
Print Assumptions C14_runs_last_meaning.
Theorem C14_runs_last_increasing : forall (A : Type) (neqb : A -> A -> bool) (dflt : A) (l : list A) (i : Z),
  StronglySorted Z.lt (runs_last_from A neqb i l).
Proof. exact runs_last_increasing. Qed.
Print Assumptions C14_runs_last_increasing.

(* uniq_constant *)
Theorem C14_uniq_constant_int : forall l, l <> [] -> all_same neqbZ l = true -> uniq Z gneqbZ_plain l = [lenZ l - 1].
Proof. exact uniqZ_constant. Qed.
Print Assumptions C14_uniq_constant_int.
Theorem C14_uniq_constant_float : forall l, l <> [] -> all_same neqbQ l = true -> uniq Q gneqbQ_plain l = [lenZ l - 1].
Proof. exact uniqQ_constant. Qed.
Print Assumptions C14_uniq_constant_float.

(* uniq_indexed: x sorted through index -> index[j] for j over the run ends of x[index] ... *)
Theorem C14_uniq_indexed_int : forall x index,
  index <> [] -> is_sortedb Z.leb (take Z 0 x index) = true -> all_same neqbZ (take Z 0 x index) = false ->
  uniq_indexed Z gneqbZ_indexed 0 x index = map (getZ index) (runs_last Z neqbZ (take Z 0 x index)).
Proof. exact uniqZ_indexed_nonconstant. Qed.
Print Assumptions C14_uniq_indexed_int.
Theorem C14_uniq_indexed_float : forall x index,
  index <> [] -> is_sortedb Qle_bool (take Q 0%Q x index) = true -> all_same neqbQ (take Q 0%Q x index) = false ->
  uniq_indexed Q gneqbQ_indexed 0%Q x index = map (getZ index) (runs_last Q neqbQ (take Q 0%Q x index)).
Proof. exact uniqQ_indexed_nonconstant. Qed.
Print Assumptions C14_uniq_indexed_float.
(* ... and a constant x[index] gives the single subscript n-1, as IDL's uniq.pro does *)
Theorem C14_uniq_indexed_constant_int : forall x index,
  index <> [] -> all_same neqbZ (take Z 0 x index) = true -> uniq_indexed Z gneqbZ_indexed 0 x index = [lenZ index - 1].
Proof. exact uniqZ_indexed_constant. Qed.
Print Assumptions C14_uniq_indexed_constant_int.
Theorem C14_uniq_indexed_constant_float : forall x index,
  index <> [] -> all_same neqbQ (take Q 0%Q x index) = true -> uniq_indexed Q gneqbQ_indexed 0%Q x index = [lenZ index - 1].
Proof. exact uniqQ_indexed_constant. Qed.
Print Assumptions C14_uniq_indexed_constant_float.
(* M = S (the oracle used by the correspondence run) *)
Theorem C14_uniq_indexed_refines_spec_int : forall x index,
  index <> [] -> is_sortedb Z.leb (take Z 0 x index) = true ->
  uniq_indexed Z gneqbZ_indexed 0 x index = uniq_indexed_spec neqbZ 0 x index.
Proof. exact uniqZ_indexed. Qed.
Print Assumptions C14_uniq_indexed_refines_spec_int.
Theorem C14_uniq_indexed_refines_spec_float : forall x index,
  index <> [] -> is_sortedb Qle_bool (take Q 0%Q x index) = true ->
  uniq_indexed Q gneqbQ_indexed 0%Q x index = uniq_indexed_spec neqbQ 0%Q x index.
Proof. exact uniqQ_indexed. Qed.
Print Assumptions C14_uniq_indexed_refines_spec_float.

(* ================================================================== rebin *)

(* the per-axis pass over the GENERATED expressions of all three branches (integer subscript (i*d0)//d, exact
   p = (i*d0)/d, the `p < d0-1` bound, neighbour subscripts, loop bounds, shrink factor / block bounds) =
   integer-subscript IDL rule, for every element type (scalars, rows, planes), every array, every new extent,
   for element rules oM that agree with the specification's on proper-fraction weights *)
Theorem C14_rebin_axis_refines_spec : forall (T : Type) (o oM : ops T) sample (xs : list T) d,
  ops_agree oM o -> rebin_axis oM sample xs d = rebin_axis_spec o sample xs d.
Proof. exact rebin_axis_refines_spec. Qed.
Print Assumptions C14_rebin_axis_refines_spec.
(* the GENERATED exact integer path (num = lo*m + (i % m)*(hi - lo); |num| // m, negated for num < 0) is the
   truncation toward zero of the exact interpolant; hence M's element rules agree with S's, also when lifted *)
Theorem C14_rebin_int_path_is_truncation : forall t a b : Q, 0 <= Qnum t < Zpos (Qden t) ->
  expand_int_path t a b = lin (ops_elem DInt) t a b.
Proof. exact int_path_is_truncation. Qed.
Print Assumptions C14_rebin_int_path_is_truncation.
(* ... and the formula exactly as written in rebin.py, at the loop counter i and m = d[k]//d0[k] (GENERATED),
   is the one M evaluates at the weight p - fp in lowest terms, for every admissible extent d = d0*mm *)
Theorem C14_rebin_int_path_as_written : forall d0 mm i a b, 0 < d0 -> 0 < mm -> 0 <= i ->
  let d := d0 * mm in
  let m := rebin_expand_m d0 d in
  let w := Qred (inject_Z (rebin_expand_p_num d0 d i) / inject_Z (rebin_expand_p_den d0 d i)
                 - inject_Z (rebin_expand_fp d0 d i)) in
  expand_int_path (i # Z.to_pos m) a b = expand_int_path w a b.
Proof. exact int_path_as_written. Qed.
Print Assumptions C14_rebin_int_path_as_written.
Theorem C14_rebin_ops_agree : forall k,
  ops_agree (ops_gen k) (ops_elem k) /\ ops_agree (ops_lift (ops_gen k)) (ops_lift (ops_elem k)) /\
  ops_agree (ops_lift (ops_lift (ops_gen k))) (ops_lift (ops_lift (ops_elem k))).
Proof.
  exact (fun k => conj (ops_gen_agree k) (conj (ops_lift_agree _ _ (ops_gen_agree k))
                                               (ops_lift_agree _ _ (ops_lift_agree _ _ (ops_gen_agree k))))).
Qed.
Print Assumptions C14_rebin_ops_agree.
Theorem C14_rebin_refines_spec : forall k s,
  (forall x d, rebin1 k s x d = rebin1_spec k s x d) /\
  (forall x d, rebin2 k s x d = rebin2_spec k s x d) /\
  (forall x d, rebin3 k s x d = rebin3_spec k s x d).
Proof. exact (fun k s => conj (rebin1_refines k s) (conj (rebin2_refines k s) (rebin3_refines k s))). Qed.
Print Assumptions C14_rebin_refines_spec.

(* the GENERATED ValueError tests of rebin.py (rank test, per-axis `%` tests) are the documented rule *)
Theorem C14_rebin_generated_shape_test : forall d0 d, dims_ok_gen d0 d = dims_ok d0 d.
Proof. exact dims_ok_gen_eq. Qed.
Print Assumptions C14_rebin_generated_shape_test.

(* rebin_shape *)
Theorem C14_rebin_shape_1d : forall k s x a y, 0 <= a -> rebin1 k s x [a] = R1 y -> lenZ y = a.
Proof. exact rebin1_shape. Qed.
Print Assumptions C14_rebin_shape_1d.
Theorem C14_rebin_shape_2d : forall k s x a b y, 0 <= a -> 0 <= b -> rebin2 k s x [a; b] = R2 y ->
  lenZ y = a /\ Forall (fun row => lenZ row = b) y.
Proof. exact rebin2_shape. Qed.
Print Assumptions C14_rebin_shape_2d.
Theorem C14_rebin_shape_3d : forall k s x a b c y, 0 <= a -> 0 <= b -> 0 <= c -> rebin3 k s x [a; b; c] = R3 y ->
  lenZ y = a /\ Forall (fun plane => lenZ plane = b /\ Forall (fun row => lenZ row = c) plane) y.
Proof. exact rebin3_shape. Qed.
Print Assumptions C14_rebin_shape_3d.

(* rebin_shrink_is_block_mean *)
Theorem C14_rebin_shrink_is_block_mean : forall xs d k,
  0 < d -> d < lenZ xs -> lenZ xs mod d = 0 -> (k < Z.to_nat d)%nat ->
  let f := lenZ xs / d in
  exists v, nth_error (rebin_axis_spec (ops_elem DFloat) false xs d) k = Some v /\
            v * inject_Z f == sumQ (window xs (Z.of_nat k * f) (Z.to_nat f)).
Proof. exact rebin_shrink_is_block_mean. Qed.
Print Assumptions C14_rebin_shrink_is_block_mean.
Theorem C14_rebin_shrink_int_is_floor_mean : forall xs d k,
  0 < d -> d < lenZ xs -> lenZ xs mod d = 0 -> (k < Z.to_nat d)%nat ->
  let f := lenZ xs / d in
  let mean := (sumQ (window xs (Z.of_nat k * f) (Z.to_nat f)) / inject_Z f)%Q in
  exists z, nth_error (rebin_axis_spec (ops_elem DInt) false xs d) k = Some (inject_Z z) /\
            (inject_Z z <= mean)%Q /\ (mean < inject_Z (z + 1))%Q.
Proof. exact rebin_shrink_int_is_floor_mean. Qed.
Print Assumptions C14_rebin_shrink_int_is_floor_mean.

(* rebin_expand_is_clamped_interp: linear interpolation between neighbours, last sample repeated *)
Theorem C14_rebin_expand_is_clamped_interp : forall xs m k,
  xs <> [] -> 1 < m -> (k < length xs * Z.to_nat m)%nat ->
  let n := lenZ xs in
  let j := Z.of_nat k / m in
  let r := Z.of_nat k mod m in
  0 <= j <= n - 1 /\
  exists v, nth_error (rebin_axis_spec (ops_elem DFloat) false xs (n * m)) k = Some v /\
            v == (if j <? n - 1 then getQ xs j + (r # Z.to_pos m) * (getQ xs (j + 1) - getQ xs j)
                  else getQ xs (n - 1)).
Proof. exact rebin_expand_is_clamped_interp. Qed.
Print Assumptions C14_rebin_expand_is_clamped_interp.

(* rebin_sample_picks *)
Theorem C14_rebin_sample_picks_expand : forall (T : Type) (o : ops T) (xs : list T) m k,
  xs <> [] -> 1 < m -> (k < length xs * Z.to_nat m)%nat ->
  nth_error (rebin_axis_spec o true xs (lenZ xs * m)) k = nth_error xs (k / Z.to_nat m).
Proof. exact rebin_axis_sample_expand. Qed.
Print Assumptions C14_rebin_sample_picks_expand.
Theorem C14_rebin_sample_picks_shrink : forall (T : Type) (o : ops T) (xs : list T) d k,
  0 < d -> d < lenZ xs -> lenZ xs mod d = 0 -> (k < Z.to_nat d)%nat ->
  nth_error (rebin_axis_spec o true xs d) k = nth_error xs (k * Z.to_nat (lenZ xs / d)).
Proof. exact rebin_axis_sample_shrink. Qed.
Print Assumptions C14_rebin_sample_picks_shrink.

(* rebin_rejects_nonintegral / rebin_rejects_rank_change: ValueError exactly when the rank differs or
   some axis has a non-integral factor *)
Theorem C14_rebin_rejects_nonintegral : forall k s,
  (forall x d, rebin1 k s x d = RValueError <-> ~ Forall2 factor_ok (shape1 x) d) /\
  (forall x d, rebin2 k s x d = RValueError <-> ~ Forall2 factor_ok (shape2 x) d) /\
  (forall x d, rebin3 k s x d = RValueError <-> ~ Forall2 factor_ok (shape3 x) d).
Proof. exact (fun k s => conj (rebin1_rejects k s) (conj (rebin2_rejects k s) (rebin3_rejects k s))). Qed.
Print Assumptions C14_rebin_rejects_nonintegral.
Theorem C14_rebin_rejects_rank_change : forall k s,
  (forall x d, length d <> 1%nat -> rebin1 k s x d = RValueError) /\
  (forall x d, length d <> 2%nat -> rebin2 k s x d = RValueError) /\
  (forall x d, length d <> 3%nat -> rebin3 k s x d = RValueError).
Proof. exact rebin_rejects_rank_change. Qed.
Print Assumptions C14_rebin_rejects_rank_change.

(* the 1-D kernel lifted to 2-D / 3-D: the axis-0 pass acts on every column x[:, j] (2-D) and on every
   line x[:, j, jj] (3-D) as the 1-D rule; later axes are `map`s of the 1-D rule by definition *)
Theorem C14_rebin_lifted_axis_columnwise : forall (T : Type) (o : ops T) sample (x : list (list T)) a c j,
  rect c x -> (j < c)%nat ->
  colT o j (rebin_axis_spec (ops_lift o) sample x a) = rebin_axis_spec o sample (colT o j x) a.
Proof. exact lifted_axis_columnwise. Qed.
Print Assumptions C14_rebin_lifted_axis_columnwise.
Theorem C14_rebin_lifted2_axis_columnwise : forall (T : Type) (o : ops T) sample (x : list (list (list T))) a c1 c2 j jj,
  rect c1 x -> Forall (rect c2) x -> (j < c1)%nat -> (jj < c2)%nat ->
  colT o jj (colT (ops_lift o) j (rebin_axis_spec (ops_lift (ops_lift o)) sample x a))
  = rebin_axis_spec o sample (colT o jj (colT (ops_lift o) j x)) a.
Proof. exact lifted2_axis_columnwise. Qed.
Print Assumptions C14_rebin_lifted2_axis_columnwise.
Theorem C14_rebin2_columns_then_rows : forall k s (x : list (list Q)) a b c y,
  rect c x -> rebin2_spec k s x [a; b] = R2 y ->
  exists z, (x <> [] -> rect c z) /\
            (forall j, (j < c)%nat -> colT (ops_elem k) j z = rebin_axis_spec (ops_elem k) s (colT (ops_elem k) j x) a) /\
            y = map (fun row => rebin_axis_spec (ops_elem k) s row b) z.
Proof. exact rebin2_columns_then_rows. Qed.
Print Assumptions C14_rebin2_columns_then_rows.

(* rebin_axes_commute_in_shape *)
Theorem C14_rebin_axes_commute_in_shape : forall (T : Type) (o : ops T) s (x : list (list T)) a b c,
  rect c x -> x <> [] -> 0 <= a -> 0 <= b ->
  has_shape2 (map (fun row => rebin_axis_spec o s row b) (rebin_axis_spec (ops_lift o) s x a)) a b /\
  has_shape2 (rebin_axis_spec (ops_lift o) s (map (fun row => rebin_axis_spec o s row b) x) a) a b.
Proof. exact rebin_axes_commute_in_shape. Qed.
Print Assumptions C14_rebin_axes_commute_in_shape.


(* ================================================================== round 5 *)

(* ---- rebin for every rank, by induction over the list of axes ---- *)

(* the plan of the axis loop GENERATED from rebin.py (number of passes; the list position used in pass k for d, d0,
   new_shape, the three slice lists and the block sum; scratch lists re-created in every pass; each pass fed by the
   previous one, dtype kept) is the reference plan -- pass k acts on nesting level k -- for every rank *)
Theorem C14_rebin_axis_plan : forall rank, axis_plan_ok rank = true.
Proof. exact axis_plan_ok_true. Qed.
Print Assumptions C14_rebin_axis_plan.

(* M (generated expressions, generated plan, generated shape tests) = S (integer-subscript IDL rule axis by axis),
   for arrays of every rank *)
Theorem C14_rebin_nd_refines_spec : forall k s n (x : ndT Q n) d, rebin_nd k s n x d = rebin_nd_spec k s n x d.
Proof. exact rebin_nd_refines. Qed.
Print Assumptions C14_rebin_nd_refines_spec.
Theorem C14_rebin_nd_ops_agree : forall (T : Type) (oM oS : ops T) n, ops_agree oM oS -> ops_agree (ops_nd oM n) (ops_nd oS n).
Proof. exact (@ops_nd_agree). Qed.
Print Assumptions C14_rebin_nd_ops_agree.

(* "axis by axis": the leading axis first, with the element rules acting element-wise on the (n-1)-D sub-arrays,
   then the remaining axes inside every sub-array *)
Theorem C14_rebin_nd_axis_by_axis : forall k s n (x : ndT Q (S n)) a r,
  rebin_nd_axes (@rebin_axis_spec) ops_elem k s (S n) x (a :: r)
  = map (fun sub => rebin_nd_axes (@rebin_axis_spec) ops_elem k s n sub r)
        (rebin_axis_spec (ops_nd (ops_elem k) n) s x a).
Proof. exact (fun k s n x a r => eq_refl). Qed.
Print Assumptions C14_rebin_nd_axis_by_axis.

(* exactly the requested shape, at every nesting level *)
Theorem C14_rebin_nd_shape : forall k s n (x : ndT Q n) d y,
  Forall (fun a => 0 <= a) d -> rebin_nd k s n x d = RN y -> has_shape n y d.
Proof. exact rebin_nd_shape. Qed.
Print Assumptions C14_rebin_nd_shape.

(* ValueError exactly when the rank differs or some axis has a non-integral factor *)
Theorem C14_rebin_nd_rejects : forall k s n (x : ndT Q n) d,
  rebin_nd k s n x d = RNValueError <-> ~ Forall2 factor_ok (shape_nd n x) d.
Proof. exact rebin_nd_rejects. Qed.
Print Assumptions C14_rebin_nd_rejects.
Theorem C14_rebin_nd_rejects_rank_change : forall k s n (x : ndT Q n) d, length d <> n -> rebin_nd k s n x d = RNValueError.
Proof. exact rebin_nd_rejects_rank_change. Qed.
Print Assumptions C14_rebin_nd_rejects_rank_change.

(* ranks 1, 2, 3 of the any-rank model are rebin1 / rebin2 / rebin3 (all earlier theorems apply to them) *)
Theorem C14_rebin_nd_is_rebin123 : forall k s,
  (forall x d, rebin_nd k s 1 x d = conv1 (rebin1 k s x d)) /\
  (forall x d, rebin_nd k s 2 x d = conv2 (rebin2 k s x d)) /\
  (forall x d, rebin_nd k s 3 x d = conv3 (rebin3 k s x d)).
Proof. exact rebin_nd_is_rebin123. Qed.
Print Assumptions C14_rebin_nd_is_rebin123.

(* the 1-D kernel lifted to any depth: the leading-axis pass of an (n+1)-D array with sub-arrays of extents c acts
   on every line x[:, j1, ..., jn] as the 1-D rule *)
Theorem C14_rebin_lifted_axis_linewise : forall (T : Type) (o : ops T) sample a n (x : list (ndT T n)) (c p : list nat),
  x <> [] -> Forall (extents T n c) x -> Forall2 lt p c ->
  lineN T o n p (rebin_axis_spec (ops_nd o n) sample x a) = rebin_axis_spec o sample (lineN T o n p x) a.
Proof. exact lifted_axis_linewise. Qed.
Print Assumptions C14_rebin_lifted_axis_linewise.

(* ---- median with a width: every width ---- *)

(* 2-D, every odd width up to the number of elements: M = S.  Where the window does not fit there is no interior
   point; a one-row / one-column image comes back unchanged *)
Theorem C14_median_filter2_refines_spec_size : forall x width,
  Z.odd width = true -> 1 <= width <= lenZ x * Z.of_nat (ncols x) ->
  median_filter2 x width = F2Ok (median_filter2_spec x width).
Proof. exact median_filter2_refines_spec_size. Qed.
Print Assumptions C14_median_filter2_refines_spec_size.
Theorem C14_median_filter2_no_interior : forall x width,
  Z.odd width = true -> 1 <= width <= lenZ x * Z.of_nat (ncols x) ->
  (lenZ x < width \/ Z.of_nat (ncols x) < width) ->
  median_filter2 x width = F2Ok (map (fun a => map (fun b => get2 x (Z.of_nat a) (Z.of_nat b)) (seq 0 (ncols x)))
                                     (seq 0 (length x))).
Proof. exact median_filter2_no_interior. Qed.
Print Assumptions C14_median_filter2_no_interior.
(* 1-D: ValueError exactly when the kernel min(width, n) handed to scipy is even (or < 1): every even width <= n *)
Theorem C14_median_filter1_rejects : forall xs width,
  median_filter1 xs width = F1ValueError <-> (Z.even (Z.min width (lenZ xs)) = true \/ Z.min width (lenZ xs) < 1).
Proof. exact median_filter1_rejects. Qed.
Print Assumptions C14_median_filter1_rejects.
Theorem C14_median_filter1_even_width_rejected : forall xs width,
  Z.even width = true -> width <= lenZ xs -> median_filter1 xs width = F1ValueError.
Proof. exact median_filter1_even_width_rejected. Qed.
Print Assumptions C14_median_filter1_even_width_rejected.
(* an odd window wider than an odd-length array: everything is edge, the array comes back unchanged *)
Theorem C14_median_filter1_wide_identity : forall xs width,
  Z.odd width = true -> Z.odd (lenZ xs) = true -> lenZ xs < width -> median_filter1 xs width = F1Ok xs.
Proof. exact median_filter1_wide_identity. Qed.
Print Assumptions C14_median_filter1_wide_identity.

(* ---- uniq: what is selected, for any sorting index ---- *)

(* x[uniq(x, index)] = the last element of every run of x[index]: strictly increasing, exactly the distinct values
   of x[index] -- whichever index sorts x (any tie-breaking, any sorting permutation) *)
Theorem C14_uniq_indexed_values_int : forall x index,
  index <> [] -> is_sortedb Z.leb (take Z 0 x index) = true -> all_same neqbZ (take Z 0 x index) = false ->
  let vals := take Z 0 x (uniq_indexed Z gneqbZ_indexed 0 x index) in
  vals = run_values Z neqbZ (take Z 0 x index) /\
  StronglySorted Z.lt vals /\
  (forall v, In v (take Z 0 x index) <-> In v vals).
Proof. exact uniqZ_indexed_values. Qed.
Print Assumptions C14_uniq_indexed_values_int.
Theorem C14_uniq_indexed_values_float : forall x index,
  index <> [] -> is_sortedb Qle_bool (take Q 0%Q x index) = true -> all_same neqbQ (take Q 0%Q x index) = false ->
  let vals := take Q 0%Q x (uniq_indexed Q gneqbQ_indexed 0%Q x index) in
  vals = run_values Q neqbQ (take Q 0%Q x index) /\
  StronglySorted (fun a b => Qle_bool a b = true /\ neqbQ a b = true) vals /\
  (forall v, In v (take Q 0%Q x index) -> exists u, In u vals /\ (v == u)%Q) /\
  (forall u, In u vals -> In u (take Q 0%Q x index)).
Proof. exact uniqQ_indexed_values. Qed.
Print Assumptions C14_uniq_indexed_values_float.
Theorem C14_uniq_values_int : forall l, l <> [] -> is_sortedb Z.leb l = true ->
  take Z 0 l (uniq Z gneqbZ_plain l) = run_values Z neqbZ l.
Proof. exact uniqZ_values. Qed.
Print Assumptions C14_uniq_values_int.

(* ---- smooth: the bit-exact comparison used by the correspondence run ---- *)

(* an exact mean that is itself a double (1.0, an integer, a short dyadic) is accepted only as that very number;
   and the exact value is always accepted *)
Theorem C14_rounds_to_exact : forall q r, representable q = true -> rounds_to q r = true -> (q == r)%Q.
Proof. exact rounds_to_exact. Qed.
Print Assumptions C14_rounds_to_exact.
Theorem C14_rounds_to_refl : forall q, rounds_to q q = true.
Proof. exact rounds_to_refl. Qed.
Print Assumptions C14_rounds_to_refl.

(* ================================================================== non-vacuity *)

Example C14_example_smooth :
  map Qred (smooth [1#1; 2#1; 4#1; 8#1]%Q 4 true) = [9#5; 16#5; 23#5; 6#1]%Q /\
  smooth_width 4 - 1 <= lenZ [1#1; 2#1; 4#1; 8#1]%Q.
Proof. split; vm_compute; [reflexivity|discriminate]. Qed.
Example C14_example_uniq :
  uniq Z gneqbZ_plain [1; 1; 1; 1; 2; 2; 3; 3; 5; 5; 6; 7; 9; 11] = [3; 5; 7; 9; 10; 11; 12; 13] /\
  is_sortedb Z.leb [1; 1; 1; 1; 2; 2; 3; 3; 5; 5; 6; 7; 9; 11] = true.
Proof. split; vm_compute; reflexivity. Qed.
Example C14_example_rebin :
  eqb_rres 0 (rebin1 DFloat false [0#1; 1#1; 2#1; 3#1; 4#1]%Q [10])
             (R1 [0#1; 1#2; 1#1; 3#2; 2#1; 5#2; 3#1; 7#2; 4#1; 4#1]%Q) = true /\
  rebin1 DFloat false [0#1; 1#1; 2#1; 3#1; 4#1]%Q [3] = RValueError.
Proof. split; vm_compute; reflexivity. Qed.
Example C14_example_median :
  median_plain [1#1; 5#1; 3#1; 2#1]%Q false = (3#1)%Q /\
  median_filter1 [1#1; 5#1; 3#1; 2#1; 9#1; 0#1]%Q 3 = F1Ok [1#1; 3#1; 3#1; 3#1; 2#1; 0#1]%Q.
Proof. split; vm_compute; reflexivity. Qed.

(* round 5 *)
Example C14_example_rebin_nd :
  rebin_nd DFloat false 4 [[[[1#1; 2#1]]; [[3#1; 4#1]]]]%Q [1; 2; 2; 4]
  = RN (n:=4) [[[[1#1; 3#2; 2#1; 2#1]; [1#1; 3#2; 2#1; 2#1]]; [[3#1; 7#2; 4#1; 4#1]; [3#1; 7#2; 4#1; 4#1]]]]%Q /\
  rebin_nd DFloat false 4 [[[[1#1; 2#1]]; [[3#1; 4#1]]]]%Q [1; 2; 4] = RNValueError /\
  axis_plan_ok 4 = true.
Proof. repeat split; vm_compute; reflexivity. Qed.
Example C14_example_one_row_median :
  median_filter2 [[1#1; 9#1; 2#1; 8#1; 3#1]]%Q 3 = F2Ok [[1#1; 9#1; 2#1; 8#1; 3#1]]%Q /\
  median_filter1 [1#1; 9#1; 2#1; 8#1]%Q 2 = F1ValueError /\
  median_filter1 [1#1; 9#1; 2#1]%Q 5 = F1Ok [1#1; 9#1; 2#1]%Q.
Proof. repeat split; vm_compute; reflexivity. Qed.
Example C14_example_uniq_values :
  let x := [5; 1; 3; 1; 5; 3; 3] in
  (take Z 0 x (uniq_indexed Z gneqbZ_indexed 0 x [1; 3; 2; 5; 6; 0; 4]) = [1; 3; 5] /\
   take Z 0 x (uniq_indexed Z gneqbZ_indexed 0 x [3; 1; 6; 5; 2; 4; 0]) = [1; 3; 5]) /\
  is_sortedb Z.leb (take Z 0 x [3; 1; 6; 5; 2; 4; 0]) = true /\ all_same neqbZ (take Z 0 x [3; 1; 6; 5; 2; 4; 0]) = false.
Proof. repeat split; vm_compute; reflexivity. Qed.
Example C14_example_rounds_to :
  representable (1#1) = true /\ rounds_to (1#1) (9007199254740991 # 9007199254740992) = false /\
  rounds_to (1#3) (6004799503160661 # 18014398509481984) = true /\
  rounds_to (1#3) (6004799503160663 # 18014398509481984) = false.
Proof. repeat split; vm_compute; reflexivity. Qed.
