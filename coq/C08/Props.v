(* C08 -- property theorems only (temporary skeleton) *)
From Coq Require Import QArith List Bool Arith.
Import ListNotations.
From PV Require Import Lib.WLS BSpline.Eval BSpline.EvalProofs C08.Model C08.Proofs.
Open Scope Q_scope.

Theorem C08_pass_preserves_sum : forall v dp dmr c, length dp = length v -> length dmr = length v ->
  Forall2 (fun p m => ~ p + m == 0) dp dmr -> sumQ (pass v dp dmr c) == sumQ v + c.
Proof. exact pass_sum. Qed.
Print Assumptions C08_pass_preserves_sum.
