(* C04 -- proofs about C04/Model.v *)
From Coq Require Import ZArith QArith List Bool Arith Lia Sorted Permutation.
Import ListNotations.
From PV Require Import C04.Model.
Close Scope Q_scope. Close Scope Z_scope. Open Scope nat_scope.

(* ================================================================= booleans <-> propositions *)

Lemma Qlt_bool_iff : forall a b, Qlt_bool a b = true <-> (a < b)%Q.
Proof.
  intros a b. unfold Qlt_bool. rewrite negb_true_iff. split; intro H.
  - apply Qnot_le_lt. intro Hle. apply Qle_bool_iff in Hle. congruence.
  - destruct (Qle_bool b a) eqn:E; [|reflexivity].
    apply Qle_bool_iff in E. exfalso. exact (Qlt_not_le _ _ H E).
Qed.

Lemma sortedb_cons : forall r a, sortedb (a :: r) = true <-> (Forall (Qle a) r /\ sortedb r = true).
Proof.
  induction r as [|b r IH]; intro a.
  - simpl. split; [intros _; split; [constructor|reflexivity]|reflexivity].
  - change (sortedb (a :: b :: r)) with (Qle_bool a b && sortedb (b :: r)).
    rewrite andb_true_iff, Qle_bool_iff. split.
    + intros [Hab Hs]. split; [|exact Hs]. constructor; [exact Hab|].
      apply IH in Hs. destruct Hs as [Hf _].
      eapply Forall_impl; [|exact Hf]. intros x Hx. eapply Qle_trans; eauto.
    + intros [Hf Hs]. split; [|exact Hs]. inversion Hf; assumption.
Qed.

Lemma sortedb_iff : forall l, sortedb l = true <-> StronglySorted Qle l.
Proof.
  induction l as [|a r IH].
  - split; [constructor|reflexivity].
  - rewrite sortedb_cons. split.
    + intros [Hf Hs]. constructor; [apply IH; exact Hs|exact Hf].
    + intro H. inversion H; subst. split; [assumption|apply IH; assumption].
Qed.

Lemma pair_eqb_iff : forall a b, pair_eqb a b = true <-> a = b.
Proof.
  intros [a1 a2] [b1 b2]. unfold pair_eqb. simpl. rewrite andb_true_iff, !Nat.eqb_eq.
  split; [intros [-> ->]; reflexivity|intro H; inversion H; auto].
Qed.

Lemma existsb_pair_In : forall a l, existsb (pair_eqb a) l = true <-> In a l.
Proof.
  intros a l. rewrite existsb_exists. split.
  - intros [x [Hx He]]. apply pair_eqb_iff in He. subst. exact Hx.
  - intro H. exists a. split; [exact H|apply pair_eqb_iff; reflexivity].
Qed.

Lemma nodupb_iff : forall l, nodupb l = true <-> NoDup l.
Proof.
  induction l as [|a r IH]; simpl.
  - split; [constructor|reflexivity].
  - rewrite andb_true_iff, negb_true_iff. split.
    + intros [Hn Hr]. constructor; [|apply IH; exact Hr].
      intro Hin. apply existsb_pair_In in Hin. congruence.
    + intro H. inversion H; subst. split; [|apply IH; assumption].
      destruct (existsb (pair_eqb a) r) eqn:E; [|reflexivity].
      apply existsb_pair_In in E. contradiction.
Qed.

Lemma has_pair_iff : forall out i k, has_pair out i k = true <-> In (i, k) (map pairof out).
Proof. intros. unfold has_pair. apply existsb_pair_In. Qed.

Lemma forallb_seq : forall f n, forallb f (seq 0 n) = true <-> (forall i, i < n -> f i = true).
Proof.
  intros f n. rewrite forallb_forall. split.
  - intros H i Hi. apply H. apply in_seq. lia.
  - intros H i Hi. apply in_seq in Hi. apply H. lia.
Qed.

Lemma all_pairs_iff : forall n1 n2 f,
  all_pairs n1 n2 f = true <-> (forall i k, i < n1 -> k < n2 -> f i k = true).
Proof.
  intros. unfold all_pairs. rewrite forallb_seq. split.
  - intros H i k Hi Hk. specialize (H i Hi). rewrite forallb_seq in H. auto.
  - intros H i Hi. rewrite forallb_seq. auto.
Qed.

Lemma entry_ok_iff : forall n1 n2 sep L c, entry_ok n1 n2 sep L c = true <-> entry_okP n1 n2 sep L c.
Proof.
  intros. unfold entry_ok, entry_okP.
  rewrite !andb_true_iff, !Nat.ltb_lt, Qle_bool_iff, Qeq_bool_iff. tauto.
Qed.

Lemma common_b_iff : forall n1 n2 sep L out, common_b n1 n2 sep L out = true <-> common_P n1 n2 sep L out.
Proof.
  intros. unfold common_b, common_P.
  rewrite !andb_true_iff, nodupb_iff, sortedb_iff, forallb_forall, Forall_forall.
  split.
  - intros [[H1 H2] H3]. split; [|split]; auto. intros x Hx. apply entry_ok_iff. auto.
  - intros [H1 [H2 H3]]. split; [split|]; auto. intros x Hx. apply entry_ok_iff. auto.
Qed.

Lemma complete_b_iff : forall n1 n2 sep L out,
  complete_b n1 n2 sep L out = true <->
  (forall i k, i < n1 -> k < n2 -> (sep i k < L)%Q -> In (i, k) (map pairof out)).
Proof.
  intros. unfold complete_b. rewrite all_pairs_iff. split.
  - intros H i k Hi Hk Hs. specialize (H i k Hi Hk).
    apply Qlt_bool_iff in Hs. rewrite Hs in H. simpl in H. apply has_pair_iff. exact H.
  - intros H i k Hi Hk. destruct (Qlt_bool (sep i k) L) eqn:E; [|reflexivity].
    simpl. apply has_pair_iff. apply H; auto. apply Qlt_bool_iff. exact E.
Qed.

Lemma greedy_b_iff : forall n1 n2 sep L k out,
  greedy_b n1 n2 sep L k out = true <->
  ((forall i, i < n1 -> cnt1 out i <= k) /\
   (forall j, j < n2 -> cnt2 out j <= k) /\
   (forall i j, i < n1 -> j < n2 -> (sep i j < L)%Q -> ~ In (i, j) (map pairof out) ->
      k <= used1 out i (sep i j) \/ k <= used2 out j (sep i j))).
Proof.
  intros. unfold greedy_b. rewrite !andb_true_iff, !forallb_seq, all_pairs_iff. split.
  - intros [[H1 H2] H3]. split; [|split].
    + intros i Hi. apply Nat.leb_le. auto.
    + intros j Hj. apply Nat.leb_le. auto.
    + intros i j Hi Hj Hs Hn. specialize (H3 i j Hi Hj).
      apply Qlt_bool_iff in Hs. rewrite Hs in H3.
      destruct (has_pair out i j) eqn:E; [apply has_pair_iff in E; contradiction|].
      simpl in H3. apply orb_true_iff in H3. rewrite !Nat.leb_le in H3. exact H3.
  - intros [H1 [H2 H3]]. split; [split|].
    + intros i Hi. apply Nat.leb_le. auto.
    + intros j Hj. apply Nat.leb_le. auto.
    + intros i j Hi Hj. destruct (Qlt_bool (sep i j) L) eqn:E; [|reflexivity].
      destruct (has_pair out i j) eqn:E2; [reflexivity|]. simpl.
      apply orb_true_iff. rewrite !Nat.leb_le. apply H3; auto.
      * apply Qlt_bool_iff. exact E.
      * intro Hin. apply has_pair_iff in Hin. congruence.
Qed.

(* the checker decides the statement *)
Theorem match_ok_iff : forall n1 n2 sep L k out,
  match_ok n1 n2 sep L k out = true <-> C04_statement n1 n2 sep L k out.
Proof.
  intros. unfold match_ok, C04_statement, match_all_P, match_greedy_P.
  rewrite andb_true_iff, common_b_iff.
  destruct (Nat.eqb k 0).
  - rewrite complete_b_iff. tauto.
  - rewrite greedy_b_iff. tauto.
Qed.

(* ================================================================= L1: greedy selection *)

Lemma greedy_count_length : forall k cs g1 g2,
  greedy_count k g1 g2 cs = length (greedy_fill k g1 g2 cs).
Proof.
  induction cs as [|c r IH]; intros; simpl; [reflexivity|].
  destruct ((g1 (ci c) <? k) && (g2 (ck c) <? k)); simpl; rewrite IH; reflexivity.
Qed.

Lemma greedy_is_fill : forall k cs, greedy k cs = greedy_fill k zero zero cs.
Proof. intros. unfold greedy. rewrite greedy_count_length. apply firstn_all. Qed.

Lemma fill_incl : forall k cs g1 g2 c, In c (greedy_fill k g1 g2 cs) -> In c cs.
Proof.
  induction cs as [|c0 r IH]; intros g1 g2 c H; simpl in *; [contradiction|].
  destruct ((g1 (ci c0) <? k) && (g2 (ck c0) <? k)).
  - destruct H as [H|H]; [left; exact H|right; eapply IH; exact H].
  - right. eapply IH; exact H.
Qed.

Lemma fill_sorted : forall k cs g1 g2,
  StronglySorted Qle (map cd cs) -> StronglySorted Qle (map cd (greedy_fill k g1 g2 cs)).
Proof.
  induction cs as [|c0 r IH]; intros g1 g2 H; simpl in *; [constructor|].
  inversion H as [|? ? Hs Hf]; subst.
  destruct ((g1 (ci c0) <? k) && (g2 (ck c0) <? k)).
  - simpl. constructor; [apply IH; exact Hs|].
    rewrite Forall_forall in *. intros x Hx. apply in_map_iff in Hx. destruct Hx as [c [<- Hc]].
    apply Hf. apply in_map. eapply fill_incl; exact Hc.
  - apply IH; exact Hs.
Qed.

Lemma fill_nodup : forall k cs g1 g2,
  NoDup (map pairof cs) -> NoDup (map pairof (greedy_fill k g1 g2 cs)).
Proof.
  induction cs as [|c0 r IH]; intros g1 g2 H; simpl in *; [constructor|].
  inversion H as [|? ? Hn Hr]; subst.
  destruct ((g1 (ci c0) <? k) && (g2 (ck c0) <? k)).
  - simpl. constructor; [|apply IH; exact Hr].
    intro Hin. apply Hn. apply in_map_iff in Hin. destruct Hin as [c [He Hc]].
    rewrite <- He. apply in_map. eapply fill_incl; exact Hc.
  - apply IH; exact Hr.
Qed.

Lemma cnt1_cons : forall c out i, cnt1 (c :: out) i = (if Nat.eqb (ci c) i then 1 else 0) + cnt1 out i.
Proof. intros. unfold cnt1. simpl. destruct (Nat.eqb (ci c) i); reflexivity. Qed.
Lemma cnt2_cons : forall c out j, cnt2 (c :: out) j = (if Nat.eqb (ck c) j then 1 else 0) + cnt2 out j.
Proof. intros. unfold cnt2. simpl. destruct (Nat.eqb (ck c) j); reflexivity. Qed.
Lemma used1_cons : forall c out i d,
  used1 (c :: out) i d = (if Nat.eqb (ci c) i && Qle_bool (cd c) d then 1 else 0) + used1 out i d.
Proof. intros. unfold used1. simpl. destruct (Nat.eqb (ci c) i && Qle_bool (cd c) d); reflexivity. Qed.
Lemma used2_cons : forall c out j d,
  used2 (c :: out) j d = (if Nat.eqb (ck c) j && Qle_bool (cd c) d then 1 else 0) + used2 out j d.
Proof. intros. unfold used2. simpl. destruct (Nat.eqb (ck c) j && Qle_bool (cd c) d); reflexivity. Qed.

Lemma fill_cnt1 : forall k cs g1 g2 i,
  g1 i <= k -> g1 i + cnt1 (greedy_fill k g1 g2 cs) i <= k.
Proof.
  induction cs as [|c0 r IH]; intros g1 g2 i Hg; simpl.
  - unfold cnt1. simpl. lia.
  - destruct ((g1 (ci c0) <? k) && (g2 (ck c0) <? k)) eqn:E.
    + apply andb_true_iff in E. destruct E as [E1 E2]. apply Nat.ltb_lt in E1.
      rewrite cnt1_cons.
      specialize (IH (upd g1 (ci c0)) (upd g2 (ck c0)) i). unfold upd in IH at 1 2.
      rewrite (Nat.eqb_sym (ci c0) i).
      destruct (Nat.eqb i (ci c0)) eqn:Ei.
      * apply Nat.eqb_eq in Ei. subst i. lia.
      * lia.
    + apply IH. exact Hg.
Qed.

Lemma fill_cnt2 : forall k cs g1 g2 j,
  g2 j <= k -> g2 j + cnt2 (greedy_fill k g1 g2 cs) j <= k.
Proof.
  induction cs as [|c0 r IH]; intros g1 g2 j Hg; simpl.
  - unfold cnt2. simpl. lia.
  - destruct ((g1 (ci c0) <? k) && (g2 (ck c0) <? k)) eqn:E.
    + apply andb_true_iff in E. destruct E as [E1 E2]. apply Nat.ltb_lt in E2.
      rewrite cnt2_cons.
      specialize (IH (upd g1 (ci c0)) (upd g2 (ck c0)) j).
      change (upd g2 (ck c0) j) with (if Nat.eqb j (ck c0) then S (g2 j) else g2 j) in IH.
      rewrite (Nat.eqb_sym (ck c0) j).
      destruct (Nat.eqb j (ck c0)) eqn:Ej.
      * apply Nat.eqb_eq in Ej. subst j. lia.
      * lia.
    + apply IH. exact Hg.
Qed.

(* a candidate is left out only if, at its turn, one of its endpoints is already used k times --
   by selected pairs that came earlier, hence are no farther apart *)
Lemma fill_omitted : forall k cs g1 g2 c,
  StronglySorted Qle (map cd cs) ->
  In c cs ->
  ~ In (pairof c) (map pairof (greedy_fill k g1 g2 cs)) ->
  k <= g1 (ci c) + used1 (greedy_fill k g1 g2 cs) (ci c) (cd c) \/
  k <= g2 (ck c) + used2 (greedy_fill k g1 g2 cs) (ck c) (cd c).
Proof.
  induction cs as [|c0 r IH]; intros g1 g2 c Hs Hin Hout; [contradiction|].
  simpl in Hs. inversion Hs as [|? ? Hs' Hf]; subst.
  simpl in *. destruct ((g1 (ci c0) <? k) && (g2 (ck c0) <? k)) eqn:E.
  - destruct Hin as [Heq|Hin].
    + subst c0. exfalso. apply Hout. simpl. left. reflexivity.
    + assert (Hle : Qle_bool (cd c0) (cd c) = true).
      { apply Qle_bool_iff. rewrite Forall_forall in Hf. apply Hf. apply in_map. exact Hin. }
      assert (Hout' : ~ In (pairof c) (map pairof (greedy_fill k (upd g1 (ci c0)) (upd g2 (ck c0)) r))).
      { intro H. apply Hout. simpl. right. exact H. }
      specialize (IH (upd g1 (ci c0)) (upd g2 (ck c0)) c Hs' Hin Hout').
      rewrite used1_cons, used2_cons, Hle, !andb_true_r.
      change (upd g1 (ci c0) (ci c)) with (if Nat.eqb (ci c) (ci c0) then S (g1 (ci c)) else g1 (ci c)) in IH.
      change (upd g2 (ck c0) (ck c)) with (if Nat.eqb (ck c) (ck c0) then S (g2 (ck c)) else g2 (ck c)) in IH.
      rewrite (Nat.eqb_sym (ci c0) (ci c)), (Nat.eqb_sym (ck c0) (ck c)).
      destruct (Nat.eqb (ci c) (ci c0)); destruct (Nat.eqb (ck c) (ck c0)); lia.
  - destruct Hin as [Heq|Hin].
    + subst c0. apply andb_false_iff in E. rewrite !Nat.ltb_ge in E. lia.
    + apply IH; assumption.
Qed.

(* greedy_spec: for every k and every candidate list sorted by separation *)
Theorem greedy_spec : forall k cs,
  StronglySorted Qle (map cd cs) ->
  let out := greedy k cs in
  (forall c, In c out -> In c cs) /\
  StronglySorted Qle (map cd out) /\
  (NoDup (map pairof cs) -> NoDup (map pairof out)) /\
  (forall i, cnt1 out i <= k) /\
  (forall j, cnt2 out j <= k) /\
  (forall c, In c cs -> ~ In (pairof c) (map pairof out) ->
     k <= used1 out (ci c) (cd c) \/ k <= used2 out (ck c) (cd c)) /\
  length out = greedy_count k zero zero cs.
Proof.
  intros k cs Hs out. subst out. rewrite greedy_is_fill.
  split; [|split; [|split; [|split; [|split; [|split]]]]].
  - intros c. apply fill_incl.
  - apply fill_sorted. exact Hs.
  - apply fill_nodup.
  - intro i. pose proof (fill_cnt1 k cs zero zero i) as H. change (zero i) with 0 in H. lia.
  - intro j. pose proof (fill_cnt2 k cs zero zero j) as H. change (zero j) with 0 in H. lia.
  - intros c Hin Hout. pose proof (fill_omitted k cs zero zero c Hs Hin Hout) as H.
    change (zero (ci c)) with 0 in H. change (zero (ck c)) with 0 in H. lia.
  - symmetry. apply greedy_count_length.
Qed.

(* ================================================================= sorting permutation *)

Lemma flat_map_map_S : forall (A : Type) (f : nat -> list A) l,
  flat_map f (map S l) = flat_map (fun p => f (S p)) l.
Proof. induction l; simpl; [reflexivity|rewrite IHl; reflexivity]. Qed.

Lemma apply_perm_seq : forall cs, apply_perm (seq 0 (length cs)) cs = cs.
Proof.
  unfold apply_perm. induction cs as [|a r IH]; [reflexivity|].
  simpl length. rewrite <- cons_seq, <- seq_shift. simpl.
  rewrite flat_map_map_S. simpl. f_equal. exact IH.
Qed.

Lemma perm_flat_map : forall (A B : Type) (f : A -> list B) l l',
  Permutation l l' -> Permutation (flat_map f l) (flat_map f l').
Proof.
  induction 1; simpl.
  - constructor.
  - apply Permutation_app_head. assumption.
  - rewrite !app_assoc. apply Permutation_app_tail. apply Permutation_app_comm.
  - eapply Permutation_trans; eassumption.
Qed.

Lemma is_perm_of_seq_perm : forall s N, is_perm_of_seq s N = true -> Permutation s (seq 0 N).
Proof.
  intros s N H. unfold is_perm_of_seq in H. apply andb_true_iff in H. destruct H as [Hl Hs].
  apply Nat.eqb_eq in Hl. symmetry. apply NoDup_Permutation_bis.
  - apply seq_NoDup.
  - rewrite seq_length. lia.
  - intros p Hp. rewrite forallb_forall in Hs. specialize (Hs p Hp).
    apply existsb_exists in Hs. destruct Hs as [x [Hx He]]. apply Nat.eqb_eq in He. subst. exact Hx.
Qed.

Theorem select_all_sorted : forall s cs,
  is_sorting_perm s cs = true ->
  Permutation (select_all s cs) cs /\ StronglySorted Qle (map cd (select_all s cs)).
Proof.
  intros s cs H. unfold is_sorting_perm in H. apply andb_true_iff in H. destruct H as [Hp Hs].
  split.
  - unfold select_all. rewrite <- (apply_perm_seq cs) at 2. unfold apply_perm.
    apply perm_flat_map. apply is_perm_of_seq_perm. exact Hp.
  - apply sortedb_iff. exact Hs.
Qed.

(* ================================================================= L2: chunks.assign *)

Lemma cell_eqb_iff : forall a b, cell_eqb a b = true <-> a = b.
Proof.
  intros [a1 a2] [b1 b2]. unfold cell_eqb. simpl. rewrite andb_true_iff, !Z.eqb_eq.
  split; [intros [-> ->]; reflexivity|intro H; inversion H; auto].
Qed.

Lemma cell_eqb_refl : forall a, cell_eqb a a = true.
Proof. intro a. apply cell_eqb_iff. reflexivity. Qed.

Definition memc (x : cell) (l : list cell) : bool := existsb (cell_eqb x) l.

Lemma memc_In : forall x l, memc x l = true <-> In x l.
Proof.
  intros. unfold memc. rewrite existsb_exists. split.
  - intros [y [Hy He]]. apply cell_eqb_iff in He. subst. exact Hy.
  - intro H. exists x. split; [exact H|apply cell_eqb_refl].
Qed.

Lemma reset_clist : forall cells st, clist (fold_left reset_one cells st) = clist st.
Proof. induction cells as [|a r IH]; intro st; simpl; [reflexivity|rewrite IH; reflexivity]. Qed.

Lemma reset_done : forall cells st x,
  cdone (fold_left reset_one cells st) x = if memc x cells then false else cdone st x.
Proof.
  induction cells as [|a r IH]; intros st x; simpl; [reflexivity|].
  rewrite IH. simpl. destruct (cell_eqb x a); destruct (memc x r); reflexivity.
Qed.

Lemma fill_state : forall i cells st x,
  clist (fold_left (fill_one i) cells st) x =
    (if memc x cells && negb (cdone st x) then clist st x ++ [i] else clist st x) /\
  cdone (fold_left (fill_one i) cells st) x = (cdone st x || memc x cells).
Proof.
  induction cells as [|a r IH]; intros st x; simpl.
  - rewrite orb_false_r. split; reflexivity.
  - destruct (IH (fill_one i st a) x) as [IH1 IH2]. rewrite IH1, IH2. clear IH IH1 IH2.
    unfold fill_one. destruct (cdone st a) eqn:Ea.
    + destruct (cell_eqb x a) eqn:Ex.
      * apply cell_eqb_iff in Ex. subst x. rewrite Ea. simpl.
        rewrite andb_false_r. split; reflexivity.
      * simpl. split; reflexivity.
    + simpl. destruct (cell_eqb x a) eqn:Ex.
      * apply cell_eqb_iff in Ex. subst x. rewrite Ea. simpl.
        rewrite andb_false_r. split; reflexivity.
      * simpl. split; reflexivity.
Qed.

Lemma In_zrange : forall len lo r, In r (zrange lo len) <-> (lo <= r < lo + Z.of_nat len)%Z.
Proof.
  induction len as [|n IH]; intros lo r; simpl.
  - lia.
  - rewrite IH. lia.
Qed.

Lemma row_fill_incl_reset : forall nRa d lo hi c,
  In c (row_cells nRa 0 d lo hi) -> In c (row_cells nRa 1 d lo hi).
Proof.
  intros nRa d lo hi c. unfold row_cells. rewrite !in_flat_map.
  intros [r [Hr Hc]]. exists r. split; [|exact Hc].
  apply In_zrange in Hr. apply In_zrange. lia.
Qed.

Lemma rows_fill_incl_reset : forall nRa rs d c,
  In c (rows_cells nRa 0 d rs) -> In c (rows_cells nRa 1 d rs).
Proof.
  induction rs as [|[lo hi] r IH]; intros d c H; simpl in *; [exact H|].
  apply in_app_iff in H. apply in_app_iff. destruct H as [H|H].
  - left. apply row_fill_incl_reset. exact H.
  - right. apply IH. exact H.
Qed.

(* the reset loop really covers every cell the fill loop visits *)
Lemma fill_incl_reset : forall nRa b, incl (fill_cells nRa b) (reset_cells nRa b).
Proof. intros nRa b c. apply rows_fill_incl_reset. Qed.

(* one point: chunkDone drops out of the result *)
Lemma assign_point_clist : forall nRa st i b x,
  clist (assign_point nRa st i (Some b)) x =
  if memc x (fill_cells nRa b) then clist st x ++ [i] else clist st x.
Proof.
  intros. unfold assign_point.
  destruct (fill_state i (fill_cells nRa b) (fold_left reset_one (reset_cells nRa b) st) x) as [H _].
  rewrite H, reset_clist, reset_done.
  destruct (memc x (fill_cells nRa b)) eqn:E; [|reflexivity].
  assert (E' : memc x (reset_cells nRa b) = true).
  { apply memc_In. apply fill_incl_reset. apply memc_In. exact E. }
  rewrite E'. reflexivity.
Qed.

Fixpoint members (nRa : Z -> Z) (x : cell) (i : nat) (bs : list (option bnd)) : list nat :=
  match bs with
  | [] => []
  | b :: r =>
      (match b with Some b' => if memc x (fill_cells nRa b') then [i] else [] | None => [] end)
      ++ members nRa x (S i) r
  end.

Lemma assign_from_clist : forall nRa bs st i x,
  clist (assign_from nRa st i bs) x = clist st x ++ members nRa x i bs.
Proof.
  induction bs as [|b r IH]; intros st i x; simpl.
  - rewrite app_nil_r. reflexivity.
  - rewrite IH. destruct b as [b|].
    + rewrite assign_point_clist. destruct (memc x (fill_cells nRa b)).
      * rewrite <- app_assoc. reflexivity.
      * reflexivity.
    + reflexivity.
Qed.

Lemma members_In : forall nRa x bs i k,
  In k (members nRa x i bs) <->
  (i <= k /\ exists b, nth_error bs (k - i) = Some (Some b) /\ In x (fill_cells nRa b)).
Proof.
  induction bs as [|b r IH]; intros i k; simpl.
  - split; [contradiction|]. intros [_ [b [H _]]]. destruct (k - i); discriminate.
  - rewrite in_app_iff, IH. split.
    + intros [H|[Hle [b' [Hn Hc]]]].
      * destruct b as [b|]; [|contradiction].
        destruct (memc x (fill_cells nRa b)) eqn:E; [|contradiction].
        destruct H as [<-|[]]. split; [lia|]. exists b. rewrite Nat.sub_diag. simpl.
        split; [reflexivity|apply memc_In; exact E].
      * split; [lia|]. exists b'. replace (k - i) with (S (k - S i)) by lia. simpl. auto.
    + intros [Hle [b' [Hn Hc]]]. destruct (Nat.eq_dec k i) as [->|Hne].
      * left. rewrite Nat.sub_diag in Hn. simpl in Hn. inversion Hn; subst.
        apply memc_In in Hc. rewrite Hc. left. reflexivity.
      * right. split; [lia|]. exists b'. replace (k - i) with (S (k - S i)) in Hn by lia.
        simpl in Hn. auto.
Qed.

Lemma nodup_app : forall (A : Type) (l l' : list A),
  NoDup l -> NoDup l' -> (forall a, In a l -> ~ In a l') -> NoDup (l ++ l').
Proof.
  induction l as [|a r IH]; intros l' H1 H2 H3; simpl; [exact H2|].
  inversion H1; subst. constructor.
  - rewrite in_app_iff. intros [H|H]; [contradiction|]. apply (H3 a); [left; reflexivity|exact H].
  - apply IH; auto. intros b Hb. apply H3. right. exact Hb.
Qed.

Lemma members_NoDup : forall nRa x bs i, NoDup (members nRa x i bs).
Proof.
  induction bs as [|b r IH]; intro i; simpl; [constructor|].
  apply nodup_app.
  - destruct b as [b|]; [destruct (memc x (fill_cells nRa b))|]; repeat constructor. intros [].
  - apply IH.
  - intros a Ha Hin. apply members_In in Hin. destruct Hin as [Hle _].
    destruct b as [b|]; [destruct (memc x (fill_cells nRa b))|]; simpl in Ha; try contradiction.
    destruct Ha as [<-|[]]. lia.
Qed.

Lemma assign_model_clist : forall nRa bs x, clist (assign_model nRa bs) x = members nRa x 0 bs.
Proof. intros. unfold assign_model. rewrite assign_from_clist. reflexivity. Qed.

Theorem assign_no_dup : forall nRa bs x, NoDup (clist (assign_model nRa bs) x).
Proof. intros. rewrite assign_model_clist. apply members_NoDup. Qed.

Theorem assign_exact : forall nRa bs x k,
  In k (clist (assign_model nRa bs) x) <->
  exists b, nth_error bs k = Some (Some b) /\ In x (fill_cells nRa b).
Proof.
  intros. rewrite assign_model_clist, members_In, Nat.sub_0_r. split.
  - intros [_ H]. exact H.
  - intro H. split; [lia|exact H].
Qed.

(* ================================================================= candidates = brute force *)

Lemma In_pairs_of : forall (sep : nat -> nat -> Q) L i l c,
  In c (map (fun k => (i, k, sep i k)) (filter (fun k => Qlt_bool (sep i k) L) l)) <->
  (In (ck c) l /\ (sep i (ck c) < L)%Q /\ c = (i, ck c, sep i (ck c))).
Proof.
  intros. rewrite in_map_iff. split.
  - intros [k [<- Hk]]. apply filter_In in Hk. destruct Hk as [Hk Hs]. apply Qlt_bool_iff in Hs.
    unfold ck. simpl. auto.
  - intros [Hk [Hs Hc]]. exists (ck c). split; [symmetry; exact Hc|].
    apply filter_In. split; [exact Hk|apply Qlt_bool_iff; exact Hs].
Qed.

Lemma In_brute : forall n1 n2 sep L c,
  In c (brute n1 n2 sep L) <->
  (ci c < n1 /\ ck c < n2 /\ (sep (ci c) (ck c) < L)%Q /\ c = (ci c, ck c, sep (ci c) (ck c))).
Proof.
  intros. unfold brute. rewrite in_flat_map. split.
  - intros [i [Hi Hc]]. apply In_pairs_of in Hc. destruct Hc as [Hk [Hs Hc]].
    apply in_seq in Hi. apply in_seq in Hk.
    assert (Hci : ci c = i) by (rewrite Hc; reflexivity).
    rewrite Hci. repeat split; auto; lia.
  - intros [Hi [Hk [Hs Hc]]]. exists (ci c). split; [apply in_seq; lia|].
    apply In_pairs_of. repeat split; auto. apply in_seq. lia.
Qed.

Lemma NoDup_flat_map_ci : forall (f : nat -> list cand) l,
  NoDup l -> (forall i, NoDup (map pairof (f i))) -> (forall i c, In c (f i) -> ci c = i) ->
  NoDup (map pairof (flat_map f l)).
Proof.
  induction l as [|a r IH]; intros Hl Hf Hci; simpl; [constructor|].
  inversion Hl; subst. rewrite map_app. apply nodup_app.
  - apply Hf.
  - apply IH; auto.
  - intros p Hp Hq. apply in_map_iff in Hp. destruct Hp as [c [<- Hc]].
    apply in_map_iff in Hq. destruct Hq as [c' [He Hc']].
    apply in_flat_map in Hc'. destruct Hc' as [i [Hi Hc']].
    apply Hci in Hc. apply Hci in Hc'.
    assert (ci c' = ci c) by (unfold ci; unfold pairof in He; rewrite He; reflexivity).
    subst. congruence.
Qed.

Lemma NoDup_pairs_row : forall (sep : nat -> nat -> Q) L i l,
  NoDup l -> NoDup (map pairof (map (fun k => (i, k, sep i k)) (filter (fun k => Qlt_bool (sep i k) L) l))).
Proof.
  intros. rewrite map_map. simpl.
  apply FinFun.Injective_map_NoDup.
  - intros a b Hab. inversion Hab. reflexivity.
  - apply NoDup_filter. exact H.
Qed.

Lemma brute_NoDup : forall n1 n2 sep L, NoDup (map pairof (brute n1 n2 sep L)).
Proof.
  intros. unfold brute. apply NoDup_flat_map_ci.
  - apply seq_NoDup.
  - intro i. apply NoDup_pairs_row. apply seq_NoDup.
  - intros i c Hc. apply In_pairs_of in Hc. destruct Hc as [_ [_ ->]]. reflexivity.
Qed.

Lemma In_candidates : forall n1 cell_of cl sep L c,
  In c (candidates n1 cell_of cl sep L) <->
  (ci c < n1 /\ In (ck c) (cl (cell_of (ci c))) /\ (sep (ci c) (ck c) < L)%Q /\ c = (ci c, ck c, sep (ci c) (ck c))).
Proof.
  intros. unfold candidates. rewrite in_flat_map. split.
  - intros [i [Hi Hc]]. apply In_pairs_of in Hc. destruct Hc as [Hk [Hs Hc]].
    apply in_seq in Hi.
    assert (Hci : ci c = i) by (rewrite Hc; reflexivity).
    rewrite Hci. repeat split; auto; lia.
  - intros [Hi [Hk [Hs Hc]]]. exists (ci c). split; [apply in_seq; lia|].
    apply In_pairs_of. repeat split; auto.
Qed.

Lemma candidates_NoDup : forall n1 cell_of cl sep L,
  (forall x, NoDup (cl x)) -> NoDup (map pairof (candidates n1 cell_of cl sep L)).
Proof.
  intros. unfold candidates. apply NoDup_flat_map_ci.
  - apply seq_NoDup.
  - intro i. apply NoDup_pairs_row. apply H.
  - intros i c Hc. apply In_pairs_of in Hc. destruct Hc as [_ [_ ->]]. reflexivity.
Qed.

Lemma NoDup_of_map : forall (A B : Type) (f : A -> B) l, NoDup (map f l) -> NoDup l.
Proof.
  induction l as [|a r IH]; intro H; [constructor|].
  simpl in H. inversion H; subst. constructor; [|apply IH; assumption].
  intro Hin. apply H2. apply in_map. exact Hin.
Qed.

(* under coverage, the candidate list built through the hash is the brute-force pair list *)
Theorem candidates_eq_brute : forall nRa bs n1 cell_of sep L,
  coverage nRa bs n1 cell_of sep L ->
  Permutation (candidates n1 cell_of (clist (assign_model nRa bs)) sep L) (brute n1 (length bs) sep L).
Proof.
  intros nRa bs n1 cell_of sep L Hcov.
  apply NoDup_Permutation.
  - eapply NoDup_of_map. apply candidates_NoDup. intro x. apply assign_no_dup.
  - eapply NoDup_of_map. apply brute_NoDup.
  - intro c. rewrite In_candidates, In_brute. split.
    + intros [Hi [Hk [Hs Hc]]]. repeat split; auto.
      apply assign_exact in Hk. destruct Hk as [b [Hn _]].
      apply nth_error_Some. congruence.
    + intros [Hi [Hk [Hs Hc]]]. repeat split; auto.
      apply assign_exact. apply Hcov; auto.
Qed.

(* ================================================================= the conditional property *)

Lemma brute_entries_ok : forall n1 n2 sep L c, In c (brute n1 n2 sep L) -> entry_okP n1 n2 sep L c.
Proof.
  intros n1 n2 sep L c H. apply In_brute in H. destruct H as [Hi [Hk [Hs Hc]]].
  unfold entry_okP. repeat split; auto.
  - apply Qlt_le_weak. exact Hs.
  - rewrite Hc at 1. unfold cd. simpl. apply Qeq_refl.
Qed.

Lemma below_in_brute : forall n1 n2 sep L i k,
  i < n1 -> k < n2 -> (sep i k < L)%Q -> In (i, k, sep i k) (brute n1 n2 sep L).
Proof. intros. apply In_brute. unfold ci, ck. simpl. auto. Qed.

Lemma common_of_perm : forall n1 n2 sep L out,
  Permutation out (brute n1 n2 sep L) -> StronglySorted Qle (map cd out) -> common_P n1 n2 sep L out.
Proof.
  intros n1 n2 sep L out Hp Hs. split; [|split].
  - apply Forall_forall. intros c Hc. apply brute_entries_ok. eapply Permutation_in; eauto.
  - eapply Permutation_NoDup; [apply Permutation_map; symmetry; exact Hp|apply brute_NoDup].
  - exact Hs.
Qed.

Lemma all_statement : forall n1 n2 sep L out,
  Permutation out (brute n1 n2 sep L) -> StronglySorted Qle (map cd out) -> match_all_P n1 n2 sep L out.
Proof.
  intros n1 n2 sep L out Hp Hs. split; [apply common_of_perm; assumption|].
  intros i k Hi Hk Hlt.
  change (i, k) with (pairof (i, k, sep i k)). apply in_map.
  eapply Permutation_in; [symmetry; exact Hp|]. apply below_in_brute; assumption.
Qed.

Lemma greedy_statement : forall n1 n2 sep L k cs,
  Permutation cs (brute n1 n2 sep L) -> StronglySorted Qle (map cd cs) ->
  match_greedy_P n1 n2 sep L k (greedy k cs).
Proof.
  intros n1 n2 sep L k cs Hp Hs.
  destruct (greedy_spec k cs Hs) as [Hin [Hso [Hnd [Hc1 [Hc2 [Hom _]]]]]].
  split; [split; [|split]|split; [|split]].
  - apply Forall_forall. intros c Hc. apply brute_entries_ok. eapply Permutation_in; eauto.
  - apply Hnd. eapply Permutation_NoDup; [apply Permutation_map; symmetry; exact Hp|apply brute_NoDup].
  - exact Hso.
  - intros i _. apply Hc1.
  - intros j _. apply Hc2.
  - intros i j Hi Hj Hlt Hout.
    assert (Hc : In (i, j, sep i j) cs).
    { eapply Permutation_in; [symmetry; exact Hp|]. apply below_in_brute; assumption. }
    specialize (Hom (i, j, sep i j) Hc). apply Hom. exact Hout.
Qed.

(* C04, conditional on the geometric hypothesis `coverage` and on argsort returning a sorting permutation *)
Theorem spherematch_spec : forall maxmatch nRa bs n1 cell_of sep L s,
  coverage nRa bs n1 cell_of sep L ->
  is_sorting_perm s (candidates n1 cell_of (clist (assign_model nRa bs)) sep L) = true ->
  match_ok n1 (length bs) sep L maxmatch (spherematch_model maxmatch nRa bs n1 cell_of sep L s) = true.
Proof.
  intros maxmatch nRa bs n1 cell_of sep L s Hcov Hsort.
  apply match_ok_iff. unfold C04_statement, spherematch_model.
  pose proof (candidates_eq_brute nRa bs n1 cell_of sep L Hcov) as Hperm.
  destruct (select_all_sorted _ _ Hsort) as [Hp Hs]. unfold select_all in *.
  destruct (Nat.eqb maxmatch 0).
  - apply all_statement; [|exact Hs]. eapply Permutation_trans; eauto.
  - apply greedy_statement; [|exact Hs]. eapply Permutation_trans; eauto.
Qed.

(* the hypothesis is not vacuous and cannot be dropped: without coverage the model loses a pair *)
Lemma coverage_needed_example :
  let nRa := fun _ : Z => 3%Z in
  let bs := [Some (0%Z, [(0%Z, 0%Z)])] in
  let cell_of := fun _ : nat => (0%Z, 2%Z) in
  let sep := fun _ _ : nat => (1 # 2)%Q in
  match_ok 1 1 sep 1%Q 0 (spherematch_model 0 nRa bs 1 cell_of sep 1%Q []) = false.
Proof. vm_compute. reflexivity. Qed.
