(* C03 -- proofs, part 3: append() extends the parsed document compositionally and preserves the invariant. *)
From Coq Require Import String.
From Coq Require Import NArith ZArith List Bool Lia.
Import ListNotations.
From PV Require Import Yanny.Bytes Yanny.BytesFacts Yanny.Types Yanny.Parse Yanny.Render
  Yanny.TokenFacts Yanny.RowFacts Yanny.TypeFacts Yanny.DocFacts Yanny.LayoutFacts Yanny.ScanFacts Yanny.StructFacts
  Yanny.EnumFacts Yanny.DtypeFacts Yanny.FileFacts Yanny.RoundTrip C03.Model C03.Proofs C03.Invariant.
Open Scope N_scope.

(* ---------------------------------------------------------------- admissible dictionaries *)
Definition key_of_table (k : bytes) (t : table) : bool := beq k (upper (t_name t)) || beq k (lower (upper (t_name t))).
Definition rows_fit (es : list enumdecl) (t : table) (rows : list (list cell)) : bool :=
  forallb (fun r => row_ok es (t_cols t) r && row_end_ok r) rows.
Definition entry_ok (d : doc) (kv : bytes * avalue) : bool :=
  match snd kv with
  | AText v =>
      negb (doc_is_table_key d (fst kv)) &&
      (beq (fst kv) S_SYMBOLS ||
       (ident (fst kv) && negb (contains KW_TYPEDEF_R (fst kv)) && hdr_ok v))
  | ARows rows =>
      existsb (key_of_table (fst kv)) (d_tables d) &&
      forallb (fun t => negb (key_of_table (fst kv) t) || rows_fit (d_enums d) t rows) (d_tables d)
  end.
Definition aok (d : doc) (a : adata) : bool := distinct (map fst a) && forallb (entry_ok d) a.
Definition clock_ok (c : bytes) : bool := forallb printable c && negb (mem BSL c) && no_td c.

(* ---------------------------------------------------------------- names *)
Lemma upc_lowc_upc c : upc (lowc (upc c)) = upc c.
Proof. unfold upc, lowc. repeat match goal with |- context [if ?b then _ else _] => destruct b eqn:? end; nclass. Qed.
Lemma upper_lower_upper s : upper (lower (upper s)) = upper s.
Proof. unfold upper, lower. rewrite !map_map. apply map_ext. apply upc_lowc_upc. Qed.

Lemma sem_table_names d p : sem d = Some p -> table_names p = doc_tnames d.
Proof.
  unfold sem, table_names, doc_tnames. destruct (omap (render_struct (d_enums d)) (d_tables d)); [|discriminate].
  destruct (omap (sem_table (d_enums d)) (d_tables d)) as [tabs|] eqn:E; [|discriminate]. intros H. inversion H; subst.
  cbn [pd_tables]. clear H. revert tabs E. induction (d_tables d) as [|t ts IH]; intros tabs E.
  - inversion E. reflexivity.
  - cbn [omap] in E. unfold sem_table at 1 in E. destruct (omap (sem_col (d_enums d)) (t_cols t)); [|discriminate].
    cbn [option_map] in E. destruct (omap (sem_table (d_enums d)) ts) as [tabs'|]; [|discriminate]. inversion E; subst.
    cbn [map pt_name]. now rewrite (IH tabs' eq_refl).
Qed.

Lemma is_table_key_sem d p k : sem d = Some p -> is_table_key p k = doc_is_table_key d k.
Proof. intros H. unfold is_table_key, doc_is_table_key. now rewrite (sem_table_names d p H). Qed.

Lemma key_of_table_is_key d k : existsb (key_of_table k) (d_tables d) = true -> doc_is_table_key d k = true.
Proof.
  unfold doc_is_table_key, doc_tnames. intros H. apply existsb_exists in H as [t [Hin Hk]]. apply existsb_exists.
  exists (upper (t_name t)). split; [now apply (in_map (fun t => upper (t_name t)))|].
  unfold key_of_table in Hk. apply orb_true_iff in Hk as [E|E]; apply beq_eq in E; subst k.
  - rewrite upper_idem. apply beq_refl.
  - rewrite upper_lower_upper. apply beq_refl.
Qed.

(* ---------------------------------------------------------------- what append() writes *)
Lemma adata_get_in a k v : adata_get a k = Some v -> In (k, v) a.
Proof.
  induction a as [|[k' v'] a IH]; [discriminate|]. cbn [adata_get]. destruct (beq k k') eqn:E.
  - intros H. inversion H; subst. apply beq_eq in E. subst. now left.
  - intros H. right. auto.
Qed.

Lemma entries_ok_in d a kv : forallb (entry_ok d) a = true -> In kv a -> entry_ok d kv = true.
Proof. intros H Hin. rewrite forallb_forall in H. auto. Qed.

Theorem append_pairs_spec d p a : sem d = Some p -> forallb (entry_ok d) a = true ->
  append_pairs p a = Some (concat (map render_pair (spec_pairs d a))).
Proof.
  intros Hs. induction a as [|[k v] a IH]; intros H; [reflexivity|]. cbn [forallb] in H. apply andb_true_iff in H as [Hk Ha].
  cbn [append_pairs]. rewrite (IH Ha). rewrite (is_table_key_sem d p k Hs). unfold spec_pairs. cbn [flat_map fst snd].
  fold (spec_pairs d a). unfold entry_ok in Hk. cbn [fst snd] in Hk. destruct v as [t|rows].
  - destruct (doc_is_table_key d k || beq k S_SYMBOLS); [reflexivity|]. cbn [app map concat]. reflexivity.
  - apply andb_true_iff in Hk as [Hk _]. rewrite (key_of_table_is_key d k Hk). reflexivity.
Qed.

Lemma text_entry_not_table_key d a k t : forallb (entry_ok d) a = true -> adata_get a k = Some (AText t) ->
  doc_is_table_key d k = false.
Proof.
  intros H G. pose proof (entries_ok_in d a (k, AText t) H (adata_get_in _ _ _ G)) as E. unfold entry_ok in E. cbn [fst snd] in E.
  apply andb_true_iff in E as [E _]. now apply negb_true_iff.
Qed.

Lemma name_is_key d t : In t (d_tables d) ->
  doc_is_table_key d (upper (t_name t)) = true /\ doc_is_table_key d (lower (upper (t_name t))) = true.
Proof.
  intros Hin. split; apply key_of_table_is_key; apply existsb_exists; exists t; (split; [exact Hin|]); unfold key_of_table.
  - now rewrite beq_refl.
  - rewrite beq_refl. apply orb_true_r.
Qed.

Theorem append_rows_spec d a : forallb (entry_ok d) a = true -> forall ts, incl ts (d_tables d) ->
  append_rows (map (fun t => upper (t_name t)) ts) a
  = Some (concat (map (fun t => concat (map (render_row (upper (t_name t))) (spec_rows a (upper (t_name t))))) ts)).
Proof.
  intros H ts. induction ts as [|t ts IH]; intros Hincl; [reflexivity|].
  assert (Hin : In t (d_tables d)) by (apply Hincl; now left).
  destruct (name_is_key d t Hin) as [K1 K2].
  cbn [map append_rows concat]. rewrite IH by (intros x Hx; apply Hincl; now right).
  unfold spec_rows. destruct (adata_get a (lower (upper (t_name t)))) as [[tx|rows]|] eqn:G1.
  - rewrite (text_entry_not_table_key d a _ tx H G1) in K2. discriminate.
  - rewrite G1. reflexivity.
  - destruct (adata_get a (upper (t_name t))) as [[tx|rows]|] eqn:G2.
    + rewrite (text_entry_not_table_key d a _ tx H G2) in K1. discriminate.
    + reflexivity.
    + reflexivity.
Qed.

(* ---------------------------------------------------------------- the appended document *)
Definition new_pairs (d : doc) (a : adata) : list (bytes * bytes) := spec_pairs d a.
Definition grow (a : adata) (t : table) : table := mktable (t_name t) (t_cols t) (t_rows t ++ spec_rows a (upper (t_name t))).

Lemma spec_append_eq d a : spec_append d a = mkdoc (d_comments d) (upd_pairs (d_pairs d) (new_pairs d a)) (d_enums d) (map (grow a) (d_tables d)).
Proof. reflexivity. Qed.

Lemma spec_pairs_in d a k v : In (k, v) (spec_pairs d a) ->
  In (k, AText v) a /\ doc_is_table_key d k = false /\ beq k S_SYMBOLS = false.
Proof.
  unfold spec_pairs. intros H. apply in_flat_map in H as [[k' v'] [Hin H]]. cbn [fst snd] in H. destruct v' as [t|rows]; [|contradiction].
  destruct (doc_is_table_key d k' || beq k' S_SYMBOLS) eqn:E; [contradiction|]. destruct H as [H|[]]. inversion H; subst.
  apply orb_false_iff in E as [E1 E2]. auto.
Qed.

Lemma spec_pairs_keys_sub d a : forall k, In k (map fst (spec_pairs d a)) -> In k (map fst a).
Proof.
  intros k H. apply in_map_iff in H as [[k' v] [E Hin]]. cbn [fst] in E. subst k'.
  destruct (spec_pairs_in d a k v Hin) as [H _]. apply in_map_iff. exists (k, AText v). auto.
Qed.

Lemma distinct_sublist_keys d a : distinct (map fst a) = true -> distinct (map fst (spec_pairs d a)) = true.
Proof.
  unfold spec_pairs. induction a as [|[k v] a IH]; [reflexivity|]. cbn [map fst distinct flat_map snd]. intros H.
  apply andb_true_iff in H as [H1 H2]. specialize (IH H2). destruct v as [t|rows]; [|exact IH].
  destruct (doc_is_table_key d k || beq k S_SYMBOLS); [exact IH|]. cbn [app map fst distinct]. rewrite IH, andb_true_r.
  apply negb_true_iff in H1. apply negb_true_iff. destruct (existsb (beq k) (map fst (flat_map _ a))) eqn:E; auto.
  apply existsb_exists in E as [k' [Hin Ek]]. apply beq_eq in Ek. subst k'.
  assert (In k (map fst a)) by (apply (spec_pairs_keys_sub d a); exact Hin).
  assert (existsb (beq k) (map fst a) = true) by (apply existsb_exists; exists k; split; [auto|apply beq_refl]). congruence.
Qed.

Lemma distinct_app_disjoint a b : distinct a = true -> distinct b = true -> (forall x, In x b -> existsb (beq x) a = false) ->
  distinct (a ++ b) = true.
Proof.
  induction a as [|x a IH]; intros Ha Hb Hd; [exact Hb|]. cbn [app distinct] in *. apply andb_true_iff in Ha as [H1 H2].
  rewrite IH; auto.
  - rewrite andb_true_r. apply negb_true_iff. rewrite existsb_app. apply negb_true_iff in H1. rewrite H1. cbn [orb].
    destruct (existsb (beq x) b) eqn:E; auto. apply existsb_exists in E as [y [Hy Ey]]. apply beq_eq in Ey. subst y.
    specialize (Hd x Hy). cbn [existsb] in Hd. rewrite beq_refl in Hd. discriminate.
  - intros y Hy. specialize (Hd y Hy). cbn [existsb] in Hd. now apply orb_false_iff in Hd as [_ Hd].
Qed.

(* dictionary update keeps what doc_ok asks of the pairs *)
Lemma assoc_set_forallb {A} (P : bytes * A -> bool) k v l : forallb P l = true -> P (k, v) = true -> forallb P (assoc_set k v l) = true.
Proof.
  intros Hl Hk. induction l as [|[k' v'] l IH]; cbn [assoc_set forallb]; [now rewrite Hk|].
  cbn [forallb] in Hl. apply andb_true_iff in Hl as [H1 H2]. destruct (beq k k'); cbn [forallb]; [now rewrite Hk, H2|now rewrite H1, IH].
Qed.

Lemma assoc_set_keys_in {A} k (v : A) l x : In x (map fst (assoc_set k v l)) -> x = k \/ In x (map fst l).
Proof.
  induction l as [|[k' v'] l IH]; cbn [assoc_set map fst].
  - intros [H|[]]; auto.
  - destruct (beq k k') eqn:E; cbn [map fst In].
    + apply beq_eq in E. subst k'. intros [H|H]; auto.
    + intros [H|H]; auto. destruct (IH H); auto.
Qed.

Lemma assoc_set_distinct {A} k (v : A) l : distinct (map fst l) = true -> distinct (map fst (assoc_set k v l)) = true.
Proof.
  induction l as [|[k' v'] l IH]; [reflexivity|]. cbn [assoc_set map fst distinct]. intros H. apply andb_true_iff in H as [H1 H2].
  destruct (beq k k') eqn:E.
  - apply beq_eq in E. subst k'. cbn [map fst distinct]. now rewrite H1, H2.
  - cbn [map fst distinct]. rewrite (IH H2), andb_true_r. apply negb_true_iff. apply negb_true_iff in H1.
    destruct (existsb (beq k') (map fst (assoc_set k v l))) eqn:X; [|reflexivity].
    apply existsb_exists in X as [y [Hy Ey]]. apply beq_eq in Ey. subst y. destruct (assoc_set_keys_in k v l k' Hy) as [->|Hin].
    + rewrite beq_refl in E. discriminate.
    + assert (existsb (beq k') (map fst l) = true) by (apply existsb_exists; exists k'; split; [exact Hin|apply beq_refl]). congruence.
Qed.

Lemma upd_pairs_ok (P : bytes * bytes -> bool) new : forall base,
  forallb P base = true -> forallb P new = true -> distinct (map fst base) = true ->
  forallb P (upd_pairs base new) = true /\ distinct (map fst (upd_pairs base new)) = true.
Proof.
  unfold upd_pairs. induction new as [|[k v] new IH]; intros base Hb Hn Hd; [split; assumption|].
  cbn [forallb] in Hn. apply andb_true_iff in Hn as [Hk Hn]. cbn [fold_left fst snd]. apply IH; auto.
  - now apply assoc_set_forallb.
  - now apply assoc_set_distinct.
Qed.

(* the line loop over pair lines IS the dictionary update (no freshness needed) *)
Lemma pairs_processed_upd sy rows : forall pairs done,
  forallb (fun kv => ident (fst kv) && hdr_ok (snd kv) && negb (existsb (beq (upper (fst kv))) (map fst sy))) pairs = true ->
  process_lines sy (mkst done rows) (map pair_line pairs) = Some (mkst (upd_pairs done pairs) rows).
Proof.
  induction pairs as [|[k v] pairs IH]; intros done H; [reflexivity|].
  cbn [forallb fst snd] in H. apply andb_true_iff in H as [H Hps]. apply andb_true_iff in H as [H H3]. apply andb_true_iff in H as [H1 H2].
  apply negb_true_iff in H3. cbn [map process_lines]. rewrite pair_line_roundtrip by auto. cbn [st_pairs st_rows].
  rewrite IH by auto. reflexivity.
Qed.

Lemma spec_rows_fit d a t : forallb (entry_ok d) a = true -> In t (d_tables d) ->
  rows_fit (d_enums d) t (spec_rows a (upper (t_name t))) = true.
Proof.
  intros H Hin.
  assert (G : forall k rows, adata_get a k = Some (ARows rows) -> key_of_table k t = true -> rows_fit (d_enums d) t rows = true).
  { intros k rows Hg Hk. pose proof (entries_ok_in d a (k, ARows rows) H (adata_get_in _ _ _ Hg)) as E. unfold entry_ok in E.
    cbn [fst snd] in E. apply andb_true_iff in E as [_ E]. rewrite forallb_forall in E. specialize (E t Hin). rewrite Hk in E. exact E. }
  unfold spec_rows. destruct (adata_get a (lower (upper (t_name t)))) as [[tx|rows]|] eqn:G1; try reflexivity.
  - apply (G _ rows G1). unfold key_of_table. rewrite beq_refl. apply orb_true_r.
  - destruct (adata_get a (upper (t_name t))) as [[tx|rows]|] eqn:G2; try reflexivity.
    apply (G _ rows G2). unfold key_of_table. now rewrite beq_refl.
Qed.

Lemma table_ok_grow es a t : table_ok es t = true -> rows_fit es t (spec_rows a (upper (t_name t))) = true -> table_ok es (grow a t) = true.
Proof.
  unfold table_ok, grow, rows_fit. cbn [t_name t_cols t_rows]. intros H Hr.
  repeat match type of H with _ && _ = true => let H' := fresh "H" in apply andb_true_iff in H as [H H'] end.
  rewrite forallb_app. repeat (apply andb_true_iff; split); auto.
Qed.

Lemma tnames_grow d a : map (fun t => upper (t_name t)) (map (grow a) (d_tables d)) = doc_tnames d.
Proof. unfold doc_tnames. rewrite map_map. reflexivity. Qed.

Lemma doc_ok_ecol d : doc_ok d = true -> distinct (map e_col (d_enums d)) = true.
Proof.
  unfold doc_ok. intros H.
  repeat match type of H with _ && _ = true => let H' := fresh "H" in apply andb_true_iff in H as [H H'] end. assumption.
Qed.

Lemma new_pairs_ok d a : forallb (entry_ok d) a = true ->
  forallb (fun kv : bytes * bytes => ident (fst kv) && negb (contains KW_TYPEDEF_R (fst kv)) && hdr_ok (snd kv)
                                  && negb (existsb (beq (upper (fst kv))) (doc_tnames d))) (new_pairs d a) = true.
Proof.
  intros Hent. apply forallb_forall. intros [k v] Hin. destruct (spec_pairs_in d a k v Hin) as [Hia [Hk Hs]].
  pose proof (entries_ok_in d a _ Hent Hia) as E. unfold entry_ok in E. cbn [fst snd] in E. apply andb_true_iff in E as [_ E].
  rewrite Hs in E. cbn [orb] in E. cbn [fst snd]. rewrite E. cbn [andb].
  unfold doc_is_table_key in Hk. now rewrite Hk.
Qed.

Theorem doc_ok_append d a : doc_ok d = true -> aok d a = true -> doc_ok (spec_append d a) = true.
Proof.
  intros Hd Ha. unfold aok in Ha. apply andb_true_iff in Ha as [Hdist Hent].
  destruct (doc_ok_parts d Hd) as [Hc [Hcn [Hp [Hdk [Hes [Hde [Ht Hdn]]]]]]].
  rewrite spec_append_eq. unfold doc_ok. cbn [d_comments d_pairs d_enums d_tables].
  rewrite tnames_grow. fold (tnames d) || idtac.
  pose proof (new_pairs_ok d a Hent) as NP.
  destruct (upd_pairs_ok (fun kv : bytes * bytes => ident (fst kv) && negb (contains KW_TYPEDEF_R (fst kv)) && hdr_ok (snd kv)
                                  && negb (existsb (beq (upper (fst kv))) (doc_tnames d))) (new_pairs d a) (d_pairs d) Hp NP Hdk) as [PK DK].
  assert (TK : forallb (table_ok (d_enums d)) (map (grow a) (d_tables d)) = true).
  { rewrite forallb_map. apply forallb_forall. intros t Hin. rewrite forallb_forall in Ht. apply table_ok_grow; auto.
    now apply spec_rows_fit. }
  unfold tnames, doc_tnames in *.
  pose proof (doc_ok_ecol d Hd) as Hec.
  repeat (apply andb_true_iff; split); auto.
  destruct (d_comments d); [congruence|reflexivity].
Qed.

(* ---------------------------------------------------------------- the appended text as items *)
Definition clock_line (clock : bytes) : bytes := S_APPENDED ++ clock ++ [46].
Definition new_row_lines (d : doc) (a : adata) : list bytes :=
  flat_map (fun t => map (render_row_line (upper (t_name t))) (spec_rows a (upper (t_name t)))) (d_tables d).
Definition new_items (d : doc) (a : adata) (clock : bytes) : list item :=
  ILine (clock_line clock) :: map (fun kv => ILine (pair_line kv)) (new_pairs d a) ++ map ILine (new_row_lines d a).
Definition new_body (d : doc) (a : adata) : bytes :=
  concat (map render_pair (new_pairs d a))
  ++ concat (map (fun t => concat (map (render_row (upper (t_name t))) (spec_rows a (upper (t_name t))))) (d_tables d)).

Lemma new_items_text d a clock : items_text (new_items d a clock) = S_APPENDED ++ clock ++ [46; NL] ++ new_body d a.
Proof.
  unfold new_items, items_text, new_body, clock_line. cbn [map concat item_text]. rewrite map_app, concat_app, !map_map.
  rewrite <- !app_assoc. cbn [app]. f_equal. f_equal. f_equal. f_equal. f_equal.
  - f_equal. apply map_ext. intros [k v]. unfold render_pair, pair_line. cbn [item_text fst snd]. now rewrite <- !app_assoc.
  - unfold new_row_lines. induction (d_tables d) as [|t ts IH]; [reflexivity|]. cbn [flat_map map concat].
    rewrite map_app, concat_app, IH. f_equal. rewrite map_map. reflexivity.
Qed.

Lemma clock_line_good clock : clock_ok clock = true -> item_good (ILine (clock_line clock)).
Proof.
  unfold clock_ok. intros H. apply andb_true_iff in H as [H H3]. apply andb_true_iff in H as [H1 H2]. apply negb_true_iff in H2.
  change (clock_line clock) with (comment_line (tl (tl S_APPENDED) ++ clock ++ [46])). apply comment_good.
  unfold comment_ok. rewrite !forallb_app, H1. cbn [forallb andb]. rewrite !mem_app, H2. cbn [orb negb andb].
  change (negb (contains KW_TYPEDEF_R (tl (tl S_APPENDED) ++ clock ++ [46]))) with (no_td (tl (tl S_APPENDED) ++ clock ++ [46])).
  (* "Appended by yanny.py at" ++ SP :: clock ++ "." *)
  change (tl (tl S_APPENDED)) with (removelast (tl (tl S_APPENDED)) ++ [SP]). rewrite <- app_assoc. cbn [app].
  apply no_td_sep; [reflexivity|reflexivity|]. now apply no_td_end.
Qed.

Lemma pairs_good_of_doc d : doc_ok d = true -> forall kv, In kv (d_pairs d) -> item_good (ILine (pair_line kv)).
Proof.
  intros Hd [k v] Hin. destruct (doc_ok_parts d Hd) as [_ [_ [Hp _]]]. rewrite forallb_forall in Hp. specialize (Hp _ Hin).
  cbn [fst snd] in Hp. apply andb_true_iff in Hp as [Hp _]. apply andb_true_iff in Hp as [Hp H3]. apply andb_true_iff in Hp as [H1 H2].
  now apply pair_good.
Qed.

Lemma new_items_good d a clock : doc_ok (spec_append d a) = true -> forallb (entry_ok d) a = true -> clock_ok clock = true ->
  Forall item_good (new_items d a clock).
Proof.
  intros Hd Hent Hc. pose proof Hd as Hd'. rewrite spec_append_eq in Hd'.
  destruct (doc_ok_parts _ Hd') as [_ [_ [_ [_ [Hes [_ [Ht _]]]]]]]. cbn [d_enums d_tables] in Hes, Ht.
  unfold new_items. constructor; [now apply clock_line_good|]. apply Forall_app. split.
  - apply Forall_map_in. intros [k v] Hin. pose proof (new_pairs_ok d a Hent) as NP. rewrite forallb_forall in NP.
    specialize (NP _ Hin). cbn [fst snd] in NP. apply andb_true_iff in NP as [NP _]. apply andb_true_iff in NP as [NP H3].
    apply andb_true_iff in NP as [H1 H2]. now apply pair_good.
  - apply Forall_map_in. intros l Hin. unfold new_row_lines in Hin. apply in_flat_map in Hin as [t [Htin Hl]].
    apply in_map_iff in Hl as [r [<- Hr]].
    change (upper (t_name t)) with (upper (t_name (grow a t))).
    apply (row_good (d_enums d) (grow a t) r); auto.
    + rewrite forallb_forall in Ht. apply Ht. now apply in_map.
    + cbn [grow t_rows]. apply in_or_app. now right.
Qed.

(* ---------------------------------------------------------------- the line loop over the appended lines *)
Lemma rows_for_flat (f : table -> list (list cell)) (g : table -> table) tables t :
  (forall x, upper (t_name (g x)) = upper (t_name x)) ->
  distinct (map (fun t => upper (t_name t)) tables) = true -> In t tables ->
  rows_for (upper (t_name t)) (flat_map (fun x => map (fun r => (g x, r)) (f x)) tables) = f t.
Proof.
  intros Hg. unfold rows_for. induction tables as [|x ts IH]; [contradiction|]. cbn [map distinct flat_map]. intros Hd Hin.
  apply andb_true_iff in Hd as [Hx Hd]. apply negb_true_iff in Hx. rewrite filter_app, map_app.
  assert (F1 : forall (y : table), filter (fun tr : table * list cell => beq (upper (t_name t)) (upper (t_name (fst tr)))) (map (fun r => (g y, r)) (f y))
               = if beq (upper (t_name t)) (upper (t_name y)) then map (fun r => (g y, r)) (f y) else []).
  { intros y. induction (f y) as [|r rs IHr]; [destruct (beq _ _); reflexivity|]. cbn [map filter fst]. rewrite IHr, Hg.
    destruct (beq (upper (t_name t)) (upper (t_name y))); reflexivity. }
  rewrite (F1 x). destruct Hin as [->|Hin].
  - rewrite beq_refl. rewrite map_map. cbn [snd]. rewrite map_id.
    assert (E : filter (fun tr : table * list cell => beq (upper (t_name t)) (upper (t_name (fst tr))))
                  (flat_map (fun t0 => map (fun r => (g t0, r)) (f t0)) ts) = []).
    { clear -Hx F1. induction ts as [|y ts IH]; [reflexivity|]. cbn [map existsb] in Hx. apply orb_false_iff in Hx as [H1 H2].
      cbn [flat_map]. rewrite filter_app, (F1 y). rewrite H1. now apply IH. }
    rewrite E. now rewrite app_nil_r.
  - assert (Hne : beq (upper (t_name t)) (upper (t_name x)) = false).
    { apply beq_neq. intros E. assert (existsb (beq (upper (t_name x))) (map (fun t => upper (t_name t)) ts) = true).
      { apply existsb_exists. exists (upper (t_name t)). split; [now apply (in_map (fun t => upper (t_name t)))|]. rewrite E. apply beq_refl. }
      congruence. }
    rewrite Hne. cbn [map app]. now apply IH.
Qed.

Definition grow_tws (a : adata) (tws : list (table * list bytes)) : list (table * list bytes) :=
  map (fun tw => (grow a (fst tw), snd tw)) tws.

Lemma grow_tws_facts es a tws : tws_ok es tws ->
  tws_ok es (grow_tws a tws) /\ sy_of es (grow_tws a tws) = sy_of es tws /\ struct_texts es (grow_tws a tws) = struct_texts es tws /\
  map fst (grow_tws a tws) = map (grow a) (map fst tws).
Proof.
  intros H. unfold grow_tws. repeat split.
  - unfold tws_ok in *. apply Forall_map_in. intros tw Hin. rewrite Forall_forall in H. exact (H tw Hin).
  - unfold sy_of. rewrite map_map. reflexivity.
  - unfold struct_texts. rewrite map_map. reflexivity.
  - rewrite !map_map. reflexivity.
Qed.

Lemma new_row_lines_tr d a : new_row_lines d a =
  map tr_line (flat_map (fun t => map (fun r => (grow a t, r)) (spec_rows a (upper (t_name t)))) (d_tables d)).
Proof.
  unfold new_row_lines. induction (d_tables d) as [|t ts IH]; [reflexivity|]. cbn [flat_map].
  rewrite map_app, <- IH. f_equal. rewrite map_map. reflexivity.
Qed.

Theorem appended_line_loop d a clock tws st' :
  doc_ok d = true -> doc_ok (spec_append d a) = true -> forallb (entry_ok d) a = true ->
  map fst tws = d_tables d -> tws_ok (d_enums d) tws ->
  loop_result d st' ->
  exists st'', process_lines (sy_of (d_enums d) tws) st' (map item_line (new_items d a clock)) = Some st'' /\
               loop_result (spec_append d a) st''.
Proof.
  intros Hd Hd2 Hent Et Hok [LP LRows]. pose proof Hd2 as Hd'. rewrite spec_append_eq in Hd'.
  destruct (doc_ok_parts d Hd) as [_ [_ [_ [_ [Hes [_ [Ht Hdn]]]]]]].
  destruct (doc_ok_parts _ Hd') as [_ [_ [Hp' [Hdk' [_ [_ [Ht' _]]]]]]]. cbn [d_pairs d_enums d_tables] in Hp', Hdk', Ht'.
  set (es := d_enums d) in *. set (sy := sy_of es tws) in *.
  assert (Hnames : map (fun tw => upper (t_name (fst tw))) tws = doc_tnames d).
  { unfold doc_tnames. rewrite <- Et. now rewrite map_map. }
  assert (Hkeys : map fst sy = doc_tnames d).
  { subst sy. unfold sy_of. rewrite map_map. cbn [fst]. exact Hnames. }
  assert (Hdn' : distinct (map (fun tw => upper (t_name (fst tw))) tws) = true) by (rewrite Hnames; exact Hdn).
  unfold new_items. cbn [map item_line]. rewrite map_app, !map_map. cbn [item_line].
  cbn [process_lines]. rewrite blank_and_comment_lines_skipped by (right; reflexivity).
  rewrite process_lines_app. destruct st' as [done rows]. cbn [st_pairs st_rows] in *. subst done.
  change (map (fun x : bytes * bytes => pair_line x) (new_pairs d a)) with (map pair_line (new_pairs d a)).
  assert (C1 : forallb (fun kv : bytes * bytes => ident (fst kv) && hdr_ok (snd kv) && negb (existsb (beq (upper (fst kv))) (map fst sy)))
                       (new_pairs d a) = true).
  { pose proof (new_pairs_ok d a Hent) as NP. apply forallb_forall. intros [k v] Hin. rewrite forallb_forall in NP.
    specialize (NP _ Hin). cbn [fst snd] in *.
    apply andb_true_iff in NP as [H H4]. apply andb_true_iff in H as [H H3]. apply andb_true_iff in H as [H1 H2].
    rewrite H1, H3. cbn [andb]. rewrite Hkeys. exact H4. }
  rewrite (pairs_processed_upd sy rows (new_pairs d a) (d_pairs d) C1).
  set (trs := flat_map (fun t => map (fun r => (grow a t, r)) (spec_rows a (upper (t_name t)))) (d_tables d)).
  rewrite map_id. rewrite (new_row_lines_tr d a). fold trs.
  destruct (rows_processed es sy Hes trs (mkst (upd_pairs (d_pairs d) (new_pairs d a)) rows)) as [st'' [P1 [P2 P3]]].
  { apply Forall_forall. intros [t r] Hin. unfold trs in Hin. apply in_flat_map in Hin as [t0 [Ht0 Hin]].
    apply in_map_iff in Hin as [r' [E Hr']]. inversion E; subst t r'. cbn [fst snd].
    split; [rewrite forallb_forall in Ht'; apply Ht'; now apply in_map|]. split; [cbn [grow t_rows]; apply in_or_app; now right|].
    cbn [grow t_name t_cols]. rewrite <- Et in Ht0. apply in_map_iff in Ht0 as [tw [Etw Htw]]. subst t0. subst sy. now apply assoc_sy_of. }
  exists st''. split; [exact P1|]. split.
  - rewrite P2. reflexivity.
  - intros t' Hin'. rewrite spec_append_eq in Hin'. cbn [d_tables] in Hin'. apply in_map_iff in Hin' as [t [<- Hin]].
    rewrite P3. cbn [st_rows grow t_name t_rows]. rewrite (LRows t Hin). cbn [option_map]. f_equal. f_equal.
    unfold trs. apply (rows_for_flat (fun t => spec_rows a (upper (t_name t))) (grow a)); auto.
Qed.

(* ---------------------------------------------------------------- append() preserves the invariant *)
Lemma filter_td_plain_lines kw (ls : list item) : Forall (fun i => match i with ILine _ => True | ITd _ _ _ => False end) ls ->
  filter (item_is_td kw) ls = [].
Proof. induction 1 as [|i l Hi _ IH]; [reflexivity|]. destruct i; [exact IH|contradiction]. Qed.

Lemma new_items_lines d a clock : Forall (fun i => match i with ILine _ => True | ITd _ _ _ => False end) (new_items d a clock).
Proof.
  unfold new_items. constructor; [exact I|]. apply Forall_app. split; apply Forall_map_in; intros; exact I.
Qed.

Lemma concat_nil_all {A B} (f : A -> list B) l : concat (map f l) = [] -> forall x, In x l -> f x = [].
Proof.
  induction l as [|y l IH]; [contradiction|]. cbn [map concat]. intros H x [->|Hin].
  - now apply app_eq_nil in H as [H _].
  - apply app_eq_nil in H as [_ H]. auto.
Qed.

Lemma new_body_nil d a : new_body d a = [] -> new_pairs d a = [] /\ forall t, In t (d_tables d) -> spec_rows a (upper (t_name t)) = [].
Proof.
  unfold new_body. intros H. apply app_eq_nil in H as [H1 H2]. split.
  - destruct (new_pairs d a) as [|[k v] l]; [reflexivity|]. cbn [map concat] in H1. unfold render_pair in H1. cbn [fst snd] in H1.
    destruct k; discriminate.
  - intros t Hin. pose proof (concat_nil_all _ _ H2 t Hin) as E. cbn beta in E.
    destruct (spec_rows a (upper (t_name t))) as [|r rs]; [reflexivity|]. cbn [map concat] in E. unfold render_row in E.
    apply app_eq_nil in E as [E _]. apply app_eq_nil in E as [_ E]. discriminate.
Qed.

Lemma spec_append_nothing d a : new_pairs d a = [] -> (forall t, In t (d_tables d) -> spec_rows a (upper (t_name t)) = []) ->
  spec_append d a = d.
Proof.
  intros Hp Hr. rewrite spec_append_eq, Hp. unfold upd_pairs. cbn [fold_left]. destruct d as [c p e ts]. cbn [d_comments d_pairs d_enums d_tables] in *. f_equal.
  rewrite <- (map_id ts) at 2. apply map_ext_in. intros t Hin. unfold grow. rewrite (Hr t Hin), app_nil_r. now destruct t.
Qed.

Lemma items_text_ends_nl (its : list item) : its <> [] -> exists x, items_text its = x ++ [NL].
Proof.
  intros H. destruct (exists_last H) as [its' [i ->]]. rewrite items_text_app. unfold items_text at 2. cbn [map concat].
  rewrite app_nil_r. destruct i; cbn [item_text]; eexists; rewrite app_assoc; reflexivity.
Qed.

Lemma append_sep_items (its : list item) : its <> [] -> append_sep (items_text its) = [].
Proof. intros H. destruct (items_text_ends_nl its H) as [x ->]. apply append_sep_nl. Qed.

Theorem append_preserves0 fs o d a clock : SInv0 fs o d -> aok d a = true -> clock_ok clock = true ->
  exists fs' o' out, do_append fs o a clock = (fs', o', out) /\ SInv0 fs' o' (spec_append d a) /\ o_file o' = o_file o /\
    ((out = Ok /\ exists new, new <> [] /\ o_contents o' = o_contents o ++ new /\ fs_get fs' (o_file o) = Some (o_contents o ++ new)) \/
     (out = Warned /\ fs' = fs /\ o' = o)).
Proof.
  intros [Hd [tws [its [st' [Et [Hok [Hg [Hne [F1 [F2 [PL [LR [Ec [Ef [Es Hn]]]]]]]]]]]]]]] Ha Hc.
  pose proof (doc_ok_append d a Hd Ha) as Hd2.
  unfold aok in Ha. apply andb_true_iff in Ha as [_ Hent].
  unfold do_append. destruct (o_file o) as [|f0 f1] eqn:Efile; [congruence|]. rewrite <- Efile in *.
  rewrite (append_pairs_spec d (o_state o) a Es Hent). rewrite (sem_table_names d (o_state o) Es). unfold doc_tnames.
  rewrite (append_rows_spec d a Hent (d_tables d)) by (intros x Hx; exact Hx).
  change (concat (map render_pair (spec_pairs d a)) ++
          concat (map (fun t => concat (map (render_row (upper (t_name t))) (spec_rows a (upper (t_name t))))) (d_tables d)))
    with (new_body d a).
  destruct (new_body d a) as [|b0 body] eqn:Eb.
  - (* nothing to append *)
    destruct (new_body_nil d a Eb) as [N1 N2]. rewrite (spec_append_nothing d a N1 N2).
    exists fs, o, Warned. split; [reflexivity|]. split; [|split; [reflexivity|right; auto]].
    split; [exact Hd|]. exists tws, its, st'. repeat (split; [assumption|]). assumption.
  - rewrite Ef. rewrite <- Eb. assert (Esep : append_sep (o_contents o) = []) by (rewrite Ec; apply (append_sep_items its Hne)). rewrite Esep. rewrite !app_nil_l.
    set (new := S_APPENDED ++ clock ++ [46; NL] ++ new_body d a).
    assert (Enew : new = items_text (new_items d a clock)) by (symmetry; apply new_items_text).
    destruct (grow_tws_facts (d_enums d) a tws Hok) as [Hok' [Esy [Est Efst]]].
    destruct (appended_line_loop d a clock tws st' Hd Hd2 Hent Et Hok LR) as [st'' [PL2 LR2]].
    assert (Et' : map fst (grow_tws a tws) = d_tables (spec_append d a)).
    { rewrite Efst, Et. reflexivity. }
    assert (Hg' : Forall item_good (its ++ new_items d a clock)).
    { apply Forall_app. split; [exact Hg|]. now apply new_items_good. }
    assert (Hne' : its ++ new_items d a clock <> []) by (destruct its; [congruence|discriminate]).
    assert (FF : forall kw, filter (item_is_td kw) (its ++ new_items d a clock) = filter (item_is_td kw) its).
    { intros kw. rewrite filter_app, (filter_td_plain_lines kw _ (new_items_lines d a clock)). now rewrite app_nil_r. }
    assert (PL' : process_lines (sy_of (d_enums d) tws) (st_init (sy_of (d_enums d) tws)) (map item_line (its ++ new_items d a clock)) = Some st'').
    { rewrite map_app, process_lines_app, PL. exact PL2. }
    change (d_enums d) with (d_enums (spec_append d a)) in PL', Hok', Esy, Est.
    destruct (parse_items (spec_append d a) (grow_tws a tws) (its ++ new_items d a clock) st'' Hd2 Et' Hok' Hg' Hne') as [p [S1 [S2 _]]].
    + rewrite FF, F1. now rewrite Est.
    + rewrite FF, F2. reflexivity.
    + apply loop_with_blank. rewrite Esy. exact PL'.
    + exact LR2.
    + assert (Ec' : o_contents o ++ new = items_text (its ++ new_items d a clock)).
      { rewrite items_text_app, <- Enew, Ec. reflexivity. }
      rewrite Ec', S2.
      eexists. eexists. exists Ok. split; [reflexivity|]. cbn [o_file o_contents o_state]. split; [|split; [reflexivity|]].
      * split; [exact Hd2|]. exists (grow_tws a tws), (its ++ new_items d a clock), st''. cbn [o_contents o_file o_state].
        rewrite fs_get_set_same. rewrite Esy.
        split; [exact Et'|]. split; [exact Hok'|]. split; [exact Hg'|]. split; [exact Hne'|].
        split; [rewrite FF, F1; now rewrite Est|]. split; [rewrite FF, F2; reflexivity|].
        split; [exact PL'|]. split; [exact LR2|]. split; [reflexivity|]. split; [reflexivity|]. split; [exact S1|exact Hn].
      * left. split; [reflexivity|]. exists new. rewrite fs_get_set_same. split; [|split].
        { subst new. unfold S_APPENDED. discriminate. }
        { now rewrite Ec'. }
        { now rewrite Ec'. }
Qed.

Lemma aok_set_comments d c a : aok (set_comments d c) a = aok d a.
Proof. reflexivity. Qed.
Lemma spec_append_set_comments d c a : spec_append (set_comments d c) a = set_comments (spec_append d a) c.
Proof. reflexivity. Qed.

Theorem append_preserves fs o d a clock : SInv fs o d -> aok d a = true -> clock_ok clock = true ->
  exists fs' o' out, do_append fs o a clock = (fs', o', out) /\ SInv fs' o' (spec_append d a) /\ o_file o' = o_file o /\
    ((out = Ok /\ exists new, new <> [] /\ o_contents o' = o_contents o ++ new /\ fs_get fs' (o_file o) = Some (o_contents o ++ new)) \/
     (out = Warned /\ fs' = fs /\ o' = o)).
Proof.
  intros [c H] Ha Hc. rewrite <- (aok_set_comments d c a) in Ha.
  destruct (append_preserves0 fs o (set_comments d c) a clock H Ha Hc) as [fs' [o' [out [E [HI [Hf Hout]]]]]].
  exists fs', o', out. split; [exact E|]. split; [|split; assumption]. exists c. now rewrite <- spec_append_set_comments.
Qed.

(* ---------------------------------------------------------------- every operation, every history *)
Definition op_ok (fs : fsys) (d : doc) (x : op) : Prop :=
  match x with
  | WriteNew p c | WriteCopy p c => p <> [] /\ cmts_ok c = true
  | WriteOverExisting _ => True
  | AppendToMissing p _ _ => fs_get fs p = None
  | ReRead => True
  | _ => match op_data x with Some a => aok d a = true | None => True end /\
         match x with AppendRows _ _ _ c | AppendPairs _ c | AppendMixed _ c | AppendEmpty c => clock_ok c = true | _ => True end
  end.

Lemma step_append fs o x a clock : op_data x = Some a ->
  match x with AppendRows _ _ _ c | AppendPairs _ c | AppendMixed _ c | AppendEmpty c => c = clock | _ => False end ->
  step (fs, o) x = do_append fs o a clock.
Proof. destruct x; cbn [op_data]; intros H Hc; try discriminate; try contradiction; inversion H; subst; reflexivity. Qed.

Definition outcome_expected (x : op) (out : outcome) : Prop :=
  match x with
  | WriteNew _ _ | WriteCopy _ _ => out = Ok \/ out = Refused
  | WriteOverExisting _ => out = Refused
  | AppendToMissing _ _ _ => out <> Ok
  | ReRead => out = Ok
  | _ => out = Ok \/ out = Warned
  end.

Theorem step_preserves_Inv fs o d x : SInv fs o d -> op_ok fs d x ->
  exists fs' o' out, step (fs, o) x = (fs', o', out) /\ SInv fs' o' (spec_op d x) /\ outcome_expected x out.
Proof.
  intros HI Hx.
  assert (Hfile : exists b, fs_get fs (o_file o) = Some b /\ o_file o <> []).
  { destruct HI as [c [_ [tws [its [st' H]]]]]. destruct H as (_&_&_&_&_&_&_&_&_&Ef&_&Hn). eauto. }
  destruct Hfile as [b0 [Hb0 Hfn]].
  assert (W : forall p c, p <> [] -> cmts_ok c = true ->
              exists fs' o' out, do_write fs o (Some p) c = (fs', o', out) /\ SInv fs' o' d /\ (out = Ok \/ out = Refused)).
  { intros p c Hp Hc. destruct (fs_get fs p) as [old|] eqn:E.
    - rewrite (write_existing_refused fs o p c old Hp E). eauto 8.
    - destruct (write_preserves fs o d p c HI Hp E Hc) as [fs' [o' [E1 [E2 _]]]]. eauto 8. }
  assert (A : forall a clock, aok d a = true -> clock_ok clock = true ->
              exists fs' o' out, do_append fs o a clock = (fs', o', out) /\ SInv fs' o' (spec_append d a) /\ (out = Ok \/ out = Warned)).
  { intros a clock Ha Hc. destruct (append_preserves fs o d a clock HI Ha Hc) as [fs' [o' [out [E [H [_ Ho]]]]]].
    exists fs', o', out. split; [exact E|]. split; [exact H|]. destruct Ho as [[-> _]|[-> _]]; auto. }
  destruct x; cbn [op_ok op_data] in Hx; unfold spec_op; cbn [op_data outcome_expected].
  - cbn [step]. destruct Hx. now apply W.
  - cbn [step]. destruct Hx. now apply W.
  - rewrite (write_over_own_file_refused fs o cmts b0 Hfn Hb0). eauto 8.
  - cbn [step]. destruct Hx. now apply A.
  - cbn [step]. destruct Hx. now apply A.
  - cbn [step]. destruct Hx. now apply A.
  - cbn [step]. destruct Hx. now apply A.
  - destruct (append_to_missing_refused fs o p d0 clock Hx) as [out [E Hne]]. rewrite E. eauto 8.
  - cbn [step]. unfold do_reread. rewrite Hb0.
    destruct HI as [c HI0]. destruct (SInv0_Inv _ _ _ HI0) as [Ef [Ep Es]]. rewrite Hb0 in Ef. inversion Ef; subst b0.
    rewrite Ep. exists fs, (mkobj (o_file o) (o_contents o) (o_raw o) (o_state o)), Ok. split; [reflexivity|]. rewrite obj_eta.
    split; [now exists c|reflexivity].
Qed.

(* admissible histories: every operation is admissible in the state it is applied to *)
Fixpoint hist_ok (s : fsys * obj) (d : doc) (ops : list op) : Prop :=
  match ops with
  | [] => True
  | x :: ops' => op_ok (fst s) d x /\ let '(fs', o', _) := step s x in hist_ok (fs', o') (spec_op d x) ops'
  end.

Theorem reachable_Inv ops : forall fs o d, SInv fs o d -> hist_ok (fs, o) d ops ->
  let '(fs', o') := run (fs, o) ops in SInv fs' o' (spec_doc d ops).
Proof.
  induction ops as [|x ops IH]; intros fs o d HI Hh; [exact HI|].
  cbn [hist_ok fst] in Hh. destruct Hh as [Hx Hrest].
  destruct (step_preserves_Inv fs o d x HI Hx) as [fs' [o' [out [E [HI' _]]]]].
  cbn [run spec_doc fold_left]. rewrite E in *. apply IH; auto.
Qed.

(* THE PROPERTY on the model: after any admissible history starting from a written document, the file holds
   exactly the object's contents, a fresh read of it is the object's state, and that state is the original
   document followed by every appended pair and row, in order *)
Theorem history_content d0 p0 raw ops s : doc_ok d0 = true -> p0 <> [] -> init_state d0 p0 raw = Some s -> hist_ok s d0 ops ->
  let '(fs', o') := run s ops in
  fs_get fs' (o_file o') = Some (o_contents o') /\ parse (o_contents o') = Some (o_state o') /\
  sem (spec_doc d0 ops) = Some (o_state o').
Proof.
  intros Hd Hp Hi Hh. destruct (init_SInv d0 p0 raw Hd Hp) as [fs [o [E [HI _]]]]. rewrite E in Hi. inversion Hi; subst s.
  assert (HS : SInv fs o d0) by (exists (d_comments d0); destruct d0; exact HI).
  pose proof (reachable_Inv ops fs o d0 HS Hh) as R. destruct (run (fs, o) ops) as [fs' o'].
  destruct R as [c R0]. destruct (SInv0_Inv _ _ _ R0) as [A [B C]]. repeat split; auto.
Qed.

(* ---------------------------------------------------------------- parsing is compositional over append *)
Lemma new_body_set_comments d c a : new_body (set_comments d c) a = new_body d a.
Proof. reflexivity. Qed.

(* the text that append() adds is: the marker line with the clock, the new header pairs, the new rows of every table *)
Theorem append_adds_text fs o d a clock : SInv fs o d -> aok d a = true -> clock_ok clock = true -> new_body d a <> [] ->
  exists fs' p',
    do_append fs o a clock =
      (fs', mkobj (o_file o) (o_contents o ++ S_APPENDED ++ clock ++ [46; NL] ++ new_body d a) (o_raw o) p', Ok) /\
    parse (o_contents o ++ S_APPENDED ++ clock ++ [46; NL] ++ new_body d a) = Some p' /\
    sem (spec_append d a) = Some p'.
Proof.
  intros [c H] Ha Hc Hb. rewrite <- (aok_set_comments d c a) in Ha. rewrite <- (new_body_set_comments d c a) in Hb.
  destruct (append_preserves0 fs o (set_comments d c) a clock H Ha Hc) as [fs' [o' [out [E [HI _]]]]].
  destruct (SInv0_Inv _ _ _ HI) as [_ [Ep Es]]. pose proof E as E0.
  destruct H as [Hd [tws [its [st' H]]]]. destruct H as (_&_&_&Hne&_&_&_&_&Ec&Ef&Es0&Hn).
  assert (Esep : append_sep (o_contents o) = []) by (rewrite Ec; apply (append_sep_items its Hne)).
  unfold aok in Ha. apply andb_true_iff in Ha as [_ Hent].
  unfold do_append in E. rewrite Esep in E. destruct (o_file o) as [|f0 f1] eqn:Efile; [congruence|]. rewrite <- Efile in *.
  rewrite (append_pairs_spec _ (o_state o) a Es0 Hent) in E. rewrite (sem_table_names _ (o_state o) Es0) in E. unfold doc_tnames in E.
  rewrite (append_rows_spec _ a Hent (d_tables (set_comments d c))) in E by (intros x Hx; exact Hx).
  change (concat (map render_pair (spec_pairs (set_comments d c) a)) ++
          concat (map (fun t => concat (map (render_row (upper (t_name t))) (spec_rows a (upper (t_name t))))) (d_tables (set_comments d c))))
    with (new_body (set_comments d c) a) in E.
  rewrite new_body_set_comments in *.
  destruct (new_body d a) as [|b0 body] eqn:Eb; [congruence|]. rewrite Ef in E. rewrite !app_nil_l in E.
  destruct (parse (o_contents o ++ S_APPENDED ++ clock ++ [46; NL] ++ b0 :: body)) as [p'|] eqn:P;
    injection E as E1 E2 E3; subst fs' o' out; cbn [o_contents o_state] in Ep, Es;
    [|exfalso; assert (Q : None = Some (o_state o)) by (rewrite <- P; exact Ep); discriminate].
  eexists. eexists. split; [exact E0|]. split; [reflexivity|]. exact Es.
Qed.

Theorem parse_append_compositional fs o d a clock : SInv fs o d -> aok d a = true -> clock_ok clock = true -> new_body d a <> [] ->
  parse (o_contents o) = sem d /\
  parse (o_contents o ++ S_APPENDED ++ clock ++ [46; NL] ++ new_body d a) = sem (spec_append d a) /\
  sem (spec_append d a) <> None.
Proof.
  intros HI Ha Hc Hb. destruct (append_adds_text fs o d a clock HI Ha Hc Hb) as [fs' [p' [_ [P S]]]].
  destruct HI as [c H0]. destruct (SInv0_Inv _ _ _ H0) as [_ [Ep Es]]. rewrite sem_set_comments in Es.
  split; [congruence|]. split; [congruence|]. congruence.
Qed.

(* ---------------------------------------------------------------- the domain of the theorems, decidably *)
Definition op_okb (fs : fsys) (d : doc) (x : op) : bool :=
  match x with
  | WriteNew p c | WriteCopy p c => match p with [] => false | _ => true end && cmts_ok c
  | WriteOverExisting _ => true
  | AppendToMissing p _ _ => match fs_get fs p with None => true | Some _ => false end
  | ReRead => true
  | AppendRows _ _ _ c | AppendPairs _ c | AppendMixed _ c | AppendEmpty c =>
      match op_data x with Some a => aok d a | None => true end && clock_ok c
  end.

Lemma op_okb_sound fs d x : op_okb fs d x = true -> op_ok fs d x.
Proof.
  destruct x; cbn [op_okb op_ok op_data]; intros H; try exact I;
    try (apply andb_true_iff in H as [H1 H2]; split; [|exact H2]; [destruct p; [discriminate|discriminate]]);
    try (apply andb_true_iff in H as [H1 H2]; split; assumption).
  destruct (fs_get fs p); [discriminate|reflexivity].
Qed.

Fixpoint hist_okb (s : fsys * obj) (d : doc) (ops : list op) : bool :=
  match ops with
  | [] => true
  | x :: ops' => op_okb (fst s) d x && let '(fs', o', _) := step s x in hist_okb (fs', o') (spec_op d x) ops'
  end.

Lemma hist_okb_sound ops : forall s d, hist_okb s d ops = true -> hist_ok s d ops.
Proof.
  induction ops as [|x ops IH]; intros s d H; [exact I|]. cbn [hist_okb hist_ok] in *.
  apply andb_true_iff in H as [H1 H2]. split; [now apply op_okb_sound|].
  destruct (step s x) as [[fs' o'] out]. now apply IH.
Qed.

Definition in_domain (c : case) : bool :=
  match c with
  | CHist d0 p0 raw steps =>
      doc_ok d0 && match p0 with [] => false | _ => true end &&
      match init_state d0 p0 raw with Some s => hist_okb s d0 (map fst steps) | None => false end
  | CText _ _ _ _ _ => false
  | CHistX d0 p0 raw extra steps =>
      doc_ok d0 && match p0 with [] => false | _ => true end &&
      match init_state d0 p0 raw with Some s => hist_okb (fst s ++ extra, snd s) d0 (map fst steps) | None => false end
  end.

(* verdict of run_case, plus 4 when the history is outside the domain of the theorems *)
Definition run_cases_dom (l : list case) : list Z :=
  map (fun c => (run_case c + (if in_domain c then 0 else 4))%Z) l.

(* a history the harness found in the domain satisfies the property, by the theorem *)
Theorem in_domain_history d0 p0 raw steps : in_domain (CHist d0 p0 raw steps) = true ->
  exists s, init_state d0 p0 raw = Some s /\
  let '(fs', o') := run s (map fst steps) in
  fs_get fs' (o_file o') = Some (o_contents o') /\ parse (o_contents o') = Some (o_state o') /\
  sem (spec_doc d0 (map fst steps)) = Some (o_state o').
Proof.
  cbn [in_domain]. intros H. apply andb_true_iff in H as [H H3]. apply andb_true_iff in H as [H1 H2].
  destruct (init_state d0 p0 raw) as [s|] eqn:E; [|discriminate]. exists s. split; [reflexivity|].
  apply (history_content d0 p0 raw (map fst steps) s H1); auto. destruct p0; discriminate. now apply hist_okb_sound.
Qed.

(* the invariant of the property, and the strong invariant implies it *)
Definition Inv (fs : fsys) (o : obj) : Prop :=
  fs_get fs (o_file o) = Some (o_contents o) /\ parse (o_contents o) = Some (o_state o).

Theorem SInv_Inv fs o d : SInv fs o d -> Inv fs o /\ sem d = Some (o_state o).
Proof. intros [c H]. destruct (SInv0_Inv _ _ _ H) as [A [B C]]. rewrite sem_set_comments in C. repeat split; assumption. Qed.

Theorem init_SInv' d p0 raw : doc_ok d = true -> p0 <> [] ->
  exists fs o, init_state d p0 raw = Some (fs, o) /\ SInv fs o d /\ o_file o = p0.
Proof.
  intros Hd Hp. destruct (init_SInv d p0 raw Hd Hp) as [fs [o [E [H F]]]]. exists fs, o. split; [exact E|]. split; [|exact F].
  exists (d_comments d). destruct d; exact H.
Qed.

Theorem reachable_Inv_plain d0 p0 raw ops s : doc_ok d0 = true -> p0 <> [] -> init_state d0 p0 raw = Some s -> hist_ok s d0 ops ->
  let '(fs', o') := run s ops in Inv fs' o'.
Proof.
  intros A B C D. pose proof (history_content d0 p0 raw ops s A B C D) as H. destruct (run s ops) as [fs' o'].
  destruct H as [H1 [H2 _]]. split; assumption.
Qed.


(* ---------------------------------------------------------------- other files in the directory *)
Lemma fs_get_app_l fs extra p b : fs_get fs p = Some b -> fs_get (fs ++ extra) p = Some b.
Proof.
  induction fs as [|[q c] fs IH]; [discriminate|]. cbn [fs_get app]. destruct (beq p q); auto.
Qed.

(* the invariant does not look at the other files: any files may already be there (empty, a lone newline, garbage ...) *)
Lemma SInv_extra fs o d extra : SInv fs o d -> SInv (fs ++ extra) o d.
Proof.
  intros [c [Hd [tws [its [st' H]]]]]. destruct H as (A1&A2&A3&A4&A5&A6&A7&A8&A9&Ef&A11&A12).
  exists c. split; [exact Hd|]. exists tws, its, st'. repeat (split; [assumption|]). split; [now apply fs_get_app_l|]. split; assumption.
Qed.

Lemma run_SInv_Inv s ops d' :
  (let '(fs', o') := run s ops in SInv fs' o' d') ->
  let '(fs', o') := run s ops in
  fs_get fs' (o_file o') = Some (o_contents o') /\ parse (o_contents o') = Some (o_state o') /\ sem d' = Some (o_state o').
Proof. destruct (run s ops) as [fs' o']. intros R. destruct (SInv_Inv _ _ _ R) as [[A B] C]. auto. Qed.

Theorem in_domain_historyX d0 p0 raw extra steps : in_domain (CHistX d0 p0 raw extra steps) = true ->
  exists fs o, init_state d0 p0 raw = Some (fs, o) /\
  let '(fs', o') := run (fs ++ extra, o) (map fst steps) in
  fs_get fs' (o_file o') = Some (o_contents o') /\ parse (o_contents o') = Some (o_state o') /\
  sem (spec_doc d0 (map fst steps)) = Some (o_state o').
Proof.
  cbn [in_domain]. intros H. apply andb_true_iff in H as [H H3]. apply andb_true_iff in H as [H1 H2].
  assert (Hp : p0 <> []) by (destruct p0; discriminate).
  destruct (init_SInv' d0 p0 raw H1 Hp) as [fs [o [E [HI _]]]]. rewrite E in H3. cbn [fst snd] in H3.
  exists fs, o. split; [exact E|].
  pose proof (reachable_Inv (map fst steps) (fs ++ extra) o d0 (SInv_extra _ _ _ extra HI) (hist_okb_sound _ _ _ H3)) as R.
  exact (run_SInv_Inv _ _ _ R).
Qed.
