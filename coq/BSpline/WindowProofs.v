(* Round 5: locality of the B-spline evaluation.  The value at x in (t_l, t_{l+1}] depends on the 2k knots
   t_{l-k+1} .. t_{l+k} and the k coefficients c_{l-k+1} .. c_l only: evaluating on that WINDOW (a one-interval spline)
   gives the same number.  This is what makes splines with >100000 intervals checkable point by point. *)
From Coq Require Import QArith Qround Qabs List Bool Arith Lia Lqa.
Import ListNotations.
From PV Require Import Lib.WLS BSpline.Eval BSpline.EvalProofs BSpline.CoxDeBoor BSpline.BasisProofs.
Open Scope Q_scope.

Definition window {A} (l k : nat) (t : list A) : list A := firstn (2 * k) (skipn (l - (k - 1)) t).
Definition cwindow {A} (l k : nat) (c : list A) : list A := firstn k (skipn (l - (k - 1)) c).

Lemma nthQ_skipn s : forall t i, nthQ (skipn s t) i = nthQ t (s + i).
Proof.
  unfold nthQ. induction s as [|s IH]; intros t i; [reflexivity|].
  destruct t as [|a t]; [destruct i; reflexivity|]. cbn [skipn]. rewrite IH. reflexivity.
Qed.

Lemma nthQ_firstn a : forall t i, (i < a)%nat -> nthQ (firstn a t) i = nthQ t i.
Proof.
  unfold nthQ. induction a as [|a IH]; intros t i Hi; [lia|].
  destruct t as [|b t]; [reflexivity|]. destruct i as [|i]; [reflexivity|]. cbn [firstn nth]. apply IH. lia.
Qed.

Lemma nthQ_window l k t i : (i < 2 * k)%nat -> nthQ (window l k t) i = nthQ t (l - (k - 1) + i).
Proof. intros Hi. unfold window. rewrite nthQ_firstn by exact Hi. apply nthQ_skipn. Qed.

Lemma length_window {A} l k (t : list A) : (1 <= k)%nat -> (k - 1 <= l)%nat -> (l + k < length t)%nat ->
  length (window l k t) = (2 * k)%nat.
Proof. intros. unfold window. rewrite firstn_length, skipn_length. lia. Qed.

Lemma length_cwindow {A} l k (c : list A) : (1 <= k)%nat -> (k - 1 <= l)%nat -> (l < length c)%nat ->
  length (cwindow l k c) = k.
Proof. intros. unfold cwindow. rewrite firstn_length, skipn_length. lia. Qed.

Lemma nondecr_window l k t : nondecr t -> (1 <= k)%nat -> (k - 1 <= l)%nat -> (l + k < length t)%nat ->
  nondecr (window l k t).
Proof.
  intros Hn Hk Hl Hlen i j Hij Hj. rewrite length_window in Hj by assumption.
  rewrite !nthQ_window by lia. apply Hn; lia.
Qed.

(* BSPLVN reads the knots l-j .. l+j+1 (j < k-1) only *)
Lemma bsplvn_loop_ext x : forall steps j t t' l l' v dp dmr,
  (forall i, (j <= i < j + steps)%nat -> nthQ t (l + i + 1) = nthQ t' (l' + i + 1) /\ nthQ t (l - i) = nthQ t' (l' - i)) ->
  bsplvn_loop steps j t x l v dp dmr = bsplvn_loop steps j t' x l' v dp dmr.
Proof.
  induction steps as [|s IH]; intros j t t' l l' v dp dmr H; [reflexivity|].
  cbn [bsplvn_loop]. destruct (H j ltac:(lia)) as [E1 E2]. rewrite E1, E2.
  apply IH. intros i Hi. apply H. lia.
Qed.

Lemma bsplvn_window t k x l : (1 <= k)%nat -> (k - 1 <= l)%nat ->
  bsplvn t k x l = bsplvn (window l k t) k x (k - 1).
Proof.
  intros Hk Hl. unfold bsplvn. apply bsplvn_loop_ext. intros i Hi.
  rewrite !nthQ_window by lia. split; f_equal; lia.
Qed.

Lemma dot_firstn : forall b k w, (length b <= k)%nat -> dot b (firstn k w) = dot b w.
Proof.
  induction b as [|a b IH]; intros k w Hb; [destruct (firstn k w); reflexivity|].
  destruct k as [|k]; [cbn in Hb; lia|]. destruct w as [|c w]; [reflexivity|].
  cbn [firstn dot]. rewrite IH by (cbn in Hb; lia). reflexivity.
Qed.

Theorem eval_at_window t k c x l : (1 <= k)%nat -> (k - 1 <= l)%nat ->
  eval_at t k c x l = eval_at (window l k t) k (cwindow l k c) x (k - 1).
Proof.
  intros Hk Hl. unfold eval_at. rewrite <- bsplvn_window by assumption.
  replace (k - 1 - (k - 1))%nat with 0%nat by lia. cbn [skipn].
  unfold cwindow. rewrite dot_firstn; [reflexivity|]. rewrite bsplvn_length by exact Hk. lia.
Qed.

(* the interval search finds THE left-open interval holding x *)
Lemma intrv1_unique gb k x l : nondecr gb -> (1 <= k)%nat -> (2 * k <= length gb)%nat ->
  (k - 1 <= l)%nat -> (l + k < length gb)%nat -> nthQ gb l < x -> x <= nthQ gb (S l) -> intrv1 gb k x = l.
Proof.
  intros Hn Hk Hg Hl1 Hl2 Hlo Hhi.
  destruct (intrv1_spec gb k x Hk Hg) as [[H1 H2] [H3 H4]].
  set (l' := intrv1 gb k x) in *.
  destruct (Nat.lt_trichotomy l' l) as [Lt|[E|Gt]]; [exfalso | exact E | exfalso].
  - assert (A : x <= nthQ gb (S l')) by (apply H4; lia).
    assert (B : nthQ gb (S l') <= nthQ gb l) by (apply Hn; lia).
    apply (Qlt_irrefl x). eapply Qle_lt_trans; [exact A|]. eapply Qle_lt_trans; [exact B| exact Hlo].
  - assert (A : nthQ gb l' < x) by (apply H3; lia).
    assert (B : nthQ gb (S l) <= nthQ gb l') by (apply Hn; lia).
    apply (Qlt_irrefl x). eapply Qle_lt_trans; [exact Hhi|]. eapply Qle_lt_trans; [exact B| exact A].
Qed.

(* value() at x in (t_l, t_{l+1}] = the one-interval evaluation on the window = the Cox-de Boor spline of the window
   = the Cox-de Boor spline of the whole knot vector *)
Theorem eval1_window gb k c x l : nondecr gb -> (1 <= k)%nat -> (2 * k <= length gb)%nat ->
  length c = (length gb - k)%nat -> (k - 1 <= l)%nat -> (l + k < length gb)%nat ->
  nthQ gb l < x -> x <= nthQ gb (S l) ->
  eval1 gb k c x = eval_at (window l k gb) k (cwindow l k c) x (k - 1) /\
  eval1 gb k c x == spline_left (window l k gb) (cwindow l k c) k x /\
  spline_left gb c k x == spline_left (window l k gb) (cwindow l k c) k x.
Proof.
  intros Hn Hk Hg Hc Hl1 Hl2 Hlo Hhi.
  assert (E : eval1 gb k c x = eval_at (window l k gb) k (cwindow l k c) x (k - 1)).
  { unfold eval1. rewrite (intrv1_unique gb k x l) by assumption. apply eval_at_window; assumption. }
  assert (W : eval_at (window l k gb) k (cwindow l k c) x (k - 1) == spline_left (window l k gb) (cwindow l k c) k x).
  { apply eval_at_is_spline_left.
    - apply nondecr_window; assumption.
    - exact Hk.
    - lia.
    - rewrite length_window by assumption. lia.
    - rewrite length_window, length_cwindow by (try assumption; lia). lia.
    - rewrite nthQ_window by lia. replace (l - (k - 1) + (k - 1))%nat with l by lia. exact Hlo.
    - rewrite nthQ_window by lia. replace (l - (k - 1) + S (k - 1))%nat with (S l) by lia. exact Hhi. }
  split; [exact E|]. split; [rewrite E; exact W|].
  rewrite <- W, <- E. symmetry. unfold eval1. rewrite (intrv1_unique gb k x l) by assumption.
  apply eval_at_is_spline_left; try assumption; lia.
Qed.
