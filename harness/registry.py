"""Per-property registration used by tools/gen_manifest.py.  A property is claimed iff it has an entry here."""

CHECKS = {
    'C06': {
        'technique': 'Coq proof (lia over Z, generic bit-field lemmas) about expressions regenerated from the source by an ast translator; vm_compute correspondence incl. exhaustive per-field sweeps',
        'text': 'Theorems for every field tuple: range checks = documented ranges; packed word = documented layout with every bit owned by its field; no int64/uint64 wrap; unwrap(pack)=id and pack(unwrap)=id; run2d string/integer round trip; scalar and array MJD conventions agree. They are stated about Gallina terms regenerated from sdss.py/photoobj.py on every run, so they hold or fail with the source. Glue (promotion, shapes, error classes) is tied by exact correspondence on ~1000 calls plus exhaustive sweeps of every field (~385k IDs) against both the model and the documented-layout spec.',
        'note': 'Trusted: translate/c06.py (ast->Gallina), the hand-written glue model, numpy integer semantics, Coq kernel + VM. Theorems are closed under the global context (no axioms).',
        'design_ref': 'DESIGN.md section 4 (C06)',
    },
    'C20': {
        'technique': 'Coq proof: sound abstract interpreter over a small environment-program language (all fault schedules, branch choices, initial environments), applied by vm_compute to skeletons regenerated from the source; exhaustive single-fault injection on the real entry points as correspondence',
        'text': 'restores_check_sound/environment_restored: for EVERY program of the environment language, every fault schedule (an exception at any call, any branch, caught or not) and every initial environment, a passing check implies every variable has its entry value/absence afterwards. The skeletons of window_score and template_input (with template_metadata inlined) are regenerated from /repo on every run and the theorems C20_window_score_env / C20_template_input_env are re-proved on them, so moving a restore out of finally, forgetting a variable or restoring before the last fallible call breaks a proof. Correspondence: every Python-level call made by the real entry points is made to raise in turn, for all set/unset states; the full process environment is diffed and the observed os.environ operation trace must be accepted by the skeleton.',
        'note': 'Trusted: translate/c20.py (idiom recognition, fail-closed), the trace matcher `accepts` (completeness proved: C20_accepts_complete; soundness not proved), sys.settrace fault injector, CPython try/finally semantics, collaborators outside the module not writing the environment (observed by full-environment diff on every run). Theorems closed under the global context.',
        'design_ref': 'DESIGN.md section 4 (C20)',
    },
}
NOT_APPLICABLE = {}

# entries contributed per property (harness/registry.d/Cxx.json: technique, text, note, design_ref[, category])
import glob as _glob
import json as _json
import os as _os
for _f in sorted(_glob.glob(_os.path.join(_os.path.dirname(_os.path.abspath(__file__)), 'registry.d', 'C*.json'))):
    CHECKS[_os.path.basename(_f)[:-5]] = _json.load(open(_f))
