(* C05 -- spheregroup partitions points into friends-of-friends components.
   Definitions only (proofs are in C05/Proofs*.v).

   S  (specification): components n link  -- canonical labelling by the most naive method: for each point in
      index order, if not yet labelled, give the next label to everything reachable from it (reachability =
      n rounds of neighbour expansion);  lists_of lab = the (multiplicity, first, next) arrays of a labelling.
   M  (algorithmic models, transliterations of pydl/pydlutils/spheregroup.py):
      renumber_model   the tail of spheregroup(): renumbering in order of appearance, list rebuild, multiplicities
      fof_tail_model   the tail of chunks.friendsoffriends(): flattening of mapGroups, inGroup, lists, multiplicities
      merge_model      the mapGroups union-find loop of chunks.friendsoffriends() (chase with fuel, path compression)
      groups_model     class groups: the per-cell O(n^2) friends-of-friends *)
From Coq Require Import ZArith List Bool Arith.
Import ListNotations.

Definition out4 := (list Z * (list Z * list Z * list Z))%type.

Definition memb (x : nat) (l : list nat) : bool := existsb (Nat.eqb x) l.

(* ------------------------------------------------------------------ S: components *)
Section FoF.
  Variable n : nat.
  Variable link : nat -> nat -> bool.      (* link i j: separation(i, j) <= linking length *)

  Definition lk (i j : nat) : bool := link i j || link j i.

  (* one round of neighbour expansion *)
  Definition step (S : list nat) : list nat :=
    filter (fun j => memb j S || existsb (fun s => lk s j) S) (seq 0 n).
  Fixpoint iter (k : nat) (S : list nat) : list nat :=
    match k with O => S | S k' => iter k' (step S) end.
  Definition reach (i : nat) : list nat := iter n (filter (Nat.eqb i) (seq 0 n)).

  (* points that start a new component, in index order *)
  Fixpoint starts_from (todo done : list nat) : list nat :=
    match todo with
    | [] => []
    | i :: r => if memb i done then starts_from r done else i :: starts_from r (reach i ++ done)
    end.
  Definition starts : list nat := starts_from (seq 0 n) [].
  Definition comps : list (list nat) := map reach starts.

  Fixpoint find_comp (i : nat) (cs : list (list nat)) (g : nat) : nat :=
    match cs with [] => g | C :: r => if memb i C then g else find_comp i r (S g) end.
  Definition label (i : nat) : nat := find_comp i comps 0.
  Definition ngroups : nat := length comps.
  Definition components : list nat := let cs := comps in map (fun i => find_comp i cs 0) (seq 0 n).
End FoF.

(* ------------------------------------------------------------------ S: the three list arrays of a labelling *)
Definition hdz (l : list nat) : Z := match l with [] => (-1)%Z | i :: _ => Z.of_nat i end.

Section Lists.
  Variable n : nat.
  Variable lab : nat -> nat.
  Definition members (g : nat) : list nat := filter (fun i => Nat.eqb (lab i) g) (seq 0 n).
  Definition mult_of (g : nat) : Z := Z.of_nat (length (members g)).
  Definition first_of (g : nat) : Z := hdz (members g).
  Definition next_of (i : nat) : Z := hdz (filter (fun j => Nat.eqb (lab j) (lab i)) (seq (S i) (n - S i))).
  (* (multgroup, firstgroup, nextgroup), each of length n *)
  Definition lists_of : list Z * list Z * list Z :=
    (map mult_of (seq 0 n), map first_of (seq 0 n), map next_of (seq 0 n)).
End Lists.

(* the canonical renumbering of a labelling: groups numbered in order of their first member *)
Section Canon.
  Variable n : nat.
  Variable lab : nat -> nat.
  Definition firstidx (i : nat) : nat := hd i (filter (fun j => Nat.eqb (lab j) (lab i)) (seq 0 n)).
  Definition isfirst (j : nat) : bool := Nat.eqb (firstidx j) j.
  Definition canon (i : nat) : nat := length (filter isfirst (seq 0 (firstidx i))).
End Canon.

(* following next[] from j until a negative entry *)
Fixpoint walk (fuel : nat) (next : nat -> Z) (j : Z) : list nat :=
  match fuel with
  | O => []
  | S f => if (j <? 0)%Z then [] else Z.to_nat j :: walk f next (next (Z.to_nat j))
  end.

Definition spec_output (n : nat) (link : nat -> nat -> bool) : out4 :=
  let labs := components n link in
  let lab := fun i => nth i labs 0 in
  (map Z.of_nat labs, lists_of n lab).

(* ------------------------------------------------------------------ M: arrays as functions with update *)
Definition arr := nat -> Z.
Definition aset (a : arr) (i : nat) (v : Z) : arr := fun x => if Nat.eqb x i then v else a x.
Definition bset (a : nat -> bool) (i : nat) (v : bool) : nat -> bool := fun x => if Nat.eqb x i then v else a x.
Definition aget (a : arr) (j : Z) : Z := a (Z.to_nat j).
Definition tolist (n : nat) (a : arr) : list Z := map a (seq 0 n).
Definition const (v : Z) : arr := fun _ => v.

(* j = first[..]; while j != -1: ingroup[j] = c; renumbered[j] = True; j = nextgroup[j] *)
Fixpoint relabel_walk (fuel : nat) (next : arr) (ing : arr) (ren : nat -> bool) (j c : Z) : arr * (nat -> bool) :=
  match fuel with
  | O => (ing, ren)
  | S f => if (j =? -1)%Z then (ing, ren)
           else relabel_walk f next (aset ing (Z.to_nat j) c) (bset ren (Z.to_nat j) true) (aget next j) c
  end.

(* for i in range(n): if not renumbered[i]: walk; iclump += 1 *)
Fixpoint renumber_loop (fuel : nat) (first next : arr) (todo : list nat) (ing : arr) (ren : nat -> bool) (c : Z) : arr * Z :=
  match todo with
  | [] => (ing, c)
  | i :: r =>
      if ren i then renumber_loop fuel first next r ing ren c
      else let '(ing', ren') := relabel_walk fuel next ing ren (aget first (ing i)) c in
           renumber_loop fuel first next r ing' ren' (c + 1)%Z
  end.

(* first[:] = -1; for i in range(n-1, -1, -1): next[i] = first[ingroup[i]]; first[ingroup[i]] = i *)
Fixpoint build_lists (todo : list nat) (ing : arr) (first next : arr) : arr * arr :=
  match todo with
  | [] => (first, next)
  | i :: r => build_lists r ing (aset first (Z.to_nat (ing i)) (Z.of_nat i)) (aset next i (aget first (ing i)))
  end.

Fixpoint count_walk (fuel : nat) (next : arr) (j : Z) (acc : Z) : Z :=
  match fuel with
  | O => acc
  | S f => if (j =? -1)%Z then acc else count_walk f next (aget next j) (acc + 1)%Z
  end.

(* for i in range(ngroups): walk and count *)
Definition mult_loop (fuel : nat) (ngroups : nat) (first next : arr) : arr :=
  fun g => if g <? ngroups then count_walk fuel next (first g) 0%Z else 0%Z.

(* tail of spheregroup(): input = what chunk.friendsoffriends returned *)
Definition renumber_model (n : nat) (ing0 first0 next0 : arr) (ngroups : nat) : out4 :=
  let '(ing, _) := renumber_loop (S n) first0 next0 (seq 0 n) ing0 (fun _ => false) 0%Z in
  let '(first, next) := build_lists (rev (seq 0 n)) ing (const (-1)%Z) next0 in
  let mult := mult_loop (S n) ngroups first next in
  (tolist n ing, (tolist n mult, tolist n first, tolist n next)).

(* ------------------------------------------------------------------ hypothesis of the conditional property *)
(* every linked pair lies together in at least one cell's list *)
Definition pair_coverage (n : nat) (link : nat -> nat -> bool) (cells : list (list nat)) : Prop :=
  forall i j, i < n -> j < n -> link i j = true -> exists c, In c cells /\ In i c /\ In j c.

(* ------------------------------------------------------------------ correspondence cases *)
(* row i of the adjacency matrix is the integer whose bit j says whether i and j are linked *)
Definition link_of (M : list Z) (i j : nat) : bool := Z.testbit (nth i M 0%Z) (Z.of_nat j).
Definition arr_of (l : list Z) : arr := fun i => nth i l (-1)%Z.

Fixpoint listZ_eqb (a b : list Z) : bool :=
  match a, b with
  | [], [] => true
  | x :: a', y :: b' => (x =? y)%Z && listZ_eqb a' b'
  | _, _ => false
  end.
Definition out4_eqb (a b : out4) : bool :=
  let '(a1, (a2, a3, a4)) := a in let '(b1, (b2, b3, b4)) := b in
  listZ_eqb a1 b1 && listZ_eqb a2 b2 && listZ_eqb a3 b3 && listZ_eqb a4 b4.

Record case := {
  c_adj : list Z;                       (* adjacency from the implementation's own gcirc *)
  c_out : out4;      (* (ingroup, multgroup, firstgroup, nextgroup) returned *)
  (* recorded return value of chunk.friendsoffriends: ingroup, multgroup, firstgroup, nextgroup, ngroups *)
  c_fof : option (list Z * list Z * list Z * Z)
}.

Definition spec_ok (c : case) : bool :=
  let n := length (c_adj c) in
  out4_eqb (spec_output n (link_of (c_adj c))) (c_out c).

Definition renumber_agrees (c : case) : bool :=
  match c_fof c with
  | None => true
  | Some (ing0, first0, next0, ng) =>
      let n := length (c_adj c) in
      out4_eqb (renumber_model n (arr_of ing0) (arr_of first0) (arr_of next0) (Z.to_nat ng)) (c_out c)
  end.

(* verdict: +1 a model differs from the implementation, +2 the output is not (components, lists_of) *)
Definition run_case (c : case) : Z :=
  ((if renumber_agrees c then 0 else 1) + (if spec_ok c then 0 else 2))%Z.
Definition run_cases (cs : list case) : list Z := map run_case cs.

Definition mkcase (adj : list Z) (o1 o2 o3 o4 : list Z) (fof : option (list Z * list Z * list Z * Z)) : case :=
  {| c_adj := adj; c_out := (o1, (o2, o3, o4)); c_fof := fof |}.
