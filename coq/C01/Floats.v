(* C01 -- the float oracle made explicit.
   The models carry the TEXT of a float cell.  What ties the text to a floating-point VALUE is numpy / Python:
   str(np.float32(x)), str(np.float64(x)) print the value, float(t) / np.float32(float(t)) read it.  The harness checks two
   facts about these functions on every run (40 000 random bit patterns and all special values per width):
     show_bare  : the printed text is a bare token of the file format (no blank, quote, brace, hash, backslash ...),
     parse_show : reading the printed text gives back the same value, bit for bit.
   Here they are SECTION HYPOTHESES of a statement about documents that hold float VALUES, so the dependence of the
   round trip on the oracle is visible in the theorem: outside the section the theorem quantifies over every
   show_f / parse_f satisfying them. *)
From Coq Require Import NArith ZArith List Bool.
Import ListNotations.
From PV Require Import Yanny.Bytes Yanny.BytesFacts Yanny.Types Yanny.Parse Yanny.Render Yanny.RoundTrip.
Open Scope N_scope.

Section FloatOracle.
  Variable F : Type.                                  (* floating-point values (bit patterns) *)
  Variable show_f : btype -> F -> bytes.              (* str(np.float32(x)) for TFloat, str(np.float64(x)) for TDouble *)
  Variable parse_f : btype -> bytes -> option F.      (* np.float32(float(t)) for TFloat, float(t) for TDouble *)
  Hypothesis show_bare : forall t x, bare_ok (show_f t x) = true.
  Hypothesis parse_show : forall t x, parse_f t (show_f t x) = Some x.

  (* cells holding values *)
  Inductive vsval := VInt (z : Z) | VStr (s : bytes) | VFlt (x : F).
  Inductive vcell := VSc (v : vsval) | VAr (l : list vsval).
  Record vtable := mkvtable { vt_name : bytes; vt_cols : list column; vt_rows : list (list vcell) }.
  Record vdoc := mkvdoc { vd_comments : list bytes; vd_pairs : list (bytes * bytes); vd_enums : list enumdecl;
                          vd_tables : list vtable }.

  Definition vsval_typed (t : btype) (v : vsval) : bool :=
    match t, v with
    | (TShort | TInt | TLong), VInt _ => true
    | (TFloat | TDouble), VFlt _ => true
    | TChar _, VStr _ => true
    | _, _ => false
    end.
  Definition vcell_typed (t : btype) (c : vcell) : bool :=
    match c with VSc v => vsval_typed t v | VAr l => forallb (vsval_typed t) l end.
  Fixpoint vrow_typed (cols : list column) (r : list vcell) : bool :=
    match cols, r with
    | [], [] => true
    | c :: cols', x :: r' => vcell_typed (c_type c) x && vrow_typed cols' r'
    | _, _ => false
    end.
  Definition vtable_typed (t : vtable) : bool := forallb (vrow_typed (vt_cols t)) (vt_rows t).

  (* what the writer is given: the value printed *)
  Definition txt_sval (t : btype) (v : vsval) : sval :=
    match v with VInt z => SInt z | VStr s => STok s | VFlt x => STok (show_f t x) end.
  Definition txt_cell (t : btype) (c : vcell) : cell :=
    match c with VSc v => Sc (txt_sval t v) | VAr l => Ar (map (txt_sval t) l) end.
  Fixpoint txt_row (cols : list column) (r : list vcell) : list cell :=
    match cols, r with c :: cols', x :: r' => txt_cell (c_type c) x :: txt_row cols' r' | _, _ => [] end.
  Definition txt_table (t : vtable) : table := mktable (vt_name t) (vt_cols t) (map (txt_row (vt_cols t)) (vt_rows t)).
  Definition txt_doc (d : vdoc) : doc := mkdoc (vd_comments d) (vd_pairs d) (vd_enums d) (map txt_table (vd_tables d)).

  (* what the user gets back: the text of a float column read as a value *)
  Definition val_sval (k : npk) (v : sval) : option vsval :=
    match k, v with
    | (NI2 | NI4 | NI8), SInt z => Some (VInt z)
    | NF4, STok t => option_map VFlt (parse_f TFloat t)
    | NF8, STok t => option_map VFlt (parse_f TDouble t)
    | NS _, STok s => Some (VStr s)
    | _, _ => None
    end.
  Definition val_cell (k : npk) (c : cell) : option vcell :=
    match c with Sc v => option_map VSc (val_sval k v) | Ar l => option_map VAr (omap (val_sval k) l) end.
  Fixpoint val_row (cols : list pcol) (r : list cell) : option (list vcell) :=
    match cols, r with
    | [], [] => Some []
    | c :: cols', x :: r' =>
        match val_cell (pc_np c) x, val_row cols' r' with Some y, Some ys => Some (y :: ys) | _, _ => None end
    | _, _ => None
    end.
  Definition val_table (t : ptable) : option (list (list vcell)) := omap (val_row (pt_cols t)) (pt_rows t).

  (* hypothesis 1 discharges the domain condition of every float cell *)
  Lemma float_cell_in_domain es c inarr x : c_type c = TFloat \/ c_type c = TDouble ->
    sval_ok es c inarr (txt_sval (c_type c) (VFlt x)) = true.
  Proof. intros [E|E]; unfold sval_ok; rewrite E; cbn [txt_sval]; apply show_bare. Qed.

  (* hypothesis 2 gives the value back *)
  Lemma val_txt_sval es c k v : np_of es c = Some k -> vsval_typed (c_type c) v = true ->
    val_sval k (txt_sval (c_type c) v) = Some v.
  Proof.
    unfold np_of. destruct (c_type c) eqn:E; destruct v; cbn [vsval_typed]; intros Hk Ht; try discriminate;
      try (inversion Hk; subst k; cbn [txt_sval val_sval]; try rewrite parse_show; reflexivity).
    destruct (enum_for (c_name c) es); inversion Hk; reflexivity.
  Qed.

  Lemma val_txt_cell es c k x : np_of es c = Some k -> vcell_typed (c_type c) x = true ->
    val_cell k (txt_cell (c_type c) x) = Some x.
  Proof.
    intros Hk Ht. destruct x as [v|l]; cbn [txt_cell val_cell vcell_typed] in *.
    - now rewrite (val_txt_sval es c k v Hk Ht).
    - assert (E : omap (val_sval k) (map (txt_sval (c_type c)) l) = Some l).
      { induction l as [|v l IH]; [reflexivity|]. cbn [forallb] in Ht. apply andb_true_iff in Ht as [H1 H2].
        cbn [map omap]. rewrite (val_txt_sval es c k v Hk H1), (IH H2). reflexivity. }
      now rewrite E.
  Qed.

  Lemma val_txt_row es : forall cols pcols r, omap (sem_col es) cols = Some pcols -> vrow_typed cols r = true ->
    val_row pcols (txt_row cols r) = Some r.
  Proof.
    induction cols as [|c cols IH]; intros pcols r Hc Ht.
    - cbn [omap] in Hc. inversion Hc; subst. destruct r; [reflexivity|discriminate].
    - destruct r as [|x r]; [discriminate|]. cbn [vrow_typed] in Ht. apply andb_true_iff in Ht as [H1 H2].
      cbn [omap] in Hc. destruct (sem_col es c) as [pc|] eqn:Ec; [|discriminate].
      destruct (omap (sem_col es) cols) as [pcs|] eqn:Ecs; [|discriminate]. inversion Hc; subst pcols.
      cbn [txt_row val_row]. unfold sem_col in Ec. destruct (ctype_word es c); [|discriminate].
      destruct (np_of es c) as [k|] eqn:Ek; [|discriminate]. inversion Ec; subst pc. cbn [pc_np].
      rewrite (val_txt_cell es c k x Ek H1), (IH pcs r eq_refl H2). reflexivity.
  Qed.

  Lemma val_txt_table es t pt : sem_table es (txt_table t) = Some pt -> vtable_typed t = true -> val_table pt = Some (vt_rows t).
  Proof.
    unfold sem_table, txt_table. cbn [t_cols t_name t_rows]. destruct (omap (sem_col es) (vt_cols t)) as [pcols|] eqn:E; [|discriminate].
    cbn [option_map]. intros H Ht. inversion H; subst pt. unfold val_table. cbn [pt_cols pt_rows].
    unfold vtable_typed in Ht. clear H. revert Ht. generalize (vt_rows t) as rows.
    induction rows as [|r rs IH]; intros Ht; [reflexivity|]. cbn [forallb] in Ht.
    apply andb_true_iff in Ht as [H1 H2]. cbn [map omap]. rewrite (val_txt_row es _ pcols r E H1), (IH H2). reflexivity.
  Qed.

  (* THE ROUND TRIP WITH FLOAT VALUES: a document holding integer, string and floating-point values is written (floats
     through show_f) and read back; every table read back through parse_f holds the original values, floats bit for bit *)
  Theorem file_roundtrip_floats (d : vdoc) :
    doc_ok (txt_doc d) = true -> forallb vtable_typed (vd_tables d) = true ->
    exists b p, render_checked (txt_doc d) = Some b /\ parse b = Some p /\ parse_binary b = Some p /\
                pd_pairs p = vd_pairs d /\ omap val_table (pd_tables p) = Some (map vt_rows (vd_tables d)).
  Proof.
    intros Hd Ht. destruct (file_roundtrip (txt_doc d) Hd) as [b [p [R [S [P1 P2]]]]]. exists b, p.
    repeat (split; [assumption|]). unfold sem in S. cbn [txt_doc d_enums d_tables d_pairs] in S.
    destruct (omap (render_struct (vd_enums d)) (map txt_table (vd_tables d))); [|discriminate].
    destruct (omap (sem_table (vd_enums d)) (map txt_table (vd_tables d))) as [tabs|] eqn:E; [|discriminate].
    inversion S; subst p. cbn [pd_pairs pd_tables]. split; [reflexivity|].
    clear -E Ht parse_show. revert tabs E. induction (vd_tables d) as [|t ts IH]; intros tabs E.
    - cbn [map omap] in E. inversion E. reflexivity.
    - cbn [forallb] in Ht. apply andb_true_iff in Ht as [H1 H2]. cbn [map omap] in E.
      destruct (sem_table (vd_enums d) (txt_table t)) as [pt|] eqn:Et; [|discriminate].
      destruct (omap (sem_table (vd_enums d)) (map txt_table ts)) as [pts|] eqn:Ets; [|discriminate]. inversion E; subst tabs.
      cbn [map omap]. rewrite (val_txt_table _ t pt Et H1), (IH H2 pts eq_refl). reflexivity.
  Qed.
End FloatOracle.
