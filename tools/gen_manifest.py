#!/usr/bin/env python3
"""Regenerate /verif/MANIFEST.json from harness/registry.py (keeps it valid at all times)."""
import json
import os
import sys

HERE = os.path.dirname(os.path.dirname(os.path.abspath(__file__)))
sys.path.insert(0, HERE)
from harness.registry import CHECKS, NOT_APPLICABLE  # noqa: E402

props = [json.loads(l) for l in open(os.path.join(HERE, 'properties.jsonl'))]
checks = []
na = []
for p in props:
    pid = p['id']
    if pid in CHECKS:
        c = CHECKS[pid]
        checks.append({
            'property_id': pid,
            'quick_cmd': './check %s --tier quick' % pid,
            'thorough_cmd': './check %s --tier thorough' % pid,
            'evidence_file': '/verif/evidence/%s.json' % pid,
            'replay_cmd_template': './check %s --replay {path}' % pid,
            'engine': 'coq+harness',
            'level_claimed': {'category': c.get('category', 'proof'), 'text': c['text'], 'design_ref': c['design_ref']},
            'level_note': c['note'],
            'technique': c['technique'],
        })
    else:
        na.append({'property_id': pid, 'reason': NOT_APPLICABLE.get(pid, 'not claimed yet: machinery for this property is not built in this round (see DESIGN.md status table)')})
m = {
    'version': 1,
    'setup_cmd': 'cd /verif && ./setup.sh',
    'hooks': {
        'guard': 'PYDL_VERIF',
        'enable': 'none needed: no hook commits in /repo; the harness observes pydl from its own process (PYTHONPATH=/repo)',
        'baseline_off_cmd': 'cd /repo && /venv/bin/python -m pytest -ra -q -p no:cacheprovider --timeout=900 --continue-on-collection-errors',
        'source_commits': [],
        'add_only': True,
    },
    'engines': [
        {'name': 'coq', 'path': 'coq/', 'serves_properties': sorted(CHECKS), 'kind_free_text': 'Coq 8.16.1 development: Lib (shared lemmas), Generated (translator output), Cxx/Model.v (executable models), Cxx/Proofs.v, Cxx/Props.v (property theorems + Print Assumptions)'},
        {'name': 'translate', 'path': 'translate/', 'serves_properties': sorted(CHECKS), 'kind_free_text': 'fail-closed Python-ast extractors regenerating coq/Generated/*.v from /repo on every run'},
        {'name': 'harness', 'path': 'harness/', 'serves_properties': sorted(CHECKS), 'kind_free_text': 'correspondence check: runs /repo implementation and the Coq models (vm_compute) on the same generated inputs, certified spec checkers decide failing inputs; evidence/replay/known-findings'},
    ],
    'checks': checks,
    'not_applicable': na,
    'notes': 'Technique family: machine-checked proof in Coq. Every check = static gate + translator + full proof rebuild (Print Assumptions captured) + correspondence. See DESIGN.md.',
}
with open(os.path.join(HERE, 'MANIFEST.json'), 'w') as f:
    json.dump(m, f, indent=1)
print('claimed:', [c['property_id'] for c in checks])
