(* C20: the trace matcher is complete for the operational semantics: the sequence of os.environ operations
   performed by ANY execution of a program (any schedule, any initial state) is accepted, with the outcome
   class of that execution.  Hence `accepts p tr raised = false` on an observed run means the run is NOT a
   behaviour of the skeleton p -- the translator's output does not cover the code. *)
From Coq Require Import List Bool Arith Lia.
Import ListNotations.
From PV Require Import C20.Model.

Definition cmem (c : conf) (l : list conf) : Prop := existsb (conf_eqb c) l = true.

Lemma oc_eqb_refl o : oc_eqb o o = true.
Proof. destruct o; reflexivity. Qed.
Lemma oc_eqb_eq a b : oc_eqb a b = true -> a = b.
Proof. destruct a, b; simpl; congruence. Qed.

Lemma conf_eqb_refl c : conf_eqb c c = true.
Proof. unfold conf_eqb. rewrite Nat.eqb_refl, oc_eqb_refl. reflexivity. Qed.

Lemma conf_eqb_spec a b : conf_eqb a b = true <-> length (fst a) = length (fst b) /\ snd a = snd b.
Proof.
  unfold conf_eqb. rewrite andb_true_iff, Nat.eqb_eq. split; intros [H1 H2]; split; auto.
  - apply oc_eqb_eq; exact H2.
  - rewrite H2. apply oc_eqb_refl.
Qed.

Lemma conf_eqb_trans a b c : conf_eqb a b = true -> conf_eqb b c = true -> conf_eqb a c = true.
Proof. rewrite !conf_eqb_spec. intros [H1 H2] [H3 H4]. split; congruence. Qed.

Lemma cmem_iff c l : cmem c l <-> exists x, In x l /\ conf_eqb c x = true.
Proof. unfold cmem. apply existsb_exists. Qed.

Lemma cmem_here c l : cmem c (c :: l).
Proof. unfold cmem. simpl. rewrite conf_eqb_refl. reflexivity. Qed.

Lemma cmem_app_l c l1 l2 : cmem c l1 -> cmem c (l1 ++ l2).
Proof. rewrite !cmem_iff. intros [x [H1 H2]]. exists x. split; auto. apply in_or_app; auto. Qed.
Lemma cmem_app_r c l1 l2 : cmem c l2 -> cmem c (l1 ++ l2).
Proof. rewrite !cmem_iff. intros [x [H1 H2]]. exists x. split; auto. apply in_or_app; auto. Qed.

Lemma dedup_incl l : forall x, In x (dedup l) -> In x l.
Proof.
  induction l as [|h l IH]; simpl; intros x H; [exact H|].
  destruct (existsb (conf_eqb h) (dedup l)); [right; apply IH; exact H|].
  destruct H as [->|H]; [left; reflexivity | right; apply IH; exact H].
Qed.

Lemma dedup_cmem c l : cmem c l -> cmem c (dedup l).
Proof.
  rewrite !cmem_iff. intros [x [Hin Hx]]. induction l as [|h l IH]; [contradiction|].
  simpl. destruct (existsb (conf_eqb h) (dedup l)) eqn:Q.
  - destruct Hin as [->|Hin]; [|apply IH; exact Hin].
    apply existsb_exists in Q. destruct Q as [y [Hy1 Hy2]]. exists y. split; [exact Hy1|].
    eapply conf_eqb_trans; eauto.
  - destruct Hin as [->|Hin].
    + exists x. split; [left; reflexivity | exact Hx].
    + destruct (IH Hin) as [y [Hy1 Hy2]]. exists y. split; [right; exact Hy1 | exact Hy2].
Qed.

(* ---------- every configuration of the matcher holds a suffix of the input trace ---------- *)

Definition suffix_of (r t : list ev) : Prop := exists pre, t = pre ++ r.

Lemma suffix_refl t : suffix_of t t.
Proof. exists []. reflexivity. Qed.
Lemma suffix_trans a b c : suffix_of a b -> suffix_of b c -> suffix_of a c.
Proof. intros [p1 ->] [p2 ->]. exists (p2 ++ p1). rewrite app_assoc. reflexivity. Qed.
Lemma suffix_tl e t : suffix_of t (e :: t).
Proof. exists [e]. reflexivity. Qed.

Lemma suffix_same_length r1 r2 t : suffix_of r1 t -> suffix_of r2 t -> length r1 = length r2 -> r1 = r2.
Proof.
  intros [p1 E1] [p2 E2] L. subst t.
  assert (Lp : length p1 = length p2).
  { apply (f_equal (@length ev)) in E2. rewrite !app_length in E2. lia. }
  revert p2 E2 Lp. induction p1 as [|a p1 IH]; intros [|b p2] E2 Lp; simpl in *; try discriminate.
  - exact E2.
  - inversion E2; subst. eapply IH; eauto.
Qed.

Lemma expect_suffix tr alts r o : In (r, o) (expect tr alts) -> suffix_of r tr.
Proof.
  destruct tr as [|e tr]; simpl; [contradiction|]. intros H. apply in_flat_map in H.
  destruct H as [ao [_ H]]. destruct (ev_eqb e (fst ao)); [|contradiction].
  destruct H as [H|[]]. inversion H; subst. apply suffix_tl.
Qed.

Lemma mstep_suffix i tr r o : In (r, o) (mstep i tr) -> suffix_of r tr.
Proof.
  destruct i; simpl; intros H;
    try (eapply expect_suffix; eassumption);
    try (destruct H as [H|H]; [inversion H; subst; apply suffix_refl | eapply expect_suffix; eassumption]).
  destruct H as [H|[H|[]]]; inversion H; subst; apply suffix_refl.
Qed.

Lemma mrun_suffix p : forall tr r o, In (r, o) (mrun p tr) -> suffix_of r tr.
Proof.
  induction p; intros tr r o H; simpl in H.
  - destruct H as [H|[]]. inversion H; subst. apply suffix_refl.
  - eapply mstep_suffix; eauto.
  - unfold mbind in H. apply dedup_incl in H. apply in_flat_map in H. destruct H as [[r1 o1] [H1 H2]].
    simpl in H2. destruct (oc_eqb o1 N).
    + eapply suffix_trans; [eapply IHp2; eauto | eapply IHp1; eauto].
    + destruct H2 as [H2|[]]. inversion H2; subst. eapply IHp1; eauto.
  - apply dedup_incl in H. apply in_app_or in H. destruct H; [eapply IHp1 | eapply IHp2]; eauto.
  - apply dedup_incl in H. apply in_flat_map in H. destruct H as [[r1 o1] [H1 H2]].
    apply in_map_iff in H2. destruct H2 as [[r2 o2] [E H2]]. simpl in E. inversion E; subst.
    eapply suffix_trans; [eapply IHp2; eauto | eapply IHp1; eauto].
  - apply dedup_incl in H. apply in_app_or in H. destruct H as [H|H]; [eapply IHp1; eauto|].
    apply in_flat_map in H. destruct H as [[r1 o1] [H1 H2]]. simpl in H2.
    destruct o1; try contradiction.
    eapply suffix_trans; [eapply IHp2; eauto | eapply IHp1; eauto].
  - apply dedup_incl in H. apply in_map_iff in H. destruct H as [[r1 o1] [E H]]. simpl in E. inversion E; subst.
    eapply IHp; eauto.
  - destruct H as [H|[]]. inversion H; subst. apply suffix_refl.
  - destruct H as [H|[]]. inversion H; subst. apply suffix_refl.
Qed.

(* from "some configuration with this length and outcome" to "this very configuration" *)
Lemma cmem_exact p tr k o : cmem (k, o) (mrun p tr) -> suffix_of k tr -> In (k, o) (mrun p tr).
Proof.
  intros H Hk. apply cmem_iff in H. destruct H as [[r o'] [Hin Heq]].
  apply conf_eqb_spec in Heq. simpl in Heq. destruct Heq as [L ->].
  assert (r = k) by (symmetry; eapply suffix_same_length; eauto; eapply mrun_suffix; eauto).
  subst. exact Hin.
Qed.

(* ---------- single instructions ---------- *)

Lemma ev_eqb_refl e : ev_eqb e e = true.
Proof. destruct e; simpl; rewrite ?Nat.eqb_refl, ?eqb_reflx; reflexivity. Qed.

Lemma expect_hit e k alts o : In (e, o) alts -> cmem (k, o) (expect (e :: k) alts).
Proof.
  intros H. apply cmem_iff. exists (k, o). split; [|apply conf_eqb_refl].
  simpl. apply in_flat_map. exists (e, o). split; [exact H|]. simpl. rewrite ev_eqb_refl. left; reflexivity.
Qed.

Lemma cmem_cons c x l : cmem c l -> cmem c (x :: l).
Proof. unfold cmem. simpl. intros ->. apply orb_true_r. Qed.

Lemma mstep_complete i sc st st' o sc' k :
  step i sc st = (st', o, sc') -> cmem (k, o) (mstep i (step_ev i st ++ k)).
Proof.
  destruct st as [e sl]. intros H.
  destruct i; simpl in H |- *;
    repeat match type of H with
           | context[match ?x with _ => _ end] => destruct x eqn:?
           end;
    inversion H; subst; simpl;
    rewrite ?Nat.eqb_refl; simpl;
    repeat match goal with |- context[is_some ?x] => destruct (is_some x) end; simpl;
    unfold cmem; simpl; rewrite ?conf_eqb_refl; simpl; rewrite ?orb_true_r; reflexivity.
Qed.

(* ---------- the theorem ---------- *)

Theorem mrun_complete p : forall sc st st' o sc' k,
  exec p sc st = (st', o, sc') -> cmem (k, o) (mrun p (exec_ev p sc st ++ k)).
Proof.
  induction p; intros sc st st' o sc' k H; simpl in H |- *.
  - inversion H; subst. apply cmem_here.
  - eapply mstep_complete; eauto.
  - (* Seq *)
    destruct (exec p1 sc st) as [[st1 o1] sc1] eqn:E1.
    unfold mbind. apply dedup_cmem. rewrite <- app_assoc.
    destruct o1.
    + pose proof (IHp1 _ _ _ _ _ (exec_ev p2 sc1 st1 ++ k) E1) as C1.
      apply cmem_exact in C1; [|eexists; reflexivity].
      pose proof (IHp2 _ _ _ _ _ k H) as C2.
      apply cmem_iff in C2. destruct C2 as [y [Hy1 Hy2]].
      apply cmem_iff. exists y. split; [|exact Hy2].
      apply in_flat_map. eexists. split; [exact C1|]. simpl. exact Hy1.
    + inversion H; subst. pose proof (IHp1 _ _ _ _ _ ([] ++ k) E1) as C1.
      apply cmem_exact in C1; [|eexists; reflexivity]. simpl in C1.
      apply cmem_iff. exists (k, E). split; [|apply conf_eqb_refl].
      apply in_flat_map. eexists. split; [exact C1|]. simpl. left; reflexivity.
    + inversion H; subst. pose proof (IHp1 _ _ _ _ _ ([] ++ k) E1) as C1.
      apply cmem_exact in C1; [|eexists; reflexivity]. simpl in C1.
      apply cmem_iff. exists (k, R). split; [|apply conf_eqb_refl].
      apply in_flat_map. eexists. split; [exact C1|]. simpl. left; reflexivity.
  - (* Choice *)
    destruct (pop sc) as [b sc1]. apply dedup_cmem.
    destruct b; [apply cmem_app_l; eapply IHp1 | apply cmem_app_r; eapply IHp2]; eauto.
  - (* TryFinally *)
    destruct (exec p1 sc st) as [[st1 o1] sc1] eqn:E1.
    destruct (exec p2 sc1 st1) as [[st2 o2] sc2] eqn:E2.
    apply dedup_cmem. rewrite <- app_assoc.
    pose proof (IHp1 _ _ _ _ _ (exec_ev p2 sc1 st1 ++ k) E1) as C1.
    apply cmem_exact in C1; [|eexists; reflexivity].
    pose proof (IHp2 _ _ _ _ _ k E2) as C2.
    apply cmem_exact in C2; [|eexists; reflexivity].
    apply cmem_iff. exists (k, o). split; [|apply conf_eqb_refl].
    apply in_flat_map. eexists. split; [exact C1|]. simpl.
    apply in_map_iff. exists (k, o2). split; [|exact C2]. simpl.
    destruct o2; inversion H; subst; reflexivity.
  - (* TryExcept *)
    destruct (exec p1 sc st) as [[st1 o1] sc1] eqn:E1.
    apply dedup_cmem. rewrite <- app_assoc.
    destruct o1.
    + inversion H; subst. apply cmem_app_l. rewrite app_nil_l. eapply IHp1; eauto.
    + destruct (pop sc1) as [b sc2]. destruct b.
      * apply cmem_app_r.
        pose proof (IHp1 _ _ _ _ _ (exec_ev p2 sc2 st1 ++ k) E1) as C1.
        apply cmem_exact in C1; [|eexists; reflexivity].
        pose proof (IHp2 _ _ _ _ _ k H) as C2.
        apply cmem_iff in C2. destruct C2 as [y [Hy1 Hy2]].
        apply cmem_iff. exists y. split; [|exact Hy2].
        apply in_flat_map. eexists. split; [exact C1|]. simpl. exact Hy1.
      * inversion H; subst. apply cmem_app_l. rewrite app_nil_l. eapply IHp1; eauto.
    + inversion H; subst. apply cmem_app_l. rewrite app_nil_l. eapply IHp1; eauto.
  - (* Scope *)
    destruct (exec p sc st) as [[st1 o1] sc1] eqn:E1. inversion H; subst.
    apply dedup_cmem. pose proof (IHp _ _ _ _ _ k E1) as C1.
    apply cmem_iff in C1. destruct C1 as [[r o2] [Hin Heq]].
    apply conf_eqb_spec in Heq. simpl in Heq. destruct Heq as [L <-].
    apply cmem_iff. exists (r, match o1 with R => N | o => o end). split.
    + apply in_map_iff. exists (r, o1). split; [destruct o1; reflexivity | exact Hin].
    + apply conf_eqb_spec. simpl. split; [exact L | reflexivity].
  - inversion H; subst. apply cmem_here.
  - inversion H; subst. apply cmem_here.
Qed.

(* the matcher accepts the trace of every execution, with the right outcome class *)
Theorem accepts_complete p sc st st' o sc' :
  exec p sc st = (st', o, sc') ->
  accepts p (exec_ev p sc st) (match o with E => true | _ => false end) = true.
Proof.
  intros H. pose proof (mrun_complete p _ _ _ _ _ [] H) as C. rewrite app_nil_r in C.
  unfold accepts. apply cmem_iff in C. destruct C as [[r o'] [Hin Heq]].
  apply conf_eqb_spec in Heq. simpl in Heq. destruct Heq as [L <-].
  apply existsb_exists. exists (r, o). split; [exact Hin|]. simpl.
  destruct r; [|simpl in L; discriminate]. destruct o; reflexivity.
Qed.
