(* C01/GenWriter.v -- write_ndarray_to_yanny's glue over the code GENERATED from yanny.py (Generated/YannyWriter.v): the enums=
   dictionary of a document, the numpy type code and array length of a column, one dtype_to_struct call per table, the cells
   as write() sees them, and gen_render = the whole writer.  DEFINITIONS ONLY; C01/Bridge.v proves gen_render = render_checked.
   (Kept apart from the proofs so that the correspondence run can still evaluate the models when a bridge obligation breaks.) *)
From Coq Require Import String.
From Coq Require Import NArith ZArith List Bool.
Import ListNotations.
From PV Require Import Yanny.Bytes Yanny.Types Yanny.Render C01.PyRt Generated.YannyWriter.
Open Scope N_scope.

(* ---- the enums= dictionary ---- *)
Definition enums_dict (es : list enumdecl) : list (bytes * (bytes * list bytes)) :=
  map (fun e => (e_col e, (e_tname e, e_labels e))) es.

Definition arr_len (c : column) : N := match c_arr c with Some l => l | None => 0 end.
(* the numpy type code dt[c].str[1:] of a column: np_code, or the U variant of a character column *)
Definition code_of (unicode : bool) (t : btype) : bytes :=
  match t with TChar w => (if unicode then 85 else 83) :: show_N w | _ => np_code t end.
(* types the writer can be handed: not the reader-only char[]; an unsupported code is not a character code *)
Definition wtype_ok (t : btype) : bool :=
  match t with TCharU => false | TUnsup code => negb (py_head_in code (bs "SU"%string)) | _ => true end.

Definition gen_struct_of (es : list enumdecl) (t : table) : option bytes :=
  option_map (gen_struct_text (t_name t))
    (omap (fun c => gen_decl_line (enums_dict es) (c_name c) (code_of false (c_type c)) (arr_len c)) (t_cols t)).

Definition gcell (c : cell) : bool * list bytes * bytes :=
  match c with Sc v => (false, [], show_sval v) | Ar l => (true, map show_sval l, []) end.

Definition gen_render (d : doc) : option bytes :=
  match omap (gen_struct_of (d_enums d)) (d_tables d) with
  | None => None            (* dtmap[t] raised KeyError: unsupported column type, nothing is written *)
  | Some structs =>
      Some (gen_write (gen_comments_list (d_comments d)) (d_pairs d)
              (map (fun e => gen_enum_text (e_tname e) (e_labels e)) (d_enums d)) structs
              (map (fun t => (gen_table_key (t_name t), map (map gcell) (t_rows t))) (d_tables d)))
  end.
Definition writer_types_ok (d : doc) : bool :=
  forallb (fun t => forallb (fun c => wtype_ok (c_type c)) (t_cols t)) (d_tables d).

Definition default_names (n : nat) : list bytes := map (fun k => gen_default_name (N.of_nat k)) (seq 0 n).
