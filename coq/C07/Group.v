(* C07 proofs, part 2: one group {LABEL -> bit}.  uint64 accumulation = OR, bit scan = sorted defined bits,
   and the two round trips, for every well-formed group. *)
From Coq Require Import ZArith List Bool Lia Sorting.Permutation Sorting.Sorted.
Import ListNotations.
From PV Require Import C07.Model C07.Dict.
Open Scope Z_scope.

Definition wf_group (d : group) : Prop :=
  NoDup (map fst d) /\ NoDup (map snd d) /\ Forall (fun lb => 0 <= snd lb < 64) d.

(* ------------------------------------------------------------------ generic list facts *)

Lemma NoDup_map_inj {A B} (f : A -> B) l x y : NoDup (map f l) -> In x l -> In y l -> f x = f y -> x = y.
Proof.
  induction l as [|a l IH]; cbn [map]; intros Hnd Hx Hy E; [destruct Hx|].
  inversion Hnd as [|? ? Hnotin Hnd']; subst.
  destruct Hx as [Hx|Hx], Hy as [Hy|Hy]; subst.
  - reflexivity.
  - exfalso. apply Hnotin. rewrite E. apply in_map. exact Hy.
  - exfalso. apply Hnotin. rewrite <- E. apply in_map. exact Hx.
  - apply IH; assumption.
Qed.

Lemma NoDup_map_filter {A B} (f : A -> B) p l : NoDup (map f l) -> NoDup (map f (filter p l)).
Proof.
  induction l as [|a l IH]; cbn [map filter]; intros Hnd; [constructor|].
  inversion Hnd as [|? ? Hnotin Hnd']; subst.
  destruct (p a); [|apply IH; exact Hnd'].
  cbn [map]. constructor; [|apply IH; exact Hnd'].
  intros Hin. apply Hnotin. apply in_map_iff in Hin. destruct Hin as (y & Hy & Hyin).
  apply filter_In in Hyin. apply in_map_iff. exists y. split; [exact Hy|apply Hyin].
Qed.

Lemma filter_sorted {A} (R : A -> A -> Prop) p l : StronglySorted R l -> StronglySorted R (filter p l).
Proof.
  induction 1 as [|a l Hs IH Hf]; cbn [filter]; [constructor|].
  destruct (p a); [|exact IH]. constructor; [exact IH|].
  rewrite Forall_forall in *. intros x Hx. apply filter_In in Hx. apply Hf. apply Hx.
Qed.

Lemma find_exists {A} (p : A -> bool) l x : In x l -> p x = true -> exists y, find p l = Some y.
Proof.
  intros Hin Hp. destruct (find p l) as [y|] eqn:E; [exists y; reflexivity|].
  pose proof (find_none p l E x Hin). congruence.
Qed.

Lemma zseq_In n : forall lo x, In x (zseq lo n) <-> lo <= x < lo + Z.of_nat n.
Proof.
  induction n as [|n IH]; intros lo x; cbn [zseq In].
  - lia.
  - rewrite IH. lia.
Qed.

Lemma zseq_sorted n : forall lo, StronglySorted Z.lt (zseq lo n).
Proof.
  induction n as [|n IH]; intros lo; cbn [zseq]; constructor; [apply IH|].
  apply Forall_forall. intros x Hx. apply zseq_In in Hx. lia.
Qed.

(* ------------------------------------------------------------------ bits *)

Lemma or_bits_cons b bs : or_bits (b :: bs) = Z.lor (2 ^ b) (or_bits bs).
Proof. reflexivity. Qed.

Lemma or_bits_nonneg bs : Forall (fun b => 0 <= b) bs -> 0 <= or_bits bs.
Proof.
  induction 1 as [|b bs Hb _ IH]; [cbn; lia|].
  rewrite or_bits_cons. apply Z.lor_nonneg. split; [apply Z.pow_nonneg; lia|exact IH].
Qed.

Lemma or_bits_testbit bs n : Forall (fun b => 0 <= b) bs ->
  Z.testbit (or_bits bs) n = existsb (fun b => b =? n) bs.
Proof.
  induction 1 as [|b bs Hb _ IH]; [cbn [or_bits fold_right existsb]; apply Z.bits_0|].
  rewrite or_bits_cons, Z.lor_spec, Z.pow2_bits_eqb by exact Hb. cbn [existsb]. rewrite IH. reflexivity.
Qed.

Lemma add_pow2_disjoint acc b : 0 <= b -> Z.testbit acc b = false -> acc + 2 ^ b = Z.lor acc (2 ^ b).
Proof.
  intros Hb Ht.
  assert (Z.land acc (2 ^ b) = 0) as H0.
  { apply Z.bits_inj'. intros n Hn. rewrite Z.land_spec, Z.bits_0, Z.pow2_bits_eqb by exact Hb.
    destruct (Z.eqb_spec b n); [subst; rewrite Ht; reflexivity|apply andb_false_r]. }
  rewrite (Z.add_nocarry_lxor _ _ H0). apply Z.lxor_lor. exact H0.
Qed.

Lemma bits_above_lt x : 0 <= x -> (forall n, 64 <= n -> Z.testbit x n = false) -> x < 2 ^ 64.
Proof.
  intros Hx Hb. destruct (Z_lt_le_dec x (2 ^ 64)) as [H|H]; [exact H|].
  assert (0 < x) as Hpos by lia.
  assert (64 <= Z.log2 x) as Hl by (apply Z.log2_le_pow2; [exact Hpos|exact H]).
  pose proof (Z.bit_log2 x Hpos) as Hbit. rewrite Hb in Hbit by exact Hl. discriminate.
Qed.

Lemma or_bits_lt bs : Forall (fun b => 0 <= b < 64) bs -> 0 <= or_bits bs < 2 ^ 64.
Proof.
  intros H.
  assert (Forall (fun b => 0 <= b) bs) as H0 by (eapply Forall_impl; [|exact H]; cbn; intros; lia).
  split; [apply or_bits_nonneg; exact H0|].
  apply bits_above_lt; [apply or_bits_nonneg; exact H0|].
  intros n Hn. rewrite or_bits_testbit by exact H0.
  destruct (existsb (fun b => b =? n) bs) eqn:E; [|reflexivity].
  apply existsb_exists in E. destruct E as (b & Hin & Eb). apply Z.eqb_eq in Eb. subst.
  rewrite Forall_forall in H. specialize (H n Hin). lia.
Qed.

(* the uint64 accumulation of sdss_flagval *)
Definition sum_mod (bs : list Z) (acc : Z) : Z :=
  fold_left (fun a b => (a + (2 ^ b) mod two64) mod two64) bs acc.

Lemma sum_mod_cons b bs acc : sum_mod (b :: bs) acc = sum_mod bs ((acc + (2 ^ b) mod two64) mod two64).
Proof. reflexivity. Qed.

(* distinct bits below 64: no carry, no wrap -- the sum IS the OR *)
Lemma sum_mod_or bs : forall acc,
  NoDup bs -> Forall (fun b => 0 <= b < 64) bs ->
  0 <= acc -> (forall n, 64 <= n -> Z.testbit acc n = false) ->
  (forall b, In b bs -> Z.testbit acc b = false) ->
  sum_mod bs acc = Z.lor acc (or_bits bs).
Proof.
  induction bs as [|b bs IH]; intros acc Hnd Hr Hacc Hhi Hfree.
  - cbn. rewrite Z.lor_0_r. reflexivity.
  - inversion Hnd as [|? ? Hnotin Hnd']; subst. inversion Hr as [|? ? Hb Hr']; subst.
    rewrite sum_mod_cons. unfold two64.
    assert (0 <= 2 ^ b < 2 ^ 64) as Hp.
    { split; [apply Z.pow_nonneg; lia|apply Z.pow_lt_mono_r; lia]. }
    rewrite (Z.mod_small (2 ^ b)) by exact Hp.
    rewrite add_pow2_disjoint by (try lia; apply Hfree; left; reflexivity).
    set (acc' := Z.lor acc (2 ^ b)).
    assert (0 <= acc') as Hacc' by (apply Z.lor_nonneg; split; [exact Hacc|lia]).
    assert (Hhi' : forall n, 64 <= n -> Z.testbit acc' n = false).
    { intros n Hn. unfold acc'. rewrite Z.lor_spec, Hhi by exact Hn. rewrite Z.pow2_bits_eqb by lia.
      destruct (Z.eqb_spec b n); [lia|reflexivity]. }
    rewrite Z.mod_small by (split; [exact Hacc'|apply bits_above_lt; assumption]).
    fold two64. rewrite IH; try assumption.
    + rewrite or_bits_cons. unfold acc'. rewrite Z.lor_assoc. reflexivity.
    + intros c Hc. unfold acc'. rewrite Z.lor_spec, Hfree by (right; exact Hc).
      rewrite Z.pow2_bits_eqb by lia. destruct (Z.eqb_spec b c); [subst; contradiction|reflexivity].
Qed.

(* ------------------------------------------------------------------ sdss_flagval on one group *)

Lemma bits_of_cons d l ls : bits_of d (l :: ls) =
  match dget l d, bits_of d ls with Some b, Some r => Some (b :: r) | _, _ => None end.
Proof. reflexivity. Qed.

Lemma bits_of_In d ls : forall bs, bits_of d ls = Some bs ->
  forall b, In b bs -> exists l, In l ls /\ dget l d = Some b.
Proof.
  induction ls as [|l ls IH]; intros bs H b Hb.
  - inversion H; subst. destruct Hb.
  - rewrite bits_of_cons in H. destruct (dget l d) as [b0|] eqn:E; [|discriminate].
    destruct (bits_of d ls) as [r|] eqn:E2; [|discriminate]. inversion H; subst.
    destruct Hb as [Hb|Hb].
    + subst. exists l. split; [left; reflexivity|exact E].
    + destruct (IH r eq_refl b Hb) as (l' & Hl' & Hg). exists l'. split; [right; exact Hl'|exact Hg].
Qed.

Lemma bits_of_all d ls : forall bs, bits_of d ls = Some bs ->
  forall l, In l ls -> exists b, dget l d = Some b /\ In b bs.
Proof.
  induction ls as [|l ls IH]; intros bs H l0 Hl; [destruct Hl|].
  rewrite bits_of_cons in H. destruct (dget l d) as [b0|] eqn:E; [|discriminate].
  destruct (bits_of d ls) as [r|] eqn:E2; [|discriminate]. inversion H; subst.
  destruct Hl as [Hl|Hl].
  - subst. exists b0. split; [exact E|left; reflexivity].
  - destruct (IH r eq_refl l0 Hl) as (b & Hg & Hb). exists b. split; [exact Hg|right; exact Hb].
Qed.

Lemma bits_of_None d ls : bits_of d ls = None -> exists l, In l ls /\ dget l d = None.
Proof.
  induction ls as [|l ls IH]; [discriminate|].
  rewrite bits_of_cons. destruct (dget l d) as [b0|] eqn:E.
  - destruct (bits_of d ls) as [r|] eqn:E2; [discriminate|]. intros _.
    destruct (IH eq_refl) as (l' & Hl' & Hg). exists l'. split; [right; exact Hl'|exact Hg].
  - intros _. exists l. split; [left; reflexivity|exact E].
Qed.

Lemma bits_of_NoDup d ls : NoDup (map snd d) -> NoDup ls -> forall bs, bits_of d ls = Some bs -> NoDup bs.
Proof.
  intros Hd. induction ls as [|l ls IH]; intros Hnd bs H.
  - inversion H. constructor.
  - inversion Hnd as [|? ? Hnotin Hnd']; subst.
    rewrite bits_of_cons in H. destruct (dget l d) as [b0|] eqn:E; [|discriminate].
    destruct (bits_of d ls) as [r|] eqn:E2; [|discriminate]. inversion H; subst.
    constructor; [|apply IH; [exact Hnd'|reflexivity]].
    intros Hin. destruct (bits_of_In d ls r E2 b0 Hin) as (l' & Hl' & Hg).
    apply dget_In in E. apply dget_In in Hg.
    assert ((l, b0) = (l', b0)) as Eq by (apply (NoDup_map_inj snd d); [exact Hd|exact E|exact Hg|reflexivity]).
    inversion Eq; subst. contradiction.
Qed.

Lemma bits_of_range d ls bs : Forall (fun lb => 0 <= snd lb < 64) d -> bits_of d ls = Some bs ->
  Forall (fun b => 0 <= b < 64) bs.
Proof.
  intros Hd H. apply Forall_forall. intros b Hb.
  destruct (bits_of_In d ls bs H b Hb) as (l & _ & Hg). apply dget_In in Hg.
  rewrite Forall_forall in Hd. apply (Hd (l, b) Hg).
Qed.

Lemma flagval_loop_ok d : Forall (fun lb => 0 <= snd lb < 64) d -> forall ls bs acc,
  bits_of d ls = Some bs -> flagval_loop (Some d) ls acc = RVal (sum_mod bs acc).
Proof.
  intros Hd. induction ls as [|l ls IH]; intros bs acc H.
  - inversion H. reflexivity.
  - rewrite bits_of_cons in H. destruct (dget l d) as [b0|] eqn:E; [|discriminate].
    destruct (bits_of d ls) as [r|] eqn:E2; [|discriminate]. inversion H; subst.
    cbn [flagval_loop]. rewrite E.
    assert (0 <= b0 < 64) as Hb.
    { apply dget_In in E. rewrite Forall_forall in Hd. apply (Hd (l, b0) E). }
    destruct (Z.ltb_spec b0 0); [lia|]. rewrite sum_mod_cons. apply IH. reflexivity.
Qed.

Lemma flagval_loop_missing d : Forall (fun lb => 0 <= snd lb < 64) d -> forall ls acc,
  (exists l, In l ls /\ dget l d = None) -> flagval_loop (Some d) ls acc = RKeyError.
Proof.
  intros Hd. induction ls as [|l ls IH]; intros acc (l0 & Hl0 & Hg); [destruct Hl0|].
  cbn [flagval_loop]. destruct (dget l d) as [b0|] eqn:E; [|reflexivity].
  assert (0 <= b0 < 64) as Hb.
  { apply dget_In in E. rewrite Forall_forall in Hd. apply (Hd (l, b0) E). }
  destruct (Z.ltb_spec b0 0); [lia|]. apply IH.
  destruct Hl0 as [Hl0|Hl0]; [subst; congruence|]. exists l0. split; assumption.
Qed.

(* sdss_flagval on a well-formed group and distinct labels: the OR of 2^bit, or KeyError *)
Theorem flagval_group d ls : wf_group d -> NoDup ls ->
  flagval_loop (Some d) ls 0 = match bits_of d ls with Some bs => RVal (or_bits bs) | None => RKeyError end.
Proof.
  intros (Hl & Hb & Hr) Hnd. destruct (bits_of d ls) as [bs|] eqn:E.
  - transitivity (RVal (sum_mod bs 0)); [exact (flagval_loop_ok d Hr ls bs 0 E)|]. f_equal.
    rewrite sum_mod_or.
    + apply Z.lor_0_l.
    + apply (bits_of_NoDup d ls Hb Hnd bs E).
    + apply (bits_of_range d ls bs Hr E).
    + lia.
    + intros; apply Z.bits_0.
    + intros; apply Z.bits_0.
  - apply flagval_loop_missing; [exact Hr|]. apply bits_of_None. exact E.
Qed.

(* ------------------------------------------------------------------ sorting by bit *)

Definition lt_snd (x y : str * Z) : Prop := snd x < snd y.
Definition le_snd (x y : str * Z) : Prop := snd x <= snd y.

Lemma ins_In x l y : In y (ins x l) <-> y = x \/ In y l.
Proof.
  induction l as [|z l IH]; cbn [ins In].
  - split; [intros [H|[]]; left; symmetry; exact H|intros [H|[]]; left; symmetry; exact H].
  - destruct (snd x <=? snd z); cbn [In].
    + split; [intros [H|H]; [left; symmetry; exact H|right; exact H]|intros [H|H]; [left; symmetry; exact H|right; exact H]].
    + rewrite IH. split.
      * intros [H|[H|H]]; [right; left; exact H|left; exact H|right; right; exact H].
      * intros [H|[H|H]]; [right; left; exact H|left; exact H|right; right; exact H].
Qed.

Lemma ins_perm x l : Permutation (ins x l) (x :: l).
Proof.
  induction l as [|z l IH]; cbn [ins]; [apply Permutation_refl|].
  destruct (snd x <=? snd z); [apply Permutation_refl|].
  apply perm_trans with (z :: x :: l); [apply perm_skip; exact IH|apply perm_swap].
Qed.

Lemma isort_perm l : Permutation (isort l) l.
Proof.
  induction l as [|x l IH]; cbn [isort]; [apply perm_nil|].
  apply perm_trans with (x :: isort l); [apply ins_perm|apply perm_skip; exact IH].
Qed.

Lemma ins_sorted x l : StronglySorted le_snd l -> StronglySorted le_snd (ins x l).
Proof.
  induction 1 as [|z l Hs IH Hf]; cbn [ins].
  - constructor; constructor.
  - destruct (Z.leb_spec (snd x) (snd z)) as [Hle|Hgt].
    + constructor; [constructor; assumption|].
      constructor; [exact Hle|]. rewrite Forall_forall in *. intros y Hy. specialize (Hf y Hy). unfold le_snd in *. lia.
    + constructor; [exact IH|]. rewrite Forall_forall in *. intros y Hy. apply ins_In in Hy.
      destruct Hy as [Hy|Hy]; [subst; unfold le_snd; lia|apply Hf; exact Hy].
Qed.

Lemma isort_sorted l : StronglySorted le_snd (isort l).
Proof. induction l as [|x l IH]; cbn [isort]; [constructor|apply ins_sorted; exact IH]. Qed.

Lemma le_lt_sorted l : StronglySorted le_snd l -> NoDup (map snd l) -> StronglySorted lt_snd l.
Proof.
  induction 1 as [|x l Hs IH Hf]; cbn [map]; intros Hnd; [constructor|].
  inversion Hnd as [|? ? Hnotin Hnd']; subst. constructor; [apply IH; exact Hnd'|].
  rewrite Forall_forall in *. intros y Hy. specialize (Hf y Hy). unfold le_snd, lt_snd in *.
  assert (snd x <> snd y) by (intros E; apply Hnotin; rewrite E; apply in_map; exact Hy). lia.
Qed.

(* a list strictly sorted by bit is determined by its elements *)
Lemma sorted_unique (l1 : list (str * Z)) : forall l2,
  StronglySorted lt_snd l1 -> StronglySorted lt_snd l2 -> (forall x, In x l1 <-> In x l2) -> l1 = l2.
Proof.
  induction l1 as [|a l1 IH]; intros l2 H1 H2 Hiff.
  - destruct l2 as [|b l2]; [reflexivity|]. exfalso. apply (proj2 (Hiff b)). left; reflexivity.
  - destruct l2 as [|b l2]; [exfalso; apply (proj1 (Hiff a)); left; reflexivity|].
    inversion H1 as [|? ? S1 F1]; subst. inversion H2 as [|? ? S2 F2]; subst.
    rewrite Forall_forall in F1, F2.
    assert (a = b) as Eab.
    { destruct (proj1 (Hiff a) (or_introl eq_refl)) as [E|Hin]; [symmetry; exact E|].
      destruct (proj2 (Hiff b) (or_introl eq_refl)) as [E|Hin2]; [exact E|].
      specialize (F2 a Hin). specialize (F1 b Hin2). unfold lt_snd in *. lia. }
    subst b. f_equal. apply IH; try assumption.
    intros x. split; intros Hx.
    + destruct (proj1 (Hiff x) (or_intror Hx)) as [E|Hin]; [|exact Hin].
      subst x. specialize (F1 a Hx). unfold lt_snd in F1. lia.
    + destruct (proj2 (Hiff x) (or_intror Hx)) as [E|Hin]; [|exact Hin].
      subst x. specialize (F2 a Hx). unfold lt_snd in F2. lia.
Qed.

(* ------------------------------------------------------------------ sdss_flagname on one group *)

Definition pick (d : group) (b : Z) : list (str * Z) :=
  match find (fun lb => snd lb =? b) d with Some lb => [lb] | None => [] end.
Definition scan_pairs (d : group) (bits : list Z) : list (str * Z) := flat_map (pick d) bits.

Lemma first_with_bit_find b d : first_with_bit b d = option_map fst (find (fun lb => snd lb =? b) d).
Proof.
  induction d as [|[l b'] d IH]; cbn [first_with_bit find snd]; [reflexivity|].
  destruct (b' =? b); [reflexivity|exact IH].
Qed.

Lemma flagname_loop_scan d bits : forall acc,
  flagname_loop (Some d) bits acc = Some (acc ++ map fst (scan_pairs d bits)).
Proof.
  induction bits as [|b bits IH]; intros acc; cbn [flagname_loop scan_pairs flat_map].
  - rewrite app_nil_r. reflexivity.
  - rewrite IH, first_with_bit_find. unfold pick. fold (scan_pairs d bits).
    destruct (find (fun lb => snd lb =? b) d) as [lb|]; cbn [option_map app map].
    + rewrite <- app_assoc. reflexivity.
    + reflexivity.
Qed.

Lemma pick_In d b lb : In lb (pick d b) -> In lb d /\ snd lb = b.
Proof.
  unfold pick. destruct (find (fun lb0 => snd lb0 =? b) d) as [y|] eqn:E; [|intros []].
  intros [H|[]]. subst y. apply find_some in E. destruct E as [H1 H2]. apply Z.eqb_eq in H2. split; assumption.
Qed.

Lemma scan_sorted d bits : StronglySorted Z.lt bits -> StronglySorted lt_snd (scan_pairs d bits).
Proof.
  induction 1 as [|b bits Hs IH Hf]; cbn [scan_pairs flat_map]; [constructor|].
  fold (scan_pairs d bits).
  assert (Forall (fun y => b < snd y) (scan_pairs d bits)) as Hall.
  { apply Forall_forall. intros y Hy. apply in_flat_map in Hy. destruct Hy as (b' & Hb' & Hy).
    apply pick_In in Hy. destruct Hy as [_ Hy]. rewrite Forall_forall in Hf. specialize (Hf b' Hb'). lia. }
  pose proof (pick_In d b) as Hp. unfold pick in *.
  destruct (find (fun lb => snd lb =? b) d) as [lb|]; cbn [app]; [|exact IH].
  constructor; [exact IH|].
  destruct (Hp lb (or_introl eq_refl)) as [_ Hsnd].
  eapply Forall_impl; [|exact Hall]. intros y Hy. cbn beta in Hy. unfold lt_snd. lia.
Qed.

Lemma set_bits_sorted v : StronglySorted Z.lt (set_bits v).
Proof. apply filter_sorted. apply zseq_sorted. Qed.

Lemma set_bits_In v b : In b (set_bits v) <-> 0 <= b < 64 /\ Z.testbit v b = true.
Proof. unfold set_bits. rewrite filter_In, zseq_In. change (Z.of_nat 64) with 64. intuition lia. Qed.

(* stated for an abstract list of bits: conversion must never unfold [set_bits v] (64 stuck tests) *)
Lemma scan_pairs_In d bits lb : In lb (scan_pairs d bits) <-> exists b, In b bits /\ In lb (pick d b).
Proof. unfold scan_pairs. apply in_flat_map. Qed.

Lemma scan_In d v lb : wf_group d ->
  In lb (scan_pairs d (set_bits v)) <-> In lb d /\ Z.testbit v (snd lb) = true.
Proof.
  intros (Hl & Hb & Hr). generalize (set_bits_In v). generalize (set_bits v). intros bits Hbits. split.
  - intros H. apply scan_pairs_In in H. destruct H as (b & Hbin & Hp). apply pick_In in Hp.
    destruct Hp as [Hd Hs]. subst b. apply Hbits in Hbin. split; [exact Hd|apply Hbin].
  - intros [Hd Ht]. apply scan_pairs_In. exists (snd lb). split.
    + apply Hbits. split; [|exact Ht]. rewrite Forall_forall in Hr. apply (Hr lb Hd).
    + unfold pick.
      destruct (find_exists (fun lb0 => snd lb0 =? snd lb) d lb Hd (Z.eqb_refl _)) as (y & Hy).
      rewrite Hy. apply find_some in Hy. destruct Hy as [Hyd Hys]. apply Z.eqb_eq in Hys.
      left. apply (NoDup_map_inj snd d); assumption.
Qed.

Definition selected (d : group) (v : Z) : group := isort (filter (fun lb => Z.testbit v (snd lb)) d).

Lemma selected_In d v lb : In lb (selected d v) <-> In lb d /\ Z.testbit v (snd lb) = true.
Proof.
  unfold selected. split.
  - intros H. apply (Permutation_in _ (isort_perm _)) in H. apply filter_In in H. exact H.
  - intros H. apply (Permutation_in _ (Permutation_sym (isort_perm _))). apply filter_In. exact H.
Qed.

Lemma selected_sorted d v : wf_group d -> StronglySorted lt_snd (selected d v).
Proof.
  intros (Hl & Hb & Hr). unfold selected. apply le_lt_sorted; [apply isort_sorted|].
  apply (Permutation_NoDup (l := map snd (filter (fun lb => Z.testbit v (snd lb)) d))).
  - apply Permutation_map. apply Permutation_sym. apply isort_perm.
  - apply NoDup_map_filter. exact Hb.
Qed.

Lemma selected_NoDup_fst d v : wf_group d -> NoDup (map fst (selected d v)).
Proof.
  intros (Hl & Hb & Hr). unfold selected.
  apply (Permutation_NoDup (l := map fst (filter (fun lb => Z.testbit v (snd lb)) d))).
  - apply Permutation_map. apply Permutation_sym. apply isort_perm.
  - apply NoDup_map_filter. exact Hl.
Qed.

(* the bit scan of sdss_flagname = the defined set bits, sorted by bit *)
Theorem scan_is_selected d v : wf_group d -> scan_pairs d (set_bits v) = selected d v.
Proof.
  intros Hwf. apply sorted_unique.
  - apply scan_sorted. apply set_bits_sorted.
  - apply selected_sorted. exact Hwf.
  - intros x. rewrite (scan_In d v x Hwf), selected_In. reflexivity.
Qed.

Theorem flagname_group d v : wf_group d ->
  flagname_loop (Some d) (set_bits v) [] = Some (spec_names d v).
Proof.
  intros Hwf. rewrite flagname_loop_scan. cbn [app]. rewrite (scan_is_selected d v Hwf). reflexivity.
Qed.

(* S is the only answer that lists exactly the defined set bits in ascending order *)
Theorem selected_char d v pairs : wf_group d ->
  (StronglySorted lt_snd pairs /\ (forall lb, In lb pairs <-> In lb d /\ Z.testbit v (snd lb) = true))
  <-> pairs = selected d v.
Proof.
  intros Hwf. split.
  - intros [Hs Hin]. apply sorted_unique; [exact Hs|apply selected_sorted; exact Hwf|].
    intros x. rewrite Hin, selected_In. reflexivity.
  - intros ->. split; [apply selected_sorted; exact Hwf|intros lb; apply selected_In].
Qed.

Lemma spec_names_In d v l : In l (spec_names d v) <-> exists b, In (l, b) d /\ Z.testbit v b = true.
Proof.
  unfold spec_names. fold (selected d v). rewrite in_map_iff. split.
  - intros ([l' b] & E & H). cbn [fst] in E. subst l'. apply selected_In in H. exists b. exact H.
  - intros (b & H). exists (l, b). split; [reflexivity|]. apply selected_In. exact H.
Qed.

(* ------------------------------------------------------------------ round trips on one group *)

Lemma bits_of_pairs d P : NoDup (map fst d) -> (forall lb, In lb P -> In lb d) ->
  bits_of d (map fst P) = Some (map snd P).
Proof.
  intros Hl. induction P as [|[l b] P IH]; intros Hsub; [reflexivity|].
  cbn [map fst snd]. rewrite bits_of_cons.
  unfold bit_of. rewrite (NoDup_dget l b d Hl (Hsub (l, b) (or_introl eq_refl))).
  rewrite IH by (intros lb H; apply Hsub; right; exact H). reflexivity.
Qed.

Lemma defined_mask_testbit d n : Forall (fun lb => 0 <= snd lb < 64) d ->
  Z.testbit (defined_mask d) n = existsb (fun b => b =? n) (map snd d).
Proof.
  intros Hr. unfold defined_mask. apply or_bits_testbit.
  apply Forall_forall. intros b Hb. apply in_map_iff in Hb. destruct Hb as (lb & E & Hin).
  rewrite Forall_forall in Hr. specialize (Hr lb Hin). lia.
Qed.

Lemma selected_bits_range d v : wf_group d -> Forall (fun b => 0 <= b) (map snd (selected d v)).
Proof.
  intros (Hl & Hb & Hr). apply Forall_forall. intros b Hin. apply in_map_iff in Hin.
  destruct Hin as (lb & E & Hin). apply selected_In in Hin. destruct Hin as [Hin _].
  rewrite Forall_forall in Hr. specialize (Hr lb Hin). lia.
Qed.

(* value -> names -> value : exactly the defined bits of v survive *)
Theorem val_names_val_group d v : wf_group d ->
  flagval_loop (Some d) (spec_names d v) 0 = RVal (Z.land v (defined_mask d)).
Proof.
  intros Hwf. pose proof Hwf as (Hl & Hb & Hr).
  unfold spec_names. fold (selected d v).
  rewrite (flagval_group d _ Hwf (selected_NoDup_fst d v Hwf)).
  rewrite (bits_of_pairs d (selected d v) Hl) by (intros lb H; apply selected_In in H; apply H).
  f_equal. apply Z.bits_inj'. intros n Hn.
  rewrite or_bits_testbit by (apply selected_bits_range; exact Hwf).
  rewrite Z.land_spec, (defined_mask_testbit d n Hr).
  apply eq_true_iff_eq. rewrite andb_true_iff, !existsb_exists. split.
  - intros (b & Hin & E). apply Z.eqb_eq in E. subst b. apply in_map_iff in Hin.
    destruct Hin as (lb & E & Hin). apply selected_In in Hin. destruct Hin as [Hd Ht]. subst n.
    split; [exact Ht|]. exists (snd lb). split; [apply in_map; exact Hd|apply Z.eqb_refl].
  - intros [Ht (b & Hin & E)]. apply Z.eqb_eq in E. subst b. apply in_map_iff in Hin.
    destruct Hin as (lb & E & Hin). subst n. exists (snd lb). split; [|apply Z.eqb_refl].
    apply in_map. apply selected_In. split; assumption.
Qed.

(* names -> value -> names : the same labels come back (ordered by bit) *)
Theorem names_val_names_group d ls bs : wf_group d -> NoDup ls -> bits_of d ls = Some bs ->
  Permutation (spec_names d (or_bits bs)) ls.
Proof.
  intros Hwf Hnd Hbits. pose proof Hwf as (Hl & Hb & Hr).
  assert (Forall (fun b => 0 <= b) bs) as Hbs.
  { eapply Forall_impl; [|apply (bits_of_range d ls bs Hr Hbits)]. cbn. intros; lia. }
  apply NoDup_Permutation.
  - unfold spec_names. apply (selected_NoDup_fst d _ Hwf).
  - exact Hnd.
  - intros l. rewrite spec_names_In. split.
    + intros (b & Hin & Ht). rewrite or_bits_testbit in Ht by exact Hbs.
      apply existsb_exists in Ht. destruct Ht as (b' & Hb' & E). apply Z.eqb_eq in E. subst b'.
      destruct (bits_of_In d ls bs Hbits b Hb') as (l' & Hl' & Hg). apply dget_In in Hg.
      assert ((l, b) = (l', b)) as Eq by (apply (NoDup_map_inj snd d); [exact Hb|exact Hin|exact Hg|reflexivity]).
      inversion Eq; subst. exact Hl'.
    + intros Hin. destruct (bits_of_all d ls bs Hbits l Hin) as (b & Hg & Hbin). exists b.
      split; [apply dget_In; exact Hg|]. rewrite or_bits_testbit by exact Hbs.
      apply existsb_exists. exists b. split; [exact Hbin|apply Z.eqb_refl].
Qed.

(* ... and exactly the input list when the labels are given in ascending bit order *)
Lemma bits_of_combine d ls : forall bs, bits_of d ls = Some bs ->
  map fst (combine ls bs) = ls /\ map snd (combine ls bs) = bs /\
  (forall lb, In lb (combine ls bs) -> dget (fst lb) d = Some (snd lb)).
Proof.
  induction ls as [|l ls IH]; intros bs H.
  - inversion H. cbn. repeat split. intros lb [].
  - rewrite bits_of_cons in H. destruct (dget l d) as [b0|] eqn:E; [|discriminate].
    destruct (bits_of d ls) as [r|] eqn:E2; [|discriminate]. inversion H; subst.
    destruct (IH r eq_refl) as (A & B & C). cbn [combine map fst snd]. rewrite A, B. repeat split.
    intros lb [<-|Hin]; [exact E|apply C; exact Hin].
Qed.

Lemma sorted_map_snd (P : list (str * Z)) : StronglySorted Z.lt (map snd P) -> StronglySorted lt_snd P.
Proof.
  induction P as [|x P IH]; cbn [map]; intros H; [constructor|].
  inversion H as [|? ? Hs Hf]; subst. constructor; [apply IH; exact Hs|].
  rewrite Forall_forall in *. intros y Hy. apply Hf. apply in_map. exact Hy.
Qed.

Theorem names_val_names_sorted d ls bs : wf_group d -> bits_of d ls = Some bs -> StronglySorted Z.lt bs ->
  spec_names d (or_bits bs) = ls.
Proof.
  intros Hwf Hbits Hsorted. pose proof Hwf as (Hl & Hb & Hr).
  destruct (bits_of_combine d ls bs Hbits) as (A & B & C).
  assert (Forall (fun b => 0 <= b) bs) as Hbs.
  { eapply Forall_impl; [|apply (bits_of_range d ls bs Hr Hbits)]. cbn. intros; lia. }
  assert (Hsub : forall lb, In lb (combine ls bs) -> In lb d).
  { intros lb Hin. pose proof (C lb Hin) as Hg. apply dget_In in Hg. rewrite <- surjective_pairing in Hg. exact Hg. }
  assert (selected d (or_bits bs) = combine ls bs) as E.
  { symmetry. apply (selected_char d (or_bits bs) (combine ls bs) Hwf). split.
    - apply sorted_map_snd. rewrite B. exact Hsorted.
    - intros lb. rewrite or_bits_testbit by exact Hbs. split.
      + intros Hin. split; [apply Hsub; exact Hin|]. apply existsb_exists. exists (snd lb).
        split; [rewrite <- B; apply in_map; exact Hin|apply Z.eqb_refl].
      + intros [Hd Ht]. apply existsb_exists in Ht. destruct Ht as (b & Hbin & Eb). apply Z.eqb_eq in Eb. subst b.
        rewrite <- B in Hbin. apply in_map_iff in Hbin. destruct Hbin as (lb' & Es & Hin').
        assert (lb' = lb) as -> by (apply (NoDup_map_inj snd d); [exact Hb|apply Hsub; exact Hin'|exact Hd|exact Es]).
        exact Hin'. }
  unfold spec_names. fold (selected d (or_bits bs)). rewrite E. exact A.
Qed.

(* a non-zero 64-bit value has a set bit below 64: the scan enters its loop *)
Lemma set_bits_nonempty v : 0 < v < 2 ^ 64 -> set_bits v <> [].
Proof.
  intros Hv E.
  assert (In (Z.log2 v) (set_bits v)) as Hin.
  { apply set_bits_In. split.
    - split; [apply Z.log2_nonneg|apply Z.log2_lt_pow2; lia].
    - apply Z.bit_log2. lia. }
  rewrite E in Hin. destruct Hin.
Qed.
