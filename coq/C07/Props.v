(* C07 -- placeholder while the harness is being brought up *)
From Coq Require Import ZArith List Bool.
From PV Require Import C07.Model.
