"""Runs computechi2 / pcomp / HMF / pca_solve of the repository under test (stdin JSON -> stdout JSON).

Calls:
  chi2      : computechi2(bvec, sqivar, amatrix) -> all attributes
  pcomp     : pcomp(x, standardize=, covariance=) -> eigenvalues, coefficients, derived, variance
  hmf_step  : HMF object with a, g set by the harness; astep/gstep/astepnn/gstepnn/normbase/badness
  hmf_solve : HMF(...).solve() twice with the same seed; per-step badness recorded through a subclass that
              only wraps astep/gstep (the iteration loop is the repository's)
  pca       : pca_solve(newflux, newivar, nkeep=, niter=, maxiter=)
"""
import json
import sys
import warnings

import copy
import pickle

import numpy as np


def global_state():
    """process-global numpy state a library call must leave alone (class C)"""
    st = np.random.get_state()
    return {'geterr': dict(np.geterr()), 'printoptions': repr(sorted(np.get_printoptions().items())),
            'rng': (st[0], st[1].tobytes(), st[2], st[3], st[4])}


def global_diff(before, after):
    return sorted(k for k in before if before[k] != after[k])


np.random.seed(20260930)
_G0 = global_state()
import pydl                                                   # noqa: E402  (the way a user imports the package)
from pydl import pcomp                                        # noqa: E402
from pydl.pydlutils.math import computechi2                   # noqa: E402
from pydl.pydlspec2d.spec1d import HMF, pca_solve             # noqa: E402
IMPORT_SIDE_EFFECTS = global_diff(_G0, global_state())


def err(e):
    return {'err': type(e).__name__, 'msg': str(e)[:200]}


def arr(a, dt=None):
    """the values as float64, or in the storage type asked for (the generator only asks for a type that holds them exactly)"""
    x = np.array(a, dtype='d')
    if dt and dt != 'f8':
        y = x.astype(dt)
        if not np.array_equal(y.astype('d'), x):
            raise ValueError('harness: values not representable in %s' % dt)
        return y
    return x


def lay(x, how):
    """the same values in another memory layout (class B); returns (array, base-or-None)"""
    if not how or how == 'C':
        return x, None
    if how == 'F':
        return np.asfortranarray(x), None
    if how == 'rev':
        if x.ndim == 1:
            return x[::-1].copy()[::-1], None
        return x[::-1, ::-1].copy()[::-1, ::-1], None
    if how == 'strided':
        if x.ndim == 1:
            big = np.full((3 * x.shape[0] + 2,), 7, dtype=x.dtype)
            v = big[1::3][:x.shape[0]]
        else:
            big = np.full((2 * x.shape[0] + 1, 3 * x.shape[1] + 2), 7, dtype=x.dtype)
            v = big[1::2, 2::3][:x.shape[0], :x.shape[1]]
        v[...] = x
        return v, big
    if how == 'readonly':
        y = x.copy()
        y.setflags(write=False)
        return y, None
    raise ValueError('harness: unknown layout %r' % (how,))


def opt(v, style):
    """an option value written the way a caller might (class E): bool / int 0,1 / None for False / numpy bool"""
    if style == 'int':
        return int(bool(v))
    if style == 'npbool':
        return np.bool_(bool(v))
    if style == 'none':
        return None if not v else 1
    return bool(v)


def shares(value, arrays):
    return any(isinstance(value, np.ndarray) and isinstance(a, np.ndarray) and np.shares_memory(value, a) for a in arrays)


def same(a, b):
    a, b = np.asarray(a), np.asarray(b)
    return a.shape == b.shape and np.array_equal(a, b, equal_nan=True)


def reuse_scenario(build, names, fresh_inputs, edit):
    """class A / H on lazy-attribute objects.  `build(*arrays)` makes an object from caller-owned arrays; `fresh_inputs()` gives
    new copies of the arrays; `edit(arrays)` changes them in place (to another valid input).  Every result is compared bit for
    bit with an object built from fresh copies of the values the arrays hold at that moment.  Returns a list of findings."""
    bad = []

    def read(o):
        return {n: np.array(getattr(o, n), copy=True) for n in names}

    def differs(v, w):
        return [n for n in names if not same(v[n], w[n])]
    arrs = fresh_inputs()
    ref = read(build(*fresh_inputs()))
    o1 = build(*arrs)
    v1 = read(o1)
    if differs(v1, ref):
        bad.append('first object on these arrays differs from an object on copies: %s' % differs(v1, ref))
    o2 = build(*arrs)                      # same arrays, first object still alive
    v2 = read(o2)
    if differs(v2, ref):
        bad.append('second object on the SAME arrays differs: %s' % differs(v2, ref))
    al = [n for n in names if shares(getattr(o2, n), arrs)]
    if al:
        bad.append('attributes share memory with the arguments: %s' % al)
    snap = [a.tobytes() for a in arrs]
    for n in names:                        # the caller edits what it got back
        v = getattr(o2, n)
        if isinstance(v, np.ndarray) and v.flags.writeable and v.ndim:
            v += 1
    if [a.tobytes() for a in arrs] != snap:
        bad.append('editing the returned attributes changed the arguments')
    if differs(read(o1), ref):
        bad.append('editing the attributes of one object changed those of another: %s' % differs(read(o1), ref))
    # derived objects (class H): deep copy and pickle round trip of an unread and of a fully read object
    for label, mk in (('deepcopy', copy.deepcopy), ('pickle', lambda o: pickle.loads(pickle.dumps(o)))):
        try:
            fresh = build(*fresh_inputs())
            d0 = read(mk(fresh))
            d1 = read(mk(o1))
        except Exception as e:  # noqa: BLE001
            bad.append('%s of the object raised %s' % (label, type(e).__name__))
            continue
        if differs(d0, ref) or differs(d1, ref):
            bad.append('%s of the object has other attributes: %s' % (label, differs(d0, ref) + differs(d1, ref)))
    # the caller changes its arrays in place, then builds a new object from the same arrays
    if not all(a.flags.writeable for a in arrs):
        return bad
    edit(arrs)
    if differs(read(o1), ref):
        bad.append('attributes already read moved when the caller changed its arrays: %s' % differs(read(o1), ref))
    ref2 = read(build(*fresh_inputs([np.array(a, copy=True) for a in arrs])))
    v3 = read(build(*arrs))
    if differs(v3, ref2):
        bad.append('object built from the same arrays after the caller changed them in place differs from one on copies: %s'
                   % differs(v3, ref2))
    return bad


def tolist(a):
    return np.asarray(a, dtype='d').tolist()


def finite(*arrays):
    return all(np.all(np.isfinite(np.asarray(a, dtype='d'))) for a in arrays)


class RecordingHMF(HMF):
    """HMF whose astep/gstep record badness() before and after the update they return."""

    def __init__(self, *a, **k):
        super().__init__(*a, **k)
        self.trace = []
        self.events = []      # (method, a at the call, g at the call): the state the real loop hands to each step

    def _ev(self, name):
        self.events.append((name, None if self.a is None else np.array(self.a, dtype='d', copy=True),
                            None if self.g is None else np.array(self.g, dtype='d', copy=True)))

    def reorder(self):
        self._ev('reorder')
        return super().reorder()

    def normbase(self):
        self._ev('normbase')
        return super().normbase()

    def astep(self):
        self._ev('astep')
        before = float(self.badness())
        new = super().astep()
        old = self.a
        self.a = new
        after = float(self.badness())
        self.a = old
        self.trace.append(['a', before, after])
        return new

    def gstep(self):
        self._ev('gstep')
        before = float(self.badness())
        new = super().gstep()
        old = self.g
        self.g = new
        after = float(self.badness())
        self.g = old
        self.trace.append(['g', before, after])
        return new

    def astepnn(self):
        self._ev('astepnn')
        new = super().astepnn()
        self.trace.append(['ann', float(np.min(new)), float(np.min(self.a))])
        return new

    def gstepnn(self):
        self._ev('gstepnn')
        new = super().gstepnn()
        self.trace.append(['gnn', float(np.min(new)), float(np.min(self.g))])
        return new


def loop_passes(h, final_a, final_g, nonneg, which):
    """the states the real HMF.iterate loop handed to its steps, grouped by pass of the loop.
    One pass: default mode astep, gstep, reorder, normbase ; non-negative mode astepnn, gstepnn, normbase."""
    ev = h.events
    second = 'gstepnn' if nonneg else 'gstep'
    idx = [k for k, e in enumerate(ev) if e[0] == second]
    width = 3 if nonneg else 4
    out = []
    for m, k in enumerate(idx):
        if m not in which and (m - len(idx)) not in which:
            continue
        grp = ev[k - 1:k - 1 + width]
        names = [e[0] for e in grp]
        nxt = ev[k - 1 + width] if k - 1 + width < len(ev) else ('end', final_a, final_g)
        states = [[tolist(e[1]), tolist(e[2])] for e in grp] + [[tolist(nxt[1]), tolist(nxt[2])]]
        gn = grp[-1][2]
        out.append({'pass': m, 'calls': names, 'next': nxt[0], 'states': states,
                    'norm': tolist(np.sqrt((gn ** 2).mean(1)))})
    return out, len(idx), [e[0] for e in ev]


class Guard(object):
    """bit-exact snapshot of caller-owned arrays"""

    def __init__(self, **arrays):
        self.live = {k: v for k, v in arrays.items() if isinstance(v, np.ndarray)}
        self.snap = {k: (v.dtype, v.shape, v.tobytes()) for k, v in self.live.items()}

    def changed(self):
        return sorted(k for k, v in self.live.items() if (v.dtype, v.shape, v.tobytes()) != self.snap[k])


def read_orders(make, orders):
    """read the (lazy) attributes of fresh objects in several orders; the values must not depend on the order.
    Returns (values of the first order, list of {order, attr, maxdiff}, names of modified arguments)."""
    first = None
    bad = []
    changed = set()
    for order in orders:
        obj, guard = make()
        vals = {}
        for name in order:
            vals[name] = np.array(getattr(obj, name), dtype='d', copy=True)
        # second read of every attribute of the SAME object, in the reverse order: the cached values must not move
        for name in reversed(order):
            again = np.array(getattr(obj, name), dtype='d', copy=True)
            if again.shape != vals[name].shape or not np.array_equal(again, vals[name], equal_nan=True):
                bad.append({'order': list(order) + ['again:' + name], 'attr': name, 'maxdiff': 'second read differs'})
                break
        changed.update(guard.changed())
        if first is None:
            first = vals
            continue
        for name in order:
            a, b = first[name], vals[name]
            if a.shape != b.shape or not np.array_equal(a, b):
                with np.errstate(all='ignore'):
                    md = float(np.nanmax(np.abs(a - b))) if a.shape == b.shape and a.size else float('inf')
                bad.append({'order': order, 'attr': name, 'maxdiff': md if np.isfinite(md) else 'nonfinite'})
                break
    return first, bad, sorted(changed)


def observe():
    """inputs OUTSIDE the quantifier of C15 (lists, NaN / inf, rank-deficient, 1-D): what the code under test does with them is
    recorded in the evidence, never judged"""
    rs = np.random.RandomState(7)
    A = np.round(rs.uniform(-2, 2, size=(6, 2)) * 8) / 8
    b = np.round(rs.uniform(-2, 2, size=6) * 8) / 8
    sq = np.ones(6)
    sq[2] = 0
    x = np.round(rs.uniform(-2, 2, size=(8, 3)) * 8) / 8

    def outcome(fn):
        try:
            with np.errstate(all='ignore'):
                v = fn()
            v = np.asarray(v, dtype='d')
            return 'finite' if np.all(np.isfinite(v)) else 'non-finite values, no exception'
        except Exception as e:  # noqa: BLE001
            return type(e).__name__

    def withval(arr_, idx, val):
        y = arr_.copy()
        y[idx] = val
        return y
    return {
        'computechi2(lists)': outcome(lambda: computechi2(b.tolist(), sq.tolist(), A.tolist()).acoeff),
        'computechi2(NaN in b at a zero-weight point)': outcome(lambda: computechi2(withval(b, 2, np.nan), sq, A).acoeff),
        'computechi2(NaN in b at a weighted point)': outcome(lambda: computechi2(withval(b, 1, np.nan), sq, A).acoeff),
        'computechi2(NaN weight)': outcome(lambda: computechi2(b, withval(sq, 1, np.nan), A).acoeff),
        'computechi2(inf weight)': outcome(lambda: computechi2(b, withval(sq, 1, np.inf), A).acoeff),
        'computechi2(negative weight)': outcome(lambda: computechi2(b, withval(sq, 1, -1.0), A).acoeff),
        'computechi2(under-determined 2 x 3)': outcome(lambda: computechi2(b[:2], sq[:2], np.round(rs.uniform(-2, 2, size=(2, 3)) * 8) / 8).acoeff),
        'computechi2(two equal columns)': outcome(lambda: computechi2(b, sq, A[:, [0, 0]]).acoeff),
        'computechi2(1-D amatrix)': outcome(lambda: computechi2(b, sq, A[:, 0]).acoeff),
        'pcomp(list)': outcome(lambda: pcomp(x.tolist()).eigenvalues),
        'pcomp(NaN in data)': outcome(lambda: pcomp(withval(x, (1, 1), np.nan)).eigenvalues),
        'pcomp(one observation)': outcome(lambda: pcomp(x[:1]).eigenvalues),
        'pcomp(constant column, correlation)': outcome(lambda: pcomp(withval(x, (slice(None), 1), 2.0)).eigenvalues),
        'pcomp(1-D)': outcome(lambda: pcomp(x[:, 0]).eigenvalues),
        'pca_solve(lists)': outcome(lambda: pca_solve(np.abs(x).tolist(), np.ones((8, 3)).tolist(), nkeep=1)['acoeff']),
        'pca_solve(NaN flux at a masked pixel)': outcome(lambda: pca_solve(withval(np.abs(x) + 1, (1, 1), np.nan), withval(np.ones((8, 3)), (1, 1), 0.0), nkeep=1, niter=2)['acoeff']),
        'pca_solve(one spectrum)': outcome(lambda: pca_solve(np.abs(x[:1]) + 1, np.ones((1, 3)), nkeep=1)['flux']),
        'HMF(lists).solve()': outcome(lambda: HMF((np.abs(x) + 1).tolist(), np.ones((8, 3)).tolist(), K=1, n_iter=1, seed=1).solve()['flux']),
        'HMF(NaN spectrum value).solve()': outcome(lambda: HMF(withval(np.abs(x) + 1, (1, 1), np.nan), np.ones((8, 3)), K=1, n_iter=1, seed=1).solve()['flux']),
        'HMF(one spectrum).solve()': outcome(lambda: HMF(np.abs(x[:1]) + 1, np.ones((1, 3)), K=1, n_iter=1, seed=1).solve()['flux']),
    }


def call(c):
    f = c['f']
    try:
        with warnings.catch_warnings():
            warnings.simplefilter('ignore')
            if f == 'chi2':
                dts = c.get('dtypes') or {}
                L = c.get('layout') or {}
                b, sq, A = arr(c['b'], dts.get('b')), arr(c['sq'], dts.get('sq')), arr(c['A'], dts.get('A'))
                if c.get('one_d'):
                    A = A[:, 0]
                names = ['acoeff', 'chi2', 'yfit', 'dof', 'covar', 'var']
                g0 = global_state()

                def inputs(values=None):
                    vb, vs, vA = values if values is not None else (b, sq, A)
                    return [lay(vb.copy(), L.get('b'))[0], lay(vs.copy(), L.get('sq'))[0], lay(vA.copy(), L.get('A'))[0]]

                def make():
                    bases = []
                    got = []
                    for x_, how in ((b, L.get('b')), (sq, L.get('sq')), (A, L.get('A'))):
                        v_, base = lay(x_.copy(), how)
                        got.append(v_)
                        bases.append(base)
                    b1, s1, A1 = got
                    return computechi2(b1, s1, A1), Guard(bvec=b1, sqivar=s1, amatrix=A1, bvec_base=bases[0],
                                                          sqivar_base=bases[1], amatrix_base=bases[2])
                v, bad, changed = read_orders(make, [names] + [o_ for o_ in c.get('orders', []) if sorted(o_) == sorted(names)])
                o1 = computechi2(*inputs())

                def edit(arrs):
                    arrs[0] *= 2                       # b doubled, weights halved, A negated: still full rank, still exact
                    if arrs[1].dtype.kind == 'f':
                        arrs[1] *= 0.5
                    arrs[2] *= -1
                reuse = reuse_scenario(computechi2, names, inputs, edit)
                out = {'acoeff': tolist(v['acoeff']), 'chi2': float(v['chi2']), 'yfit': tolist(v['yfit']), 'dof': int(v['dof']),
                       'covar': tolist(v['covar']), 'var': tolist(v['var']), 'order_dependent': bad, 'args_changed': changed,
                       'reuse': reuse, 'global_changed': global_diff(g0, global_state()),
                       'result_dtypes': {k: str(np.asarray(getattr(o1, k)).dtype) for k in names}}
                if not finite(*[v[k] for k in names]):
                    return {'err': 'nonfinite'}
                return {'ok': out}
            if f == 'pcomp':
                x = arr(c['x'], c.get('dtype'))
                how = c.get('layout')
                style = c.get('opt_style')
                names = ['eigenvalues', 'coefficients', 'derived', 'variance']
                g0 = global_state()

                def build(x1):
                    st, cv = opt(c['standardize'], style), opt(c['covariance'], style)
                    if c.get('positional'):
                        return pcomp(x1, st, cv)
                    return pcomp(x1, standardize=st, covariance=cv)

                def make():
                    x1, base = lay(x.copy(), how)
                    return build(x1), Guard(x=x1, x_base=base)
                v, bad, changed = read_orders(make, [names] + [o_ for o_ in c.get('orders', []) if sorted(o_) == sorted(names)])

                def edit(arrs):
                    arrs[0][...] = arrs[0][::-1].copy() * 2      # observations reversed and doubled
                reuse = reuse_scenario(build, names, lambda values=None: [lay((values[0] if values else x).copy(), how)[0]], edit)
                out = {'eigenvalues': tolist(v['eigenvalues']), 'coefficients': tolist(v['coefficients']),
                       'derived': tolist(v['derived']), 'variance': tolist(v['variance']),
                       'input_unchanged': not changed, 'order_dependent': bad, 'args_changed': changed,
                       'reuse': reuse, 'global_changed': global_diff(g0, global_state())}
                if not finite(*[v[k] for k in names]):
                    return {'err': 'nonfinite', 'eigenvalues': [repr(q) for q in np.asarray(v['eigenvalues']).tolist()]}
                return {'ok': out}
            if f == 'hmf_step':
                L = c.get('layout') or {}
                s, w = lay(arr(c['s'], c.get('dtype')), L.get('s'))[0], lay(arr(c['w'], c.get('dtype')), L.get('w'))[0]
                a, g = lay(arr(c['a']), L.get('a'))[0], lay(arr(c['g']), L.get('g'))[0]
                g0 = global_state()
                h = HMF(lay(s.copy(), L.get('s'))[0], lay(w.copy(), L.get('w'))[0], K=a.shape[1], epsilon=c.get('eps'),
                        nonnegative=opt(c.get('nonnegative', False), c.get('opt_style')))
                h.a, h.g = lay(a.copy(), L.get('a'))[0], lay(g.copy(), L.get('g'))[0]
                out = {}
                out['badness'] = float(h.badness())
                out['normbase'] = tolist(h.normbase())
                na = h.astep()
                ng = h.gstep()
                out['astep'] = tolist(na)
                out['gstep'] = tolist(ng)
                out['astepnn'] = tolist(h.astepnn())
                out['gstepnn'] = tolist(h.gstepnn())
                # a step has no memory: called again on the same state it returns the same bits, and what it returned does not
                # alias the state
                out['repeat_identical'] = bool(same(h.astep(), na) and same(h.gstep(), ng) and same(h.astepnn(), out['astepnn'])
                                               and same(h.gstepnn(), out['gstepnn']))
                out['result_aliases_state'] = bool(shares(na, [h.a, h.g, h.spectra, h.invvar]) or shares(ng, [h.a, h.g, h.spectra, h.invvar]))
                out['global_changed'] = global_diff(g0, global_state())
                out['state_unchanged'] = bool(np.array_equal(h.a, a) and np.array_equal(h.g, g) and
                                              np.array_equal(h.spectra, s) and np.array_equal(h.invvar, w))
                h.a = na
                out['badness_a'] = float(h.badness())
                h.a = a.copy()
                h.g = ng
                out['badness_g'] = float(h.badness())
                if not finite(*[out[k] for k in ('badness', 'normbase', 'astep', 'gstep', 'astepnn', 'gstepnn', 'badness_a', 'badness_g')]):
                    return {'err': 'nonfinite'}
                return {'ok': out}
            if f == 'hmf_solve':
                s, w = arr(c['s'], c.get('dtype')), arr(c['w'], c.get('dtype'))
                L = c.get('layout') or {}
                style = c.get('opt_style')

                def kwargs():
                    kw = dict(K=c['K'], n_iter=c['n_iter'], seed=c['seed'], nonnegative=opt(c['nonnegative'], style), epsilon=c.get('eps'))
                    if style == 'npbool':          # numpy scalars where Python numbers are usual
                        kw.update(K=np.int64(c['K']), seed=np.int64(c['seed']) if c['seed'] < 2 ** 31 else np.uint32(c['seed']),
                                  n_iter=None if c['n_iter'] is None else np.int64(c['n_iter']))
                    if style == 'int':             # floats / explicit defaults
                        kw.update(n_iter=None if c['n_iter'] is None else float(c['n_iter']), verbose=False)
                        if c.get('eps') == 0:
                            kw.update(epsilon=False)
                    return kw

                def data(vs=None, vw=None):
                    return lay((s if vs is None else vs).copy(), L.get('s'))[0], lay((w if vw is None else vw).copy(), L.get('w'))[0]
                runs = []
                for _rep in range(2):
                    # the two runs start from DIFFERENT global RNG states: only the seed argument may make them agree
                    np.random.seed(1234567 + 7919 * _rep)
                    np.random.random(5 + 3 * _rep)
                    s1, w1 = data()
                    ge0 = global_state()
                    h = RecordingHMF(s1, w1, **kwargs())
                    d = h.solve()
                    ge1 = global_state()
                    passes = None
                    if _rep == 0:
                        passes, npass, names = loop_passes(h, d['acoeff'], d['flux'], bool(c['nonnegative']), c.get('trace_passes', []))
                        passes = {'passes': passes, 'n_passes': npass, 'spectra': tolist(h.spectra), 'invvar': tolist(h.invvar),
                                  'n_init_nn': sum(1 for _n in names[:names.index('gstepnn')] if _n == 'astepnn') - 1 if c['nonnegative'] and 'gstepnn' in names else 0}
                    runs.append({'a': d['acoeff'], 'g': d['flux'], 'trace': h.trace, 'loop': passes,
                                 'global_changed': [k for k in global_diff(ge0, ge1) if k != 'rng'],
                                 'aliases': bool(shares(d['acoeff'], [s1, w1]) or shares(d['flux'], [s1, w1])),
                                 'inputs_unchanged': bool(np.array_equal(s1, s) and np.array_equal(w1, w)),
                                 'rms': tolist(np.sqrt((d['flux'] ** 2).mean(1)))})
                r0, r1 = runs
                # histories: several objects created BEFORE any is solved, other users of numpy's global generator in
                # between; then the same object solved again after the caller edited the arrays it got back
                def mk():
                    return RecordingHMF(*data(), **kwargs())
                a0, g0 = np.array(r0['a'], copy=True), np.array(r0['g'], copy=True)
                hs = [mk(), mk()]
                np.random.random(4)
                d1 = hs[0].solve()
                hist = []
                if not (np.array_equal(d1['acoeff'], a0) and np.array_equal(d1['flux'], g0)):
                    hist.append('two objects created, random numbers drawn, first object solved')
                np.random.seed(424242)
                np.random.random(2)
                d2 = hs[1].solve()
                if not (np.array_equal(d2['acoeff'], a0) and np.array_equal(d2['flux'], g0)):
                    hist.append('two objects created, first solved, generator reseeded by someone else, second object solved')
                d1['acoeff'] += 1.0
                d1['flux'] += 1.0
                try:
                    d3 = hs[0].solve()
                    if not (np.array_equal(d3['acoeff'], a0) and np.array_equal(d3['flux'], g0)):
                        hist.append('solved, returned arrays edited in place, solved again')
                except Exception as e:  # noqa: BLE001
                    hist.append('solved, returned arrays edited in place, solve() again raised %s' % type(e).__name__)
                # class A: the caller changes the arrays it handed over (in place, to another valid data set: spectra in the
                # reverse order) -- before the first solve(), and between two solve() calls of the same object.  Whether the
                # object follows the caller's arrays or keeps the data it first saw is not promised; what it returns must be
                # the answer for ONE of the two data sets (bit for bit, fixed seed), never a mixture.
                def plain(vs, vw):
                    d_ = HMF(*data(vs, vw), **kwargs()).solve()
                    return d_['acoeff'], d_['flux']
                s_new, w_new = s[::-1].copy(), w[::-1].copy()
                old, new = (a0, g0), plain(s_new, w_new)

                def one_of(d_):
                    return any(np.array_equal(d_['acoeff'], t[0]) and np.array_equal(d_['flux'], t[1]) for t in (old, new))
                s2, w2 = data()
                if s2.flags.writeable:
                    hm = HMF(s2, w2, **kwargs())
                    s2[...] = s_new
                    w2[...] = w_new
                    if not one_of(hm.solve()):
                        hist.append("caller's arrays changed in place between construction and solve(): the result is neither the answer for the old nor for the new data")
                    s2[...] = s
                    w2[...] = w
                    if not one_of(hm.solve()):
                        hist.append("caller's arrays changed in place between two solve() calls: the result is neither the answer for the old nor for the new data")
                out = {'identical': bool(np.array_equal(r0['a'], r1['a']) and np.array_equal(r0['g'], r1['g'])),
                       'history_dependent': hist, 'global_changed': r0['global_changed'], 'result_aliases_input': r0['aliases'],
                       'shape_a': list(r0['a'].shape), 'shape_g': list(r0['g'].shape),
                       'inputs_unchanged': r0['inputs_unchanged'] and r1['inputs_unchanged'],
                       'min_a': float(np.min(r0['a'])), 'min_g': float(np.min(r0['g'])),
                       'finite': finite(r0['a'], r0['g']), 'rms': r0['rms'], 'trace': r0['trace'], 'loop': r0['loop']}
                return {'ok': out}
            if f == 'pca':
                L = c.get('layout') or {}
                flux, ivar = lay(arr(c['flux'], c.get('dtype')), L.get('flux'))[0], lay(arr(c['ivar'], c.get('dtype')), L.get('ivar'))[0]
                f0, i0 = np.array(flux, copy=True), np.array(ivar, copy=True)
                npint = (lambda v: v if v is None else np.int64(v)) if c.get('opt_style') == 'npbool' else (lambda v: v)
                kw = dict(nkeep=npint(c['nkeep']), niter=npint(c.get('niter', 10)), maxiter=npint(c.get('maxiter', 0)), nreturn=npint(c.get('nreturn')))
                if c.get('opt_style') == 'int':
                    kw['verbose'] = False
                g0 = global_state()
                # observe what pca_solve hands to pcomp in every inner pass (the class is looked up in the package at call time)
                seen = []
                orig = pydl.pcomp

                class SeenPcomp(orig):
                    def __init__(self, x, *a, **k):
                        self.seen_x = np.array(x, dtype='d', copy=True)
                        self.seen_opts = [list(map(repr, a)), {kk: repr(vv) for kk, vv in k.items()}]
                        seen.append(self)
                        super().__init__(x, *a, **k)
                pydl.pcomp = SeenPcomp
                try:
                    d = pca_solve(flux, ivar, **kw)
                finally:
                    pydl.pcomp = orig
                passes = [{'x': tolist(o.seen_x.T), 'pres': tolist(o.derived), 'eigenvalues': tolist(o.eigenvalues),
                           'coefficients': tolist(o.coefficients), 'variance': tolist(o.variance), 'opts': o.seen_opts}
                          for o in seen]
                nret = c.get('nreturn') or c['nkeep']
                last = seen[-1] if seen else None
                flux_is_derived = bool(last is not None and np.array_equal(d['flux'], np.asarray(last.derived)[:, 0:nret].T.astype('f'))
                                       and np.array_equal(d['eigenval'], np.asarray(last.eigenvalues)[0:nret]))
                # the same call again on fresh copies, after the caller edited what the first call returned
                keep = {k: np.array(d[k], copy=True) for k in ('flux', 'acoeff', 'eigenval')}
                for k in ('flux', 'acoeff'):
                    d[k] += 1
                gchanged = global_diff(g0, global_state())
                unchanged_first = bool(same(flux, f0) and same(ivar, i0))
                aliases = sorted(k for k in ('flux', 'acoeff', 'eigenval', 'usemask', 'outmask') if shares(d.get(k), [flux, ivar]))
                d_again = pca_solve(lay(f0.copy(), L.get('flux'))[0], lay(i0.copy(), L.get('ivar'))[0], **kw)
                repeatable = all(np.array_equal(keep[k], d_again[k]) for k in keep)
                # class A: the SAME arrays handed in again (what the first call left in them), then again after the caller
                # changed them in place; each answer must be the one a call on fresh copies of the current values gives
                reuse = []
                d_same = pca_solve(flux, ivar, **kw)
                if not all(np.array_equal(keep[k], d_same[k]) for k in keep):
                    reuse.append('second call on the same arrays differs from the first')
                if flux.flags.writeable and ivar.flags.writeable and flux.dtype.kind == 'f':
                    flux[...] = flux[::-1].copy() * 2
                    ivar[...] = ivar[::-1].copy()
                    d_new = pca_solve(flux, ivar, **kw)
                    d_ref = pca_solve(lay(np.array(flux, copy=True), L.get('flux'))[0], lay(np.array(ivar, copy=True), L.get('ivar'))[0], **kw)
                    if not all(np.array_equal(d_new[k], d_ref[k]) for k in keep):
                        reuse.append('call on the same arrays after the caller changed them in place differs from a call on copies')
                    flux[...] = f0
                    ivar[...] = i0
                d = dict(d, **keep)
                out = {'flux': tolist(d['flux']), 'acoeff': tolist(d['acoeff']), 'eigenval': tolist(d['eigenval']),
                       'usemask': [int(v) for v in np.asarray(d['usemask']).tolist()],
                       'flux_dtype': str(d['flux'].dtype), 'repeatable': bool(repeatable), 'reuse': reuse,
                       'global_changed': gchanged, 'result_aliases_input': aliases,
                       'outmask': np.asarray(d['outmask'], dtype='d').tolist(), 'n_pcomp_calls': len(seen),
                       'flux_is_derived': flux_is_derived,
                       'passes': [dict(passes[k], k=k, x_next=(passes[k + 1]['x'] if k + 1 < len(passes) else None))
                                  for k in sorted(set(kk % len(passes) for kk in c.get('trace_passes', [])))] if passes else [],
                       'inputs_unchanged': unchanged_first}
                if not finite(d['flux'], d['acoeff'], d['eigenval']):
                    return {'err': 'nonfinite'}
                return {'ok': out}
            if f == 'observe':
                return {'ok': observe()}
            return {'err': 'BadCall'}
    except Exception as e:  # noqa: BLE001 - the error class is the observation
        import traceback
        r = err(e)
        r['where'] = traceback.format_exc()[-600:]
        return r


def main():
    calls = json.load(sys.stdin)
    real_stdout = sys.stdout
    sys.stdout = sys.stderr          # astropy's logger prints INFO records to sys.stdout
    try:
        out = {'pydl_file': pydl.__file__, 'results': [call(c) for c in calls], 'import_side_effects': IMPORT_SIDE_EFFECTS}
    finally:
        sys.stdout = real_stdout
    json.dump(out, sys.stdout)


if __name__ == '__main__':
    main()
