(* C19 -- algorithmic model M: the expressions GENERATED from the pydl source (Generated/AstroConsts.v) composed into
   airtovac / vactoair (over Q, executable, and the same text over R for the analytic theorems), the filter_thru band
   sum, and the case type evaluated by the harness.  Definitions only. *)
From Coq Require Import Reals QArith List Bool ZArith Qabs.
Import ListNotations.
From PV Require Import C19.Spec Generated.AstroConsts.

(* ---------- air <-> vacuum over Q ---------- *)
Open Scope Q_scope.

Fixpoint iterQ (n : nat) (f : Q -> Q) (x : Q) : Q :=
  match n with O => x | S k => iterQ k f (Qred (f x)) end.

(* `for k in range(N): vacuum = a * fact(vacuum)` starting from vacuum = a; below the threshold the input is returned *)
Definition airtovac_Q (a : Q) : Q :=
  if airtovac_guard_Q a then a else iterQ airtovac_iterations (airtovac_step_Q a) a.
Definition vactoair_Q (v : Q) : Q :=
  if vactoair_guard_Q v then v else Qred (vactoair_body_Q v).

(* Quantity input in a unit of k Angstrom: converted to Angstrom, result converted back *)
Definition in_unit (k : Q) (f : Q -> Q) (x : Q) : Q := f (k * x) / k.

Close Scope Q_scope.

(* ---------- air <-> vacuum over R (same generated text) ---------- *)
Open Scope R_scope.
Fixpoint iterR (n : nat) (f : R -> R) (x : R) : R :=
  match n with O => x | S k => iterR k f (f x) end.
Definition airtovac_R (a : R) : R :=
  if airtovac_guard_R_dec a then a else iterR airtovac_iterations (airtovac_step_R a) a.
Definition vactoair_R (v : R) : R :=
  if vactoair_guard_R_dec v then v else vactoair_body_R v.
Close Scope R_scope.

(* ---------- filter_thru: one (trace, band) ---------- *)
Open Scope Q_scope.
Definition filter_band (l : list (Q * Q)) : Q := filter_norm (sumwf l) (sumw l).

(* one (trace, band) from the raw ingredients (fitted d(log lambda), interpolated response, flux) per pixel, with the
   GENERATED pixel-width post-processing and weight formula *)
Definition band_pairs (l : list (Q * Q * Q)) : list (Q * Q) :=
  map (fun t : Q * Q * Q => (filter_weight (filter_logdiff (fst (fst t))) (snd (fst t)), snd t)) l.
Definition filter_thru_band (l : list (Q * Q * Q)) : Q := filter_band (band_pairs l).

(* masked pixels are replaced through an interpolation that sees only the unmasked (index, value) pairs *)
Definition good_pairs (fl : list (Z * Q * bool)) : list (Z * Q) :=
  map (fun t : Z * Q * bool => (fst (fst t), snd (fst t))) (filter (fun t : Z * Q * bool => negb (snd t)) fl).
Definition mask_interp (interp : list (Z * Q) -> Z -> Q) (fl : list (Z * Q * bool)) : list Q :=
  map (fun t : Z * Q * bool => if snd t then interp (good_pairs fl) (fst (fst t)) else snd (fst t)) fl.

(* ---------- cases ---------- *)
Inductive case :=
| CAir (k x r : Q)        (* airtovac on x [unit of k Angstrom]; the implementation returned r [same unit] *)
| CVac (k x r : Q)        (* vactoair *)
| CFilter (l : list (Q * Q * Q)) (r : Q) (tol : Q).   (* (fitted dloglam, response, interpolated flux) per pixel of one trace and band; result r *)

Definition tol_wave : Q := 1 # 1000000000000.   (* 1e-12 relative *)

Definition run_case (c : case) : Z :=
  match c with
  | CAir k x r =>
      (if rel_close (in_unit k airtovac_Q x) r tol_wave then 0 else 1) +
      (if airtovac_ok (k * x) (k * r) then 0 else 2)
  | CVac k x r =>
      (if rel_close (in_unit k vactoair_Q x) r tol_wave then 0 else 1) +
      (if vactoair_ok (k * x) (k * r) then 0 else 2)
  | CFilter l r tol =>
      (if Qle_bool (Qabs (filter_thru_band l - r)) tol then 0 else 1) +
      (if wmean_ok (spec_pairs l) r tol then 0 else 2)
  end%Z.

Definition run_cases (l : list case) : list Z := map run_case l.
Close Scope Q_scope.
