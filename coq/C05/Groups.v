(* C05 -- class groups (the per-cell friends-of-friends): groups_model computes the components of the link
   relation restricted to the cell (groups_refines). *)
From Coq Require Import ZArith List Bool Arith Lia Relations.
Import ListNotations.
From PV Require Import C05.Model C05.Proofs C05.Renumber C05.Algo.

Lemma set_walk_relabel : forall fuel nx ing ren k v,
  set_walk fuel nx ing k v = fst (relabel_walk fuel nx ing ren k v).
Proof.
  induction fuel as [|f IH]; intros; simpl; [reflexivity|]. destruct (k =? -1)%Z; [reflexivity|]. apply IH.
Qed.

Lemma existsb_app1 : forall (A : Type) (P : A -> bool) l x, existsb P (l ++ [x]) = existsb P l || P x.
Proof. intros. rewrite existsb_app. simpl. rewrite orb_false_r. reflexivity. Qed.

Section Relabel.
  Variables m i : nat.
  Hypothesis Him : i < m.
  Variable old : arr.
  Variables first next : arr.
  Variable g : Z.
  Let lab : nat -> nat := fun v => Z.to_nat (old v).
  Hypothesis Hnonneg : forall v, (0 <= old v)%Z.
  Hypothesis Hg0 : (0 <= g)%Z.
  Hypothesis Hgm : (g < Z.of_nat m)%Z.
  Hypothesis Holdm : forall v, v < m -> (old v < Z.of_nat m)%Z.
  Hypothesis Hfirst : forall c, first c = first_of i lab c.
  Hypothesis Hnext : forall v, v < i -> next v = next_of i lab v.

  Definition rstep (cur : arr) (j : nat) : arr :=
    aset (if (cur j <? Z.of_nat m)%Z then set_walk (S m) next cur (aget first (cur j)) g else cur) j g.

  Definition samelab (v j : nat) : bool := (old v =? old j)%Z.
  Definition F (pre : list nat) (v : nat) : Z :=
    if memb v pre || ((v <? i) && existsb (samelab v) pre) then g else old v.

  Lemma walk_class : forall cur c v,
    set_walk (S m) next cur (first c) g v = if (v <? i) && Nat.eqb (lab v) c then g else cur v.
  Proof.
    intros cur c v. rewrite (set_walk_relabel _ _ _ (fun _ => false)).
    rewrite Hfirst. unfold first_of, members.
    destruct (relabel_walk_spec i lab next Hnext c g i 0 (S m) cur (fun _ => false) eq_refl ltac:(lia) v) as [H _].
    rewrite H. unfold upd_class. simpl. reflexivity.
  Qed.

  Lemma lab_eq : forall v j, Nat.eqb (lab v) (lab j) = samelab v j.
  Proof.
    intros v j. unfold lab, samelab. pose proof (Hnonneg v). pose proof (Hnonneg j).
    destruct (old v =? old j)%Z eqn:E.
    - apply Z.eqb_eq in E. rewrite E. apply Nat.eqb_refl.
    - apply Z.eqb_neq in E. apply Nat.eqb_neq. intro H1. apply E. lia.
  Qed.

  Lemma F_cases : forall pre v, F pre v = g \/ F pre v = old v.
  Proof. intros. unfold F. destruct (memb v pre || ((v <? i) && existsb (samelab v) pre)); auto. Qed.

  Lemma rstep_char : forall pre cur j, j < m -> (forall v, cur v = F pre v) ->
    forall v, rstep cur j v = F (pre ++ [j]) v.
  Proof.
    intros pre cur j Hj Hcur v. unfold rstep.
    assert (Hcj : (cur j <? Z.of_nat m)%Z = true).
    { apply Z.ltb_lt. rewrite Hcur. destruct (F_cases pre j) as [->| ->]; [exact Hgm|apply Holdm; exact Hj]. }
    rewrite Hcj. unfold aset, aget.
    destruct (Nat.eqb v j) eqn:Evj.
    - apply Nat.eqb_eq in Evj. subst v. unfold F.
      assert (Hm : memb j (pre ++ [j]) = true) by (apply memb_In; apply in_app_iff; right; left; reflexivity).
      rewrite Hm. reflexivity.
    - rewrite walk_class, (Hcur v), (Hcur j).
      assert (HFv : F pre v = if memb v pre || ((v <? i) && existsb (samelab v) pre) then g else old v) by reflexivity.
      assert (HFn : F (pre ++ [j]) v =
                    if memb v pre || ((v <? i) && (existsb (samelab v) pre || samelab v j)) then g else old v).
      { unfold F, memb. rewrite !existsb_app1. fold (memb v pre). rewrite Evj, orb_false_r. reflexivity. }
      rewrite HFn, HFv. clear HFn HFv.
      (* the label whose list is walked: the current label of j *)
      destruct (F_cases pre j) as [Hj1|Hj1].
      + (* j already carries g *)
        rewrite Hj1.
        destruct (Z.eq_dec (old j) g) as [Eo|Eo].
        * (* its old label is g as well: the walked class is the class of j *)
          assert (Hl : Nat.eqb (lab v) (Z.to_nat g) = samelab v j) by (rewrite <- Eo; apply lab_eq).
          rewrite Hl.
          destruct (memb v pre), (v <? i), (existsb (samelab v) pre), (samelab v j); reflexivity.
        * (* j was relabelled before: some member of pre has the old label of j *)
          assert (Hpre : existsb (samelab j) pre = true).
          { unfold F in Hj1. destruct (memb j pre || ((j <? i) && existsb (samelab j) pre)) eqn:E; [|congruence].
            apply orb_true_iff in E. destruct E as [E|E].
            - apply memb_In in E. apply existsb_exists. exists j. split; [exact E|]. unfold samelab. apply Z.eqb_refl.
            - apply andb_true_iff in E. tauto. }
          assert (Hs : samelab v j = true -> existsb (samelab v) pre = true).
          { intro Hs. apply existsb_exists in Hpre. destruct Hpre as [x [Hx Hxj]]. apply existsb_exists.
            exists x. split; [exact Hx|]. unfold samelab in *. apply Z.eqb_eq in Hs. apply Z.eqb_eq in Hxj.
            apply Z.eqb_eq. congruence. }
          assert (Hl : Nat.eqb (lab v) (Z.to_nat g) = (old v =? g)%Z).
          { unfold lab. pose proof (Hnonneg v). destruct (old v =? g)%Z eqn:E.
            - apply Z.eqb_eq in E. rewrite E. apply Nat.eqb_refl.
            - apply Z.eqb_neq in E. apply Nat.eqb_neq. intro H1. apply E. lia. }
          rewrite Hl.
          destruct (old v =? g)%Z eqn:E5.
          -- apply Z.eqb_eq in E5. rewrite E5.
             destruct (memb v pre), (v <? i), (existsb (samelab v) pre), (samelab v j); reflexivity.
          -- destruct (samelab v j) eqn:E4.
             ++ rewrite (Hs eq_refl). destruct (memb v pre), (v <? i); reflexivity.
             ++ destruct (memb v pre), (v <? i), (existsb (samelab v) pre); reflexivity.
      + (* j still has its old label: its whole class is relabelled *)
        rewrite Hj1. fold (lab j). rewrite lab_eq.
        destruct (memb v pre), (v <? i), (existsb (samelab v) pre), (samelab v j); reflexivity.
  Qed.

  Lemma fold_char : forall l pre cur, (forall j, In j l -> j < m) -> (forall v, cur v = F pre v) ->
    forall v, fold_left rstep l cur v = F (pre ++ l) v.
  Proof.
    induction l as [|j l IH]; intros pre cur Hl Hcur v; simpl.
    - rewrite app_nil_r. apply Hcur.
    - replace (pre ++ j :: l) with ((pre ++ [j]) ++ l) by (rewrite <- app_assoc; reflexivity).
      apply IH; [intros x Hx; apply Hl; right; exact Hx|].
      apply rstep_char; [apply Hl; left; reflexivity|exact Hcur].
  Qed.

  (* the relabelling of one iteration, in closed form *)
  Lemma relabel_char : forall nbrs, (forall j, In j nbrs -> j < m) ->
    forall v, fold_left rstep nbrs old v = F nbrs v.
  Proof.
    intros nbrs Hn v. rewrite (fold_char nbrs [] old Hn); [reflexivity|].
    intro x. unfold F. simpl. rewrite andb_false_r. reflexivity.
  Qed.
End Relabel.

Lemma fold_min_spec : forall (f : nat -> Z) l acc,
  let r := fold_left (fun mg j => Z.min mg (f j)) l acc in
  (r <= acc)%Z /\ (forall j, In j l -> (r <= f j)%Z) /\ (r = acc \/ exists j, In j l /\ f j = r).
Proof.
  induction l as [|a l IH]; intro acc; simpl.
  - split; [lia|]. split; [intros j []|left; reflexivity].
  - destruct (IH (Z.min acc (f a))) as [H1 [H2 H3]].
    set (r := fold_left (fun mg j => Z.min mg (f j)) l (Z.min acc (f a))) in *.
    split; [lia|]. split.
    + intros j [<-|Hj]; [lia|apply H2; exact Hj].
    + destruct H3 as [H3|[j [Hj Hf]]].
      * destruct (Z.min_spec acc (f a)) as [[_ Hm]|[_ Hm]].
        -- left. congruence.
        -- right. exists a. split; [left; reflexivity|congruence].
      * right. exists j. split; [right; exact Hj|exact Hf].
Qed.

Section GroupsInv.
  Variable m : nat.
  Variable lnk : nat -> nat -> bool.
  Hypothesis Hsym : forall a b, a < m -> b < m -> lnk a b = lnk b a.
  Hypothesis Hrefl : forall a, a < m -> lnk a a = true.

  Definition labz (ing : arr) (v : nat) : nat := Z.to_nat (ing v).

  Definition ginv (i : nat) (st : gstate) : Prop :=
    (0 <= g_n st <= Z.of_nat i)%Z /\
    (forall v, 0 <= g_in st v)%Z /\
    (forall v, v < i -> (g_in st v < g_n st)%Z) /\
    (forall v, i <= v -> (g_in st v < g_n st)%Z \/ g_in st v = Z.of_nat v) /\
    (forall u v, u < m -> v < m -> g_in st u = g_in st v -> E m lnk u v) /\
    (forall a b, a < i -> b < i -> lnk a b = true -> g_in st a = g_in st b) /\
    (forall c, g_first st c = first_of i (labz (g_in st)) c) /\
    (forall v, v < i -> g_next st v = next_of i (labz (g_in st)) v).

  Lemma lnk_E : forall a b, a < m -> b < m -> lnk a b = true -> E m lnk a b.
  Proof. intros. apply rst_step. repeat split; assumption. Qed.

  Lemma first_none : forall i lab c, (forall v, v < i -> lab v <> c) -> first_of i lab c = (-1)%Z.
  Proof.
    intros i lab c H. unfold first_of, members.
    destruct (filter (fun v => Nat.eqb (lab v) c) (seq 0 i)) as [|x l] eqn:Ef; [reflexivity|].
    exfalso. assert (Hx : In x (x :: l)) by (left; reflexivity). rewrite <- Ef in Hx.
    apply filter_In in Hx. destruct Hx as [Hx1 Hx2]. apply in_seq in Hx1. apply Nat.eqb_eq in Hx2.
    apply (H x); [lia|exact Hx2].
  Qed.

  Lemma groups_step_inv : forall i st, i < m -> ginv i st -> ginv (S i) (groups_step m lnk st i).
  Proof.
    intros i st Hi [A [B1 [B2 [B3 [C [Fc [D1 D2]]]]]]].
    set (old := g_in st) in *. set (ng := g_n st) in *.
    set (nbrs := filter (fun j => lnk i j) (seq 0 m)).
    assert (Hnb : forall j, In j nbrs <-> (j < m /\ lnk i j = true)).
    { intro j. unfold nbrs. rewrite filter_In, in_seq. split; intros [H1 H2]; (split; [lia|exact H2]). }
    assert (Hinb : In i nbrs) by (apply Hnb; split; [exact Hi|apply Hrefl; exact Hi]).
    destruct (fold_min_spec old nbrs ng) as [M1 [M2 M3]].
    set (g := fold_left (fun mg j => Z.min mg (old j)) nbrs ng) in *.
    assert (Holdm : forall v, v < m -> (old v < Z.of_nat m)%Z).
    { intros v Hv. destruct (le_lt_dec i v) as [H|H].
      - destruct (B3 v H) as [H1|H1]; [lia|rewrite H1; lia].
      - specialize (B2 v H). lia. }
    assert (Hg0 : (0 <= g)%Z).
    { destruct M3 as [->|[j [_ <-]]]; [lia|apply B1]. }
    assert (Hgm : (g < Z.of_nat m)%Z) by lia.
    pose proof (relabel_char m i Hi old (g_first st) (g_next st) g B1 Hg0 Hgm Holdm D1 D2 nbrs
                  (fun j Hj => proj1 (proj1 (Hnb j) Hj))) as Hchar.
    (* unfold one iteration *)
    unfold groups_step. fold nbrs. fold old ng. fold g.
    change (fold_left (fun ing j => aset (if (ing j <? Z.of_nat m)%Z
                                          then set_walk (S m) (g_next st) ing (aget (g_first st) (ing j)) g
                                          else ing) j g) nbrs old)
      with (fold_left (rstep m (g_first st) (g_next st) g) nbrs old).
    set (ing' := fold_left (rstep m (g_first st) (g_next st) g) nbrs old) in *.
    set (T := fun v => memb v nbrs || ((v <? i) && existsb (samelab old v) nbrs)).
    assert (HT : forall v, ing' v = if T v then g else old v) by (intro v; apply Hchar).
    assert (HTi : T i = true).
    { unfold T. apply orb_true_iff. left. apply memb_In. exact Hinb. }
    assert (HTE : forall v, v < m -> T v = true -> E m lnk i v).
    { intros v Hv H. unfold T in H. apply orb_true_iff in H. destruct H as [H|H].
      - apply memb_In in H. apply Hnb in H. apply lnk_E; tauto.
      - apply andb_true_iff in H. destruct H as [H1 H2]. apply Nat.ltb_lt in H1.
        apply existsb_exists in H2. destruct H2 as [j [Hj Hs]]. unfold samelab in Hs. apply Z.eqb_eq in Hs.
        apply Hnb in Hj. destruct Hj as [Hjm Hl].
        eapply E_trans; [apply lnk_E; [exact Hi|exact Hjm|exact Hl]|]. apply E_sym. apply C; assumption. }
    assert (HgE : forall v, v < m -> T v = false -> old v = g -> E m lnk i v).
    { intros v Hv HTv Hov. destruct M3 as [M3|[j0 [Hj0 Hf0]]].
      - exfalso. rewrite M3 in Hov. destruct (le_lt_dec i v) as [H|H].
        + destruct (B3 v H) as [H1|H1]; [lia|].
          assert (v = i) by lia. subst v. congruence.
        + specialize (B2 v H). lia.
      - apply Hnb in Hj0. destruct Hj0 as [Hjm Hl].
        eapply E_trans; [apply lnk_E; [exact Hi|exact Hjm|exact Hl]|]. apply C; [exact Hjm|exact Hv|congruence]. }
    set (ng' := if (g =? ng)%Z then (ng + 1)%Z else ng).
    assert (Hgng : (g < ng')%Z).
    { unfold ng'. destruct (g =? ng)%Z eqn:Eg; [apply Z.eqb_eq in Eg; lia|apply Z.eqb_neq in Eg; lia]. }
    assert (Hng' : (ng <= ng' <= ng + 1)%Z) by (unfold ng'; destruct (g =? ng)%Z; lia).
    (* the rebuilt lists *)
    pose proof (build_lists_spec (S i) (labz ing') (S i)
                  (fun x => if x <=? i then (-1)%Z else g_first st x) (g_next st) ing' (le_n _)) as HB.
    destruct (build_lists (rev (seq 0 (S i))) ing' (fun x => if x <=? i then (-1)%Z else g_first st x) (g_next st))
      as [first' next'] eqn:Eb.
    assert (Hnn' : forall v, (0 <= ing' v)%Z) by (intro v; rewrite HT; destruct (T v); [exact Hg0|apply B1]).
    destruct HB as [HB1 HB2].
    { intros v _. unfold labz. rewrite Z2Nat.id; [reflexivity|apply Hnn']. }
    { intro c. rewrite Nat.sub_diag. simpl. destruct (c <=? i) eqn:Ec; [reflexivity|].
      apply Nat.leb_gt in Ec. rewrite D1. apply first_none. intros v Hv Hl.
      unfold labz in Hl. specialize (B2 v Hv). pose proof (B1 v). fold old in Hl. lia. }
    { intros v Hv. lia. }
    cbn [fst snd] in HB1, HB2.
    split; [|split; [|split; [|split; [|split; [|split; [|split]]]]]]; cbn [g_n g_in g_first g_next].
    - fold ng'. lia.
    - exact Hnn'.
    - intros v Hv. fold ng'. rewrite HT. destruct (T v) eqn:ETv; [exact Hgng|].
      destruct (Nat.eq_dec v i) as [->|Hne]; [congruence|]. specialize (B2 v ltac:(lia)). lia.
    - intros v Hv. fold ng'. rewrite HT. destruct (T v) eqn:ETv; [left; exact Hgng|].
      destruct (B3 v ltac:(lia)) as [H|H]; [left; lia|right; exact H].
    - intros u v Hu Hv Heq. rewrite !HT in Heq.
      destruct (T u) eqn:ETu; destruct (T v) eqn:ETv.
      + eapply E_trans; [apply E_sym; apply HTE; eassumption|apply HTE; eassumption].
      + eapply E_trans; [apply E_sym; apply HTE; eassumption|]. apply HgE; auto.
      + eapply E_trans; [|apply HTE; eassumption]. apply E_sym. apply HgE; auto.
      + apply C; assumption.
    - intros a b Ha Hb Hl. rewrite !HT.
      assert (Hab : forall a b, a < i -> b < i -> old a = old b -> T a = true -> T b = true).
      { intros a0 b0 Ha0 Hb0 Heq H. unfold T in *. apply orb_true_iff in H. apply orb_true_iff. right.
        apply andb_true_iff. split; [apply Nat.ltb_lt; exact Hb0|].
        destruct H as [H|H].
        - apply memb_In in H. apply existsb_exists. exists a0. split; [exact H|]. unfold samelab. apply Z.eqb_eq. congruence.
        - apply andb_true_iff in H. destruct H as [_ H]. apply existsb_exists in H. destruct H as [j [Hj Hs]].
          apply existsb_exists. exists j. split; [exact Hj|]. unfold samelab in *. apply Z.eqb_eq in Hs. apply Z.eqb_eq. congruence. }
      destruct (Nat.eq_dec a i) as [->|Hai]; destruct (Nat.eq_dec b i) as [->|Hbi].
      + reflexivity.
      + assert (Tb : T b = true).
        { unfold T. apply orb_true_iff. left. apply memb_In. apply Hnb. split; [lia|exact Hl]. }
        rewrite HTi, Tb. reflexivity.
      + assert (Ta : T a = true).
        { unfold T. apply orb_true_iff. left. apply memb_In. apply Hnb. split; [lia|].
          rewrite Hsym by lia. exact Hl. }
        rewrite HTi, Ta. reflexivity.
      + assert (Heq : old a = old b) by (apply Fc; [lia|lia|exact Hl]).
        destruct (T a) eqn:ETa; destruct (T b) eqn:ETb; try reflexivity; try exact Heq.
        * rewrite (Hab a b ltac:(lia) ltac:(lia) Heq ETa) in ETb. discriminate.
        * rewrite (Hab b a ltac:(lia) ltac:(lia) (eq_sym Heq) ETb) in ETa. discriminate.
    - exact HB1.
    - exact HB2.
  Qed.

  Definition gst0 : gstate :=
    {| g_in := fun i => Z.of_nat i; g_first := const (-1)%Z; g_next := const (-1)%Z; g_n := 0%Z |}.

  Lemma ginv0 : ginv 0 gst0.
  Proof.
    unfold ginv, gst0. cbn [g_n g_in g_first g_next].
    split; [lia|]. split; [intro; lia|]. split; [intros; lia|]. split; [intros; right; reflexivity|].
    split; [intros u v _ _ H; assert (u = v) by lia; subst; apply E_refl|]. split; [intros; lia|].
    split; [intro c; reflexivity|intros; lia].
  Qed.

  Lemma groups_fold_inv : forall k a st, a + k <= m -> ginv a st ->
    ginv (a + k) (fold_left (groups_step m lnk) (seq a k) st).
  Proof.
    induction k as [|k IH]; intros a st Hak H; simpl.
    - rewrite Nat.add_0_r. exact H.
    - replace (a + S k) with (S a + k) by lia. apply IH; [lia|]. apply groups_step_inv; [lia|exact H].
  Qed.

  Definition gfinal : gstate := fold_left (groups_step m lnk) (seq 0 m) gst0.

  Lemma gfinal_inv : ginv m gfinal.
  Proof. apply (groups_fold_inv m 0 gst0); [lia|exact ginv0]. Qed.

  (* the labelling before the final renumbering: equal labels <-> same component of lnk *)
  Lemma gfinal_labels : forall a b, a < m -> b < m ->
    (labz (g_in gfinal) a = labz (g_in gfinal) b <-> E m lnk a b).
  Proof.
    intros a b Ha Hb. destruct gfinal_inv as [_ [B1 [_ [_ [C [Fc _]]]]]]. split.
    - intro H. apply C; [exact Ha|exact Hb|]. unfold labz in H. pose proof (B1 a). pose proof (B1 b). lia.
    - intro H. clear Ha Hb. induction H as [x y [Hx [Hy Hl]]| | |].
      + unfold labz. rewrite (Fc x y Hx Hy Hl). reflexivity.
      + reflexivity.
      + symmetry. assumption.
      + congruence.
  Qed.
End GroupsInv.

(* ------------------------------------------------------------------ the tail of groups and the cell's provisional groups *)
Lemma arr_of_tolist : forall m (a : arr) v, v < m -> arr_of (tolist m a) v = a v.
Proof.
  intros m a v Hv. unfold arr_of, tolist.
  rewrite (nth_indep _ (-1)%Z (a 0)) by (rewrite map_length, seq_length; exact Hv).
  rewrite map_nth, seq_nth by exact Hv. reflexivity.
Qed.

Lemma walk_filter_gen : forall n lab nx, (forall v, v < n -> nx v = next_of n lab v) ->
  forall g k a fuel, a + k = n -> k < fuel ->
  walk fuel nx (hdz (filter (fun i => Nat.eqb (lab i) g) (seq a k))) = filter (fun i => Nat.eqb (lab i) g) (seq a k).
Proof.
  intros n lab nx Hnx g. induction k as [|k IH]; intros a fuel Ha Hf.
  - simpl. destruct fuel; [lia|]. reflexivity.
  - destruct fuel as [|fuel]; [lia|].
    change (seq a (S k)) with (a :: seq (S a) k). cbn [filter]. destruct (Nat.eqb (lab a) g) eqn:Ea.
    + cbn [hdz walk]. assert (Hneg : (Z.of_nat a <? 0)%Z = false) by (apply Z.ltb_ge; lia).
      rewrite Hneg, Nat2Z.id. f_equal. rewrite Hnx by lia.
      unfold next_of. apply Nat.eqb_eq in Ea. rewrite Ea. replace (n - S a) with k by lia. apply IH; lia.
    + apply IH; lia.
Qed.

Section CellGroups.
  Variable m : nat.
  Variable lnk : nat -> nat -> bool.
  Hypothesis Hsym : forall a b, a < m -> b < m -> lnk a b = lnk b a.
  Hypothesis Hrefl : forall a, a < m -> lnk a a = true.

  Let lab0 : nat -> nat := labz (g_in (gfinal m lnk)).
  Let cn : nat -> nat := canon m lab0.
  Let K : nat := nfirst m lab0 m.

  Lemma K_le : K <= m.
  Proof. unfold K, nfirst. pose proof (filter_len_all (isfirst m lab0) (seq 0 m)) as H. rewrite seq_length in H. exact H. Qed.

  Lemma groups_model_spec :
    exists ing mult first next,
      groups_model m lnk = (Z.of_nat K, (tolist m ing, tolist m mult, tolist m first, tolist m next)) /\
      (forall c, first c = first_of m cn c) /\ (forall v, v < m -> next v = next_of m cn v) /\
      (forall v, v < m -> ing v = Z.of_nat (cn v)).
  Proof.
    destruct (gfinal_inv m lnk Hsym Hrefl) as [_ [B1 [_ [_ [_ [_ [D1 D2]]]]]]].
    fold lab0 in D1, D2.
    assert (Hr0 : rinv m lab0 0 (g_in (gfinal m lnk)) (fun _ => false) 0%Z).
    { split; [reflexivity|]. intros x Hx. split; [split; [discriminate|lia]|]. split; [discriminate|].
      intros _. unfold lab0, labz. rewrite Z2Nat.id; [reflexivity|apply B1]. }
    pose proof (renumber_loop_spec m lab0 _ _ D1 D2 m 0 _ _ _ eq_refl Hr0) as HS.
    pose proof (renumber_loop_count m lab0 _ _ D1 D2 m 0 _ _ _ eq_refl Hr0) as HC.
    unfold groups_model. fold (gst0). fold (gfinal m lnk).
    destruct (renumber_loop (S m) (g_first (gfinal m lnk)) (g_next (gfinal m lnk)) (seq 0 m)
                (g_in (gfinal m lnk)) (fun _ => false) 0%Z) as [ing c] eqn:El.
    cbn [fst snd] in HS, HC. fold cn in HS. fold K in HC. subst c.
    pose proof (build_lists_spec m cn m (const (-1)%Z) (g_next (gfinal m lnk)) ing (le_n m) HS) as HB.
    destruct (build_lists (rev (seq 0 m)) ing (const (-1)%Z) (g_next (gfinal m lnk))) as [first next] eqn:Eb.
    destruct HB as [HB1 HB2].
    { intro g. rewrite Nat.sub_diag. reflexivity. }
    { intros i Hi. lia. }
    cbn [fst snd] in HB1, HB2.
    exists ing, (mult_loop (S m) (Z.to_nat (Z.of_nat K)) first next), first, next.
    split; [reflexivity|]. split; [exact HB1|]. split; [exact HB2|exact HS].
  Qed.

  (* the provisional groups of the cell are the member lists of the canonical groups 0..K-1 *)
  Lemma cell_pgs_spec : forall c, length c = m ->
    cell_pgs lnk c = map (fun k => map (fun l => nth l c 0) (members m cn k)) (seq 0 K).
  Proof.
    intros c Hc. unfold cell_pgs. rewrite Hc.
    destruct groups_model_spec as [ing [mult [first [next [Hg [H1 [H2 _]]]]]]]. rewrite Hg.
    unfold pgs_of_cell. rewrite Nat2Z.id, Hc. apply map_ext_in. intros k Hk. apply in_seq in Hk.
    pose proof K_le. f_equal.
    rewrite arr_of_tolist by lia. rewrite H1. unfold first_of, members.
    apply (walk_filter_gen m cn (arr_of (tolist m next))); [|lia|lia].
    intros v Hv. rewrite arr_of_tolist by exact Hv. apply H2. exact Hv.
  Qed.

  Lemma cn_same_iff : forall a b, a < m -> b < m -> (cn a = cn b <-> E m lnk a b).
  Proof.
    intros a b Ha Hb. unfold cn. rewrite (canon_same_iff m lab0 a b Ha Hb).
    apply (gfinal_labels m lnk Hsym Hrefl a b Ha Hb).
  Qed.

  Lemma cn_lt_K : forall a, a < m -> cn a < K.
  Proof. intros a Ha. apply canon_lt_total. exact Ha. Qed.
End CellGroups.
