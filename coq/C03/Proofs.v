(* C03 -- proofs, part 1: refusals change nothing, appended bytes extend the file. *)
From Coq Require Import String.
From Coq Require Import NArith ZArith List Bool Lia.
Import ListNotations.
From PV Require Import Yanny.Bytes Yanny.BytesFacts Yanny.Types Yanny.Parse Yanny.Render C03.Model.
Open Scope N_scope.

(* ---- the file system ---- *)
Lemma fs_get_set_same fs p b : fs_get (fs_set fs p b) p = Some b.
Proof.
  induction fs as [|[q c] fs IH]; cbn [fs_set fs_get].
  - now rewrite beq_refl.
  - destruct (beq p q) eqn:E; cbn [fs_get]; rewrite E; auto.
Qed.

Lemma fs_get_set_other fs p q b : beq q p = false -> fs_get (fs_set fs p b) q = fs_get fs q.
Proof.
  intros H. induction fs as [|[r c] fs IH]; cbn [fs_set fs_get].
  - now rewrite H.
  - destruct (beq p r) eqn:E; cbn [fs_get].
    + apply beq_eq in E. subst r. now rewrite H.
    + destruct (beq q r); auto.
Qed.

Lemma obj_eta o : mkobj (o_file o) (o_contents o) (o_raw o) (o_state o) = o.
Proof. destruct o; reflexivity. Qed.

(* ---- the separator append() may put in front of its marker: nothing when the contents end with a newline ---- *)
Lemma ends_with_nl a : ends_with [NL] (a ++ [NL]) = true.
Proof.
  unfold ends_with. rewrite app_length. cbn [length]. replace (length a + 1 - 1)%nat with (length a + 0)%nat by lia.
  rewrite skipn_app. rewrite Nat.add_0_r, skipn_all, Nat.sub_diag. reflexivity.
Qed.

Lemma append_sep_nl a : append_sep (a ++ [NL]) = [].
Proof.
  unfold append_sep. destruct append_fix; [|reflexivity]. rewrite ends_with_nl. destruct (a ++ [NL]); reflexivity.
Qed.

Lemma append_sep_nil : append_sep [] = [].
Proof. unfold append_sep. destruct append_fix; reflexivity. Qed.

(* ---- refusals ---- *)
(* a write never replaces an existing file: Refused, file system and object as they were *)
Theorem write_existing_refused fs o target cmts old : target <> [] -> fs_get fs target = Some old ->
  do_write fs o (Some target) cmts = (fs, o, Refused).
Proof. intros Hn H. unfold do_write. destruct target; [congruence|]. now rewrite H. Qed.

Theorem write_over_own_file_refused fs o cmts old : o_file o <> [] -> fs_get fs (o_file o) = Some old ->
  step (fs, o) (WriteOverExisting cmts) = (fs, o, Refused).
Proof. intros Hn H. cbn [step]. unfold do_write. destruct (o_file o) eqn:E; [congruence|]. now rewrite H. Qed.

Theorem write_copy_to_existing_refused fs o p cmts old : p <> [] -> fs_get fs p = Some old ->
  step (fs, o) (WriteCopy p cmts) = (fs, o, Refused) /\ step (fs, o) (WriteNew p cmts) = (fs, o, Refused).
Proof. intros Hn H. cbn [step]. split; now apply (write_existing_refused fs o p cmts old). Qed.

(* an append never creates a file: whatever is to be appended, a missing file means no change at all *)
Theorem append_missing_changes_nothing fs o d clock : fs_get fs (o_file o) = None ->
  exists out, do_append fs o d clock = (fs, o, out) /\ out <> Ok.
Proof.
  intros H. unfold do_append. destruct (o_file o) eqn:E; [eexists; split; [reflexivity|discriminate]|]. rewrite <- E in *.
  destruct (append_pairs (o_state o) d) as [ps|], (append_rows (table_names (o_state o)) d) as [rs|]; try (eexists; split; [reflexivity|discriminate]).
  destruct (ps ++ rs); [eexists; split; [reflexivity|discriminate]|]. rewrite H. eexists; split; [reflexivity|discriminate].
Qed.

Theorem append_to_missing_refused fs o p d clock : fs_get fs p = None ->
  exists out, step (fs, o) (AppendToMissing p d clock) = (fs, o, out) /\ out <> Ok.
Proof.
  intros H. cbn [step].
  destruct (append_missing_changes_nothing fs (mkobj p (o_contents o) (o_raw o) (o_state o)) d clock H) as [out [E Hn]].
  rewrite E. cbn [o_contents o_raw o_state]. rewrite obj_eta. eauto.
Qed.

(* appending nothing only warns *)
Theorem append_empty_warns fs o clock : o_file o <> [] -> step (fs, o) (AppendEmpty clock) = (fs, o, Warned).
Proof.
  intros Hn. cbn [step]. unfold do_append. destruct (o_file o); [congruence|]. cbn [append_pairs].
  assert (E : forall names, append_rows names [] = Some []).
  { induction names as [|nm names IH]; [reflexivity|]. cbn [append_rows]. rewrite IH. reflexivity. }
  rewrite E. reflexivity.
Qed.

(* a refused or warned operation of any kind leaves everything as it was *)
Theorem not_ok_changes_nothing s x fs' o' out : step s x = (fs', o', out) -> out = Refused \/ out = Warned \/ out = ValueErr \/ out = Unmodelled ->
  (fs', o') = s.
Proof.
  destruct s as [fs o]. intros H Hout.
  assert (W : forall nf c, do_write fs o nf c = (fs', o', out) -> (fs', o') = (fs, o)).
  { intros nf c E. unfold do_write in E. destruct (match nf with Some q => q | None => o_file o end) as [|t0 t1]; [now inversion E|].
    destruct (fs_get fs (t0 :: t1)); [now inversion E|]. destruct (parse _); inversion E; subst; destruct Hout as [X|[X|[X|X]]]; discriminate. }
  assert (A : forall oo d clock fs1 o1, do_append fs oo d clock = (fs1, o1, out) -> (fs1, o1) = (fs, oo)).
  { intros oo d clock fs1 o1 E. unfold do_append in E. destruct (o_file oo) as [|t0 t1]; [now inversion E|].
    destruct (append_pairs (o_state oo) d) as [ps|], (append_rows (table_names (o_state oo)) d) as [rs|]; try (now inversion E).
    destruct (ps ++ rs); [now inversion E|]. destruct (fs_get fs (t0 :: t1)); [|now inversion E].
    destruct (parse _); inversion E; subst; destruct Hout as [X|[X|[X|X]]]; discriminate. }
  destruct x; cbn [step] in H; try (now apply W in H); try (now apply A in H).
  - destruct (do_append fs (mkobj p (o_contents o) (o_raw o) (o_state o)) d clock) as [[fs1 o1] out1] eqn:E.
    inversion H; subst. apply A in E. inversion E; subst. cbn [o_contents o_raw o_state]. now rewrite obj_eta.
  - unfold do_reread in H. destruct (fs_get fs (o_file o)); [destruct (parse b)|]; inversion H; subst;
      destruct Hout as [X|[X|[X|X]]]; discriminate.
Qed.

(* ---- earlier bytes are preserved ---- *)
Theorem append_prefix fs o d clock fs' o' : do_append fs o d clock = (fs', o', Ok) ->
  exists old new, fs_get fs (o_file o) = Some old /\ new <> [] /\
    fs_get fs' (o_file o) = Some (old ++ new) /\ o_contents o' = o_contents o ++ new /\ o_file o' = o_file o /\
    (forall q, beq q (o_file o) = false -> fs_get fs' q = fs_get fs q).
Proof.
  unfold do_append. destruct (o_file o) eqn:Ef; [discriminate|]. rewrite <- Ef.
  destruct (append_pairs (o_state o) d) as [ps|], (append_rows (table_names (o_state o)) d) as [rs|]; try discriminate.
  destruct (ps ++ rs) as [|x0 body] eqn:Eb; [discriminate|]. destruct (fs_get fs (o_file o)) as [old|] eqn:Eg; [|discriminate].
  destruct (parse _); [|discriminate]. intros H. inversion H; subst. cbn [o_contents o_file].
  exists old, (append_sep (o_contents o) ++ S_APPENDED ++ clock ++ [46; NL] ++ x0 :: body). repeat split; auto.
  - unfold S_APPENDED. destruct (append_sep (o_contents o)); discriminate.
  - apply fs_get_set_same.
  - intros q Hq. now apply fs_get_set_other.
Qed.

(* a successful write creates exactly one new file and touches no other *)
Theorem write_creates_only_target fs o nf cmts fs' o' : do_write fs o nf cmts = (fs', o', Ok) ->
  fs_get fs (o_file o') = None /\ fs_get fs' (o_file o') = Some (o_contents o') /\
  (forall q, beq q (o_file o') = false -> fs_get fs' q = fs_get fs q).
Proof.
  unfold do_write. destruct (match nf with Some q => q | None => o_file o end) as [|t0 t1] eqn:Et; [discriminate|].
  destruct (fs_get fs (t0 :: t1)) eqn:Eg; [discriminate|]. destruct (parse _); [|discriminate].
  intros H. inversion H; subst. cbn [o_file o_contents]. repeat split; auto.
  - apply fs_get_set_same.
  - intros q Hq. now apply fs_get_set_other.
Qed.
