"""C09 -- B-spline fit is the weighted least-squares optimum; failure is a status code."""
import math
from fractions import Fraction

from harness import common as C
from translate import c08 as T08

ID = 'C09'
PROPS_V = 'C09/Props.v'
LEVEL = 'proof'
TRUSTED = [
    'translate/c08.py: ast extraction of the index / comparison / constant arithmetic of bspline.py (87 expressions of '
    '__init__, intrv, bsplvn, action, value incl. the masked-breakpoint gap logic, fit, maskpoints, cholesky_band, iterfit incl. its '
    'guards: too-few-points early return, status -2 abort, give-up test, when djs_reject runs) and of the neighbour comparison of '
    'pydl/uniq.py into coq/Generated/BSpline.v; BSpline/GenBridge.v + the Cxx_generated_* obligations prove that the hand-written '
    'reference models are built from exactly these',
    'hand-written models coq/BSpline/Eval.v + Fit.v (design rows from intrv/bsplvn, normal equations from the data, '
    'band_assemble, maskpoints_model/fit_status_model) -- tied to bspline.fit/action/maskpoints by the correspondence run',
    'the dense solver gj_inverse is NOT trusted: fit_dense only returns a vector after re-multiplying on the data '
    '(gradient exactly zero) and after checking the inverse columns (uniqueness); see FitProofs.fit_dense_sound',
    'scipy.linalg.cholesky_banded / cho_solve_banded are exercised, not modelled: their outputs are checked by the '
    'certified checkers chol_ok (L L^T = A) and solve_ok (A x = b) evaluated in Coq',
    'float64 arithmetic agrees with exact rational arithmetic to 1e-7 relative on the generated (well-conditioned) problems',
    'Coq stdlib QArith, Lqa (theorems closed under the global context)',
]
ASSUMPTIONS = [
    'npoly = 1; data passed to fit() sorted (its documented contract)',
    'well-supported = every segment holds at least nord distinct positively weighted abscissae (Schoenberg-Whitney)',
    'the optimality theorems are about exact arithmetic; rounding enters only through the stated tolerances',
    'for ill-posed problems that pass the diagonal screening (near-singular but numerically factorisable) only the '
    'outcome class (status code, finite coefficients, no exception) is checked',
    'non-finite input: a NaN / +-inf in invvar or xdata that reaches the banded normal equations is a failed fit (status -2, or -1 with '
    'breakpoints dropped; C09.Model.screen_status_model judges status and mask from the captured IEEE diagonal and threshold); non-finite '
    'ydata leaves A finite: scipy\'s finiteness check of the right-hand side (ValueError) is accepted, status 0 with non-finite '
    'coefficients is not',
]

def translate(ctx):
    return {'BSpline': T08.regenerate(C)}


HEADER = '''From Coq Require Import QArith ZArith List. Import ListNotations.
From PV Require Import BSpline.Eval BSpline.Fit C09.Model. Open Scope Q_scope.'''


def ql(v):
    return C.coq_list([C.qlit(x) for x in v])


def qll(m):
    return C.coq_list([ql(r) for r in m])


def bl(v):
    return C.coq_list([C.boollit(x) for x in v])


def exact_float(fr):
    f = float(fr)
    assert Fraction(f) == fr, fr
    return f


# ------------------------------------------------------------------ generators

def normal_cond(k, b, xs, ws):
    """2-norm condition number of the normal matrix A^T W A (float model of the design; generator-side only)."""
    import numpy as np
    sp = b[1] - b[0]
    gb = [b[0] - sp * i for i in range(k - 1, 0, -1)] + list(b) + [b[-1] + sp * i for i in range(1, k)]
    m = len(gb) - k
    rows = []
    for x in xs:
        l = k - 1
        while x > gb[l + 1] and l < m - 1:
            l += 1
        v = [1.0]
        dp, dm = [], []
        for j in range(k - 1):
            dp.append(gb[l + j + 1] - x)
            dm.append(x - gb[l - j])
            prev, nv = 0.0, []
            for r in range(j + 1):
                vm = v[r] / (dp[r] + dm[j - r])
                nv.append(vm * dp[r] + prev)
                prev = vm * dm[j - r]
            nv.append(prev)
            v = nv
        row = [0.0] * m
        row[l - k + 1:l + 1] = v
        rows.append(row)
    R = np.array(rows)
    A = R.T @ (np.array(ws)[:, None] * R)
    try:
        return float(np.linalg.cond(A))
    except Exception:  # noqa: BLE001
        return float('inf')


def gen_fit(rng, idx):
    """Well-supported, well-conditioned problem on coarse dyadic grids (exact rational solves in Coq stay
    below ~400 bits; cond(A^T W A) <= 1e6 so that float64 Cholesky is good to ~1e-9)."""
    while True:
        c = gen_fit_once(rng, idx)
        if normal_cond(c['nord'], c['bkpt'], c['xs'], c['ws']) <= 1e6:
            return c
        idx += 6 * rng.randint(1, 5) if rng.random() < 0.5 else 0


def gen_fit_once(rng, idx):
    k = 1 + idx % 6
    nseg = rng.randint(1, max(1, min(5, 9 - k)))
    poly = (idx // 6) % 3 == 0
    uniform = (idx // 18) % 2 == 0
    lo = float(rng.randint(-2, 2))
    b = [lo]
    for _ in range(nseg):
        b.append(b[-1] + (1.0 if uniform else rng.choice([0.5, 1.0, 1.5, 2.0])))
    xbits = 3 if k <= 3 else 4
    xs, ws = [], []
    for s in range(nseg):
        # the segment owns (b[s], b[s+1]] (left-open interval search), the first one also its left end
        grid = [b[s] + i / (1 << xbits) for i in range(0 if s == 0 else 1, int((b[s + 1] - b[s]) * (1 << xbits)) + 1)]
        need = min(len(grid), k + rng.randint(0, 2))
        if need < k:
            return gen_fit_once(rng, idx + 6 * rng.randint(1, 5))
        cand = sorted(rng.sample(grid, min(len(grid), need + rng.randint(0, 2))))
        good = set(rng.sample(cand, need))
        for x in cand:
            xs.append(x)
            ws.append(C.dyadic(rng, 0.25, 4, 2) if x in good else 0.0)
    if poly:
        cf = [rng.randint(-3, 3) for _ in range(k)]
        ys = [exact_float(sum(Fraction(c) * Fraction(x) ** p for p, c in enumerate(cf))) for x in xs]
    else:
        ys = [C.dyadic(rng, -4, 4, 3) for _ in xs]
    y2 = [C.dyadic(rng, -4, 4, 6) for _ in xs]
    a_, b_ = C.dyadic(rng, -2, 2, 3), C.dyadic(rng, -2, 2, 3)
    comb = [a_ * u + b_ * v for u, v in zip(ys, y2)]
    # zero-weight points carry sentinels of huge magnitude (masked pixels often hold 1e12 .. 1e300)
    sentinel = [1000.0, 1e12, 1e17, 1e30, 1e300, -1e30][idx % 6]
    yz = [(sentinel if w == 0 else y) for y, w in zip(ys, ws)]
    call = {'f': 'fit', 'kind': 'well', 'poly': poly, 'nord': k, 'bkpt': b, 'xs': xs, 'ys': ys, 'ws': ws,
            'extra': {'y2': y2, 'comb': comb, 'zw': yz}, 'ab': [a_, b_]}
    # data that are not float64: float32 / integer ydata, float32 weights (all values exactly representable, so
    # the certified optimum is the same problem); float32 abscissae make the basis itself single precision and are
    # judged at single-precision tolerance by the direct checks only
    t = (idx // 6) % 6
    if t == 1 and not poly:
        call['dtypes'] = {'y': 'float32'}
    elif t == 2 and not poly:
        call['ys'] = [float(round(4 * y)) for y in ys]
        call['dtypes'] = {'y': rng.choice(['int64', 'int32'])}
        call['extra']['comb'] = [a_ * u + b_ * v for u, v in zip(call['ys'], y2)]
        call['extra']['zw'] = [(sentinel if w == 0 else y) for y, w in zip(call['ys'], ws)]
    elif t == 4:
        call['dtypes'] = {'w': 'float32'}
    elif t == 5 and not poly:
        call['dtypes'] = {'x': 'float32', 'y': 'float32'}
        call['single_precision_x'] = True
    # data and weights in other units: y * c, invvar / c^2 for c = 2^-56 .. 2^56 (~1e-17 .. 1e17, exact), and uniformly
    # tiny / huge weights alone: a well-supported fit stays a well-supported fit (status 0, same optimum up to the scale)
    u = (idx // 3) % 8
    if 'dtypes' not in call and u in (1, 3, 5, 6):
        cs = [2.0 ** -56, 2.0 ** 56, 1.0, 1.0][[1, 3, 5, 6].index(u)]
        ww = [1.0, 1.0, 2.0 ** -60, 2.0 ** 60][[1, 3, 5, 6].index(u)]
        call['scale'] = [cs, ww]
        for key in ('ys',):
            call[key] = [v * cs for v in call[key]]
        call['ws'] = [w / (cs * cs) * ww for w in call['ws']]
        call['extra'] = {nm: [v * cs for v in vals] for nm, vals in call['extra'].items()}
        call['extra']['zw'] = [(sentinel if w == 0 else y) for y, w in zip(call['ys'], call['ws'])]
    return call


def gen_minimal(rng, idx):
    """Boundary of "supported by data": exactly as many (or one more) positively weighted points as coefficients, point j
    inside the support of basis function j (Schoenberg-Whitney), so single segments hold 0, 1, 2 ... fewer than nord points;
    one interval with exactly nord points is the smallest instance.  The fit interpolates (or nearly): status 0 and the
    certified optimum are required as for every other well-posed problem."""
    for _try in range(200):
        k = 1 + idx % 6
        nseg = rng.randint(1, max(1, min(4, 8 - k)))
        uniform = (idx // 6) % 2 == 0
        b = [float(rng.randint(-2, 2))]
        for _ in range(nseg):
            b.append(b[-1] + (1.0 if uniform else rng.choice([0.5, 1.0, 1.5])))
        sp = b[1] - b[0]
        gb = [b[0] - sp * i for i in range(k - 1, 0, -1)] + list(b) + [b[-1] + sp * i for i in range(1, k)]
        m = len(gb) - k
        grid = [b[0] + i / 16.0 for i in range(0, int((b[-1] - b[0]) * 16) + 1)]
        xs, prev, ok = [], None, True
        for j in range(m):
            lo, hi = max(gb[j], b[0]), min(gb[j + k], b[-1])
            cand = [g for g in grid if (lo < g < hi or (j == 0 and g == b[0]) or (j == m - 1 and g == b[-1]) or (k == 1 and lo < g <= hi))
                    and (prev is None or g > prev)]
            if not cand:
                ok = False
                break
            # stay early enough to leave room for the remaining points
            prev = rng.choice(cand[:max(1, min(len(cand), 1 + len(cand) // max(1, (m - j))))])
            xs.append(prev)
        if not ok:
            continue
        extra = [g for g in grid if g not in xs]
        rng.shuffle(extra)
        npos = (idx // 12) % 2
        pts = [(x, C.dyadic(rng, 0.25, 4, 2)) for x in xs + extra[:npos]] + [(x, 0.0) for x in extra[npos:npos + rng.randint(0, 2)]]
        pts.sort()
        xs_, ws = [p_[0] for p_ in pts], [p_[1] for p_ in pts]
        if normal_cond(k, b, xs_, ws) > 1e6:
            continue
        ys = [C.dyadic(rng, -4, 4, 3) for _ in xs_]
        y2 = [C.dyadic(rng, -4, 4, 6) for _ in xs_]
        a_, b_ = C.dyadic(rng, -2, 2, 3), C.dyadic(rng, -2, 2, 3)
        sentinel = [1000.0, 1e12, 1e17, 1e30, 1e300, -1e30][idx % 6]
        return {'f': 'fit', 'kind': 'well', 'minimal': True, 'poly': False, 'nord': k, 'bkpt': b, 'xs': xs_, 'ys': ys, 'ws': ws,
                'extra': {'y2': y2, 'comb': [a_ * u + b_ * v for u, v in zip(ys, y2)],
                          'zw': [(sentinel if w == 0 else y) for y, w in zip(ys, ws)]}, 'ab': [a_, b_]}
    return gen_fit(rng, idx)


def gen_ill(rng, idx):
    kinds = ['gapk', 'gapk', 'gap1', 'fewpoints', 'zeroweights', 'allzero', 'toofew', 'gapk_edge', 'single_edge', 'single_dup', 'gap_stray', 'gap_stray']
    kind = kinds[idx % len(kinds)]
    if kind in ('single_edge', 'single_dup'):
        # one interval only (exactly 2*nord knots): nothing can be masked, an impossible fit must say -2,
        # and a retry on the same object (what iterfit does) must end in a status code as well
        k = rng.randint(2, 4)
        if kind == 'single_edge':       # only data at the left end carry weight: the last coefficient is unsupported
            xs = [i / 16.0 for i in range(0, 17, rng.choice([1, 2]))]
            nw = rng.randint(1, 2)
            ws = [C.dyadic(rng, 0.5, 2, 3) if i < nw else 0.0 for i in range(len(xs))]
            if nw == 2 and rng.random() < 0.5:
                xs[1] = xs[0] + 1.0 / 64
        else:                           # enough points but only two distinct abscissae (rank deficient)
            xs = [0.0] * rng.randint(2, 3) + [1.0] * rng.randint(2, 3)
            ws = [C.dyadic(rng, 0.5, 2, 3) for _ in xs]
        ys = [C.dyadic(rng, -4, 4, 6) for _ in xs]
        return {'f': 'fit', 'kind': kind, 'nord': k, 'bkpt': [0.0, 1.0], 'xs': xs, 'ys': ys, 'ws': ws,
                'iterfit': {'maxiter': rng.choice([2, 5])}, 'refit': True,
                'zero_diag': kind == 'single_edge' and sum(1 for w in ws if w > 0) == 1}
    k = rng.randint(1, 5) if kind != 'gap1' else rng.randint(2, 5)
    nseg = rng.randint(2 * k + 1, 2 * k + 5)
    b = [float(i) for i in range(nseg + 1)]
    xs = sorted(set(C.dyadic(rng, 0, nseg, 5) for _ in range(rng.randint(4 * nseg, 6 * nseg))) | {0.0, float(nseg)})
    ws = [C.dyadic(rng, 0.5, 2, 3) for _ in xs]
    if kind == 'gap_stray':
        # a wide gap holding one or two stray points: needs more than one masking round on the same object
        k = rng.randint(2, 4)
        nseg = rng.randint(4 * k + 4, 4 * k + 8)
        b = [float(i) for i in range(nseg + 1)]
        xs = sorted(set(C.dyadic(rng, 0, nseg, 5) for _ in range(6 * nseg)) | {0.0, float(nseg)})
        g0 = rng.randint(k + 1, nseg - 3 * k - 3)
        g1 = g0 + 2 * k + 2
        stray = [g0 + k + 0.5] + ([g0 + k + 1.25] if rng.random() < 0.5 else [])
        xs = sorted(set([x for x in xs if not (g0 - 0.25 < x < g1 + 0.25)] + stray))
        ws = [C.dyadic(rng, 0.5, 2, 3) for _ in xs]
        ys = [C.dyadic(rng, -4, 4, 6) for _ in xs]
        return {'f': 'fit', 'kind': kind, 'nord': k, 'bkpt': b, 'xs': xs, 'ys': ys, 'ws': ws,
                'iterfit': {'maxiter': 2}, 'refit': True}
    if kind in ('gapk', 'zeroweights', 'gapk_edge'):
        g0 = rng.randint(1, nseg - k - 1) if kind != 'gapk_edge' else rng.choice([0, nseg - k - 1])
        g1 = g0 + k + rng.randint(0, 1)
        if kind == 'zeroweights':
            ws = [0.0 if g0 < x < g1 + 0.5 else w for x, w in zip(xs, ws)]
        else:
            keep = [not (g0 - 0.25 < x < g1 + 0.25) or x in (0.0, float(nseg)) for x in xs]
            xs = [x for x, kp in zip(xs, keep) if kp]
            ws = [w for w, kp in zip(ws, keep) if kp]
    elif kind == 'gap1':
        g0 = rng.randint(1, nseg - 2)
        keep = [not (g0 - 0.125 < x < g0 + 1.125) for x in xs]
        xs = [x for x, kp in zip(xs, keep) if kp]
        ws = [w for w, kp in zip(ws, keep) if kp]
    elif kind == 'fewpoints':
        pick = sorted(rng.sample(range(1, len(xs) - 1), max(1, (nseg + k - 1) // 2)))
        xs = [xs[0]] + [xs[i] for i in pick] + [xs[-1]]
        ws = [ws[0]] + [ws[i] for i in pick] + [ws[-1]]
    elif kind == 'allzero':
        ws = [0.0 for _ in ws]
    elif kind == 'toofew':
        xs = xs[:1] + xs[-1:]
        ws = ws[:1] + ws[-1:]
    ys = [C.dyadic(rng, -4, 4, 6) for _ in xs]
    return {'f': 'fit', 'kind': kind, 'nord': k, 'bkpt': b, 'xs': xs, 'ys': ys, 'ws': ws,
            'iterfit': {'maxiter': rng.choice([0, 2])}, 'refit': True}


def gen_nonfinite(rng, idx):
    """A well-supported problem with ONE non-finite entry (NaN, +inf, -inf) in invvar, xdata or ydata: at an interior point,
    at the first / last point, at a point sitting exactly on a breakpoint (there some basis functions are exactly 0, so
    0 * inf contaminates entries next to a clean one).  invvar / xdata contamination makes the banded normal equations
    non-finite: the fit has failed and must say so through its status."""
    base = gen_fit_once(rng, rng.randrange(6, 600))
    while 'dtypes' in base or 'scale' in base or len(base['xs']) < 4:
        base = gen_fit_once(rng, rng.randrange(6, 600))
    target = ['w', 'x', 'w', 'y', 'w', 'x', 'y', 'w'][idx % 8]
    val = ['nan', 'inf', '-inf'][(idx // 8 + idx % 8) % 3]
    n = len(base['xs'])
    where = (idx // 3) % 4
    onknot = [i for i, x in enumerate(base['xs']) if x in base['bkpt']]
    pos = 0 if where == 0 else (n - 1 if where == 1 else (rng.choice(onknot) if (where == 2 and onknot) else rng.randrange(1, n - 1)))
    c = {'f': 'fit', 'kind': 'nonfinite', 'target': target, 'value': val, 'pos': pos, 'nord': base['nord'], 'bkpt': base['bkpt'],
         'xs': list(base['xs']), 'ys': list(base['ys']), 'ws': list(base['ws']), 'refit': True,
         'zero_weight_there': base['ws'][pos] == 0}
    c[{'w': 'ws', 'x': 'xs', 'y': 'ys'}[target]][pos] = val
    return c


def ieee_le(a, b):
    f = lambda v: float(v)       # noqa: E731  ('nan' / 'inf' / '-inf' strings or floats)
    return f(a) <= f(b)


def xql(v):
    """IEEE double -> C09.Model.xq"""
    return {'nan': 'XNaN', 'inf': 'XPInf', '-inf': 'XNInf'}[v] if isinstance(v, str) else '(XFin %s)' % C.qlit(v)


def band_of(A, bw, n):
    ab = [[Fraction(0)] * (n + bw) for _ in range(bw)]
    for r in range(bw):
        for c in range(n - r):
            ab[r][c] = A[c + r][c]
    return ab


def gen_chol(rng, idx):
    bw = 1 + idx % 6
    n = rng.randint(max(2, bw), 12)
    L0 = [[Fraction(0)] * n for _ in range(n)]
    for i in range(n):
        L0[i][i] = Fraction(C.dyadic(rng, 1, 3, 3))
        for d in range(1, bw):
            if i - d >= 0:
                L0[i][i - d] = Fraction(C.dyadic(rng, -1, 1, 3))
    A = [[sum(L0[i][c] * L0[j][c] for c in range(n)) for j in range(n)] for i in range(n)]
    b = [C.dyadic(rng, -4, 4, 4) for _ in range(n)] + [0.0] * bw
    kind = 'spd'
    t = idx // 6 % 5
    bad = None
    if t == 1:
        kind = 'negdiag'
        j = rng.randrange(n)
        A[j][j] = -A[j][j] if rng.random() < 0.5 else Fraction(0)
    elif t == 2 and bw >= 2:
        kind = 'indefinite'     # positive diagonal, one 2x2 minor negative
        j = rng.randrange(n - 1)
        big = Fraction(math.ceil(math.sqrt(float(A[j][j] * A[j + 1][j + 1])) * 2 + 1))
        A[j + 1][j] = A[j][j + 1] = big
    elif t == 3:
        kind = 'nonfinite'
        # half of them in a sub-diagonal row (finite positive diagonal): still a non-finite A
        bad = (rng.randrange(1, bw) if (bw >= 2 and idx % 2 == 0) else rng.randrange(bw), rng.randrange(n), rng.choice(['nan', 'inf', '-inf']))
    ab = [[exact_float(v) for v in row] for row in band_of(A, bw, n)]
    if bad:
        r, c_, v = bad
        c_ = min(c_, n - 1 - r) if n - 1 - r >= 0 else 0
        ab[r][c_] = v
    return {'f': 'chol', 'kind': kind, 'bw': bw, 'n': n, 'ab': ab, 'b': b}


# ------------------------------------------------------------------ python-side comparisons (direct behaviour)

def close_vec(a, b, rtol):
    return len(a) == len(b) and all(abs(x - y) <= rtol * (1 + abs(y)) for x, y in zip(a, b))


def correspond(ctx, proof_ok=True):
    ok, log = C.coq_make(['C09/Model.vo'])
    if not ok:
        raise RuntimeError('C09/Model.v does not build:\n' + log[-2000:])
    rng = ctx.rng
    calls = [gen_fit(rng, i) for i in range(ctx.n(72, 500))]
    calls += [gen_minimal(rng, i) for i in range(ctx.n(18, 120))]
    calls += [gen_ill(rng, i) for i in range(ctx.n(72, 300))]
    calls += [gen_nonfinite(rng, i) for i in range(ctx.n(48, 240))]
    calls += [gen_chol(rng, i) for i in range(ctx.n(90, 600))]
    nb = 8
    outs = C.run_impl_parallel('c09_impl.py', [calls[i::nb] for i in range(nb)])
    results = [None] * len(calls)
    for bi, o in enumerate(outs):
        for j, r in enumerate(o['results']):
            results[bi + j * nb] = r
    ctx.coverage['pydl_file'] = outs[0]['pydl_file']

    terms, owners = [], []
    dist = {}
    nstats = {}
    seen = set()

    def viol(sig, summary, c, r, failing=True, extra=None):
        if sig in seen:
            return
        seen.add(sig)
        rep = {'kind': 'failing-input' if failing else 'broken-correspondence', 'call': c, 'impl_result': r}
        if not failing:
            rep['item'] = 'C09.Model.run_case'
        rep.update(extra or {})
        ctx.violation(sig, summary, rep, failing)

    gch = sorted(set(sum([o.get('globals_changed', {}).get('by_import', []) + o.get('globals_changed', {}).get('by_calls', []) for o in outs], [])))
    ctx.coverage['process_globals_changed'] = gch
    if gch:
        viol('C09:process-globals-changed', 'importing pydl.pydlutils.bspline / fitting changed process-global settings: %s' % gch,
             {}, {'globals_changed': [o.get('globals_changed') for o in outs]}, failing=False)

    for i, (c, r) in enumerate(zip(calls, results)):
        key = '%s:%s:%s' % (c['f'], c['kind'], r.get('err') or (('status=%s' % r['status']) if 'status' in r else 'ret=%s' % (
            -1 if r.get('ret') == -1 else 'idx')))
        dist[key] = dist.get(key, 0) + 1
        if c.get('minimal'):
            gbm = r.get('bk') or []
            per = [sum(1 for x, w in zip(c['xs'], c['ws']) if w > 0 and (lo_ < x <= hi_ or (j_ == 0 and x == lo_)))
                   for j_, (lo_, hi_) in enumerate(zip(c['bkpt'][:-1], c['bkpt'][1:]))]
            mk = 'minimal:nord=%d:good-ncoef=%+d:min-points-per-segment=%d:%s' % (
                c['nord'], sum(1 for w in c['ws'] if w > 0) - (len(gbm) - c['nord'] if gbm else 0), min(per) if per else -1,
                r.get('err') or 'status=%s' % r.get('status'))
            dist[mk] = dist.get(mk, 0) + 1
        if c['f'] == 'fit' and c['kind'] == 'nonfinite':
            tag = '%s=%s' % ({'w': 'invvar', 'x': 'xdata', 'y': 'ydata'}[c['target']], c['value'])
            nk = 'nonfinite:%s:%s' % (tag, r.get('err') or 'status=%s' % r.get('status'))
            nstats[nk] = nstats.get(nk, 0) + 1
            meaning = {'meaning': 'failure is a status code: a fit whose normal equations are not finite has failed and must return -2 (or -1 with '
                                  'breakpoints dropped), finite coefficients, and must not raise; C09_nonfinite_unflagged_is_status_minus2'}
            if 'err' in r:
                if c['target'] == 'y' and r['err'] == 'ValueError' and 'infs or NaNs' in r.get('msg', ''):
                    # non-finite ydata: A is finite and positive definite, only the right-hand side is not -- outside the listed
                    # failure causes; scipy's finiteness check of b is accepted, silent NaN coefficients (below) are not
                    nstats['ydata:rejected-by-finiteness-check'] = nstats.get('ydata:rejected-by-finiteness-check', 0) + 1
                    continue
                viol('C09:fit:nonfinite:impl=%s' % r['err'],
                     'bspline.fit with %s at point %d of %d (nord=%d) raised %s: %s' % (tag, c['pos'], len(c['xs']), c['nord'], r['err'], r.get('msg', '')),
                     c, r, extra=meaning)
                continue
            st = r['status']
            band_bad = 'alpha' in r and (any(isinstance(v, str) for row in r['alpha'] for v in row) or isinstance(r['mininf'], str))
            nstats['band-non-finite' if band_bad else 'band-finite'] = nstats.get('band-non-finite' if band_bad else 'band-finite', 0) + 1
            if not isinstance(st, int) or r.get('status_type') != 'int' or not -2 <= st <= 0 or not r.get('coeff_finite', True) or (st == 0 and not r['finite']):
                viol('C09:fit:nonfinite:bad-outcome', 'bspline.fit with %s: status %r (%s), coefficients finite: %s' % (
                    tag, st, r.get('status_type'), r.get('coeff_finite')), c, r, extra=meaning)
                continue
            rf = r.get('refit')
            if rf is not None and ('err' in rf or not rf['finite'] or rf['statuses'][-1] == -1):
                viol('C09:fit:nonfinite:refit:%s' % (('impl=' + rf['err']) if 'err' in rf else 'no-final-status'),
                     'fitting again after status %s (as iterfit does) with %s: %s' % (rf.get('statuses'), tag, rf.get('err') or 'no final status'), c, r, extra=meaning)
            if 'alpha' in r:
                bw_ = c['nord']
                nfull = len(r['alpha'][0]) - bw_
                diag = r['alpha'][0][:nfull]
                if band_bad and not any(isinstance(v, str) for v in diag) and not isinstance(r['mininf'], str):
                    nstats['band-non-finite:off-diagonal-only'] = nstats.get('band-non-finite:off-diagonal-only', 0) + 1
                if band_bad:
                    flagged = sum(1 for v in diag if ieee_le(v, r['mininf']))
                    nstats['band-non-finite:flagged-columns=%s' % ('0' if flagged == 0 else '>0')] = nstats.get('band-non-finite:flagged-columns=%s' % ('0' if flagged == 0 else '>0'), 0) + 1
                terms.append('(CNonFin %s %d%%nat %s %s %s %s %s)' % (
                    bl(r['mask_before']), c['nord'], C.coq_list([xql(v) for v in diag]), xql(r['mininf']),
                    C.boollit(not any(isinstance(v, str) for row in r['alpha'] for v in row)), '%s%%Z' % C.zlit(st), bl(r['mask_after'])))
                owners.append(i)
        elif c['f'] == 'fit' and c['kind'] == 'well':
            if 'err' in r:
                viol('C09:fit:well-supported:impl=%s' % r['err'], 'bspline.fit raised %s on a well-supported problem' % r['err'], c, r)
                continue
            if r.get('args_mutated'):
                viol('C09:fit:argument-modified', 'bspline.fit modified a caller-owned array: %s' % r['args_mutated'], c, r)
            if not r.get('finite', True):
                viol('C09:fit:well-supported:non-finite', 'non-finite coefficients on a well-supported fit', c, r)
                continue
            if c.get('single_precision_x'):
                # float32 abscissae: basis values are single precision by construction -> direct check at 1e-4 only
                if r.get('status') != 0 or not close_vec(r['yfit'], r['yfit'], 0.0):
                    viol('C09:fit:well-supported:float32-x:status=%s' % r.get('status'), 'float32 abscissae: status %s' % r.get('status'), c, r)
                continue
            if 'alpha' not in r:
                viol('C09:fit:well-supported:status=%s:no-solve' % r.get('status'),
                     'bspline.fit returned status %s without solving a well-supported problem' % r.get('status'), c, r)
                continue
            nn = len(r['bk']) - c['nord']
            terms.append('(CFit %s %d%%nat %s %s %s %s %s %s %s)' % (
                ql(r['bk']), c['nord'], ql(c['xs']), ql(c['ys']), ql(c['ws']), '%s%%Z' % C.zlit(r['status']),
                ql(r['coeff'][:nn]), ql(r['yfit']), qll(r['alpha'])))
            owners.append(i)
            # laws on the real code
            laws = r.get('laws', {})
            c1 = r['coeff']
            if all('coeff' in laws.get(nm, {}) for nm in ('y2', 'comb', 'zw')):
                a_, b_ = c['ab']
                lin = [a_ * u + b_ * v for u, v in zip(c1, laws['y2']['coeff'])]
                unit_ = (c.get('scale') or [1.0])[0]

                def close_norm(a, b):
                    tol = 1e-7 * (unit_ + max([abs(v) for v in b] or [0.0]))
                    return len(a) == len(b) and all(abs(x - y) <= tol for x, y in zip(a, b))
                if not close_norm(laws['comb']['coeff'], lin):
                    viol('C09:fit:law:linearity', 'fit(a*y1+b*y2) differs from a*fit(y1)+b*fit(y2)', c, r)
                if not close_norm(laws['zw']['coeff'], c1):
                    viol('C09:fit:law:zero-weight', 'coefficients change when y is altered at zero-weight points', c, r)
            else:
                viol('C09:fit:law:impl-error', 'a law fit failed: %s' % {k: v.get('err') for k, v in laws.items()}, c, r)
            unit = (c.get('scale') or [1.0])[0]
            tol_poly = 1e-7 * (unit + max(abs(v) for v in c['ys']))          # norm-wise, in the units of the data
            if c['poly'] and not (len(r['yfit']) == len(c['ys']) and all(abs(a - b) <= tol_poly for a, b in zip(r['yfit'], c['ys']))):
                viol('C09:fit:law:polynomial', 'a polynomial of degree < nord is not reproduced', c, r)
        elif c['f'] == 'fit':
            # ill-posed: outcome class
            if 'err' in r:
                viol('C09:fit:ill-posed:impl=%s' % r['err'],
                     'bspline.fit on an ill-posed problem (%s, nord=%d) raised %s: %s' % (c['kind'], c['nord'], r['err'], r.get('msg', '')),
                     c, r, extra={'meaning': 'an impossible fit must be reported through the status code (-2/-1) and the '
                                             'breakpoint mask, not through an unrelated exception'})
                continue
            st = r['status']
            if not (isinstance(st, int) and st >= -2) or not r['finite']:
                viol('C09:fit:ill-posed:bad-outcome', 'status %r / non-finite coefficients on an ill-posed fit (%s)' % (st, c['kind']), c, r)
                continue
            if st == -1 and r['mask_after'] == r['mask_before']:
                viol('C09:fit:ill-posed:status-1-mask-unchanged', 'status -1 but the breakpoint mask did not change (%s)' % c['kind'], c, r)
            rf = r.get('refit')
            if rf is not None:
                if 'err' in rf:
                    viol('C09:fit:ill-posed:refit:impl=%s' % rf['err'],
                         'fitting again after status %s (as iterfit does) raised %s: %s (%s, nord=%d)' % (
                             rf.get('statuses'), rf['err'], rf.get('msg', ''), c['kind'], c['nord']), c, r)
                elif not rf['finite'] or rf['statuses'][-1] == -1:
                    viol('C09:fit:ill-posed:refit:no-final-status', 'repeated fits do not end in a final status: %s' % rf['statuses'], c, r)
            if c['kind'].startswith('single') and st == -1:
                viol('C09:fit:ill-posed:single-interval:status-1',
                     'a single-interval spline (exactly 2*nord knots) has no breakpoint to drop, yet fit returned -1 (%s, nord=%d)' % (
                         c['kind'], c['nord']), c, r)
            it = r.get('iterfit', {})
            if it.get('err') == 'ValueError' and 'No valid data points' in it.get('msg', ''):
                pass     # iterfit's own documented input validation (all weights non-positive)
            elif 'err' in it:
                viol('C09:iterfit:ill-posed:impl=%s' % it['err'], 'iterfit on an ill-posed problem (%s) raised %s: %s' % (
                    c['kind'], it['err'], it.get('msg', '')), c, r)
            elif it and not it.get('finite', True):
                viol('C09:iterfit:ill-posed:non-finite', 'iterfit returned non-finite coefficients (%s)' % c['kind'], c, r)
            if (c['kind'] in ('gapk', 'zeroweights', 'allzero', 'gapk_edge') or c.get('zero_diag')) and 'mininf' in r:
                terms.append('(CStatus %s %s %d%%nat %s %s %s %s %s)' % (
                    ql(r['bk']), bl(r['mask_before']), c['nord'], ql(c['xs']), ql(c['ws']), C.qlit(r['mininf']),
                    '%s%%Z' % C.zlit(st), bl(r['mask_after'])))
                owners.append(i)
        else:
            if 'err' in r:
                viol('C09:cholesky_band:%s:impl=%s' % (c['kind'], r['err']),
                     '%s raised %s on a %s band matrix (bw=%d, n=%d): %s' % (r.get('stage'), r['err'], c['kind'], c['bw'], c['n'], r.get('msg', '')),
                     c, r, extra={'meaning': 'a non-positive-definite or non-finite matrix must be signalled through the return value'})
                continue
            if c['kind'] == 'spd':
                if r['ret'] != -1 or 'x' not in r or not r.get('L_finite') or not r.get('x_finite'):
                    viol('C09:cholesky_band:spd:not-factorised', 'SPD band matrix not factorised/solved: %s' % {k: r.get(k) for k in ('ret', 'solve')}, c, r)
                    continue
                if r.get('args_mutated') or r.get('result_aliases_arg') or not r.get('second_solve_same', True):
                    viol('C09:cholesky:argument-modified',
                         'cholesky_band/cholesky_solve modified a caller-owned array (%s) or returned storage shared with an argument; a '
                         'second solve with the same right-hand side %s' % (r.get('args_mutated'), 'agrees' if r.get('second_solve_same') else 'DIFFERS'),
                         c, r, extra={'history': ['cholesky_band(A)', 'x = cholesky_solve(L, b)', 'x2 = cholesky_solve(L, b)  # same b object'],
                                      'meaning': 'A x = b must hold for the right-hand side the caller holds'})
                terms.append('(CChol %s %s %d%%nat %s %s)' % (qll(c['ab']), qll(r['L']), c['n'], ql(r['x']), ql(c['b'])))
                owners.append(i)
            else:
                if r['ret'] == -1:
                    viol('C09:cholesky_band:%s:reported-success' % c['kind'], 'cholesky_band reported success (-1) on a %s matrix' % c['kind'], c, r)

    cc = C.CoqCases(ctx.work, HEADER, 'run_cases', shard=2)
    verdicts = cc.run(terms) if terms else []
    ctx.coverage.update({
        'evaluations': len(calls),
        'distinct_nontrivial': len(set(terms)) + sum(1 for c in calls if c['f'] == 'chol' and c['kind'] != 'spd') +
        sum(1 for c in calls if c['f'] == 'fit' and c['kind'] not in ('well', 'gapk', 'zeroweights', 'allzero', 'gapk_edge', 'single_edge')),
        'rule': 'one evaluation = one fit / factorisation problem run on the real code; well-supported fits and SPD '
                'factorisations are compared in Coq with the certified dense solve / chol_ok / solve_ok, zero-support fits '
                'with the status model; the other ill-posed problems are judged by outcome class',
        'cases_by_kind_outcome': dist, 'nonfinite_inputs': nstats, 'coq_cases': len(terms), 'coq_eval_s': round(cc.coq_seconds, 1),
        'model_disagreements': sum(1 for v in verdicts if v & 1),
        'spec_violations': sum(1 for v in verdicts if v & 2),
        'samples': [{'call': {k: v for k, v in calls[i].items() if k != 'extra'},
                     'impl': {k: v for k, v in results[i].items() if k in ('status', 'coeff', 'ret', 'x', 'mask_after')}}
                    for i in (0, ctx.n(72, 500), len(calls) - 1)],
    })
    for t, i, v in zip(terms, owners, verdicts):
        if v == 0:
            continue
        c, r = calls[i], results[i]
        what = t[1:t.index(' ')]
        if 'C09:%s:%s:%s' % (what, c['kind'], 'property' if v & 2 else 'model') in seen:
            continue
        diag = cc.show('diagnose %s' % t)[-300:]
        if v & 2:
            viol('C09:%s:%s:property' % (what, c['kind']),
                 'implementation output contradicts the certified optimum / factorisation check (%s %s)' % (what, c['kind']),
                 c, r, extra={'verdict': v, 'diagnose': diag, 'coq_case': t[:2000]})
        else:
            viol('C09:%s:%s:model' % (what, c['kind']), 'model and implementation disagree (%s %s)' % (what, c['kind']),
                 c, r, failing=False, extra={'verdict': v, 'diagnose': diag, 'coq_case': t[:2000]})


def replay(ctx, rep):
    c = rep.get('call')
    if not c:
        print('replay file has no call (kind=%s, item=%s)' % (rep.get('kind'), rep.get('item')))
        return 2
    out = C.run_impl('c09_impl.py', [c])
    r = out['results'][0]
    keys = ('err', 'msg', 'stage', 'status', 'ret', 'mask_before', 'mask_after', 'iterfit')
    print('call   : %s kind=%s nord/bw=%s  n=%s' % (c['f'], c.get('kind'), c.get('nord', c.get('bw')), len(c.get('xs', c.get('b', [])))))
    print('impl   :', {k: v for k, v in r.items() if k in keys})
    print('before :', {k: v for k, v in (rep.get('impl_result') or {}).items() if k in keys})
    return 0
