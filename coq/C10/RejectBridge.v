(* C10 round 5: the rejection step of the iterfit model (BSpline/Iter.v: reject1, square-root free) IS the threshold logic that
   translate/c17.py regenerates from djs_reject (pydl/pydlutils/math.py) into Generated/Reject.v, in the configuration iterfit
   calls it with: invvar given (no sigma), lower and upper given, no maxdev / maxrej / grow, sticky off, inmask = outmask = the
   working mask:   badness = lower term + upper term;  badness *= inmask;  newmask = (badness == 0);  newmask &= inmask. *)
From Coq Require Import QArith Qabs Lqa List Bool Arith Lia.
Import ListNotations.
From PV Require Import Lib.WLS BSpline.Eval BSpline.Fit BSpline.Iter C17.Base Generated.Reject.
Open Scope Q_scope.

Definition generated_reject1 (lower upper : Q) (d : datum) (yfit : Q) (m : bool) : bool :=
  let diff := dy d - yfit in
  let iv := dw d in
  let badness := rej_lower_iv_term diff lower iv (rej_lower_iv_qbad diff lower iv)
                 + rej_upper_iv_term diff upper iv (rej_upper_iv_qbad diff upper iv) in
  rej_final (rej_newmask (rej_products badness m m false)) m m false.

Lemma Qltb_iff a b : Eval.Qltb a b = true <-> a < b.
Proof.
  unfold Eval.Qltb. rewrite negb_true_iff. split.
  - intro H. apply Qnot_le_lt. intro L. apply Qle_bool_iff in L. congruence.
  - intro H. destruct (Qle_bool b a) eqn:E; [|reflexivity]. apply Qle_bool_iff in E. exfalso. apply (Qlt_not_le _ _ H E).
Qed.

Lemma Qltb_of_iff a b a' b' : (a < b <-> a' < b') -> Eval.Qltb a b = Eval.Qltb a' b'.
Proof.
  intros H. destruct (Eval.Qltb a b) eqn:E1, (Eval.Qltb a' b') eqn:E2; try reflexivity.
  - apply Qltb_iff in E1. apply H in E1. apply Qltb_iff in E1. congruence.
  - apply Qltb_iff in E2. apply H in E2. apply Qltb_iff in E2. congruence.
Qed.

Lemma neg_nonpos_not_pos l : 0 <= l -> C17.Base.Qltb 0 (- l) = false.
Proof.
  intro Hl. change (Eval.Qltb 0 (- l) = false).
  destruct (Eval.Qltb 0 (- l)) eqn:E; [|reflexivity]. apply Qltb_iff in E. exfalso. lra.
Qed.

Lemma lower_qbad l diff iv : 0 <= l -> rej_lower_iv_qbad diff l iv = too_low l diff iv.
Proof.
  intro Hl. unfold rej_lower_iv_qbad, sqrtmul_lt, too_low. rewrite (neg_nonpos_not_pos l Hl).
  change C17.Base.Qltb with Eval.Qltb. f_equal.
  apply Qltb_of_iff. assert (E : - l * - l == l * l) by ring. rewrite E. reflexivity.
Qed.

Lemma upper_qbad u diff iv : 0 <= u -> rej_upper_iv_qbad diff u iv = too_high u diff iv.
Proof.
  intro Hu. unfold rej_upper_iv_qbad, sqrtmul_lt, too_high. rewrite (neg_nonpos_not_pos u Hu).
  change C17.Base.Qltb with Eval.Qltb. f_equal.
  - apply Qltb_of_iff. split; intro; lra.
  - apply Qltb_of_iff.
    assert (E1 : - u * - u == u * u) by ring. assert (E2 : - diff * - diff * iv == diff * diff * iv) by ring.
    rewrite E1, E2. reflexivity.
Qed.

(* when the point is beyond a limit, the "which side" factor of the badness term is 1 *)
Lemma lower_side l diff iv : 0 <= l -> too_low l diff iv = true -> sqrtmul_lt (- - diff) iv (- 0) = true.
Proof.
  intros Hl H. unfold too_low in H. apply andb_true_iff in H. destruct H as [H1 H2].
  apply Qltb_iff in H1. apply Qltb_iff in H2.
  unfold sqrtmul_lt. rewrite (neg_nonpos_not_pos 0 (Qle_refl 0)). change C17.Base.Qltb with Eval.Qltb.
  apply andb_true_iff. split; apply Qltb_iff; [lra|].
  assert (0 <= l * l) by nra.
  assert (E : - - diff * - - diff * iv == diff * diff * iv) by ring. rewrite E. lra.
Qed.

Lemma upper_side u diff iv : 0 <= u -> too_high u diff iv = true -> sqrtmul_lt (- diff) iv (- 0) = true.
Proof.
  intros Hu H. unfold too_high in H. apply andb_true_iff in H. destruct H as [H1 H2].
  apply Qltb_iff in H1. apply Qltb_iff in H2.
  unfold sqrtmul_lt. rewrite (neg_nonpos_not_pos 0 (Qle_refl 0)). change C17.Base.Qltb with Eval.Qltb.
  apply andb_true_iff. split; apply Qltb_iff; [lra|].
  assert (0 <= u * u) by nra.
  assert (E : - diff * - diff * iv == diff * diff * iv) by ring. rewrite E. lra.
Qed.

Theorem reject1_is_generated lower upper d yfit m : 0 <= lower -> 0 <= upper ->
  reject1 lower upper d yfit m = generated_reject1 lower upper d yfit m.
Proof.
  intros Hl Hu. unfold reject1, generated_reject1. cbv zeta.
  set (diff := dy d - yfit). set (iv := dw d).
  unfold rej_lower_iv_term, rej_upper_iv_term.
  rewrite (lower_qbad lower diff iv Hl), (upper_qbad upper diff iv Hu).
  pose proof (lower_side lower diff iv Hl) as SL. pose proof (upper_side upper diff iv Hu) as SU.
  destruct (too_low lower diff iv); destruct (too_high upper diff iv);
    try rewrite (SL eq_refl); try rewrite (SU eq_refl);
    destruct m; try destruct (sqrtmul_lt (- - diff) iv (- 0)); try destruct (sqrtmul_lt (- diff) iv (- 0)); reflexivity.
Qed.

(* the whole pass over the data *)
Fixpoint generated_reject (lower upper : Q) (ds : list datum) (yfit : list Q) (mask : list bool) : list bool :=
  match ds, yfit, mask with
  | d :: ds', f :: yfit', m :: mask' => generated_reject1 lower upper d f m :: generated_reject lower upper ds' yfit' mask'
  | _, _, _ => []
  end.

Theorem reject_is_generated lower upper ds : 0 <= lower -> 0 <= upper -> forall yfit mask,
  reject lower upper ds yfit mask = generated_reject lower upper ds yfit mask.
Proof.
  intros Hl Hu. induction ds as [|d ds IH]; intros yfit mask; [reflexivity|].
  destruct yfit as [|f yfit]; [reflexivity|]. destruct mask as [|m mask]; [reflexivity|].
  cbn [reject generated_reject]. rewrite IH, (reject1_is_generated lower upper d f m Hl Hu). reflexivity.
Qed.

(* djs_reject's qdone = all(newmask == outmask) is the stop test of iter_loop *)
Lemma qdone_is_mask_eqb a : forall b, rej_qdone a b = mask_eqb a b.
Proof.
  unfold rej_qdone, list_beq, mask_eqb.
  induction a as [|x a IH]; intros [|y b]; try reflexivity.
  cbn [length combine forallb all2 fst snd Nat.eqb]. rewrite <- IH.
  destruct (Bool.eqb x y); [cbn [andb]|]; [reflexivity|].
  cbn [andb]. apply andb_false_r.
Qed.
