(* Lemmas about C13/LinAlg.v: soundness of the checked solvers, the bridge between the normal
   equations (as matrices) and the gradient form used by Lib.WLS.normal_eq_optimal. *)
From Coq Require Import QArith Qabs Lqa List Bool Setoid Morphisms Lia.
From PV Require Import Lib.WLS C13.LinAlg.
Import ListNotations.
Open Scope Q_scope.

(* ------------------------------------------------------------------ veq / meq *)
Lemma veq_refl u : veq u u.
Proof. induction u; constructor; [reflexivity | assumption]. Qed.
Lemma veq_sym u v : veq u v -> veq v u.
Proof. induction 1; constructor; [symmetry; assumption | assumption]. Qed.
Lemma veq_trans u v w : veq u v -> veq v w -> veq u w.
Proof.
  intros H; revert w; induction H; intros w H2; inversion H2; subst; constructor.
  - etransitivity; eassumption.
  - apply IHForall2; assumption.
Qed.
Lemma veq_length u v : veq u v -> length u = length v.
Proof. induction 1; simpl; congruence. Qed.
Lemma meq_refl A : meq A A.
Proof. induction A; constructor; [apply veq_refl | assumption]. Qed.

Lemma veq_bool_sound u v : veq_bool u v = true -> veq u v.
Proof.
  revert v; induction u as [|a u IH]; intros [|b v] H; simpl in H; try discriminate; constructor.
  - apply andb_prop in H; destruct H as [H _]. apply Qeq_bool_iff; exact H.
  - apply andb_prop in H; destruct H as [_ H]. apply IH; exact H.
Qed.
Lemma meq_bool_sound A B : meq_bool A B = true -> meq A B.
Proof.
  revert B; induction A as [|a A IH]; intros [|b B] H; simpl in H; try discriminate; constructor.
  - apply andb_prop in H; destruct H as [H _]. apply veq_bool_sound; exact H.
  - apply andb_prop in H; destruct H as [_ H]. apply IH; exact H.
Qed.

Lemma vred_veq v : veq (vred v) v.
Proof. induction v; constructor; [apply Qred_correct | assumption]. Qed.
Lemma mred_meq A : meq (mred A) A.
Proof. induction A; constructor; [apply vred_veq | assumption]. Qed.
Lemma vred_complete u v : veq u v -> vred u = vred v.
Proof. induction 1; simpl; [reflexivity|]. f_equal; [apply Qred_complete; assumption | assumption]. Qed.
Lemma mred_complete A B : meq A B -> mred A = mred B.
Proof. induction 1; simpl; [reflexivity|]. f_equal; [apply vred_complete; assumption | assumption]. Qed.

(* ------------------------------------------------------------------ dot *)
Lemma dot_nil_r u : dot u [] = 0.
Proof. destruct u; reflexivity. Qed.

Lemma dot_veq u u' v v' : veq u u' -> veq v v' -> dot u v == dot u' v'.
Proof.
  intros H; revert v v'; induction H as [|a a' u u' Ha Hu IH]; intros v v' Hv.
  - reflexivity.
  - inversion Hv as [|b b' w w' Hb Hw]; subst; simpl; [reflexivity|].
    rewrite Ha, Hb, (IH _ _ Hw). reflexivity.
Qed.

Lemma dot_comm u v : dot u v == dot v u.
Proof.
  revert v; induction u as [|a u IH]; intros [|b v]; simpl; try reflexivity.
  rewrite IH. ring.
Qed.

Lemma dot_zeros_l m x : dot (zeros m) x == 0.
Proof.
  revert x; induction m as [|m IH]; intros [|b x]; simpl; try reflexivity.
  unfold zeros in IH. rewrite IH. ring.
Qed.

Lemma dot_vadd_l u v d : length u = length v -> dot (vadd u v) d == dot u d + dot v d.
Proof.
  revert v d; induction u as [|a u IH]; intros [|b v] [|c d] H; simpl in *; try discriminate; try ring.
  rewrite IH by congruence. ring.
Qed.

Lemma dot_vscale_l c u d : dot (vscale c u) d == c * dot u d.
Proof.
  revert d; induction u as [|a u IH]; intros [|b d]; simpl; try ring.
  unfold vscale in IH. rewrite IH. ring.
Qed.

Lemma dot_vsub_r r a b : length a = length b -> dot r (vsub a b) == dot r a - dot r b.
Proof.
  revert a b; induction r as [|c r IH]; intros [|x a] [|y b] H; simpl in *; try discriminate; try ring.
  rewrite IH by congruence. ring.
Qed.

Lemma vadd_length u v : length u = length v -> length (vadd u v) = length u.
Proof. revert v; induction u; intros [|b v] H; simpl in *; try discriminate; auto. Qed.
Lemma vsub_length u v : length u = length v -> length (vsub u v) = length u.
Proof. revert v; induction u; intros [|b v] H; simpl in *; try discriminate; auto. Qed.
Lemma vscale_length c u : length (vscale c u) = length u.
Proof. apply map_length. Qed.
Lemma zeros_length m : length (zeros m) = m.
Proof. apply repeat_length. Qed.

Lemma vadd_vsub x z : length x = length z -> veq (vadd x (vsub z x)) z.
Proof.
  revert z; induction x as [|a x IH]; intros [|b z] H; simpl in *; try discriminate; constructor.
  - ring.
  - apply IH; congruence.
Qed.

(* ------------------------------------------------------------------ shapes *)
Definition rows_len (m : nat) (A : mat) : Prop := Forall (fun r => length r = m) A.
Definition wfl (m : nat) (D : list obs) : Prop := Forall (fun o => length (fst (fst o)) = m) D.

Lemma wf_wfl m D : wf m D -> wfl m D.
Proof. unfold wf, wfl. intros H. eapply Forall_impl; [|exact H]. simpl; intros a [H1 _]; exact H1. Qed.

Lemma zero_mat_shape m : length (zero_mat m) = m /\ rows_len m (zero_mat m).
Proof.
  unfold zero_mat, rows_len. split; [apply repeat_length|].
  apply Forall_forall. intros r Hr. apply repeat_spec in Hr. subst. apply zeros_length.
Qed.

Lemma outer_w_shape w r : length (outer_w w r) = length r /\ rows_len (length r) (outer_w w r).
Proof.
  unfold outer_w, rows_len. split; [apply map_length|].
  apply Forall_forall. intros x Hx. apply in_map_iff in Hx. destruct Hx as [a [Ha _]]. subst. apply vscale_length.
Qed.

Lemma madd_length A B : length A = length B -> length (madd A B) = length A.
Proof.
  unfold madd. revert B; induction A as [|a A IH]; intros [|b B] H; simpl in *; try discriminate; auto.
Qed.
Lemma madd_rows m A B : rows_len m A -> rows_len m B -> rows_len m (madd A B).
Proof.
  unfold madd, rows_len. revert B; induction A as [|a A IH]; intros [|b B] RA RB; simpl; try constructor.
  - inversion RA; inversion RB; subst. rewrite vadd_length; congruence.
  - inversion RA; inversion RB; subst. apply IH; assumption.
Qed.
Lemma madd_shape m A B : length A = m -> length B = m -> rows_len m A -> rows_len m B ->
  length (madd A B) = m /\ rows_len m (madd A B).
Proof.
  intros HA HB RA RB. split; [rewrite madd_length; congruence | apply madd_rows; assumption].
Qed.

Lemma normal_mat_shape m D : wfl m D -> length (normal_mat m D) = m /\ rows_len m (normal_mat m D).
Proof.
  induction 1 as [|[[r w] y] D Hr HD IH]; simpl.
  - apply zero_mat_shape.
  - simpl in Hr. destruct IH as [L R]. destruct (outer_w_shape w r) as [L1 R1]. rewrite Hr in *.
    apply madd_shape; assumption.
Qed.

Lemma normal_rhs_length m D : wfl m D -> length (normal_rhs m D) = m.
Proof.
  induction 1 as [|[[r w] y] D Hr HD IH]; simpl.
  - apply zeros_length.
  - simpl in Hr. rewrite vadd_length; rewrite vscale_length; congruence.
Qed.

(* ------------------------------------------------------------------ bilinear forms *)
Lemma mat_vec_zero m x d : dot (mat_vec (zero_mat m) x) d == 0.
Proof.
  unfold zero_mat, mat_vec. generalize m at 2. intros k. revert d; induction k as [|k IH]; intros d; simpl.
  - reflexivity.
  - destruct d as [|c d]; [reflexivity|]. simpl. rewrite IH. rewrite dot_zeros_l. ring.
Qed.

Lemma mat_vec_madd A B x d : length A = length B -> Forall2 (fun a b => length a = length b) A B ->
  dot (mat_vec (madd A B) x) d == dot (mat_vec A x) d + dot (mat_vec B x) d.
Proof.
  intros _ H. revert d. induction H as [|a b A B Hab HAB IH]; intros d; simpl.
  - ring.
  - destruct d as [|c d]; simpl; [ring|]. rewrite IH. rewrite dot_vadd_l by assumption. ring.
Qed.

Lemma mat_vec_outer_gen w r x l d :
  dot (map (fun a => dot (vscale (w * a) r) x) l) d == w * dot r x * dot l d.
Proof.
  revert d; induction l as [|a l IH]; intros [|c d]; simpl; try ring.
  rewrite IH, dot_vscale_l. ring.
Qed.

Lemma mat_vec_outer w r x d : dot (mat_vec (outer_w w r) x) d == w * dot r x * dot r d.
Proof. unfold mat_vec, outer_w. rewrite map_map. apply mat_vec_outer_gen. Qed.

Lemma rows_len_Forall2 m A B : length A = length B -> rows_len m A -> rows_len m B ->
  Forall2 (fun a b => length a = length b) A B.
Proof.
  revert B; induction A as [|a A IH]; intros [|b B] HL RA RB; simpl in *; try discriminate; constructor.
  - inversion RA; inversion RB; congruence.
  - inversion RA; inversion RB; subst. apply IH; auto.
Qed.

(* the gradient of chi2 contracted with d is (N x - rhs) . d *)
Lemma gdot_normal m D x d : wfl m D ->
  gdot D x d == dot (mat_vec (normal_mat m D) x) d - dot (normal_rhs m D) d.
Proof.
  induction 1 as [|[[r w] y] D Hr HD IH]; simpl.
  - rewrite mat_vec_zero, dot_zeros_l. ring.
  - simpl in Hr. destruct (normal_mat_shape m D HD) as [L R]. destruct (outer_w_shape w r) as [L1 R1].
    rewrite mat_vec_madd.
    + rewrite mat_vec_outer. rewrite dot_vadd_l.
      * rewrite dot_vscale_l. rewrite IH. ring.
      * rewrite vscale_length, normal_rhs_length by assumption. exact Hr.
    + congruence.
    + apply rows_len_Forall2 with (m := m); [congruence | rewrite <- Hr; exact R1 | exact R].
Qed.

(* ------------------------------------------------------------------ mat_vec respects meq *)
Lemma mat_vec_meq A B x : meq A B -> veq (mat_vec A x) (mat_vec B x).
Proof.
  induction 1; simpl; constructor; [|assumption]. apply dot_veq; [assumption | apply veq_refl].
Qed.

(* ------------------------------------------------------------------ checked solvers *)
Lemma solve_checked_sound A b x : solve_checked A b = Some x ->
  veq (mat_vec A x) b /\ length x = length A.
Proof.
  unfold solve_checked. destruct (solve_multi A _) as [X|]; [|discriminate].
  destruct (_ && _) eqn:E; [|discriminate]. intros H; inversion H; subst; clear H.
  apply andb_prop in E. destruct E as [E1 E2]. split.
  - apply veq_bool_sound; exact E2.
  - apply Nat.eqb_eq; exact E1.
Qed.

Lemma inverse_checked_sound A X : inverse_checked A = Some X ->
  meq (mat_mul A X) (identity (length A)) /\ meq (mat_mul X A) (identity (length A)) /\ length X = length A.
Proof.
  unfold inverse_checked. destruct (solve_multi A _) as [Y|]; [|discriminate].
  destruct (_ && _) eqn:E; [|discriminate]. intros H; inversion H; subst; clear H.
  apply andb_prop in E. destruct E as [E E3]. apply andb_prop in E. destruct E as [E1 E2].
  repeat split.
  - apply meq_bool_sound; exact E2.
  - apply meq_bool_sound; exact E3.
  - apply Nat.eqb_eq; exact E1.
Qed.

(* ------------------------------------------------------------------ weighted least squares *)
Lemma wls_solve_normal m D x : wfl m D -> wls_solve m D = Some x ->
  length x = m /\ veq (mat_vec (normal_mat m D) x) (normal_rhs m D).
Proof.
  intros HD H. unfold wls_solve in H. apply solve_checked_sound in H. destruct H as [H L]. split.
  - rewrite L. unfold mred. rewrite map_length. apply normal_mat_shape; assumption.
  - eapply veq_trans; [|apply vred_veq]. eapply veq_trans; [|exact H].
    apply veq_sym. apply mat_vec_meq. apply mred_meq.
Qed.

Lemma wls_solve_gradient m D x : wfl m D -> wls_solve m D = Some x -> forall d, gdot D x d == 0.
Proof.
  intros HD H d. destruct (wls_solve_normal m D x HD H) as [_ E].
  rewrite (gdot_normal m D x d HD). rewrite (dot_veq _ _ d d E (veq_refl d)). ring.
Qed.

Lemma resid_veq z z' o : veq z z' -> resid z o == resid z' o.
Proof. destruct o as [[r w] y]. simpl. intros H. rewrite (dot_veq r r z z' (veq_refl r) H). reflexivity. Qed.

Lemma chi2_veq D z z' : veq z z' -> chi2 D z == chi2 D z'.
Proof.
  intros H. induction D as [|[[r w] y] D IH]; simpl; [reflexivity|].
  rewrite IH. rewrite (dot_veq r r z z' (veq_refl r) H). reflexivity.
Qed.

(* the answer of wls_solve minimises chi2 over all vectors of the right length *)
Theorem wls_solve_optimal m D x : wf m D -> wls_solve m D = Some x ->
  length x = m /\ forall z, length z = m -> chi2 D x <= chi2 D z.
Proof.
  intros HD H. pose proof (wf_wfl m D HD) as HL.
  destruct (wls_solve_normal m D x HL H) as [Lx _]. split; [exact Lx|].
  intros z Lz.
  assert (Hopt : chi2 D x <= chi2 D (vadd x (vsub z x))).
  { apply (normal_eq_optimal m D x HD Lx).
    - intros d _. apply (wls_solve_gradient m D x HL H).
    - rewrite vsub_length; congruence. }
  rewrite (chi2_veq D _ z (vadd_vsub x z ltac:(congruence))) in Hopt. exact Hopt.
Qed.

(* chi2 is a sum of non-negative terms *)
Lemma chi2_nonneg m D x : wf m D -> 0 <= chi2 D x.
Proof.
  induction 1 as [|[[r w] y] D [Hr Hw] HD IH]; simpl in *; [lra|].
  assert (0 <= w * ((dot r x - y) * (dot r x - y))).
  { apply Qmult_le_0_compat; [exact Hw|]. generalize (dot r x - y); intro t. nra. }
  lra.
Qed.

(* if chi2 vanishes, every observation with positive weight is reproduced exactly *)
Lemma chi2_zero_resid m D x : wf m D -> chi2 D x == 0 ->
  Forall (fun o => 0 < snd (fst o) -> resid x o == 0) D.
Proof.
  induction 1 as [|[[r w] y] D [Hr Hw] HD IH]; simpl in *; intros H0; constructor.
  - simpl. intros Hpos.
    pose proof (chi2_nonneg m D x HD) as Hn.
    assert (Ht : 0 <= w * ((dot r x - y) * (dot r x - y))).
    { apply Qmult_le_0_compat; [exact Hw|]. generalize (dot r x - y); intro t. nra. }
    assert (Hz : w * ((dot r x - y) * (dot r x - y)) == 0) by lra.
    revert Hz. generalize (dot r x - y). intros t Hz.
    assert (Hsq : t * t == 0).
    { destruct (Qeq_dec (t * t) 0) as [E|E]; [exact E|]. exfalso.
      assert (0 < t * t) by (assert (0 <= t * t) by nra; apply Qle_lteq in H; destruct H as [H|H]; [exact H | exfalso; apply E; symmetry; exact H]).
      assert (0 < w * (t * t)) by (apply Qmult_lt_0_compat; assumption). lra. }
    destruct (Qeq_dec t 0) as [E|E]; [exact E|]. exfalso.
    assert (0 < t * t). { destruct (Qlt_le_dec 0 t); [nra|]. assert (t < 0) by (apply Qle_lteq in q; destruct q as [q|q]; [exact q | exfalso; apply E; exact q]). nra. }
    lra.
  - apply IH.
    pose proof (chi2_nonneg m D x HD) as Hn.
    assert (Ht : 0 <= w * ((dot r x - y) * (dot r x - y))).
    { apply Qmult_le_0_compat; [exact Hw|]. generalize (dot r x - y); intro t. nra. }
    lra.
Qed.

(* a vector at which the gradient vanishes minimises chi2 over all vectors *)
Lemma gradient_zero_optimal m D x : wf m D -> length x = m -> (forall d, gdot D x d == 0) ->
  forall z, length z = m -> chi2 D x <= chi2 D z.
Proof.
  intros HD Lx Hg z Lz.
  assert (Hopt : chi2 D x <= chi2 D (vadd x (vsub z x))).
  { apply (normal_eq_optimal m D x HD Lx); [intros d _; apply Hg | rewrite vsub_length; congruence]. }
  rewrite (chi2_veq D _ z (vadd_vsub x z ltac:(congruence))) in Hopt. exact Hopt.
Qed.

(* ------------------------------------------------------------------ the checker grad_small, exact case *)
Lemma Qabs_le_0 q : Qabs q <= 0 -> q == 0.
Proof.
  intros H. pose proof (Qabs_nonneg q) as Hn. assert (E : Qabs q == 0) by lra.
  destruct (Qlt_le_dec q 0) as [Hq|Hq].
  - rewrite Qabs_neg in E by lra. lra.
  - rewrite Qabs_pos in E by exact Hq. exact E.
Qed.

Lemma forallb_combine_veq (N : mat) (sol : vec) (P : vec * Q -> bool) : forall rhs,
  length N = length rhs -> forallb P (combine N rhs) = true ->
  (forall r b, P (r, b) = true -> dot r sol == b) -> veq (mat_vec N sol) rhs.
Proof.
  induction N as [|r N IH]; intros [|b rhs] L H HP; simpl in *; try discriminate; constructor.
  - apply andb_prop in H. destruct H as [H _]. apply HP. exact H.
  - apply andb_prop in H. destruct H as [_ H]. apply IH; [lia | exact H | exact HP].
Qed.

(* a vector accepted by grad_small with tolerance 0 solves the normal equations, hence is the global minimiser:
   this is what the tolerant checker approximates on the implementation's floating-point output *)
Theorem grad_small_exact_optimal m D sol : wf m D -> grad_small 0 m D sol = true ->
  length sol = m /\ (forall d, gdot D sol d == 0) /\ forall z, length z = m -> chi2 D sol <= chi2 D z.
Proof.
  intros HD H. unfold grad_small in H. apply andb_prop in H. destruct H as [H L]. apply Nat.eqb_eq in L.
  pose proof (wf_wfl m D HD) as HL. destruct (normal_mat_shape m D HL) as [LN _].
  assert (E : veq (mat_vec (normal_mat m D) sol) (normal_rhs m D)).
  { apply (forallb_combine_veq _ _ _ _ ltac:(rewrite LN, normal_rhs_length by exact HL; reflexivity) H).
    intros r b Hp. apply Qle_bool_iff in Hp.
    assert (Z : 0 * (dot (vabs r) (vabs sol) + Qabs b) == 0) by ring. rewrite Z in Hp.
    apply Qabs_le_0 in Hp. lra. }
  assert (G : forall d, gdot D sol d == 0).
  { intros d. rewrite (gdot_normal m D sol d HL). rewrite (dot_veq _ _ d d E (veq_refl d)). ring. }
  split; [exact L|]. split; [exact G|]. apply gradient_zero_optimal; assumption.
Qed.

(* ------------------------------------------------------------------ reduced variants compute the same numbers *)
Lemma dotr_correct u : forall v, dotr u v == dot u v.
Proof.
  induction u as [|a u IH]; intros [|b v]; try reflexivity.
  cbn [dotr dot]. rewrite Qred_correct, IH. reflexivity.
Qed.
Lemma chi2r_correct D x : chi2r D x == chi2 D x.
Proof.
  induction D as [|[[r w] y] D IH]; [reflexivity|].
  cbn [chi2r chi2 resid]. rewrite Qred_correct, IH, dotr_correct. reflexivity.
Qed.
