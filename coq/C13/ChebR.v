(* C13: the Chebyshev recurrence is cos(n theta) at x = cos theta  (over the reals). *)
From Coq Require Import Reals QArith Qreals Lra.
From PV Require Import Lib.WLS C13.LinAlg C13.Model C13.BasisProofs.
Open Scope R_scope.

(* the same recurrence over R *)
Fixpoint chebyshev_R (n : nat) (x : R) : R :=
  match n with
  | O => 1
  | S n' =>
      match n' with
      | O => x
      | S n'' => 2 * x * chebyshev_R n' x - chebyshev_R n'' x
      end
  end.
Lemma chebyshev_R_SS n x : chebyshev_R (S (S n)) x = 2 * x * chebyshev_R (S n) x - chebyshev_R n x.
Proof. reflexivity. Qed.

Lemma chebyshev_R_is_cos n th : chebyshev_R n (cos th) = cos (INR n * th).
Proof.
  induction n as [| |n IH1 IH2] using pair_induction.
  - simpl. rewrite Rmult_0_l, cos_0. reflexivity.
  - simpl. rewrite Rmult_1_l. reflexivity.
  - rewrite chebyshev_R_SS, IH1, IH2.
    replace (INR (S (S n)) * th) with (INR (S n) * th + th) by (rewrite (S_INR (S n)); ring).
    replace (INR n * th) with (INR (S n) * th - th) by (rewrite (S_INR n); ring).
    rewrite cos_plus, cos_minus. ring.
Qed.

(* the rational model is the real recurrence on rational abscissae *)
Lemma chebyshev_rec_Q2R n q : Q2R (chebyshev_rec n q) = chebyshev_R n (Q2R q).
Proof.
  induction n as [| |n IH1 IH2] using pair_induction.
  - simpl. unfold Q2R. simpl. field.
  - reflexivity.
  - rewrite chebyshev_rec_SS, chebyshev_R_SS, Q2R_minus, !Q2R_mult, IH1, IH2.
    replace (Q2R 2) with 2 by (unfold Q2R; simpl; field). reflexivity.
Qed.

Theorem chebyshev_is_cos n q th : Q2R q = cos th -> Q2R (chebyshev_rec n q) = cos (INR n * th).
Proof. intros H. rewrite chebyshev_rec_Q2R, H. apply chebyshev_R_is_cos. Qed.

(* the textbook definition verbatim: T_n(x) = cos(n arccos x) for every order n and every abscissa of [-1, 1] *)
Theorem chebyshev_is_cos_acos n q : (-1 <= q)%Q -> (q <= 1)%Q ->
  Q2R (chebyshev_rec n q) = cos (INR n * acos (Q2R q)).
Proof.
  intros H1 H2. apply chebyshev_is_cos. symmetry. apply cos_acos.
  apply Qle_Rle in H1. apply Qle_Rle in H2.
  replace (Q2R (-1)) with (-1) in H1 by (unfold Q2R; simpl; field).
  replace (Q2R 1) with 1 in H2 by (unfold Q2R; simpl; field).
  split; assumption.
Qed.

(* hence |T_n| <= 1 on [-1, 1] *)
Corollary chebyshev_bounded n q : (-1 <= q)%Q -> (q <= 1)%Q -> -1 <= Q2R (chebyshev_rec n q) <= 1.
Proof. intros H1 H2. rewrite chebyshev_is_cos_acos by assumption. apply COS_bound. Qed.
