(* C18 -- Great-circle distance and SDSS great-circle coordinates are geometrically exact.
   Property theorems only; each is closed by `exact` and followed by Print Assumptions.
   gcirc_gen, gcirc_h, m2r_vec, r2m_vec, stripe_to_incl_gen, angles_to_x_gen, x_to_angles_gen are
   GENERATED from /repo on every run (Generated/Gcirc.v, Generated/Coord.v). *)
From Coq Require Import Reals ZArith QArith List.
Import ListNotations.
From PV Require Import C18.Spec C18.SpecProofs Generated.Gcirc Generated.Coord C18.Model C18.Stripes C18.Proofs C18.Angles C18.RoundTrip C18.FloatModel
  C18.Branches C18.FloatGuard.
Open Scope R_scope.

(* ---- gcirc ---- *)

(* the source's square-root argument is the haversine = (1 - p.q)/2 of the two unit vectors (pt_S: the caller's
   coordinates as a unit vector, per unit convention) *)
Theorem C18_hav_is_chord : forall units ra1 dec1 ra2 dec2, In units gcirc_valid_units ->
  gcirc_h units ra1 dec1 ra2 dec2 = (1 - dot (pt_S units ra1 dec1) (pt_S units ra2 dec2)) / 2.
Proof. exact gcirc_h_is_chord. Qed.
Print Assumptions C18_hav_is_chord.

(* asin argument legal for all real inputs: never NaN in exact arithmetic *)
Theorem C18_hav_range : forall units ra1 dec1 ra2 dec2, In units gcirc_valid_units ->
  0 <= gcirc_h units ra1 dec1 ra2 dec2 <= 1.
Proof. exact gcirc_h_range. Qed.
Print Assumptions C18_hav_range.

(* the result is 2 asin sqrt of that argument, converted to the output unit *)
Theorem C18_gcirc_is_asin_sqrt : forall units ra1 dec1 ra2 dec2,
  gcirc_gen units ra1 dec1 ra2 dec2 = gcirc_out units (2 * asin (sqrt (gcirc_h units ra1 dec1 ra2 dec2))).
Proof. exact gcirc_gen_eq. Qed.
Print Assumptions C18_gcirc_is_asin_sqrt.

(* the generated function is the documented one in all three unit conventions (15 deg/hour, 3600 arcsec/deg) *)
Theorem C18_gcirc_is_spec : forall units ra1 dec1 ra2 dec2, In units gcirc_valid_units ->
  gcirc_gen units ra1 dec1 ra2 dec2 = gcirc_S units ra1 dec1 ra2 dec2.
Proof. exact gcirc_gen_is_S. Qed.
Print Assumptions C18_gcirc_is_spec.

(* equal to the independent vector formula acos(p.q) *)
Theorem C18_gcirc_is_vector_formula : forall ra1 dec1 ra2 dec2,
  gcirc_gen 0 ra1 dec1 ra2 dec2 = acos (dot (vec dec1 ra1) (vec dec2 ra2)).
Proof. exact gcirc_gen_is_vector_formula. Qed.
Print Assumptions C18_gcirc_is_vector_formula.

Theorem C18_gcirc_sym : forall units ra1 dec1 ra2 dec2, In units gcirc_valid_units ->
  gcirc_gen units ra1 dec1 ra2 dec2 = gcirc_gen units ra2 dec2 ra1 dec1.
Proof. exact gcirc_gen_sym. Qed.
Print Assumptions C18_gcirc_sym.

Theorem C18_gcirc_refl_zero : forall units ra dec, In units gcirc_valid_units -> gcirc_gen units ra dec ra dec = 0.
Proof. exact gcirc_gen_refl_zero. Qed.
Print Assumptions C18_gcirc_refl_zero.

(* within [0, 180 deg] = [0, PI] rad = [0, 648000] arcsec *)
Theorem C18_gcirc_range : forall units ra1 dec1 ra2 dec2, In units gcirc_valid_units ->
  0 <= gcirc_gen units ra1 dec1 ra2 dec2 <= (if (units =? 0)%Z then PI else 648000).
Proof. exact gcirc_gen_range. Qed.
Print Assumptions C18_gcirc_range.

Theorem C18_gcirc_units_agree : forall ra1 dec1 ra2 dec2,
  gcirc_gen 2 ra1 dec1 ra2 dec2 = arcsec_of_rad (gcirc_gen 0 (deg ra1) (deg dec1) (deg ra2) (deg dec2)) /\
  gcirc_gen 1 ra1 dec1 ra2 dec2 = gcirc_gen 2 (15 * ra1) dec1 (15 * ra2) dec2.
Proof. exact gcirc_gen_units_agree. Qed.
Print Assumptions C18_gcirc_units_agree.

(* antipodal points are exactly PI apart; evaluation form used by the enclosure cases *)
Theorem C18_gcirc_antipodal : forall a d, gcirc_rad a d (a + PI) (- d) = PI.
Proof. exact gcirc_antipodal. Qed.
Print Assumptions C18_gcirc_antipodal.

Theorem C18_gcirc_atan_form : forall h, 0 <= h < 1 -> 2 * asin (sqrt h) = atan_form h.
Proof. exact asin_sqrt_atan. Qed.
Print Assumptions C18_gcirc_atan_form.

(* ---- SDSS great-circle coordinates ---- *)

(* the generated component formulas are the rotation by +incl / -incl about the node direction *)
Theorem C18_munu_to_radec_is_rotation : forall mu nu incl node,
  m2r_vec mu nu incl node = rotx incl (vec nu (mu - node)).
Proof. exact m2r_vec_is_S. Qed.
Print Assumptions C18_munu_to_radec_is_rotation.

Theorem C18_radec_to_munu_is_rotation : forall ra dec incl node,
  r2m_vec ra dec incl node = rotx (- incl) (vec dec (ra - node)).
Proof. exact r2m_vec_is_S. Qed.
Print Assumptions C18_radec_to_munu_is_rotation.

(* (mu,nu) -> ICRS -> (mu,nu) and ICRS -> (mu,nu) -> ICRS return the starting direction *)
Theorem C18_munu_radec_inverse : forall mu nu incl node ra dec,
  vec dec (ra - node) = m2r_vec mu nu incl node -> r2m_vec ra dec incl node = vec nu (mu - node).
Proof. exact munu_radec_inverse. Qed.
Print Assumptions C18_munu_radec_inverse.

Theorem C18_radec_munu_inverse : forall ra dec incl node mu nu,
  vec nu (mu - node) = r2m_vec ra dec incl node -> m2r_vec mu nu incl node = vec dec (ra - node).
Proof. exact radec_munu_inverse. Qed.
Print Assumptions C18_radec_munu_inverse.

(* angular separations are preserved *)
Theorem C18_rotation_preserves_dot_m2r : forall mu1 nu1 mu2 nu2 incl node,
  dot (m2r_vec mu1 nu1 incl node) (m2r_vec mu2 nu2 incl node) = dot (vec nu1 (mu1 - node)) (vec nu2 (mu2 - node)).
Proof. exact m2r_preserves_dot. Qed.
Print Assumptions C18_rotation_preserves_dot_m2r.

Theorem C18_rotation_preserves_dot_r2m : forall ra1 dec1 ra2 dec2 incl node,
  dot (r2m_vec ra1 dec1 incl node) (r2m_vec ra2 dec2 incl node) = dot (vec dec1 (ra1 - node)) (vec dec2 (ra2 - node)).
Proof. exact r2m_preserves_dot. Qed.
Print Assumptions C18_rotation_preserves_dot_r2m.

(* the latitude returned is arcsin of the z component, which lies in [-1, 1]: never NaN in exact arithmetic *)
Theorem C18_latitude_legal : forall a b incl node,
  (let v := m2r_vec a b incl node in m2r_lat v = asin (snd v) /\ -1 <= snd v <= 1) /\
  (let v := r2m_vec a b incl node in r2m_lat v = asin (snd v) /\ -1 <= snd v <= 1).
Proof. exact latitude_legal. Qed.
Print Assumptions C18_latitude_legal.

(* ---- the same at the level of ANGLES: m2r_angles / r2m_angles are (generated longitude, generated latitude) of the
   generated vectors, i.e. (atan2 y x + node, asin z) with atan2 := Spec.atan2 ---- *)

(* (mu, nu) -> ICRS -> (mu, nu) returns the starting point, mu reduced to node + (-PI, PI] ("mu mod 360"), for |nu| < 90 deg,
   every inclination (stripe) and node *)
Theorem C18_munu_radec_munu_angles : forall mu0 nu incl node k,
  - (PI / 2) < nu < PI / 2 -> - PI < mu0 - node <= PI ->
  let '(ra, dec) := m2r_angles (mu0 + 2 * IZR k * PI) nu incl node in
  r2m_angles ra dec incl node = (mu0, nu).
Proof. exact munu_radec_munu_angles. Qed.
Print Assumptions C18_munu_radec_munu_angles.

(* ICRS -> (mu, nu) -> ICRS, for |dec| < 90 deg *)
Theorem C18_radec_munu_radec_angles : forall ra0 dec incl node k,
  - (PI / 2) < dec < PI / 2 -> - PI < ra0 - node <= PI ->
  let '(mu, nu) := r2m_angles (ra0 + 2 * IZR k * PI) dec incl node in
  m2r_angles mu nu incl node = (ra0, dec).
Proof. exact radec_munu_radec_angles. Qed.
Print Assumptions C18_radec_munu_radec_angles.

(* the returned angles represent the rotated unit vector for EVERY input, poles included *)
Theorem C18_angles_represent_vector : forall a b incl node,
  (let '(ra, dec) := m2r_angles a b incl node in vec dec (ra - node) = m2r_vec a b incl node) /\
  (let '(mu, nu) := r2m_angles a b incl node in vec nu (mu - node) = r2m_vec a b incl node).
Proof. exact angles_represent_vector. Qed.
Print Assumptions C18_angles_represent_vector.

(* separations are preserved at the level of gcirc: the great-circle distance of the images equals that of the originals *)
Theorem C18_gcirc_preserved_m2r : forall mu1 nu1 mu2 nu2 incl node,
  let '(ra1, dec1) := m2r_angles mu1 nu1 incl node in
  let '(ra2, dec2) := m2r_angles mu2 nu2 incl node in
  gcirc_rad ra1 dec1 ra2 dec2 = gcirc_rad mu1 nu1 mu2 nu2.
Proof. exact gcirc_preserved_m2r. Qed.
Print Assumptions C18_gcirc_preserved_m2r.

Theorem C18_gcirc_preserved_r2m : forall ra1 dec1 ra2 dec2 incl node,
  let '(mu1, nu1) := r2m_angles ra1 dec1 incl node in
  let '(mu2, nu2) := r2m_angles ra2 dec2 incl node in
  gcirc_rad mu1 nu1 mu2 nu2 = gcirc_rad ra1 dec1 ra2 dec2.
Proof. exact gcirc_preserved_r2m. Qed.
Print Assumptions C18_gcirc_preserved_r2m.

(* nu = 0 traces the great circle whose normal is tilted by incl from the pole, through RA = node, Dec = 0 *)
Theorem C18_nu0_great_circle : forall mu incl node,
  dot (m2r_vec mu 0 incl node) (gc_normal incl) = 0 /\ m2r_vec node 0 incl node = vec 0 0.
Proof. exact nu0_great_circle. Qed.
Print Assumptions C18_nu0_great_circle.

Theorem C18_incl_of_stripe : forall s, (stripe_to_incl_gen s == incl_doc s)%Q.
Proof. exact incl_of_stripe. Qed.
Print Assumptions C18_incl_of_stripe.

Theorem C18_node_is_95 : (sdss_node_default_deg == 95)%Q.
Proof. exact node_is_95. Qed.
Print Assumptions C18_node_is_95.

(* ---- floating-point statement in an ABSTRACT rounding model (every operation = exact result * (1 + d), |d| <= eps = 2^-52;
   a model of the arithmetic, not of numpy): the repaired haversine (differences first) has relative error <= 12 eps at every
   separation, and the distance 2 asin sqrt h relative error <= 32 eps up to 90 degrees ---- *)
Theorem C18_float_model_stable :
  (forall x y c1 c2 dx dy d1 d2 d3 d4 d5 d6 d7 d8 d9,
    Rabs x <= PI / 2 -> Rabs y <= PI / 2 -> 0 <= c1 -> 0 <= c2 ->
    Rabs dx <= eps -> Rabs dy <= eps -> Rabs d1 <= eps -> Rabs d2 <= eps -> Rabs d3 <= eps -> Rabs d4 <= eps ->
    Rabs d5 <= eps -> Rabs d6 <= eps -> Rabs d7 <= eps -> Rabs d8 <= eps -> Rabs d9 <= eps ->
    Rabs (hav_model x y c1 c2 dx dy d1 d2 d3 d4 d5 d6 d7 d8 d9 - hav_exact x y c1 c2) <= 12 * eps * hav_exact x y c1 c2) /\
  (forall x y c1 c2 dx dy d1 d2 d3 d4 d5 d6 d7 d8 d9 d10 d11,
    Rabs x <= PI / 2 -> Rabs y <= PI / 2 -> 0 <= c1 -> 0 <= c2 -> hav_exact x y c1 c2 <= 1/2 ->
    Rabs dx <= eps -> Rabs dy <= eps -> Rabs d1 <= eps -> Rabs d2 <= eps -> Rabs d3 <= eps -> Rabs d4 <= eps ->
    Rabs d5 <= eps -> Rabs d6 <= eps -> Rabs d7 <= eps -> Rabs d8 <= eps -> Rabs d9 <= eps -> Rabs d10 <= eps ->
    Rabs d11 <= eps ->
    let exact := 2 * asin (sqrt (hav_exact x y c1 c2)) in
    Rabs (dis_model (hav_model x y c1 c2 dx dy d1 d2 d3 d4 d5 d6 d7 d8 d9) d10 d11 - exact) <= 32 * eps * exact).
Proof. exact float_model_stable. Qed.
Print Assumptions C18_float_model_stable.

Theorem C18_float_model_is_generated_formula : forall dcrad1 dcrad2 deldec delra,
  hav_model (deldec / 2) (delra / 2) (cos dcrad1) (cos dcrad2) 0 0 0 0 0 0 0 0 0 0 0
  = gcirc_sindis2 dcrad1 dcrad2 deldec delra.
Proof. exact hav_model_is_generated. Qed.
Print Assumptions C18_float_model_is_generated_formula.

(* ---- angles <-> unit vectors (mangle) ---- *)

Theorem C18_angles_to_x_is_spec : forall lat phi theta,
  angles_to_x_gen lat phi theta = angles_to_x_S lat phi theta.
Proof. exact angles_to_x_is_S. Qed.
Print Assumptions C18_angles_to_x_is_spec.

(* x_to_angles (angles_to_x (phi, theta)) = (phi, theta) on the open domain; phi is returned in (-180, 180],
   i.e. equal to the input modulo 360 *)
Theorem C18_angles_x_inverse : forall (lat : bool) phi theta k,
  -180 < phi - 360 * IZR k <= 180 ->
  (if lat then -90 < theta < 90 else 0 < theta < 180) ->
  x_to_angles_gen atan2 lat (fst (fst (angles_to_x_gen lat phi theta))) (snd (fst (angles_to_x_gen lat phi theta)))
                  (snd (angles_to_x_gen lat phi theta)) = (phi - 360 * IZR k, theta).
Proof. exact angles_x_inverse. Qed.
Print Assumptions C18_angles_x_inverse.

(* non-vacuity: concrete instances *)
Example C18_witness_stripe : (stripe_to_incl_gen 25 == 75 # 2)%Q /\ (stripe_to_incl_gen 86 == 10)%Q.
Proof. split; reflexivity. Qed.

(* ==== Round 5: the branch logic around the formulas ==== *)

(* ---- gcirc: the arcsin guard ---- *)

(* the square-root argument lies in [0, 1] for EVERY value of units (no validity hypothesis); this is what makes the guard
   np.minimum(sindis, 1.0) of /repo 21dc9f6 the identity on exact values (used inside C18_gcirc_is_asin_sqrt, whose proof script
   accepts the guarded and the unguarded source) *)
Theorem C18_hav_range_all_units : forall units ra1 dec1 ra2 dec2, 0 <= gcirc_h units ra1 dec1 ra2 dec2 <= 1.
Proof. exact gcirc_h_range_all. Qed.
Print Assumptions C18_hav_range_all_units.

(* in the abstract rounding model the UNGUARDED arcsin argument exceeds 1 for some admissible rounding errors at the antipode
   (IEEE arcsin: NaN -- the defect found on the real code in this round); the guard makes it legal and changes no legal value *)
Theorem C18_float_model_needs_guard :
  (exists d3, Rabs d3 <= eps /\ hav_exact (PI / 2) 0 1 1 = 1 /\
              1 < sqrt (hav_model (PI / 2) 0 1 1 0 0 0 0 d3 0 0 0 0 0 0)) /\
  (forall s, 0 <= s -> 0 <= Rmin s 1 <= 1 /\ (s <= 1 -> Rmin s 1 = s)).
Proof. exact float_model_needs_guard. Qed.
Print Assumptions C18_float_model_needs_guard.

(* ---- stripes: the branch stripe > 46 ---- *)

Theorem C18_eta_of_stripe : forall s, (stripe_to_eta_gen s == eta_doc s)%Q.
Proof. exact eta_of_stripe. Qed.
Print Assumptions C18_eta_of_stripe.

(* a southern stripe s (47 .. 118) is the great circle of stripe s - 72; in particular stripe 82 is stripe 10 *)
Theorem C18_southern_stripe_same_circle : forall s, (46 < s)%Z -> (s - 72 <= 46)%Z ->
  (stripe_to_incl_gen s == stripe_to_incl_gen (s - 72))%Q.
Proof. exact southern_same_circle. Qed.
Print Assumptions C18_southern_stripe_same_circle.
Example C18_witness_southern : (stripe_to_incl_gen 82 == stripe_to_incl_gen 10)%Q.
Proof. exact southern_witness. Qed.

(* with the branch every stripe 0 .. 118 is inclined by -87.5 .. 90 degrees; the jump is between 46 and 47 *)
Theorem C18_incl_range : forall s, (0 <= s <= 118)%Z -> (- (175 # 2) <= stripe_to_incl_gen s <= 90)%Q.
Proof. exact incl_range. Qed.
Print Assumptions C18_incl_range.
Example C18_witness_incl_range : (- (175 # 2) <= stripe_to_incl_gen 86 <= 90)%Q.
Proof. exact incl_range_witness. Qed.
Example C18_witness_incl_jump : (stripe_to_incl_gen 46 == 90)%Q /\ (stripe_to_incl_gen 47 == - (175 # 2))%Q.
Proof. exact incl_jump_at_47. Qed.

(* stripes 10 and 82 have inclination 0: (mu, nu) = (RA, Dec) *)
Theorem C18_equatorial_stripes : forall mu nu,
  munu_to_radec_M 10 mu nu = vec (deg nu) (deg mu - node_rad) /\
  munu_to_radec_M 82 mu nu = vec (deg nu) (deg mu - node_rad).
Proof. exact equatorial_stripes. Qed.
Print Assumptions C18_equatorial_stripes.

(* ---- normalisation of longitudes: the round trips for EVERY mu / RA, compared after reduction to [0, 2 PI) ---- *)

Theorem C18_wrap_turn_range : forall x, 0 <= wrap_turn x < 2 * PI.
Proof. exact wrap_turn_range. Qed.
Print Assumptions C18_wrap_turn_range.

Theorem C18_munu_roundtrip_mod_turn : forall mu nu incl node,
  - (PI / 2) < nu < PI / 2 ->
  let '(ra, dec) := m2r_angles mu nu incl node in
  let '(mu', nu') := r2m_angles ra dec incl node in
  wrap_turn mu' = wrap_turn mu /\ nu' = nu.
Proof. exact munu_roundtrip_mod_turn. Qed.
Print Assumptions C18_munu_roundtrip_mod_turn.

Theorem C18_radec_roundtrip_mod_turn : forall ra dec incl node,
  - (PI / 2) < dec < PI / 2 ->
  let '(mu, nu) := r2m_angles ra dec incl node in
  let '(ra', dec') := m2r_angles mu nu incl node in
  wrap_turn ra' = wrap_turn ra /\ dec' = dec.
Proof. exact radec_roundtrip_mod_turn. Qed.
Print Assumptions C18_radec_roundtrip_mod_turn.
Example C18_witness_roundtrip_mod_turn :
  let '(ra, dec) := m2r_angles 7 0 (1 / 2) 1 in
  let '(mu', nu') := r2m_angles ra dec (1 / 2) 1 in wrap_turn mu' = wrap_turn 7 /\ nu' = 0.
Proof. exact (munu_roundtrip_mod_turn 7 0 (1 / 2) 1 witness_lat0). Qed.

(* ---- x_to_angles: both branches of the latitude flag, the ranges, degenerate inputs ---- *)

(* for EVERY input: azimuth in (-180, 180], polar angle in [0, 180] / latitude in [-90, 90] *)
Theorem C18_x_to_angles_ranges : forall (lat : bool) x0 x1 x2,
  let '(phi, th) := x_to_angles_gen atan2 lat x0 x1 x2 in
  -180 < phi <= 180 /\ (if lat then -90 <= th <= 90 else 0 <= th <= 180).
Proof. exact x_to_angles_ranges. Qed.
Print Assumptions C18_x_to_angles_ranges.

(* on unit vectors the divisor is non-zero and the arccos argument legal (finite result in numpy) ... *)
Theorem C18_x_to_angles_defined_on_unit : forall x0 x1 x2,
  x0 * x0 + x1 * x1 + x2 * x2 = 1 -> x_to_angles_defined x0 x1 x2.
Proof. exact x_to_angles_defined_on_unit. Qed.
Print Assumptions C18_x_to_angles_defined_on_unit.
Example C18_witness_defined : x_to_angles_defined 0 0 1.
Proof. exact (x_to_angles_defined_on_unit 0 0 1 witness_unit_001). Qed.

(* ... and angles_to_x only produces such vectors, both conventions *)
Theorem C18_angles_to_x_unit : forall lat phi theta,
  let '(x0, x1, x2) := angles_to_x_gen lat phi theta in x_to_angles_defined x0 x1 x2.
Proof. exact angles_to_x_unit. Qed.
Print Assumptions C18_angles_to_x_unit.

(* FULL statement "x_to_angles depends on the direction of its argument only" is FALSE of the faithful model: the source
   divides by the squared norm.  (0, 0, 2) gets polar angle 60 instead of 0; (0, 0, 1/2) and the zero vector have an illegal
   arccos argument / a zero divisor (NaN on the real code).  The property speaks of unit vectors only. *)
Theorem C18_x_to_angles_scale_invariant_refuted :
  ~ (forall c x0 x1 x2, 0 < c ->
       x_to_angles_gen atan2 false (c * x0) (c * x1) (c * x2) = x_to_angles_gen atan2 false x0 x1 x2)
  /\ x_to_angles_gen atan2 false 0 0 2 = (0, 60)
  /\ x_to_angles_gen atan2 false 0 0 1 = (0, 0)
  /\ ~ x_to_angles_defined 0 0 (1 / 2)
  /\ ~ x_to_angles_defined 0 0 0.
Proof. exact x_to_angles_scale_invariant_refuted. Qed.
Print Assumptions C18_x_to_angles_scale_invariant_refuted.
