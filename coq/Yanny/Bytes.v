(* Yanny/Bytes.v -- byte strings (ASCII codes as N) and the small text library the yanny
   parser / renderer models are written in.  DEFINITIONS ONLY; facts are in Yanny/BytesFacts.v.
   Shared by C01, C02 (and C03 later). *)
From Coq Require Import Ascii String.
From Coq Require Import NArith ZArith List Bool.
Import ListNotations.
Open Scope N_scope.

Definition byte := N.
Definition bytes := list N.

(* string literal -> byte list (only used to write constants readably) *)
Fixpoint bs (s : string) : bytes :=
  match s with EmptyString => [] | String a s' => N_of_ascii a :: bs s' end.

Definition NL : N := 10.   Definition CR : N := 13.    Definition TAB : N := 9.
Definition SP : N := 32.   Definition QUOTE : N := 34. Definition HASH : N := 35.
Definition LBRACE : N := 123. Definition RBRACE : N := 125.
Definition LBRACK : N := 91.  Definition RBRACK : N := 93.
Definition LT : N := 60.   Definition GT : N := 62.
Definition SEMI : N := 59. Definition COMMA : N := 44. Definition BSL : N := 92.
Definition MINUS : N := 45. Definition PLUS : N := 43. Definition USCORE : N := 95.

(* CPython `re` \s and str.strip() on str, ASCII part: 9-13, 28-31, 32 *)
Definition is_ws (c : N) : bool := ((9 <=? c) && (c <=? 13)) || ((28 <=? c) && (c <=? 32)).
Definition is_digit (c : N) : bool := (48 <=? c) && (c <=? 57).
Definition is_upper (c : N) : bool := (65 <=? c) && (c <=? 90).
Definition is_lower (c : N) : bool := (97 <=? c) && (c <=? 122).
Definition is_alpha (c : N) : bool := is_upper c || is_lower c.
(* \w, ASCII part *)
Definition is_word (c : N) : bool := is_alpha c || is_digit c || (c =? USCORE).
Definition upc (c : N) : N := if is_lower c then c - 32 else c.
Definition lowc (c : N) : N := if is_upper c then c + 32 else c.
Definition upper (s : bytes) : bytes := map upc s.
Definition lower (s : bytes) : bytes := map lowc s.

Fixpoint beq (a b : bytes) : bool :=
  match a, b with
  | [], [] => true
  | x :: a', y :: b' => (x =? y) && beq a' b'
  | _, _ => false
  end.

Fixpoint span (p : N -> bool) (s : bytes) : bytes * bytes :=
  match s with
  | [] => ([], [])
  | c :: s' => if p c then let '(a, b) := span p s' in (c :: a, b) else ([], s)
  end.

Fixpoint lstrip (s : bytes) : bytes :=
  match s with c :: s' => if is_ws c then lstrip s' else s | [] => [] end.
Fixpoint rstrip (s : bytes) : bytes :=
  match s with
  | [] => []
  | c :: s' => match rstrip s' with
               | [] => if is_ws c then [] else [c]
               | r => c :: r
               end
  end.
Definition strip (s : bytes) : bytes := lstrip (rstrip s).
Definition all_ws (s : bytes) : bool := forallb is_ws s.

(* s = p ++ rest  ->  Some rest *)
Fixpoint prefix (p s : bytes) : option bytes :=
  match p with
  | [] => Some s
  | x :: p' => match s with y :: s' => if x =? y then prefix p' s' else None | [] => None end
  end.
Definition starts_with (p s : bytes) : bool := match prefix p s with Some _ => true | None => false end.
(* substring test: str.find(p) >= 0 *)
Fixpoint contains (p s : bytes) : bool :=
  starts_with p s || match s with [] => false | _ :: s' => contains p s' end.
(* str.find(p): index of the first occurrence *)
Fixpoint find_index (p s : bytes) : option nat :=
  if starts_with p s then Some O
  else match s with [] => None | _ :: s' => option_map S (find_index p s') end.

Definition mem (c : N) (s : bytes) : bool := existsb (N.eqb c) s.

(* str.split('\n') *)
Fixpoint split_on (d : N) (s : bytes) : list bytes :=
  match s with
  | [] => [[]]
  | c :: s' => let r := split_on d s' in
               if c =? d then [] :: r
               else match r with l :: r' => (c :: l) :: r' | [] => [[c]] end
  end.

Fixpoint join (sep : bytes) (l : list bytes) : bytes :=
  match l with
  | [] => []
  | [x] => x
  | x :: l' => x ++ sep ++ join sep l'
  end.

(* split at the LAST occurrence of c: s = a ++ b, b starts with that occurrence (str.rfind) *)
Fixpoint rsplit_at (c : N) (s : bytes) : option (bytes * bytes) :=
  match s with
  | [] => None
  | x :: s' => match rsplit_at c s' with
               | Some (a, b) => Some (x :: a, b)
               | None => if x =? c then Some ([], s) else None
               end
  end.
Definition count (c : N) (s : bytes) : nat := length (filter (N.eqb c) s).
Definition remove_all (c : N) (s : bytes) : bytes := filter (fun x => negb (x =? c)) s.
Definition last_byte (s : bytes) : option N := match rev s with c :: _ => Some c | [] => None end.
Definition maxlen (l : list bytes) : nat := fold_right (fun s m => Nat.max (length s) m) O l.

(* ---- decimal integers: str(int) and a strict reading of int(str) ---- *)
Fixpoint digits_fuel (fuel : nat) (n : N) (acc : bytes) : bytes :=
  match fuel with
  | O => acc
  | S k => if n <? 10 then (48 + n) :: acc else digits_fuel k (n / 10) ((48 + n mod 10) :: acc)
  end.
Definition show_N (n : N) : bytes := digits_fuel (S (N.to_nat (N.size n))) n [].
Definition show_Z (z : Z) : bytes :=
  match z with
  | Zneg p => MINUS :: show_N (Npos p)
  | _ => show_N (Z.to_N z)
  end.
Definition parse_digits (s : bytes) : option N :=
  match s with
  | [] => None
  | _ => if forallb is_digit s then Some (fold_left (fun a c => a * 10 + (c - 48)) s 0) else None
  end.
(* [+-]?[0-9]+ ; Python's int() additionally accepts surrounding blanks and '_' -- outside the model *)
Definition parse_Z (s : bytes) : option Z :=
  match s with
  | c :: s' =>
      if c =? MINUS then option_map (fun n => Z.opp (Z.of_N n)) (parse_digits s')
      else if c =? PLUS then option_map Z.of_N (parse_digits s')
      else option_map Z.of_N (parse_digits s)
  | [] => None
  end.

(* option helpers *)
Definition obind {A B} (o : option A) (f : A -> option B) : option B :=
  match o with Some a => f a | None => None end.
Fixpoint omap {A B} (f : A -> option B) (l : list A) : option (list B) :=
  match l with
  | [] => Some []
  | x :: l' => match f x with
               | Some y => match omap f l' with Some r => Some (y :: r) | None => None end
               | None => None
               end
  end.
