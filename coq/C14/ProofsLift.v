(* C14 proofs, part 5: the per-axis kernel lifted to sub-arrays acts column by column. *)
From Coq Require Import ZArith QArith Qround List Bool Lia ZifyBool.
Import ListNotations.
From PV Require Import C14.Model C14.Proofs C14.ProofsRebin.
Open Scope Z_scope.
Ltac Zify.zify_post_hook ::= Z.to_euclidean_division_equations.

Section Lift.
  Variable T : Type.
  Variable o : ops T.

  (* column j of a list of rows *)
  Definition colT (j : nat) (x : list (list T)) : list T := map (fun r => nth j r (dfl o)) x.
  Definition rect (c : nat) (x : list (list T)) : Prop := Forall (fun r => length r = c) x.

  Lemma nth_nil {A} (j : nat) (d : A) : nth j [] d = d.
  Proof. destruct j; reflexivity. Qed.

  Lemma col_getT j x jj : nth j (getT (ops_lift o) x jj) (dfl o) = getT o (colT j x) jj.
  Proof.
    unfold getT, colT. cbn [dfl ops_lift]. destruct (jj <? 0); [apply nth_nil|].
    transitivity (nth (Z.to_nat jj) (map (fun r => nth j r (dfl o)) x) ((fun r => nth j r (dfl o)) [])).
    - symmetry. apply (map_nth (fun r => nth j r (dfl o))).
    - cbv beta. rewrite nth_nil. reflexivity.
  Qed.

  Lemma getT_row_length c x jj : rect c x -> 0 <= jj < lenZ x -> length (getT (ops_lift o) x jj) = c.
  Proof.
    intros R H. unfold getT. cbn [dfl ops_lift]. destruct (jj <? 0) eqn:E; [lia|].
    unfold rect in R. rewrite Forall_forall in R. apply R. apply nth_In. unfold lenZ in H. lia.
  Qed.

  Lemma nth_lift_lin j q (a b : list T) : (j < length a)%nat -> length a = length b ->
    nth j (lin (ops_lift o) q a b) (dfl o) = lin o q (nth j a (dfl o)) (nth j b (dfl o)).
  Proof.
    intros Hj L. cbn [lin ops_lift].
    set (g := fun p : T * T => lin o q (fst p) (snd p)).
    rewrite (nth_indep _ (dfl o) (g (dfl o, dfl o))) by (rewrite map_length, combine_length; lia).
    rewrite (map_nth g). rewrite combine_nth by exact L. reflexivity.
  Qed.

  Lemma nth_lift_avg j (l : list (list T)) f v t : l = v :: t -> (j < length v)%nat ->
    nth j (avg (ops_lift o) l f) (dfl o) = avg o (map (fun r => nth j r (dfl o)) l) f.
  Proof.
    intros -> Hj. cbn [avg ops_lift].
    set (g := fun jj : nat => avg o (map (fun r => nth jj r (dfl o)) (v :: t)) f).
    rewrite (nth_indep _ (dfl o) (g 0%nat)) by (rewrite map_length, seq_length; exact Hj).
    rewrite (map_nth g). rewrite seq_nth by exact Hj. reflexivity.
  Qed.

  (* the axis-0 pass on an array of rows is the 1-D pass applied to every column *)
  Theorem lifted_axis_columnwise sample (x : list (list T)) a c j :
    rect c x -> (j < c)%nat ->
    colT j (rebin_axis_spec (ops_lift o) sample x a) = rebin_axis_spec o sample (colT j x) a.
  Proof.
    intros R Hj. unfold rebin_axis_spec.
    assert (L : lenZ (colT j x) = lenZ x) by (unfold colT, lenZ; rewrite map_length; reflexivity).
    rewrite L. destruct (lenZ x <? a) eqn:E1.
    - (* expand *)
      unfold colT at 1. rewrite map_map. apply map_seq_ext. intros t Ht. cbv zeta.
      set (jj := Z.of_nat t * lenZ x / a).
      assert (J0 : 0 <= jj) by (subst jj; apply Z.div_pos; unfold lenZ; lia).
      destruct sample; [apply col_getT|].
      destruct (jj <? lenZ x - 1) eqn:E; [|apply col_getT].
      rewrite nth_lift_lin.
      + rewrite !col_getT. reflexivity.
      + rewrite (getT_row_length c) by (assumption || lia). exact Hj.
      + rewrite !(getT_row_length c) by (assumption || lia). reflexivity.
    - destruct (lenZ x =? a) eqn:E2; [reflexivity|].
      (* shrink *)
      unfold colT at 1. rewrite map_map. apply map_seq_ext. intros t Ht. cbv zeta.
      assert (Ha : 0 < a) by lia.
      set (f := lenZ x / a). set (i := Z.of_nat t).
      destruct sample; [apply col_getT|].
      assert (F1 : 1 <= f) by (subst f; apply Z.div_le_lower_bound; lia).
      assert (F2 : f * a <= lenZ x) by (subst f; rewrite Z.mul_comm; apply Z.mul_div_le; lia).
      assert (F3 : 0 <= i * f < lenZ x) by nia.
      destruct (Z.to_nat f) as [|f'] eqn:Ef; [lia|].
      cbn [seq map].
      erewrite nth_lift_avg; [|reflexivity|].
      + cbn [map]. f_equal. f_equal; [apply col_getT|].
        rewrite map_map. apply map_ext. intros u. apply col_getT.
      + rewrite (getT_row_length c) by (assumption || lia). exact Hj.
  Qed.

  (* rows keep their length: the result of the lifted pass is again rectangular *)
  Theorem lifted_axis_rect sample (x : list (list T)) a c :
    rect c x -> x <> [] -> rect c (rebin_axis_spec (ops_lift o) sample x a).
  Proof.
    intros R Hne. unfold rebin_axis_spec, rect.
    assert (L0 : 0 < lenZ x) by (unfold lenZ; destruct x; [congruence|cbn; lia]).
    destruct (lenZ x <? a) eqn:E1.
    - apply Forall_forall. intros r Hr. apply in_map_iff in Hr. destruct Hr as [t [<- Ht]]. apply in_seq in Ht.
      cbv zeta. set (jj := Z.of_nat t * lenZ x / a).
      assert (J0 : 0 <= jj) by (subst jj; apply Z.div_pos; lia).
      assert (J1 : jj < lenZ x) by (subst jj; apply Z.div_lt_upper_bound; nia).
      destruct sample; [apply (getT_row_length c); [assumption|lia]|].
      destruct (jj <? lenZ x - 1) eqn:E; [|apply (getT_row_length c); [assumption|lia]].
      cbn [lin ops_lift]. rewrite map_length, combine_length.
      rewrite !(getT_row_length c) by (assumption || lia). lia.
    - destruct (lenZ x =? a) eqn:E2; [exact R|].
      apply Forall_forall. intros r Hr. apply in_map_iff in Hr. destruct Hr as [t [<- Ht]]. apply in_seq in Ht.
      cbv zeta. assert (Ha : 0 < a) by lia.
      set (f := lenZ x / a). set (i := Z.of_nat t).
      assert (F1 : 1 <= f) by (subst f; apply Z.div_le_lower_bound; lia).
      assert (F2 : f * a <= lenZ x) by (subst f; rewrite Z.mul_comm; apply Z.mul_div_le; lia).
      assert (F3 : 0 <= i * f < lenZ x) by nia.
      destruct sample; [apply (getT_row_length c); [assumption|lia]|].
      destruct (Z.to_nat f) as [|f'] eqn:Ef; [lia|].
      cbn [seq map avg ops_lift]. rewrite map_length, seq_length.
      apply (getT_row_length c); [assumption|lia].
  Qed.
End Lift.

Arguments colT {T}. Arguments rect {T}.

(* 3-D: the axis-0 pass on an array of planes is the 1-D pass on every line x[:, j, jj] *)
Theorem lifted2_axis_columnwise (T : Type) (o : ops T) sample (x : list (list (list T))) a c1 c2 j jj :
  rect c1 x -> Forall (rect c2) x -> (j < c1)%nat -> (jj < c2)%nat ->
  colT o jj (colT (ops_lift o) j (rebin_axis_spec (ops_lift (ops_lift o)) sample x a))
  = rebin_axis_spec o sample (colT o jj (colT (ops_lift o) j x)) a.
Proof.
  intros R1 R2 Hj Hjj.
  rewrite (lifted_axis_columnwise (list T) (ops_lift o) sample x a c1 j R1 Hj).
  apply (lifted_axis_columnwise T o sample _ a c2 jj); [|exact Hjj].
  unfold rect in *. unfold colT. apply Forall_forall. intros r Hr. apply in_map_iff in Hr. destruct Hr as [plane [<- Hp]].
  rewrite Forall_forall in R1, R2. specialize (R1 plane Hp). specialize (R2 plane Hp).
  rewrite Forall_forall in R2. apply R2. apply nth_In. cbn [dfl ops_lift]. lia.
Qed.

(* 2-D rebin = the 1-D rule on every column (axis 0), then the 1-D rule on every row (axis 1) *)
Theorem rebin2_columns_then_rows k s (x : list (list Q)) a b c y :
  rect c x -> rebin2_spec k s x [a; b] = R2 y ->
  exists z, (x <> [] -> rect c z) /\
            (forall j, (j < c)%nat -> colT (ops_elem k) j z = rebin_axis_spec (ops_elem k) s (colT (ops_elem k) j x) a) /\
            y = map (fun row => rebin_axis_spec (ops_elem k) s row b) z.
Proof.
  intros R E. unfold rebin2_spec, rebin2_with in E. destruct (dims_ok (shape2 x) [a; b]); [|discriminate].
  inversion E; subst. exists (rebin_axis_spec (ops_lift (ops_elem k)) s x a). split; [|split].
  - intros Hne. apply lifted_axis_rect; assumption.
  - intros j Hj. apply (lifted_axis_columnwise Q (ops_elem k) s x a c j R Hj).
  - reflexivity.
Qed.

(* rebin_axes_commute_in_shape: resizing axis 0 then axis 1 (the code's order) and axis 1 then axis 0 both give
   exactly the requested shape [a; b] (the values may differ for integer dtypes, where every pass rounds) *)
Definition has_shape2 {T} (y : list (list T)) (a b : Z) : Prop := lenZ y = a /\ Forall (fun r => lenZ r = b) y.

Theorem rebin_axes_commute_in_shape (T : Type) (o : ops T) s (x : list (list T)) a b c :
  rect c x -> x <> [] -> 0 <= a -> 0 <= b ->
  has_shape2 (map (fun row => rebin_axis_spec o s row b) (rebin_axis_spec (ops_lift o) s x a)) a b /\
  has_shape2 (rebin_axis_spec (ops_lift o) s (map (fun row => rebin_axis_spec o s row b) x) a) a b.
Proof.
  intros R Hne Ha Hb. split; split.
  - unfold lenZ. rewrite map_length, rebin_axis_spec_length by lia. lia.
  - apply Forall_forall. intros r Hr. apply in_map_iff in Hr. destruct Hr as [r0 [<- _]].
    unfold lenZ. rewrite rebin_axis_spec_length by lia. lia.
  - unfold lenZ. rewrite rebin_axis_spec_length by lia. lia.
  - assert (R' : rect (Z.to_nat b) (map (fun row => rebin_axis_spec o s row b) x)).
    { unfold rect. apply Forall_forall. intros r Hr. apply in_map_iff in Hr. destruct Hr as [r0 [<- _]].
      apply rebin_axis_spec_length. lia. }
    assert (N' : map (fun row => rebin_axis_spec o s row b) x <> []) by (destruct x; [congruence|discriminate]).
    pose proof (lifted_axis_rect T o s _ a _ R' N') as R2. unfold rect in R2.
    eapply Forall_impl; [|exact R2]. intros r Hr. cbv beta in Hr. unfold lenZ. rewrite Hr. lia.
Qed.
