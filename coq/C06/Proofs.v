(* C06 proofs about the GENERATED expressions (Generated/SdssIds.v) and the glue model. *)
From Coq Require Import ZArith List Bool Lia ZifyBool.
Import ListNotations.
From PV Require Import Lib.Bits Generated.SdssIds C06.Model.
Open Scope Z_scope.
Ltac Zify.zify_post_hook ::= Z.to_euclidean_division_equations.

(* evaluate closed powers of two so that lia sees literals *)
Ltac eval_pows :=
  repeat match goal with
         | |- context[2 ^ ?k] => let v := eval vm_compute in (2 ^ k) in change (2 ^ k) with v
         | H : context[2 ^ ?k] |- _ => let v := eval vm_compute in (2 ^ k) in change (2 ^ k) with v in H
         end.

(* turn  Z.lor a b  (a, b lor-free, a a multiple of 2^k, 0 <= b < 2^k) into a + b, searching k downwards *)
Ltac lor_at a b k :=
  first [ rewrite (lor_disjoint_mod a b k) by (eval_pows; lia)
        | lazymatch k with
          | 0 => fail 1 "no k makes the two operands of Z.lor disjoint"
          | _ => let k' := eval vm_compute in (k - 1) in lor_at a b k'
          end ].
Ltac lor_step :=
  match goal with
  | |- context[Z.lor ?a ?b] =>
      lazymatch a with context[Z.lor _ _] => fail | _ => idtac end;
      lazymatch b with context[Z.lor _ _] => fail | _ => idtac end;
      lor_at a b 63
  end.

Ltac mask_step :=
  match goal with
  | |- context[Z.land ?x ?m] =>
      let k := eval vm_compute in (Z.log2 (m + 1)) in
      replace (Z.land x m) with (x mod 2 ^ k)
        by (symmetry; change m with (2 ^ k - 1); apply land_ones_mod; lia)
  end.

Ltac bits_to_arith :=
  repeat rewrite Z.shiftl_mul_pow2 by lia;
  repeat rewrite Z.shiftr_div_pow2 by lia;
  repeat mask_step; eval_pows.

Ltac widths H := cbn [in_widths objid_table specobjid_table] in H; eval_pows.

(* ---------- objID ---------- *)

Lemma objid_sum s rr r c f fi o :
  in_widths objid_table [s; rr; r; c; f; fi; o] ->
  objid_expr s rr r c f fi o = pack objid_table [s; rr; r; c; f; fi; o].
Proof.
  intros H. widths H. unfold objid_expr. cbn [pack objid_table].
  rewrite !Z.shiftl_mul_pow2 by lia.
  repeat lor_step. eval_pows. lia.
Qed.

Lemma objid_checks_widths v : length v = 7%nat ->
  checks_ok objid_checks v = true -> in_widths objid_table v.
Proof.
  intros L H.
  destruct v as [|s [|rr [|r [|c [|f [|fi [|o [|x v]]]]]]]]; try discriminate L.
  unfold checks_ok, objid_checks in H. cbn [forallb nth] in H.
  cbn [in_widths objid_table]. eval_pows. lia.
Qed.

Lemma objid_checks_are_documented s rr r c f fi o :
  checks_ok objid_checks [s; rr; r; c; f; fi; o] = objid_doc_ranges [s; rr; r; c; f; fi; o].
Proof.
  unfold checks_ok, objid_checks, objid_doc_ranges. cbn [forallb nth]. eval_pows.
  apply eq_true_iff_eq. rewrite !andb_true_iff, !Z.leb_le, !Z.ltb_lt. lia.
Qed.

Lemma objid_layout s rr r c f fi o :
  checks_ok objid_checks [s; rr; r; c; f; fi; o] = true ->
  objid_expr s rr r c f fi o = pack objid_table [s; rr; r; c; f; fi; o].
Proof. intros H. apply objid_sum. apply objid_checks_widths; [reflexivity|exact H]. Qed.

Lemma objid_table_wf : wf_tbl 63 objid_table.
Proof. apply wf_tblb_ok. reflexivity. Qed.

Lemma objid_table_full : full_tbl 63 objid_table.
Proof. cbn. lia. Qed.

Lemma objid_no_wrap s rr r c f fi o :
  checks_ok objid_checks [s; rr; r; c; f; fi; o] = true ->
  0 <= objid_expr s rr r c f fi o < 2 ^ 63.
Proof.
  intros H. rewrite objid_layout by exact H.
  apply pack_bound; [lia | apply objid_table_wf | apply objid_checks_widths; [reflexivity|exact H]].
Qed.

Lemma objid_bits s rr r c f fi o b :
  checks_ok objid_checks [s; rr; r; c; f; fi; o] = true -> 0 <= b ->
  Z.testbit (objid_expr s rr r c f fi o) b = bit_owner objid_table [s; rr; r; c; f; fi; o] b.
Proof.
  intros H Hb. rewrite objid_layout by exact H.
  apply (pack_testbit 63); [apply objid_table_wf | apply objid_checks_widths; [reflexivity|exact H] | exact Hb].
Qed.

Lemma unwrap_objid_is_unpack id : unwrap_objid_model id = unpack objid_table id.
Proof.
  unfold unwrap_objid_model, unwrap_objid_skyversion, unwrap_objid_rerun, unwrap_objid_run,
    unwrap_objid_camcol, unwrap_objid_firstfield, unwrap_objid_frame, unwrap_objid_id.
  cbn [unpack objid_table]. bits_to_arith.
  repeat (f_equal; try lia).
Qed.

Lemma unwrap_objid_pack s rr r c f fi o :
  checks_ok objid_checks [s; rr; r; c; f; fi; o] = true ->
  unwrap_objid_model (objid_expr s rr r c f fi o) = [s; rr; r; c; f; fi; o].
Proof.
  intros H. rewrite unwrap_objid_is_unpack, objid_layout by exact H.
  apply (unpack_pack 63); [apply objid_table_wf | apply objid_checks_widths; [reflexivity|exact H]].
Qed.

Lemma pack_unwrap_objid id : 0 <= id < 2 ^ 63 ->
  objid_of (unwrap_objid_model id) = id.
Proof.
  intros H. rewrite unwrap_objid_is_unpack.
  pose proof (unpack_in_widths objid_table id) as W.
  assert (Hw : forall lo w, In (lo, w) objid_table -> 0 < w).
  { intros lo w Hin. cbn in Hin. repeat (destruct Hin as [Hin|Hin]; [inversion Hin; lia|]). contradiction. }
  specialize (W Hw).
  cbn [unpack objid_table] in W |- *. unfold objid_of. rewrite objid_sum by exact W.
  change (pack objid_table (unpack objid_table id) = id).
  apply (pack_unpack 63); [apply objid_table_full | exact H].
Qed.

Lemma objid_rejected v : length v = 7%nat ->
  objid_doc_ranges v = false -> checks_ok objid_checks v = false.
Proof.
  intros L H.
  destruct v as [|s [|rr [|r [|c [|f [|fi [|o [|x v]]]]]]]]; try discriminate L.
  rewrite objid_checks_are_documented. exact H.
Qed.

(* ---------- specObjID ---------- *)

Lemma specobjid_sum p f m r l i :
  in_widths specobjid_table [p; f; m; r; l + i] -> (l = 0 \/ i = 0) ->
  specobjid_expr p f m r l i = pack specobjid_table [p; f; m; r; l + i].
Proof.
  intros H Hli. widths H. unfold specobjid_expr. cbn [pack specobjid_table].
  replace (Z.lor l i) with (l + i)
    by (destruct Hli; subst; [rewrite Z.lor_0_l | rewrite Z.lor_0_r]; lia).
  rewrite !Z.shiftl_mul_pow2 by lia.
  repeat lor_step. eval_pows. lia.
Qed.

Lemma specobjid_checks_are_documented p f m r l i :
  checks_ok specobjid_checks [p; f; m; r; l; i] = specobjid_doc_ranges [p; f; m; r; l; i].
Proof.
  unfold checks_ok, specobjid_checks, specobjid_doc_ranges. cbn [forallb nth]. eval_pows.
  apply eq_true_iff_eq. rewrite !andb_true_iff, !Z.leb_le, !Z.ltb_lt. lia.
Qed.

Lemma spec_widths p f m r l i :
  checks_ok specobjid_checks [p; f; m; r; l; i] = true -> (l = 0 \/ i = 0) ->
  in_widths specobjid_table [p; f; m; r; l + i].
Proof.
  intros H Hli. rewrite specobjid_checks_are_documented in H. unfold specobjid_doc_ranges in H.
  cbn [in_widths specobjid_table]. eval_pows. lia.
Qed.

Lemma specobjid_layout p f m r l i :
  checks_ok specobjid_checks [p; f; m; r; l; i] = true -> (l = 0 \/ i = 0) ->
  specobjid_expr p f m r l i = pack specobjid_table [p; f; m; r; l + i].
Proof. intros H Hli. apply specobjid_sum; [apply spec_widths; assumption | exact Hli]. Qed.

Lemma specobjid_table_wf : wf_tbl 64 specobjid_table.
Proof. apply wf_tblb_ok. reflexivity. Qed.
Lemma specobjid_table_full : full_tbl 64 specobjid_table.
Proof. cbn. lia. Qed.

Lemma specobjid_no_wrap p f m r l i :
  checks_ok specobjid_checks [p; f; m; r; l; i] = true -> (l = 0 \/ i = 0) ->
  0 <= specobjid_expr p f m r l i < 2 ^ 64.
Proof.
  intros H Hli. rewrite specobjid_layout by assumption.
  apply pack_bound; [lia | apply specobjid_table_wf | apply spec_widths; assumption].
Qed.

Lemma specobjid_bits p f m r l i b :
  checks_ok specobjid_checks [p; f; m; r; l; i] = true -> (l = 0 \/ i = 0) -> 0 <= b ->
  Z.testbit (specobjid_expr p f m r l i) b = bit_owner specobjid_table [p; f; m; r; l + i] b.
Proof.
  intros H Hli Hb. rewrite specobjid_layout by assumption.
  apply (pack_testbit 64); [apply specobjid_table_wf | apply spec_widths; assumption | exact Hb].
Qed.

Lemma unwrap_spec_is_unpack id :
  [unwrap_spec_plate id; unwrap_spec_fiber id; unwrap_spec_mjd id - 50000; unwrap_spec_run2d_int id; unwrap_spec_line id]
  = unpack specobjid_table id.
Proof.
  unfold unwrap_spec_plate, unwrap_spec_fiber, unwrap_spec_mjd, unwrap_spec_run2d_int, unwrap_spec_line.
  cbn [unpack specobjid_table]. bits_to_arith.
  repeat (f_equal; try lia).
Qed.

Lemma unwrap_specobjid_pack p f m r l i :
  checks_ok specobjid_checks [p; f; m; r; l; i] = true -> (l = 0 \/ i = 0) ->
  let id := specobjid_expr p f m r l i in
  unwrap_spec_plate id = p /\ unwrap_spec_fiber id = f /\ unwrap_spec_mjd id = m + 50000 /\
  unwrap_spec_run2d_int id = r /\ unwrap_spec_line id = l + i.
Proof.
  intros H Hli id.
  pose proof (unwrap_spec_is_unpack id) as E. subst id.
  rewrite (specobjid_layout p f m r l i H Hli) in E.
  rewrite (unpack_pack 64) in E by (try apply specobjid_table_wf; apply spec_widths; assumption).
  rewrite <- (specobjid_layout p f m r l i H Hli) in E.
  pose proof (f_equal (fun l => nth 0 l 0) E) as E1. pose proof (f_equal (fun l => nth 1 l 0) E) as E2.
  pose proof (f_equal (fun l => nth 2 l 0) E) as E3. pose proof (f_equal (fun l => nth 3 l 0) E) as E4.
  pose proof (f_equal (fun l => nth 4 l 0) E) as E5. cbn [nth] in E1, E2, E3, E4, E5.
  repeat split; try assumption. clear - E3. lia.
Qed.

Lemma pack_unwrap_specobjid id : 0 <= id < 2 ^ 64 ->
  specobjid_expr (unwrap_spec_plate id) (unwrap_spec_fiber id) (unwrap_spec_mjd id - 50000)
                 (unwrap_spec_run2d_int id) (unwrap_spec_line id) 0 = id.
Proof.
  intros H.
  pose proof (unwrap_spec_is_unpack id) as E.
  pose proof (unpack_in_widths specobjid_table id) as W.
  assert (Hw : forall lo w, In (lo, w) specobjid_table -> 0 < w).
  { intros lo w Hin. cbn in Hin. repeat (destruct Hin as [Hin|Hin]; [inversion Hin; lia|]). contradiction. }
  specialize (W Hw). rewrite <- E in W.
  rewrite specobjid_sum; [| rewrite Z.add_0_r; exact W | right; reflexivity].
  rewrite Z.add_0_r, E. apply (pack_unpack 64); [apply specobjid_table_full | exact H].
Qed.

Lemma run2d_roundtrip N M P : 0 <= M <= 99 -> 0 <= P <= 99 -> 5 <= N ->
  let r := run2d_of_NMP N M P in run2d_N r = N /\ run2d_M r = M /\ run2d_P r = P.
Proof. intros HM HP HN. unfold run2d_of_NMP, run2d_N, run2d_M, run2d_P. cbn zeta. lia. Qed.

Lemma run2d_roundtrip_inv r : 0 <= r -> run2d_of_NMP (run2d_N r) (run2d_M r) (run2d_P r) = r.
Proof. intros H. unfold run2d_of_NMP, run2d_N, run2d_M, run2d_P. lia. Qed.

Lemma run2d_is_documented N M P : run2d_of_NMP N M P = (N - 5) * 10000 + M * 100 + P.
Proof. unfold run2d_of_NMP. lia. Qed.

(* scalar and array calling conventions treat MJD alike *)
Lemma mjd_conventions_agree : mjd_offset_scalar = 50000 /\ mjd_offset_array = 50000.
Proof. split; reflexivity. Qed.

(* scalar call = one-element array call, element by element (glue model) *)
Lemma specobjid_scalar_array_agree p f m r :
  specobjid_model (Sc p) (Sc f) (Sc m) (R2int r) None None
  = specobjid_model (Ar [p]) (Ar [f]) (Ar [m]) (R2arr [r]) None None.
Proof.
  unfold specobjid_model, promote, promote_mjd.
  destruct mjd_conventions_agree as [-> ->]. reflexivity.
Qed.

(* an out-of-range field makes the model answer ValueError, never an ID *)
Lemma objid_model_rejects d run camcol field objnum rerun sky ff ids :
  objid_model d (Sc run) (Sc camcol) (Sc field) (Sc objnum) (Sc rerun) (Sc sky) (Sc ff) = Ok ids ->
  objid_doc_ranges [sky; rerun; run; camcol; ff; field; objnum] = true.
Proof.
  unfold objid_model. cbn [promote length promote_default].
  destruct (Z.eqb_spec sky d) as [->|_]; destruct (Z.eqb_spec rerun 301) as [->|_]; destruct (Z.eqb_spec ff 0) as [->|_];
    cbn [repeat forallb length Nat.eqb andb zip_rows map hd tl];
    rewrite andb_true_r; rewrite objid_checks_are_documented;
    destruct (objid_doc_ranges _); congruence.
Qed.

(* ---------- the glue model equals the row-wise specification on array calls of any length ---------- *)

Lemma zip_rows_length (cols : list (list Z)) n row : In row (zip_rows cols n) -> length row = length cols.
Proof.
  revert cols; induction n as [|n IH]; intros cols H; simpl in H; [contradiction|].
  destruct H as [<-|H]; [apply map_length|].
  rewrite (IH _ H). apply map_length.
Qed.

Lemma row7 (row : list Z) : length row = 7%nat -> exists a b c d e f g, row = [a; b; c; d; e; f; g].
Proof.
  destruct row as [|a [|b [|c [|d [|e [|f [|g [|x r]]]]]]]]; intros L; try discriminate L.
  repeat eexists.
Qed.

Lemma row6 (row : list Z) : length row = 6%nat -> exists a b c d e f, row = [a; b; c; d; e; f].
Proof.
  destruct row as [|a [|b [|c [|d [|e [|f [|x r]]]]]]]; intros L; try discriminate L.
  repeat eexists.
Qed.

Lemma forallb_ext_in {A} (f g : A -> bool) l : (forall x, In x l -> f x = g x) -> forallb f l = forallb g l.
Proof.
  induction l as [|x l IH]; intros H; simpl; [reflexivity|].
  rewrite (H x (or_introl eq_refl)), IH; [reflexivity|]. intros y Hy. apply H. right; exact Hy.
Qed.

(* sdss_objid called with seven arrays: ValueError unless all lengths agree and every row is in the documented
   ranges; otherwise exactly the documented layout of every row *)
Theorem objid_model_arrays d r c f o rr s ff :
  objid_model d (Ar r) (Ar c) (Ar f) (Ar o) (Ar rr) (Ar s) (Ar ff) =
  let n := length r in
  let cols := [s; rr; r; c; ff; f; o] in
  if forallb (fun col => Nat.eqb (length col) n) cols then
    let rows := zip_rows cols n in
    if forallb objid_doc_ranges rows then Ok (map (pack objid_table) rows) else ValueError
  else ValueError.
Proof.
  unfold objid_model. cbn [promote promote_default]. cbv zeta.
  destruct (forallb (fun col => Nat.eqb (length col) (length r)) [s; rr; r; c; ff; f; o]) eqn:EL; [|reflexivity].
  set (rows := zip_rows [s; rr; r; c; ff; f; o] (length r)).
  assert (R7 : forall row, In row rows -> exists a b c0 d0 e f0 g, row = [a; b; c0; d0; e; f0; g]).
  { intros row H. apply row7. apply (zip_rows_length _ _ _ H). }
  assert (EQ : forallb (checks_ok objid_checks) rows = forallb objid_doc_ranges rows).
  { apply forallb_ext_in. intros row H. destruct (R7 row H) as (a & b & c0 & d0 & e & f0 & g & ->).
    apply objid_checks_are_documented. }
  rewrite EQ. destruct (forallb objid_doc_ranges rows) eqn:ER; [|reflexivity].
  f_equal. apply map_ext_in. intros row H. destruct (R7 row H) as (a & b & c0 & d0 & e & f0 & g & ->).
  unfold objid_of. apply objid_layout. rewrite objid_checks_are_documented.
  rewrite forallb_forall in ER. apply ER. exact H.
Qed.

Lemma hd_in_or_default (c : list Z) : In (hd 0 c) c \/ hd 0 c = 0.
Proof. destruct c; simpl; auto. Qed.

Lemma nth_map_hd (cols : list (list Z)) j : nth j (map (fun c => hd 0 c) cols) 0 = hd 0 (nth j cols []).
Proof. exact (map_nth (fun c => hd 0 c) cols [] j). Qed.
Lemma nth_map_tl (cols : list (list Z)) j : nth j (map (@tl Z) cols) [] = tl (nth j cols []).
Proof. exact (map_nth (@tl Z) cols [] j). Qed.

Lemma zip_rows_nth (cols : list (list Z)) n row j :
  In row (zip_rows cols n) -> In (nth j row 0) (nth j cols []) \/ nth j row 0 = 0.
Proof.
  revert cols; induction n as [|n IH]; intros cols H; simpl in H; [contradiction|].
  destruct H as [<-|H].
  - rewrite nth_map_hd. apply hd_in_or_default.
  - destruct (IH _ H) as [Hin|Hz]; [|right; exact Hz]. left.
    rewrite nth_map_tl in Hin.
    destruct (nth j cols []); simpl in Hin; [contradiction | right; exact Hin].
Qed.

Lemma in_repeat_zero (x : Z) n : In x (repeat 0 n) -> x = 0.
Proof. intros H. apply repeat_spec in H. exact H. Qed.

Definition spec_row_pack (v : list Z) : Z :=
  match v with [a; b; c; d; e; i] => pack specobjid_table [a; b; c; d; e + i] | _ => 0 end.

Lemma spec_rows_core (p f m' r l : list Z) :
  let n := length p in
  let cols := [p; f; m'; r; l; repeat 0 n] in
  (if forallb (fun c => Nat.eqb (length c) n) cols then
     let rows := zip_rows cols n in
     if forallb (checks_ok specobjid_checks) rows then Ok (map specobjid_of rows) else ValueError
   else ValueError)
  =
  (if forallb (fun c => Nat.eqb (length c) n) cols then
     let rows := zip_rows cols n in
     if forallb specobjid_doc_ranges rows then Ok (map spec_row_pack rows) else ValueError
   else ValueError).
Proof.
  cbv zeta.
  destruct (forallb (fun c => Nat.eqb (length c) (length p)) [p; f; m'; r; l; repeat 0 (length p)]); [|reflexivity].
  set (rows := zip_rows [p; f; m'; r; l; repeat 0 (length p)] (length p)).
  assert (R6 : forall row, In row rows -> exists a b c d e i, row = [a; b; c; d; e; i] /\ i = 0).
  { intros row H. destruct (row6 row (zip_rows_length _ _ _ H)) as (a & b & c & d & e & i & ->).
    do 6 eexists. split; [reflexivity|].
    destruct (zip_rows_nth _ _ _ 5%nat H) as [Hin|Hz]; cbn [nth] in *;
      [apply in_repeat_zero in Hin; exact Hin | exact Hz]. }
  assert (EQ : forallb (checks_ok specobjid_checks) rows = forallb specobjid_doc_ranges rows).
  { apply forallb_ext_in. intros row H. destruct (R6 row H) as (a & b & c & d & e & i & -> & _).
    apply specobjid_checks_are_documented. }
  rewrite EQ. destruct (forallb specobjid_doc_ranges rows) eqn:ER; [|reflexivity].
  f_equal. apply map_ext_in. intros row H. destruct (R6 row H) as (a & b & c & d & e & i & -> & ->).
  unfold specobjid_of, spec_row_pack. apply specobjid_layout; [|right; reflexivity].
  rewrite specobjid_checks_are_documented. rewrite forallb_forall in ER. apply ER. exact H.
Qed.

(* sdss_specobjid called with arrays (true MJDs, optional line array, no index): row-wise documented layout *)
Theorem specobjid_model_arrays p f m r (line : option (list Z)) :
  specobjid_model (Ar p) (Ar f) (Ar m) (R2arr r) (option_map Ar line) None =
  let n := length p in
  let l := match line with Some l => l | None => repeat 0 n end in
  let cols := [p; f; map (fun z => z - 50000) m; r; l; repeat 0 n] in
  if forallb (fun col => Nat.eqb (length col) n) cols then
    let rows := zip_rows cols n in
    if forallb specobjid_doc_ranges rows then Ok (map spec_row_pack rows) else ValueError
  else ValueError.
Proof.
  unfold specobjid_model, promote_mjd. destruct mjd_conventions_agree as [_ ->].
  destruct line as [l|]; cbn [option_map promote]; apply spec_rows_core.
Qed.
