"""C13 -- Trace sets: bases are the textbook polynomials and fit/evaluate are consistent."""
import math
from fractions import Fraction as Fr

import numpy as np

import os

from harness import common as C
from translate import c13 as T

ID = 'C13'
PROPS_V = 'C13/Props.v'
COQCHK = 'norec'   # closure rests on Reals (and Interval): full coqchk takes tens of minutes
LEVEL = 'proof'
TRUSTED = [
    'translate/c13.py (fail-closed ast extractor -> Generated/Trace.v): recurrences, order guards, xnorm / jump / grid arithmetic, '
    'the keyword defaults, tempivar and the rejection loop of TraceSet.__init__, the function tables, the expressions of func_fit; '
    'verified-only statements: FITS-record constructor, djs_reject called without criteria, traceset2xy / xy2traceset forwards',
    'hand-written in C13/Model.v: list plumbing (select / scatter / combine), the meaning of the two scipy families '
    '(legendre_rec, chebyshev_rec; tied by the closed-form theorems and by correspondence), np.linalg.solve (solve_checked: '
    'Gauss-Jordan over Q, proved sound AND complete), djs_reject on the no-criterion path (nothing rejected, done)',
    'numpy/scipy: np.polyval(scipy.special.legendre/chebyt), np.linalg.solve, np.dot (outputs compared per case '
    'with the exact-rational model at 1e-9 / 1e-7 and with the certified checkers fit_ok / grid_ok)',
    'astropy.io.fits BinTableHDU.from_columns used by the harness to build the FITS_rec a TraceSet is read from',
    'Coq stdlib QArith, Lqa, Reals (the three Chebyshev-cosine theorems depend on the standard real-number axioms; the '
    'arccos forms also on Classical_Prop.classic through Ratan.acos)',
]
ASSUMPTIONS = [
    'abscissa storage: float64 arrays, 0-d arrays, numpy float64 / Python float / Python int scalars, integer ndarrays (i2/i4/i8), '
    'numpy integer scalars -- all judged by the same Coq cases; float32 arrays / scalars judged at 1e-4 against exact values '
    '(orders <= 6) and float32 / mixed-width fits at 1e-3 against the float64 run; Python lists and 2-D abscissae are refused by '
    'the code (ValueError / TypeError) and not exercised',
    'orders 0..12 (0, and 1 for the split basis, must raise ValueError), abscissae in [-1,1] for the basis comparison; tolerance 1e-9 absolute',
    'fitting problems are generated well conditioned (cond(alpha) < 1e5, distinct abscissae, >= as many good points as '
    'free parameters when a parameter is fixed); agreement with the exact model is required at 1e-7 relative',
    'weights are >= 0 (negative invvar is used as a weight by the code but not counted as a good point)',
    'TraceSet rejection loop: the translator verifies that djs_reject is called with invvar only (no lower/upper/maxdev/...), '
    'on which path it rejects nothing; maxiter >= 0 (a negative maxiter leaves ycurfit unbound: the constructor raises); '
    'xjumplo given without xjumphi/xjumpval raises TypeError in xnorm (not exercised)',
    "TraceSet(func='chebyshev_split') cannot be evaluated (not in TraceSet._func_map); excluded from trace-set cases",
]

def translate(ctx):
    text, info = T.generate(C.REPO)
    path = os.path.join(C.COQ, 'Generated', 'Trace.v')
    if text is not None:
        info['changed'] = C.write_if_changed(path, text)
    else:
        # not recognised: fall back to the committed baseline (what the translator produced for the reference tree),
        # so that a file generated earlier from ANOTHER tree cannot leak into this run; no alarm
        base = os.path.join(C.VERIF, 'translate', 'c13_baseline.v')
        if os.path.exists(base):
            info['changed'] = C.write_if_changed(path, open(base).read())
        info['note'] = ('source shape not recognised; Generated/Trace.v is the committed baseline and the correspondence run '
                        'alone ties model to code')
    return {'Trace': info}


FUNCS = ['legendre', 'chebyshev', 'poly', 'chebyshev_split']
FTERM = {'legendre': 'Legendre', 'chebyshev': 'Chebyshev', 'poly': 'Poly', 'chebyshev_split': 'ChebSplit'}

MAX_TERM = 120000
COQ_TIMEOUT = 900     # generous: a wall-clock limit must not turn a slow machine into an alarm

HEADER = '''From Coq Require Import QArith ZArith List. Import ListNotations.
From PV Require Import Lib.WLS C13.LinAlg C13.Model. Open Scope Q_scope.'''


# ------------------------------------------------------------------ literals
def qv(v):
    return C.coq_list([C.qlit(x) for x in v])


def qm(m):
    return C.coq_list([qv(r) for r in m])


def bv(v):
    return C.coq_list([C.boollit(bool(x)) for x in v])


def bm(m):
    return C.coq_list([bv(r) for r in m])


def oq(x):
    return C.optlit(x, C.qlit)


def jump_term(j):
    return 'None' if j is None else '(Some (%s, %s, %s))' % tuple(C.qlit(v) for v in j)


# ------------------------------------------------------------------ harness-side exact bases (data generation only)
def basis_fr(func, m, x):
    """values of the first m basis functions at the Fraction x (recurrences, exact)"""
    x = Fr(x)
    if func == 'poly':
        return [x ** k for k in range(m)]
    if func == 'legendre':
        out = [Fr(1), x]
        for k in range(2, m):
            out.append(((2 * k - 1) * x * out[k - 1] - (k - 1) * out[k - 2]) / k)
        return out[:m]
    if func == 'chebyshev':
        out = [Fr(1), x]
        for k in range(2, m):
            out.append(2 * x * out[k - 1] - out[k - 2])
        return out[:m]
    out = [Fr(1 if x >= 0 else 0), Fr(1), x]
    for k in range(3, m):
        out.append(2 * x * out[k - 1] - out[k - 2])
    return out[:m]


def cond_ok(func, x, w, ncfit, free, ifunc=None, limit=1e5):
    rows = np.array([[float(v) for v in basis_fr(func, ncfit, xi)] for xi in x])
    if ifunc is not None:
        rows = rows * np.array(ifunc)[:, None]
    rows = rows[:, free]
    if rows.shape[1] == 0:
        return True
    alpha = (rows * np.array(w)[:, None]).T @ rows
    try:
        return np.linalg.cond(alpha) < limit
    except np.linalg.LinAlgError:
        return False


def distinct_dyadics(rng, n, lo, hi, bits):
    s = set()
    while len(s) < n:
        s.add(C.dyadic(rng, lo, hi, bits))
    l = list(s)
    rng.shuffle(l)
    return l


# ------------------------------------------------------------------ generators
def gen_basis(ctx):
    rng = ctx.rng
    calls = []
    for func in FUNCS:
        for m in range(2 if func == 'chebyshev_split' else 1, 13):
            xs = [C.dyadic(rng, -1, 1, 10) for _ in range(ctx.n(4, 12))] + rng.sample([-1.0, 0.0, 1.0, -0.5, 0.5], 2)
            calls.append(('basis-array', {'f': 'basis', 'func': func, 'm': m, 'xs': xs, 'mode': 'array'}))
            xs2 = [C.dyadic(rng, -1, 1, 10), rng.choice([-1.0, 0.0, 1.0])]
            calls.append(('basis-scalar', {'f': 'basis', 'func': func, 'm': m, 'xs': xs2,
                                           'mode': rng.choice(['scalar', 'npscalar'])}))
            # plain Python numbers: the integers of [-1, 1] as int, and as float
            calls.append(('basis-pyint', {'f': 'basis', 'func': func, 'm': m, 'xs': [0, 1, -1], 'mode': 'pyint'}))
            if m in (3, 7, 12):
                calls.append(('basis-scalar', {'f': 'basis', 'func': func, 'm': m, 'xs': [0.0, 1.0, -1.0, 0.5], 'mode': 'scalar'}))
                calls.append(('basis-scalar', {'f': 'basis', 'func': func, 'm': m, 'xs': [0.0, -1.0, 0.25], 'mode': 'npscalar'}))
    # the order guards: orders below the minimum are refused with ValueError (model: basis_call = None)
    for func in FUNCS:
        for m in ([0, 1] if func == 'chebyshev_split' else [0]):
            calls.append(('basis-guard', {'f': 'basis', 'func': func, 'm': m, 'xs': [0.5, -0.25], 'mode': 'array'}))
            calls.append(('basis-guard', {'f': 'basis', 'func': func, 'm': m, 'xs': [0.5], 'mode': 'scalar'}))
    # storage classes of the abscissa: integer ndarrays, numpy integer scalars, 0-d arrays (same Coq cases as float64:
    # the integers of [-1, 1] are abscissae like any other), float32 arrays / scalars (judged at 1e-4 against the exact values)
    for func in FUNCS:
        for m in (2, 3, 4, 7, 12):
            xs = [-1, 0, 1, rng.choice([-1, 0, 1])]
            rng.shuffle(xs)
            calls.append(('basis-intarray', {'f': 'basis', 'func': func, 'm': m, 'xs': xs, 'mode': 'array',
                                             'xdtype': rng.choice(['i8', 'i4', 'i2'])}))
            calls.append(('basis-npint', {'f': 'basis', 'func': func, 'm': m, 'xs': [0, 1, -1],
                                          'mode': rng.choice(['npint64', 'npint32'])}))
            calls.append(('basis-zerodim', {'f': 'basis', 'func': func, 'm': m, 'xs': [C.dyadic(rng, -1, 1, 10), 0.0],
                                            'mode': 'zerodim'}))
        for m in (2, 4, 6):
            xs = [C.dyadic(rng, -1, 1, 10) for _ in range(4)] + [0.0, -1.0]
            calls.append(('basis-f4array', {'f': 'basis', 'func': func, 'm': m, 'xs': xs, 'mode': 'array', 'xdtype': 'f4',
                                            '_nocoq': True, '_f4': True}))
            calls.append(('basis-f4scalar', {'f': 'basis', 'func': func, 'm': m, 'xs': xs[:3], 'mode': 'npfloat32',
                                             '_nocoq': True, '_f4': True}))
    return calls


def intx(c):
    """storage class 'integer abscissa' (one defect class whatever the basis function)"""
    return str(c.get('xdtype', 'd')).startswith('i') or str(c.get('mode', '')).startswith('npint')


def sig_class(c):
    return 'intx' if intx(c) else 'mixedwidth' if c.get('kwdtype') else c.get('func')


def gen_fit_problem(rng, kind):
    """returns a 'fit' call dict (with harness-only keys prefixed by _)"""
    for _attempt in range(200):
        func = rng.choice(FUNCS)
        ncoeff = rng.randint(2 if func == 'chebyshev_split' else 1, 5)
        n = rng.randint(max(ncoeff + 1, 4), 10)
        x = distinct_dyadics(rng, n, -1, 1, 7)
        w = [C.dyadic(rng, 0.25, 4, 3) for _ in range(n)]
        nzero = 0
        if kind in ('zeros', 'fixed', 'zeroindep', 'exact'):
            for i in range(n):
                if rng.random() < 0.3:
                    w[i] = 0.0
        if kind == 'nowgt':
            w = None
        good = [i for i in range(n) if (w is None or w[i] > 0)]
        ngood = len(good)
        nzero = n - ngood
        ia = None
        ans = None
        if kind == 'fixed':
            ia = [rng.random() < 0.6 for _ in range(ncoeff)]
            if all(ia):
                ia[rng.randrange(ncoeff)] = False
            t = rng.random()
            if t < 0.8:
                ans = [C.dyadic(rng, -2, 2, 4) for _ in range(ncoeff)]
            # else: inputans omitted -> zeros
        if kind == 'exactdet':
            # exactly as many good points as coefficients: the fit interpolates the data
            for i in range(n):
                w[i] = 0.0
            for i in rng.sample(range(n), ncoeff):
                w[i] = C.dyadic(rng, 0.25, 4, 3)
            good = [i for i in range(n) if w[i] > 0]
            ngood = len(good)
            if ngood < 2:
                continue
        if kind == 'few':
            # fewer good points than coefficients: ncfit = ngood
            keep = rng.randint(2, max(2, ncoeff - 1))
            for i in range(n):
                w[i] = 0.0
            for i in rng.sample(range(n), keep):
                w[i] = C.dyadic(rng, 0.25, 4, 3)
            good = [i for i in range(n) if w[i] > 0]
            ngood = len(good)
        if kind == 'one':
            w = [0.0] * n
            w[rng.randrange(n)] = C.dyadic(rng, 0.25, 4, 3)
            ngood = 1
        if kind == 'none':
            w = [0.0] * n
            ngood = 0
        ifunc = [C.dyadic(rng, 0.5, 2, 3) for _ in range(n)] if (kind == 'ifunc') else None
        ncfit = min(ngood, ncoeff)
        if ngood >= 2:
            if ia is not None and ncfit < ncoeff:
                continue
            if kind in ('zeroindep',) and nzero == 0:
                continue
            if func == 'chebyshev_split':
                gx = [x[i] for i in good]
                if not (any(v >= 0 for v in gx) and any(v < 0 for v in gx)):
                    continue
            free = [k for k in range(ncfit) if ia is None or ia[k]]
            if ngood < len(free):
                continue
            ww = [1.0] * n if w is None else w
            if not cond_ok(func, x, ww, ncfit, free, ifunc):
                continue
        c = {'f': 'fit', 'func': func, 'x': x, 'w': w, 'ncoeff': ncoeff, 'ia': ia, 'ans': ans, 'ifunc': ifunc}
        if rng.random() < 0.3:
            c['fname'] = 'f' + func       # the alias names of func_fit's function_map
        if rng.random() < 0.25:
            c['nctype'] = rng.choice(['npint64', 'npint32'])     # ncoeff as a numpy integer
        if kind == 'exact':
            coef = [Fr(C.dyadic(rng, -2, 2, 4)) for _ in range(ncoeff)]
            ys = [sum(ck * bk for ck, bk in zip(coef, basis_fr(func, ncoeff, xi))) for xi in x]
            c['y'] = [float(v) for v in ys]
            c['_coef'] = [float(v) for v in coef]
            c['_yexact'] = all(Fr(float(v)) == v for v in ys)
            if ngood < ncoeff:
                continue
        else:
            c['y'] = [C.dyadic(rng, -4, 4, 6) for _ in range(n)]
        return c
    raise RuntimeError('could not generate a %s fit problem' % kind)


def gen_fit(ctx):
    rng = ctx.rng
    calls = []
    plan = [('plain', 8, 150), ('nowgt', 4, 60), ('zeros', 10, 200), ('fixed', 14, 300), ('few', 5, 100), ('exactdet', 4, 60), ('one', 2, 20),
            ('none', 2, 20), ('ifunc', 4, 80), ('exact', 8, 150)]
    for kind, q, t in plan:
        for _ in range(ctx.n(q, t)):
            calls.append(('fit-' + kind, gen_fit_problem(rng, kind)))
    # zero-weight independence: the same problem twice, data at zero-weight points changed
    for _ in range(ctx.n(8, 150)):
        base = gen_fit_problem(rng, rng.choice(['zeroindep', 'zeroindep', 'fixed']))
        if base['w'] is None or all(v > 0 for v in base['w']):
            base = gen_fit_problem(rng, 'zeroindep')
        other = dict(base)
        other['y'] = [yi if wi > 0 else C.dyadic(rng, -64, 64, 4) for yi, wi in zip(base['y'], base['w'])]
        calls.append(('fit-zeroindep-a', base))
        calls.append(('fit-zeroindep-b', other))
    # input classes: integer-typed y (int32 / int64 counts) with float64 x, and all-float32 problems
    for k in range(ctx.n(6, 60)):
        c = gen_fit_problem(rng, rng.choice(['plain', 'zeros', 'fixed', 'nowgt']))
        c['y'] = [float(rng.randint(-9, 9)) for _ in c['y']]
        c['ydtype'] = 'i4' if k % 2 else 'i8'
        calls.append(('fit-inty', c))
    for k in range(ctx.n(3, 30)):
        while True:
            # float32 arithmetic: only very well conditioned, low-order problems (cond < 200), judged at 1e-3
            c = gen_fit_problem(rng, rng.choice(['plain', 'zeros', 'nowgt']))
            ww = [1.0] * len(c['x']) if c['w'] is None else c['w']
            ngood = sum(1 for v in ww if v > 0)
            if c['ncoeff'] <= 3 and ngood > c['ncoeff'] and cond_ok(c['func'], c['x'], ww, c['ncoeff'], list(range(c['ncoeff'])), None, 200):
                break
        c['xdtype'] = c['ydtype'] = 'f4'
        c['_nocoq'] = True          # float32 arithmetic: judged against the float64 run of the same call
        calls.append(('fit-f4', c))
        # mixed widths: float32 abscissae with float64 data / weights (and the reverse)
        d = dict(c)
        d['xdtype'], d['ydtype'], d['kwdtype'] = ('f4', 'd', 'd') if k % 2 == 0 else ('d', 'f4', 'f4')
        calls.append(('fit-mixedwidth', d))
    # integer-typed abscissae (pixel numbers) with float64 data: same Coq cases as float abscissae
    for k in range(ctx.n(8, 60)):
        for _attempt in range(400):
            c = gen_fit_problem(rng, rng.choice(['plain', 'zeros', 'fixed', 'nowgt']))
            n = len(c['x'])
            c['x'] = [float(v) for v in rng.sample(range(-5, 6), n)]
            if k % 4 == 3:
                c['ncoeff'] = 1 if c['func'] != 'chebyshev_split' else 2
                c['ia'] = c['ans'] = None
            ww = [1.0] * n if c['w'] is None else c['w']
            good = [i for i in range(n) if ww[i] > 0]
            ncfit = min(len(good), c['ncoeff'])
            if c['ia'] is not None and ncfit < c['ncoeff']:
                continue
            free = [j for j in range(ncfit) if c['ia'] is None or c['ia'][j]]
            if len(good) < max(2, len(free) + 1):
                continue
            if c['func'] == 'chebyshev_split' and not (any(c['x'][i] >= 0 for i in good) and any(c['x'][i] < 0 for i in good)):
                continue
            if cond_ok(c['func'], c['x'], ww, ncfit, free, None, 1e5):
                break
        else:
            raise RuntimeError('could not generate an integer-abscissa fit problem')
        c['xdtype'] = 'i8' if k % 2 else 'i4'
        calls.append(('fit-intx', c))
    return calls


BOUNDARY_JUMPS = [(0.0, 2.0, 0.5), (0.0, 1.5, -0.75), (-1.0, 0.0, 0.5), (1.0, 2.5, 0.0), (-2.0, -0.5, 0.75), (0.0, 1.0, -0.25)]


MASK_DTYPES = ['bool', 'i1', 'i2', 'i4', 'i8', 'u1', 'f8', 'f4']      # storage of a 0/1 inmask
IVAR_DTYPES = ['d', 'd', 'i4', 'i8', 'f4']


def trace_weights(c, t):
    nx = len(c['xpos'][t])
    return [(1.0 if c['ivar'] is None else c['ivar'][t][i]) * (1.0 if c['inmask'] is None or c['inmask'][t][i] else 0.0)
            for i in range(nx)]


def trace_feasible(c):
    """enough good points per trace, distinct normalised abscissae, well conditioned"""
    lo = min(min(r) for r in c['xpos'])
    hi = max(max(r) for r in c['xpos'])
    xmin = c['xmin'] if c['xmin'] is not None else lo
    xmax = c['xmax'] if c['xmax'] is not None else hi
    if not xmax > xmin:
        return False
    for t in range(len(c['xpos'])):
        w = trace_weights(c, t)
        ngood = sum(1 for v in w if v > 0)
        if ngood < c['ncoeff'] + 1:
            return False
        xn = [xnorm_fr(xmin, xmax, c['jump'], v) for v in c['xpos'][t]]
        if len(set(xn[i] for i in range(len(w)) if w[i] > 0)) < ngood:
            return False
        if not cond_ok(c['func'], xn, w, c['ncoeff'], list(range(c['ncoeff'])), None, 1e5):
            return False
    return True


def add_junk(rng, c):
    """the same positions with other data at every point of zero weight (harness-only: the implementation is run on both)"""
    nt = len(c['xpos'])
    if not any(w == 0 for t in range(nt) for w in trace_weights(c, t)):
        return
    integer = bool(c.get('ydtype'))
    c['junk'] = [[(y if w > 0 else (float(rng.randint(-90, 90)) if integer else C.dyadic(rng, -64, 64, 4)))
                  for y, w in zip(c['ypos'][t], trace_weights(c, t))] for t in range(nt)]


def gen_trace(ctx):
    """xy2traceset problems.  Positions are drawn in quarter units on a base range of a few units and then mapped affinely,
    x -> off + 2^e x: pixel-like ranges (e = 0), ranges below ONE unit (e < 0: log10(lambda) or normalised detector
    coordinates as abscissa), ranges of tens of units, offsets of either sign (negative abscissae included)."""
    rng = ctx.rng
    calls = []
    for k in range(ctx.n(24, 300)):
        for _attempt in range(200):
            func = rng.choice(['legendre', 'chebyshev', 'poly'])
            ncoeff = rng.randint(1, 4)
            if k % 4 == 0:
                ncoeff = 3
            if k % 3 == 0:
                func = 'legendre'
            nt = rng.randint(1, 3)
            nx = rng.randint(max(ncoeff + 2, 5), 9)
            intpos = (k % 6 == 4)      # integer-typed positions (pixel numbers)
            # scale and offset of the abscissa
            e, off = 0, 0.0
            kk = (k + k // 6) % 3       # (decorrelated from the maxiter / jump / integer-position patterns in k)
            if not intpos and kk == 1:
                e = rng.randint(-12, -5) if rng.random() < 0.5 else rng.randint(-4, -1)
                off = rng.choice([0.0, 3.5, -7.25, 1024.0, -300.5, C.dyadic(rng, -8, 8, 2)])
            elif not intpos and kk == 2:
                e = rng.choice([1, 2])
                off = rng.choice([0.0, -64.0, 100.5, C.dyadic(rng, -40, 40, 1)])
            sc = 2.0 ** e

            def mp(v):
                return off + sc * v
            xpos = []
            for _ in range(nt):
                start = float(rng.randint(0, 3)) if intpos else C.dyadic(rng, 0, 3, 2)
                row = [start]
                for _i in range(nx - 1):
                    row.append(row[-1] + (float(rng.randint(1, 2)) if intpos else C.dyadic(rng, 0.5, 2, 2)))
                xpos.append(row)
            ypos = [[C.dyadic(rng, -4, 4, 5) for _ in range(nx)] for _ in range(nt)]
            c = {'f': 'trace', 'func': func, 'ncoeff': ncoeff, 'xpos': [[mp(v) for v in r] for r in xpos], 'ypos': ypos,
                 'ivar': None, 'inmask': None, 'xmin': None, 'xmax': None, 'jump': None}
            # keywords left to their defaults (func='legendre', ncoeff=3, maxiter=10) and explicit maxiter 0, 1, 3, 10
            omit = []
            if k % 4 == 0 and ncoeff == 3:
                omit.append('ncoeff')
            if k % 3 == 0 and func == 'legendre':
                omit.append('func')
            if omit:
                c['omit'] = omit
            c['maxiter'] = [None, 0, 1, None, 3, 10][k % 6]
            tag_w = ''
            if rng.random() < 0.6:
                # inverse variances as float64, as INTEGER counts (i4 / i8) and as float32
                ivd = rng.choice(IVAR_DTYPES)
                if ivd.startswith('i'):
                    c['ivar'] = [[float(0 if rng.random() < 0.2 else rng.randint(1, 4)) for _ in range(nx)] for _ in range(nt)]
                else:
                    c['ivar'] = [[(0.0 if rng.random() < 0.2 else C.dyadic(rng, 0.25, 4, 2)) for _ in range(nx)] for _ in range(nt)]
                if ivd != 'd':
                    c['ivdtype'] = ivd
                    tag_w += '-ivar:' + ivd
            if rng.random() < 0.5 or k % 4 == 1:
                # inmask (True = use the point) in every storage type a 0/1 mask comes in
                c['inmask'] = [[rng.random() > 0.2 for _ in range(nx)] for _ in range(nt)]
                if k % 4 == 1:
                    # masked points in the interior AND not only at the last two positions, at least one per trace
                    for row in c['inmask']:
                        row[rng.randrange(0, nx - 2)] = False
                        row[nx - 1] = row[nx - 2] = True
                c['mdtype'] = MASK_DTYPES[(k // 4) % len(MASK_DTYPES)] if k % 4 == 1 else rng.choice(MASK_DTYPES)
                tag_w += '-inmask:' + c['mdtype']
            lo = min(min(r) for r in xpos)
            hi = max(max(r) for r in xpos)
            if rng.random() < 0.3:
                c['xmin'] = mp(math.floor(lo) - rng.choice([0, 1]))
                c['xmax'] = mp(math.ceil(hi) + rng.choice([0, 1, 0.5]))
            if k % 2 == 1:
                jl = C.dyadic(rng, lo + 1, max(lo + 1, hi - 2), 2)
                c['jump'] = [mp(jl), mp(jl + C.dyadic(rng, 0.5, 2, 2)), sc * (C.dyadic(rng, -1, 1, 3) or 0.25)]
                if k // 2 < len(BOUNDARY_JUMPS) and e == 0:
                    # boundary jump parameters: xjumplo = 0, xjumphi = 0, xjumpval = 0, negative values
                    c['jump'] = list(BOUNDARY_JUMPS[k // 2])
            if not trace_feasible(c):
                continue
            span = (c['xmax'] if c['xmax'] is not None else mp(hi)) - (c['xmin'] if c['xmin'] is not None else mp(lo))
            tag = 'trace-' + ('jump' if c['jump'] else 'nojump') + ('-defaults' if c.get('omit') else '') + \
                ('' if c['maxiter'] is None else '-maxiter%d' % c['maxiter']) + \
                ('-range<1' if span < 1 else '-range>32' if span > 32 else '') + ('-offset' if off else '') + tag_w
            if intpos:
                c['xdtype'] = 'i8' if k % 4 else 'i4'
                tag += '-intx'
            if k % 5 == 2:
                # integer-typed positions (pixel counts)
                c['ypos'] = [[float(round(v)) for v in row] for row in c['ypos']]
                c['ydtype'] = 'i8' if k % 2 else 'i4'
                tag += '-inty'
            if k % 7 == 3 and nt >= 2:
                # one trace masked completely (no good point: coefficients and fitted values are zero)
                if c['ivar'] is None:
                    c['ivar'] = [[1.0] * nx for _ in range(nt)]
                c['ivar'][nt - 1] = [0.0] * nx
                tag += '-maskedrow'
            add_junk(rng, c)
            if k % 3 == 2 or k % 8 == 1:
                # memory layout of ALL 2-D arguments (positions, data, weights, mask): Fortran order, transposed view, strided, reversed strides
                c['layout'] = ['F', 'T', 'strided', 'rev', 'revrows'][(k // 3) % 5]
                tag += '-layout:' + c['layout']
            calls.append((tag, c))
            break
        else:
            raise RuntimeError('could not generate a trace case')
    return calls


def xnorm_fr(xmin, xmax, jump, x):
    x = Fr(x)
    if jump is not None:
        lo, hi, val = (Fr(v) for v in jump)
        fr = min(max((x - lo) / (hi - lo), Fr(0)), Fr(1))
        x = x + fr * val
    return 2 * (x - (Fr(xmin) + Fr(xmax)) / 2) / (Fr(xmax) - Fr(xmin))


IJ_TOKENS = [('omit', False), ('False', False), ('0', False), ('None', False), ('npFalse', False),
             ('True', True), ('1', True), ('npTrue', True)]


def gen_eval(ctx):
    """stored trace sets (FITS records) evaluated at given positions or on the default grid.  Ranges: pixel-like (3..10 units),
    below one unit (2^-12 .. 2^-1 of that, any offset), and up to 2^20 times that (evaluation at given positions; the default
    grid of a long range is checked in the implementation's process and sampled)."""
    rng = ctx.rng
    calls = []
    for k in range(ctx.n(32, 500)):
        func = rng.choice(['legendre', 'chebyshev', 'poly'])
        nt = rng.randint(1, 4)
        nc = rng.randint(1, 6)
        e, off = 0, 0.0
        fam = ''
        if k >= len(BOUNDARY_JUMPS) and k % 4 == 2:
            e = rng.randint(-12, -2)
            off = rng.choice([0.0, 3.5, -7.25, 1024.0, -300.5])
            fam = '-range<1'
        elif k >= len(BOUNDARY_JUMPS) and k % 4 == 3:
            e = rng.randint(3, 20)
            off = rng.choice([0.0, -4096.0, 1000.5])
            fam = '-range>32'
        sc = 2.0 ** e
        xmin = off + sc * C.dyadic(rng, -2, 10, 2)
        xmax = xmin + sc * C.dyadic(rng, 3, 10, 2 if rng.random() < 0.5 else 0)
        coeff = [[C.dyadic(rng, -4, 4, 5) for _ in range(nc)] for _ in range(nt)]
        c = {'f': 'eval', 'func': func, 'xmin': xmin, 'xmax': xmax, 'coeff': coeff, 'jump': None, 'xpos': None,
             'ignore_jump': False}
        if rng.random() < 0.6:
            jl = xmin + sc * C.dyadic(rng, 0.5, 1.5, 2)
            c['jump'] = [jl, jl + sc * C.dyadic(rng, 0.25, 1, 2), sc * (C.dyadic(rng, -1, 1, 3) or 0.5)]
            # every spelling of the boolean keyword: omitted, False, 0, None, numpy.bool_(False), True, 1, numpy.bool_(True)
            c['ij_token'], c['ignore_jump'] = IJ_TOKENS[(k // 2) % len(IJ_TOKENS)] if k % 2 else rng.choice(IJ_TOKENS)
        if k < len(BOUNDARY_JUMPS):
            # stored trace sets whose jump parameters sit on a boundary (XJUMPLO = 0, XJUMPHI = 0, XJUMPVAL = 0, negative)
            c['xmin'] = xmin = C.dyadic(rng, -3, -1, 2)
            c['xmax'] = xmax = xmin + C.dyadic(rng, 4, 10, 2 if k % 2 else 0)
            c['jump'] = list(BOUNDARY_JUMPS[k])
            c['ignore_jump'] = False
            c.pop('ij_token', None)
        if rng.random() < 0.5 or e > 2:
            npt = rng.randint(1, 6)
            c['xpos'] = [[xmin + (xmax - xmin) * C.dyadic(rng, 0, 1, 4) for _ in range(npt)] for _ in range(nt)]
            if k % 4 == 1:
                # evaluation at integer-typed positions (pixel numbers)
                c['xpos'] = [[float(rng.randint(math.ceil(xmin), math.floor(xmax))) for _ in range(npt)] for _ in range(nt)]
                c['xdtype'] = 'i4' if k % 8 == 1 else 'i8'
        if e > 2 and e <= 16 and k % 8 == 3:
            # a LONG default grid (up to 2^19 columns): shape and values checked where it is computed, a sample judged in Coq
            c['xpos'] = None
            c['big_grid'] = [rng.randrange(1 << 30) for _ in range(4)]
            fam += '-biggrid'
        if c['xpos'] is not None and k % 3 == 0:
            c['layout'] = ['F', 'T', 'strided', 'rev', 'revrows'][(k // 3) % 5]
            fam += '-layout:' + c['layout']
        if k % 5 == 4:
            # derived objects: a pickled / deep-copied trace set evaluates like the original
            c['derived'] = 'pickle' if k % 2 else 'deepcopy'
            fam += '-' + c['derived']
        calls.append(('eval-' + ('grid' if c['xpos'] is None else 'xpos') + ('-jump' if c['jump'] else '')
                      + ('-intx' if c.get('xdtype') else '') + fam + ('-ij:' + c['ij_token'] if c.get('ij_token') else ''), c))
    return calls


def strip_seq(c):
    return {k: v for k, v in public(c).items() if k not in ('seq_calls', 'seq_pos')}


def gen_seq(ctx, evals, traces):
    """DIFFERENT trace sets on the SAME grid (function, number of coefficients, xmin, xmax) but with different jump parameters,
    coefficients and numbers of traces, built and evaluated one after the other in ONE process: every one of them is judged as
    if it were alone (class-level state keyed on too little would leak from one object into the next)."""
    rng = ctx.rng
    calls = []
    for k in range(ctx.n(4, 24)):
        func = rng.choice(['legendre', 'chebyshev', 'poly'])
        nc = rng.randint(2, 5)
        xmin = C.dyadic(rng, -2, 10, 2)
        xmax = xmin + C.dyadic(rng, 4, 10, 2 if k % 2 else 0)
        subs = []
        jl = xmin + C.dyadic(rng, 0.5, 1.5, 2)
        jumps = [None, [jl, jl + C.dyadic(rng, 0.25, 1, 2), C.dyadic(rng, 0.25, 1, 3)],
                 [jl + 0.5, jl + 0.5 + C.dyadic(rng, 0.25, 1, 2), -C.dyadic(rng, 0.25, 1, 3)]]
        rng.shuffle(jumps)
        for j in jumps + [jumps[0]]:
            nt = rng.randint(1, 3)
            subs.append({'f': 'eval', 'func': func, 'xmin': xmin, 'xmax': xmax, 'jump': j, 'xpos': None, 'ignore_jump': False,
                         'coeff': [[C.dyadic(rng, -4, 4, 5) for _ in range(nc)] for _ in range(nt)], 'tag': 'eval-grid-sameGrid'})
        last = dict(subs[1], tag='eval-xpos-sameGrid')
        last['xpos'] = [[C.dyadic(rng, xmin, xmax, 4) for _ in range(3)] for _ in last['coeff']]
        subs.append(last)
        calls.append(('seq-eval', {'f': 'seq', 'calls': subs}))
    # fitted trace sets: the same positions (hence the same xmin / xmax), function and order; other data and other jumps
    pool = [c for _, c in traces if not c.get('xdtype') and not c.get('ydtype') and not c.get('omit')]
    for k, base in enumerate(pool[:ctx.n(4, 24)]):
        lo = min(min(r) for r in base['xpos'])
        hi = max(max(r) for r in base['xpos'])
        subs = [dict(base, tag='trace-sameGrid')]
        for _attempt in range(40):
            d = dict(base, tag='trace-sameGrid')
            d['ypos'] = [[C.dyadic(rng, -4, 4, 5) for _ in row] for row in base['ypos']]
            d.pop('junk', None)
            if base['jump'] is None or len(subs) == 2:
                a = lo + (hi - lo) * C.dyadic(rng, 0.125, 0.5, 3)
                d['jump'] = [a, a + (hi - lo) * C.dyadic(rng, 0.0625, 0.25, 4), (hi - lo) * C.dyadic(rng, -0.125, 0.125, 4) or (hi - lo) / 16]
            else:
                d['jump'] = None
            if trace_feasible(d):
                subs.append(d)
            if len(subs) == 3:
                break
        if len(subs) >= 2:
            subs.append(dict(subs[0]))
            calls.append(('seq-trace', {'f': 'seq', 'calls': subs}))
    for _, c in calls:
        plain = [strip_seq(d) for d in c['calls']]
        c['calls'] = [dict(d, seq_calls=plain, seq_pos=i) for i, d in enumerate(plain)]
        c['_send'] = plain
    return calls


def gen_history(ctx, evals, traces):
    """multi-call histories on ONE TraceSet object (built from a stored record or by fitting)"""
    rng = ctx.rng
    calls = []
    makes = [c for _, c in evals if c['xmax'] - c['xmin'] <= 64][:ctx.n(8, 60)] + [c for _, c in traces[:ctx.n(4, 30)] if not c.get('ydtype')]
    for k, mk in enumerate(makes):
        nt = len(mk['coeff']) if mk['f'] == 'eval' else len(mk['xpos'])
        lo = mk['xmin'] if mk.get('xmin') is not None else min(min(r) for r in mk['xpos'])
        hi = mk['xmax'] if mk.get('xmax') is not None else max(max(r) for r in mk['xpos'])
        npt = rng.randint(2, 5)
        xp = [[C.dyadic(rng, lo, hi, 3) for _ in range(npt)] for _ in range(nt)]
        d = C.dyadic(rng, 0.25, 3, 2)
        variants = [
            [{'op': 'xy'}, {'op': 'mutate', 'what': 'both', 'delta': 0.5}, {'op': 'xy'}],
            [{'op': 'xy'}, {'op': 'shift', 'dxmin': d, 'dxmax': d}, {'op': 'xy'}],
            [{'op': 'xy'}, {'op': 'shift', 'dxmin': 0.0, 'dxmax': 2.0}, {'op': 'xy'}, {'op': 'mutate', 'what': 'y', 'delta': -1.0},
             {'op': 'xy', 'xpos': xp}],
            [{'op': 'xy', 'xpos': xp}, {'op': 'mutate', 'what': 'both', 'delta': 0.25}, {'op': 'scalecoeff', 'factor': 2.0},
             {'op': 'xy', 'xpos': xp, 'ignore_jump': True}, {'op': 'xy'}, {'op': 'mutate', 'what': 'x', 'delta': -0.5}, {'op': 'xy'}],
        ]
        calls.append(('history', {'f': 'history', 'func': mk['func'], 'make': public(mk), 'ops': variants[k % len(variants)]}))
    return calls


# ------------------------------------------------------------------ case terms
def fit_args_term(c):
    n = len(c['x'])
    w = c['w'] if c['w'] is not None else [1.0] * n
    ia = c['ia'] if c['ia'] is not None else [True] * c['ncoeff']
    ans = c['ans'] if c['ans'] is not None else ([0.0] * c['ncoeff'] if not all(ia) else [])
    return '%s %s %s %s %d%%nat %s %s %s' % (
        FTERM[c['func']], qv(c['x']), qv(c['y']), qv(w), c['ncoeff'], bv(ia), qv(ans), C.optlit(c['ifunc'], qv))


def case_term(c, r):
    f = c['f']
    if f == 'basis':
        if r.get('err') == 'ValueError':
            return '(CBasis %s %d%%nat %s None)' % (FTERM[c['func']], c['m'], qv(c['xs']))
        if 'ok' not in r:
            return None
        return '(CBasis %s %d%%nat %s (Some %s))' % (FTERM[c['func']], c['m'], qv(c['xs']), qm(r['ok']))
    if f == 'fit':
        if 'ok' in r:
            impl = '(Some (%s, %s))' % (qv(r['ok']['res']), qv(r['ok']['yfit']))
        elif r.get('err') == 'nonfinite':
            return None
        else:
            impl = 'None'
        return '(CFit %s %s)' % (fit_args_term(c), impl)
    if f == 'trace':
        if 'ok' not in r:
            return None
        o = r['ok']
        nt = len(c['xpos'])
        nx = len(c['xpos'][0])
        omit = c.get('omit', [])
        return '(CTrace %s %s %s %s %s %s %s %s %s %s %s %s %s %s %s %s %s)' % (
            'None' if 'func' in omit else '(Some %s)' % FTERM[c['func']],
            'None' if 'ncoeff' in omit else '(Some %d%%nat)' % c['ncoeff'],
            C.optlit(c.get('maxiter'), lambda v: '(%s)%%Z' % C.zlit(v)),
            oq(c['xmin']), oq(c['xmax']), jump_term(c['jump']),
            qm(c['xpos']), qm(c['ypos']), C.optlit(c['ivar'], qm), C.optlit(c['inmask'], bm),
            qm(o['coeff']), qm(o['yfit']), qm(o['xy_x']), qm(o['xy_y']), qm(o['grid_x']), qm(o['grid_y']), bm(o['outmask']))
    if f == 'history':
        # the LAST evaluation of the history, judged as an evaluation of a trace set in the object's final state
        if 'ok' not in r:
            return None
        o = r['ok']
        mk = c['make']
        last = o['evals'][-1]
        lop = [op for op in c['ops'] if op['op'] == 'xy'][-1]
        ncoeff = len(o['coeff'][0])
        t = '{| ts_func := %s; ts_ncoeff := %d%%nat; ts_xmin := %s; ts_xmax := %s; ts_jump := %s; ts_coeff := %s |}' % (
            FTERM[mk['func']], ncoeff, C.qlit(o['xmin']), C.qlit(o['xmax']), jump_term(mk.get('jump')), qm(o['coeff']))
        return '(CEval %s %s %s %s %s)' % (t, C.optlit(lop.get('xpos'), qm), C.boollit(bool(lop.get('ignore_jump'))),
                                           qm(last['x']), qm(last['y']))
    if f == 'eval':
        if 'ok' not in r:
            return None
        o = r['ok']
        t = '{| ts_func := %s; ts_ncoeff := %d%%nat; ts_xmin := %s; ts_xmax := %s; ts_jump := %s; ts_coeff := %s |}' % (
            FTERM[c['func']], len(c['coeff'][0]), C.qlit(c['xmin']), C.qlit(c['xmax']), jump_term(c['jump']), qm(c['coeff']))
        if o.get('big'):
            # a sample of a long default grid: the values at the sampled abscissae (the grid itself is checked where it is computed)
            return '(CEval %s (Some %s) %s %s %s)' % (t, qm(o['x']), C.boollit(c['ignore_jump']), qm(o['x']), qm(o['y']))
        return '(CEval %s %s %s %s %s)' % (t, C.optlit(c['xpos'], qm), C.boollit(c['ignore_jump']), qm(o['x']), qm(o['y']))
    return None


def public(c):
    return {k: v for k, v in c.items() if not k.startswith('_')}


def run_calls(calls):
    nb = min(8, max(1, len(calls) // 10))
    batches = [calls[i::nb] for i in range(nb)]
    def wire(c):
        return {'f': 'seq', 'calls': c['_send']} if c['f'] == 'seq' else public(c)
    outs = C.run_impl_parallel('c13_impl.py', [[wire(c) for _, c in b] for b in batches])
    results = [None] * len(calls)
    for bi, o in enumerate(outs):
        for k, r in enumerate(o['results']):
            results[bi + k * nb] = r
    run_calls.globals = [(key, d) for o in outs for key in ('globals_changed_by_import', 'globals_changed_by_calls') for d in (o.get(key) or [])]
    return results, outs[0]['pydl_file']


def close(a, b, tol):
    return abs(a - b) <= tol * (1 + abs(b))


def correspond(ctx, proof_ok=True):
    ok, log = C.coq_make(['C13/Model.vo'])
    if not ok:
        raise RuntimeError('C13/Model.v does not build:\n' + log[-2000:])
    traces, evals = gen_trace(ctx), gen_eval(ctx)
    calls = gen_basis(ctx) + gen_fit(ctx) + traces + evals + gen_history(ctx, evals, traces) + gen_seq(ctx, evals, traces)
    results, pydl_file = run_calls(calls)
    ctx.coverage['pydl_file'] = pydl_file

    terms = []      # (call index, term)
    direct = []     # (signature, summary, replay)
    # process-global settings (numpy error state / print options, astropy.io.fits.conf, os.environ) before and after `import pydl` and the calls
    for key, d in getattr(run_calls, 'globals', []):
        when = 'importing pydl' if key.endswith('import') else 'calling the trace-set functions'
        direct.append(('C13:process-global:%s' % d['what'], '%s changed the process-global %s: %s' % (when, d['what'], d['changed']),
                       {'kind': 'failing-input', 'call': {'f': 'import pydl' if key.endswith('import') else 'calls'}, 'changed': d['changed']}))
    # sequences: every member is judged like a call of its kind that ran alone
    flat_c, flat_r = [], []
    for (tag, c), r in zip(calls, results):
        if c['f'] != 'seq':
            flat_c.append((tag, c))
            flat_r.append(r)
        elif 'ok' not in r:
            direct.append(('C13:seq:impl=%s' % r.get('err'), '%s: the sequence of calls raised %s' % (tag, r.get('err')),
                           {'kind': 'failing-input', 'call': {'f': 'seq', 'calls': c['_send']}, 'impl_result': r}))
        else:
            for j, (d, dr) in enumerate(zip(c['calls'], r['ok']['results'])):
                flat_c.append(('%s:%s' % (tag, d.get('tag', d['f'])), d))
                flat_r.append(dr)
    calls, results = flat_c, flat_r
    for ci, ((tag, c), r) in enumerate(zip(calls, results)):
        if c.get('_nocoq') and 'ok' in r:
            continue
        t = case_term(c, r)
        if t is None:
            # the implementation failed where a value is required
            direct.append(('C13:%s:%s:impl=%s' % (c['f'], sig_class(c), r.get('err')),
                           '%s raised/produced %s on an input inside the property domain' % (tag, r.get('err')),
                           {'kind': 'failing-input', 'call': public(c), 'impl_result': r}))
            continue
        terms.append((ci, t))

    # hard caps: no case term above MAX_TERM characters reaches Coq, and no coqc process may run longer than
    # COQ_TIMEOUT seconds (a runaway exact computation then fails the run quickly instead of stalling it)
    oversize = [k for k, (_, t) in enumerate(terms) if len(t) > MAX_TERM]
    if oversize:
        raise RuntimeError('%d case terms exceed %d characters (generator bug): refusing to evaluate' % (len(oversize), MAX_TERM))
    cc = C.CoqCases(ctx.work, HEADER, 'run_cases', shard=30, timeout=COQ_TIMEOUT)
    light = [k for k, (_, t) in enumerate(terms) if t.startswith('(CBasis') or t.startswith('(CFit')]
    heavy = [k for k in range(len(terms)) if k not in set(light)]
    verdicts = [None] * len(terms)
    for k, v in zip(light, cc.run([terms[k][1] for k in light], tag='cases')):
        verdicts[k] = v
    cc.shard = 3
    for k, v in zip(heavy, cc.run([terms[k][1] for k in heavy], tag='traces')):
        verdicts[k] = v
    ctx.coverage['coq_eval_s'] = round(cc.coq_seconds, 1)

    # ---- direct behavioural checks on the real code
    nd = 0
    # generic guards: arguments untouched, repeatable, history independent, input classes agree with float64
    for ci, ((tag, c), r) in enumerate(zip(calls, results)):
        if 'ok' not in r:
            continue
        o = r['ok'] if isinstance(r['ok'], dict) else {}
        changed = r.get('args_changed') or o.get('args_changed') or []
        if c['f'] == 'history':
            changed = sorted(set(sum((e['args_changed'] for e in o['evals']), [])))
        nd += 1
        if changed:
            direct.append(('C13:%s:argument-modified' % c['f'], '%s modified its argument(s) %s' % (tag, changed),
                           {'kind': 'failing-input', 'call': public(c), 'impl_result': r}))
        if c['f'] == 'fit' and not r.get('repeatable', True):
            direct.append(('C13:fit:not-repeatable', 'the same func_fit call gave another answer after its first result was edited in place',
                           {'kind': 'failing-input', 'call': public(c), 'impl_result': r}))
        if c['f'] == 'fit' and 'ref' in r:
            nd += 1
            tol = 1e-3 if 'f4' in (c.get('xdtype'), c.get('ydtype')) else 1e-9
            for key in ('res', 'yfit'):
                ref = r['ref'][key]
                scale = max([abs(v) for v in ref] + [1e-300])
                if len(ref) != len(o[key]) or any(abs(a - b) > tol * scale for a, b in zip(o[key], ref)):
                    direct.append(('C13:fit:%sdtype-class:%s' % ('intx:' if intx(c) else '', key),
                                   'func_fit with x dtype %s / y dtype %s: %s = %r differs from the float64 result %r of the same problem' % (
                                       c.get('xdtype', 'd'), c.get('ydtype', 'd'), key, o[key], ref),
                                   {'kind': 'failing-input', 'call': public(c), 'impl_result': r}))
                    break
        if c['f'] == 'history':
            for e in o['evals']:
                nd += 1
                why = None
                if not e['finite']:
                    why = 'non-finite values'
                elif not e['independent']:
                    why = 'differs from the same evaluation on a pristine copy of the object that only saw the attribute changes'
                elif e.get('grid_ok') is False:
                    why = 'the default grid does not span xmin..xmax (%r..%r) in unit steps' % (e['xmin'], e['xmax'])
                if why:
                    direct.append(('C13:history:%s' % ('nonfinite' if not e['finite'] else
                                                       'history-dependent' if not e['independent'] else 'default-grid'),
                                   'evaluation at step %d of the history %s: %s' % (
                                       e['index'], [op['op'] for op in c['ops']], why),
                                   {'kind': 'failing-input', 'call': public(c), 'history': c['ops'], 'step': e['index'],
                                    'impl_result': {'ok': {'evals': [e]}}}))
                    break
    for ci, ((tag, c), r) in enumerate(zip(calls, results)):
        if c['f'] == 'basis' and c.get('_f4'):
            nd += 1
            if 'ok' not in r:
                continue     # (reported above: the implementation failed where a value is required)
            want = [[float(basis_fr(c['func'], c['m'], x)[j]) for x in c['xs']] for j in range(c['m'])]
            if any(abs(a - b) > 1e-4 for ra, rb in zip(r['ok'], want) for a, b in zip(ra, rb)):
                direct.append(('C13:basis:float32', '%s on float32 abscissae %r differs from the exact values by more than 1e-4' % (
                    c['func'], c['xs']), {'kind': 'failing-input', 'call': public(c), 'impl_result': r, 'exact': want}))
    for ci, ((tag, c), r) in enumerate(zip(calls, results)):
        if c['f'] != 'fit':
            continue
        if 'ok' not in r:
            if r.get('err') != 'nonfinite':   # (non-finite output is already reported above)
                nd += 1
                direct.append(('C13:fit:%s:impl=%s' % (sig_class(c), r.get('err')),
                               'func_fit raised %s (%s) on a well-posed fitting problem' % (r.get('err'), r.get('msg', '')),
                               {'kind': 'failing-input', 'call': public(c), 'impl_result': r}))
            continue
        res = r['ok']['res']
        ngood = len(c['x']) if c['w'] is None else sum(1 for v in c['w'] if v > 0)
        if c['ia'] is not None and ngood >= 2:
            nd += 1
            ans = c['ans'] if c['ans'] is not None else [0.0] * c['ncoeff']
            for k, free in enumerate(c['ia']):
                if not free and res[k] != ans[k]:
                    direct.append(('C13:fit:%sfixed-not-kept' % ('intx:' if intx(c) else ''), 'coefficient %d declared fixed at %r came back as %r' % (k, ans[k], res[k]),
                                   {'kind': 'failing-input', 'call': public(c), 'impl_result': r, 'index': k}))
                    break
        if tag == 'fit-exact' and ngood >= c['ncoeff']:
            nd += 1
            if not all(close(a, b, 1e-7) for a, b in zip(res, c['_coef'])):
                direct.append(('C13:fit:exact-not-recovered', 'data that are an exact combination %r of the basis gave %r' % (c['_coef'], res),
                               {'kind': 'failing-input', 'call': public(c), 'coefficients': c['_coef'], 'impl_result': r}))
        if tag == 'fit-zeroindep-a':
            rb = results[ci + 1]
            nd += 1
            if 'ok' not in rb or not all(close(a, b, 1e-12) for a, b in zip(res, rb['ok']['res'])):
                direct.append(('C13:fit:zero-weight-influence', 'changing y at zero-weight points changed the coefficients',
                               {'kind': 'failing-input', 'call': public(c), 'call_b': public(calls[ci + 1][1]),
                                'impl_result': r, 'impl_result_b': rb}))
    for ci, ((tag, c), r) in enumerate(zip(calls, results)):
        if c['f'] == 'trace' and 'ok' in r:
            o = r['ok']
            nd += 1
            if o['xy_x'] != c['xpos'] or not all(close(a, b, 1e-9) for ra, rb in zip(o['xy_y'], o['yfit']) for a, b in zip(ra, rb)):
                direct.append(('C13:trace:%sfit-eval-inconsistent' % ('intx:' if intx(c) else ''), 'traceset2xy(xy2traceset(x, y), x) does not return the fitted values',
                               {'kind': 'failing-input', 'call': public(c), 'impl_result': r}))
            if 'coeff_junk' in o:
                nd += 1
                if not o.get('junk_finite') or not all(close(a, b, 1e-12) for ra, rb in zip(o['coeff'], o['coeff_junk']) for a, b in zip(ra, rb)):
                    bad_t = [t for t, (ra, rb) in enumerate(zip(o['coeff'], o['coeff_junk'])) if not all(close(a, b, 1e-12) for a, b in zip(ra, rb))]
                    direct.append(('C13:trace:zero-weight-influence',
                                   'changing ypos at points of zero weight (invvar 0 or inmask False; inmask stored as %s, invvar as %s) changed the '
                                   'coefficients of trace(s) %s: %r -> %r' % (c.get('mdtype', 'bool') if c['inmask'] is not None else None,
                                                                              c.get('ivdtype', 'float64') if c['ivar'] is not None else None, bad_t,
                                                                              o['coeff'], o['coeff_junk']),
                                   {'kind': 'failing-input', 'call': public(c), 'impl_result': r}))
            gx = o['grid_x']
            want_nx = int(math.floor(o['xmax'] - o['xmin'] + 1))
            good_grid = len(gx) == len(c['xpos']) and all(
                len(row) == want_nx and all(v == o['xmin'] + j for j, v in enumerate(row)) for row in gx)
            if not good_grid:
                direct.append(('C13:trace:%sdefault-grid' % ('intx:' if intx(c) else ''), 'default grid is not xmin, xmin+1, ... (floor(xmax-xmin+1) columns)',
                               {'kind': 'failing-input', 'call': public(c), 'impl_result': r}))

    for ci, ((tag, c), r) in enumerate(zip(calls, results)):
        if c['f'] == 'eval' and 'ok' in r and r['ok'].get('big'):
            nd += 1
            if not r['ok']['grid_ok']:
                direct.append(('C13:eval:default-grid', 'default grid of a trace set with xmin = %r, xmax = %r has shape %s; expected %d columns xmin, xmin+1, ...'
                               % (c['xmin'], c['xmax'], r['ok']['shape'], r['ok']['want_nx']),
                               {'kind': 'failing-input', 'call': public(c), 'impl_result': {'ok': {k: v for k, v in r['ok'].items() if k not in ('x', 'y')}}}))
    dist = {}
    for (tag, c), r in zip(calls, results):
        k = tag + ':' + ('ok' if 'ok' in r else r.get('err', '?'))
        dist[k] = dist.get(k, 0) + 1
    bad = [(ci, t, v) for (ci, t), v in zip(terms, verdicts) if v != 0]
    ctx.coverage.update({
        'evaluations': len(terms) + nd,
        'distinct_nontrivial': len(set(t for _, t in terms)),
        'rule': 'one evaluation = one call of a basis function / func_fit / xy2traceset+traceset2xy / TraceSet(FITS_rec).xy on the real '
                'code, its output compared in Coq (exact rationals) with the model M (1e-9 bases and evaluation, 1e-7 fits) and judged by the certified '
                'checkers (closed-form bases, fit_ok, grid_ok); plus one per direct behavioural check (fixed kept, zero-weight '
                'independence, exact recovery, fit->evaluate consistency and default grid); distinct = distinct Coq case terms',
        'cases_by_kind_and_outcome': dist,
        'direct_checks': nd,
        'model_disagreements': sum(1 for b in bad if b[2] & 1),
        'spec_violations': sum(1 for b in bad if b[2] & 2),
        'samples': [{'call': public(calls[ci][1]), 'impl': results[ci], 'coq_case': t[:400]}
                    for ci, t in (terms[:1] + terms[len(terms) // 2:len(terms) // 2 + 1] + terms[-1:])],
    })
    seen = set()
    for ci, t, v in bad:
        tag, c = calls[ci]
        sig = 'C13:%s:%s:%s' % (c['f'], sig_class(c), 'property' if v & 2 else 'model')
        if sig in seen:
            continue
        seen.add(sig)
        if v & 2:
            ctx.violation(sig, 'output of %s contradicts the specification checker (verdict %d)' % (tag, v),
                          {'kind': 'failing-input', 'call': public(c), 'impl_result': results[ci], 'coq_case': t, 'verdict': v,
                           'meaning': 'bit 2: the implementation output fails the certified checker (closed-form basis / fit_ok / '
                                      'grid_ok / evaluation); bit 1: it differs from the algorithmic model'}, True)
        else:
            ctx.violation(sig, 'model and implementation disagree on %s (checker accepts the output)' % tag,
                          {'kind': 'broken-correspondence', 'item': 'C13.Model.run_case', 'call': public(c),
                           'impl_result': results[ci], 'coq_case': t, 'verdict': v}, False)
    for sig, summary, rep in direct:
        if sig in seen:
            continue
        seen.add(sig)
        ctx.violation(sig, summary, rep, True)


def replay(ctx, rep):
    c = rep.get('call')
    if not c:
        print('replay file has no call (kind=%s, item=%s)' % (rep.get('kind'), rep.get('item')))
        return 2
    calls = [c] + ([rep['call_b']] if rep.get('call_b') else [])
    if c.get('seq_calls'):
        # a member of a sequence: the whole sequence runs again in one process, the member's result is shown
        seq = C.run_impl('c13_impl.py', [{'f': 'seq', 'calls': c['seq_calls']}])['results'][0]
        print('sequence of %d calls in one process; member %d:' % (len(c['seq_calls']), c['seq_pos']))
        print('in sequence:', seq['ok']['results'][c['seq_pos']] if 'ok' in seq else seq)
        print('alone      : (below)')
    out = C.run_impl('c13_impl.py', calls)
    print('call   :', c)
    for r in out['results']:
        print('impl   :', r)
    print('before :', rep.get('impl_result'))
    if rep.get('coq_case'):
        t = case_term(c, out['results'][0])
        if t is not None:
            cc = C.CoqCases(ctx.work, HEADER, 'run_cases')
            print('verdict now:', cc.run([t]), '(recorded: %s)' % rep.get('verdict'))
    return 0
