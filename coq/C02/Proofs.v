(* C02 -- proofs.  The per-freedom lemmas are in Yanny/LayoutFacts.v (reusable by C03); this file restates
   the ones that mention the document-level predicates. *)
From Coq Require Import String.
From Coq Require Import NArith ZArith List Bool Lia.
Import ListNotations.
From PV Require Import Yanny.Bytes Yanny.BytesFacts Yanny.Types Yanny.Parse Yanny.Render
  Yanny.TokenFacts Yanny.RowFacts Yanny.TypeFacts Yanny.DocFacts Yanny.LayoutFacts Yanny.ScanFacts Yanny.FileFacts
  Yanny.RoundTrip Yanny.LayoutFile Yanny.LayoutRow Yanny.LayoutFile2 Yanny.Interleave
  Yanny.TypedefLayout Yanny.Skeleton Yanny.StructLayout Yanny.EnumLayout C02.Model.
Open Scope N_scope.

(* a data line of a well-formed table means the same under any letter case of the table name *)
Lemma rowname_case_indep_doc es t r sy st name' :
  forallb enum_ok es = true -> table_ok es t = true -> In r (t_rows t) ->
  assoc (upper (t_name t)) sy = Some (tcols_of es (t_cols t)) ->
  name' <> [] -> forallb is_word name' = true -> upper name' = upper (t_name t) ->
  process_line sy st (render_row_line name' r)
  = Some (mkst (st_pairs st) (assoc_app (upper (t_name t)) r (st_rows st))).
Proof.
  intros Hes Ht Hr Hsy Hn Hw Hu. destruct (table_ok_parts es t Ht) as [Hid [_ [Hc [_ Hrows]]]].
  rewrite forallb_forall in Hrows. specialize (Hrows r Hr). apply andb_true_iff in Hrows as [Hrow _].
  rewrite <- Hu. apply (row_line_roundtrip sy st name' (tcols_of es (t_cols t)) r); auto.
  - now rewrite Hu.
  - apply row_ok_fits; auto. now apply enums_ok_names.
Qed.


(* ---- non-vacuity: a concrete laid-out file satisfies every hypothesis of C02_layout_independence_partial ---- *)
Definition ex_table : table := mktable (bs "T"%string) [mkcol (bs "x"%string) TInt None; mkcol (bs "s"%string) (TChar 4) None]
                                       [[Sc (SInt 5); Sc (STok (bs "a b"%string))]].
Definition ex_doc : doc := mkdoc [bs "c"%string] [(bs "k"%string, bs "v"%string)] [] [ex_table].
Definition ex_tws : list (table * list bytes) := [(ex_table, [S_INT; S_CHAR])].
Definition ex_trs : list (table * list cell) := all_trs (d_tables ex_doc).
(* the data row written as:  <tab> t <2 blanks> "5" <blank> "a b" <blank> # note   (quoted int, lower-case name),
   one comment line and one blank line inserted before it *)
Definition ex_row : bytes :=
  [TAB] ++ lrow_core (bs "t"%string) [([SP; SP], LSc (SInt 5) FQuoted); ([SP], LSc (STok (bs "a b"%string)) (FBraced [SP]))]
  ++ [SP] ++ tail_text (Some (bs " note"%string)).
Definition ex_items : list item :=
  firstn 6 (items_gen ex_doc ex_tws ex_trs) ++ [ILine (bs " # inserted"%string); ILine [SP; TAB]; ILine ex_row].

Lemma example_in_domain : doc_ok ex_doc = true /\ map fst ex_tws = d_tables ex_doc.
Proof. split; vm_compute; reflexivity. Qed.

Lemma example_tws_ok : tws_ok (d_enums ex_doc) ex_tws.
Proof.
  constructor; [|constructor]. cbn [fst snd ex_table t_cols].
  constructor; [repeat split; try reflexivity; discriminate|].
  constructor; [repeat split; try reflexivity; discriminate|constructor].
Qed.

Lemma example_layout : idec (sy_of (d_enums ex_doc) ex_tws) ex_items (items_gen ex_doc ex_tws ex_trs).
Proof.
  change (items_gen ex_doc ex_tws ex_trs) with
    (firstn 6 (items_gen ex_doc ex_tws ex_trs) ++
     [ILine (render_row_line (upper (bs "t"%string))
        (map (fun gc : bytes * lcell => cell_of (snd gc))
           [([SP; SP], LSc (SInt 5) FQuoted); ([SP], LSc (STok (bs "a b"%string)) (FBraced [SP]))]))]).
  unfold ex_items. vm_compute firstn.
  repeat apply id_same.
  apply id_skip; [right; exists [SP], (bs " inserted"%string); repeat split; reflexivity|].
  apply id_skip; [left; reflexivity|].
  unfold ex_row.
  eapply (id_row _ [TAB] (bs "t"%string) _ _ [SP] (Some (bs " note"%string))); try reflexivity; try discriminate.
  - split; reflexivity.
  - constructor.
Qed.

Lemma example_reads_as_the_document :
  match sem ex_doc with Some p => parse (items_text ex_items) = Some p | None => False end.
Proof. vm_compute. reflexivity. Qed.


(* ---- non-vacuity of the skeleton theorem: the data row stands BEFORE the typedef of its table, the keyword pair after
   the row; the typedef block has a comment line before the first declaration, a trailing comment, two blanks / a tab
   between type and name, the string length in angle brackets, and a lower-case trailing name:

       <tab>t  "5" { a b} # note
       k v
       typedef struct {
       # cols
         int  x; # x
       char<tab>s<4>;
       } t;
   ---- *)
Definition ex2_ys : list clay :=
  [ mkclay [SP; SP] [] [SP] [(bs "#"%string, [SP]); (bs "x"%string, [NL])];
    mkclay [TAB] (bs "<4>"%string) [NL] [] ].
Definition ex2_body : bytes := lbody [NL] [(bs "#"%string, [SP]); (bs "cols"%string, [NL; SP; SP])] (t_cols ex_table) [S_INT; S_CHAR] ex2_ys.
Definition ex2_name : bytes := bs "t"%string.
Definition ex2_skel : list sk :=
  [ SkRow (ex_table, [Sc (SInt 5); Sc (STok (bs "a b"%string))]); SkPair (bs "k"%string, bs "v"%string); SkStruct ex2_body ex2_name ].
Definition ex2_items : list item :=
  [ ILine ex_row; ILine (pair_line (bs "k"%string, bs "v"%string)); ITd KW_STRUCT ex2_body ex2_name ].

Lemma example2_typedef : td_reads (d_enums ex_doc) ex_table ex2_body ex2_name.
Proof.
  unfold ex2_body. apply lbody_td_reads; try reflexivity; try discriminate. exact (Forall_inv example_tws_ok).
Qed.

Lemma example2_skeleton : skel_ok ex_doc ex_tws ex2_skel.
Proof.
  split; [reflexivity|]. split; [|split; [|constructor]].
  - split.
    + constructor; [|constructor]. split; [now left|now left].
    + intros t [<-|[]]. reflexivity.
  - constructor; [exact example2_typedef|constructor].
Qed.

Lemma example2_layout : idec (sy_of (d_enums ex_doc) ex_tws) ex2_items (map sk_item ex2_skel).
Proof.
  unfold ex2_items, ex2_skel. cbn [map sk_item].
  change (tr_line (ex_table, [Sc (SInt 5); Sc (STok (bs "a b"%string))]))
    with (render_row_line (upper (bs "t"%string))
            (map (fun gc : bytes * lcell => cell_of (snd gc))
               [([SP; SP], LSc (SInt 5) FQuoted); ([SP], LSc (STok (bs "a b"%string)) (FBraced [SP]))])).
  unfold ex_row.
  eapply (id_row _ [TAB] (bs "t"%string) _ _ [SP] (Some (bs " note"%string))); try reflexivity; try discriminate.
  - split; reflexivity.
  - repeat apply id_same. constructor.
Qed.

Lemma example2_reads_as_the_document :
  match sem ex_doc with
  | Some p => parse (items_text ex2_items) = Some (with_texts p [] [td_text KW_STRUCT ex2_body ex2_name])
  | None => False
  end.
Proof. vm_compute. reflexivity. Qed.


(* ---- a third file: the enum typedef on ONE line, with blanks after the brace and after the comma, placed after the
   struct that uses it and after the data row; the struct keeps one declaration per line, spells the array n[2] as n<2>
   and has a lower-case trailing name:

       OBJ SUCCESS {7 -1}
       typedef struct {
        STATUS state
        ;  ... (see ex3_sbody for the exact blank runs)
       } obj;
       typedef enum { FAILURE, SUCCESS} STATUS;
   ---- *)
Definition ex3_enum : enumdecl := mkenum (bs "state"%string) (bs "Status"%string) [bs "FAILURE"%string; bs "SUCCESS"%string].
Definition ex3_table : table :=
  mktable (bs "Obj"%string) [mkcol (bs "state"%string) (TChar 7) None; mkcol (bs "n"%string) TInt (Some 2)]
          [[Sc (STok (bs "SUCCESS"%string)); Ar [SInt 7; SInt (-1)]]].
Definition ex3_doc : doc := mkdoc [bs "c"%string] [] [ex3_enum] [ex3_table].
Definition ex3_tws : list (table * list bytes) := [(ex3_table, [bs "STATUS"%string; S_INT])].
Definition ex3_ebody : bytes := ebody [SP] (e_labels ex3_enum) [[SP]] [].
Definition ex3_sbody : bytes :=
  lbody [NL; SP] [] (t_cols ex3_table) [bs "STATUS"%string; S_INT]
        [ mkclay [SP] [] [NL; SP] []; mkclay [SP] (bs "<2>"%string) [SP; NL] [] ].
Definition ex3_skel : list sk :=
  [ SkRow (ex3_table, [Sc (STok (bs "SUCCESS"%string)); Ar [SInt 7; SInt (-1)]]);
    SkStruct ex3_sbody (bs "obj"%string); SkEnum ex3_ebody (bs "STATUS"%string) ].

Lemma example3_in_domain : doc_ok ex3_doc = true /\ map fst ex3_tws = d_tables ex3_doc.
Proof. split; vm_compute; reflexivity. Qed.
Lemma example3_tws_ok : tws_ok (d_enums ex3_doc) ex3_tws.
Proof.
  constructor; [|constructor]. cbn [fst snd ex3_table t_cols].
  constructor; [repeat split; try reflexivity; discriminate|].
  constructor; [repeat split; try reflexivity; discriminate|constructor].
Qed.
Lemma example3_enum : etd_reads ex3_enum ex3_ebody (bs "STATUS"%string).
Proof. change (bs "STATUS"%string) with (upper (e_tname ex3_enum)). unfold ex3_ebody. apply ebody_etd_reads; reflexivity. Qed.
Lemma example3_struct : td_reads (d_enums ex3_doc) ex3_table ex3_sbody (bs "obj"%string).
Proof. unfold ex3_sbody. apply lbody_td_reads; try reflexivity; try discriminate. exact (Forall_inv example3_tws_ok). Qed.
Lemma example3_skeleton : skel_ok ex3_doc ex3_tws ex3_skel.
Proof.
  split; [reflexivity|]. split; [|split].
  - split.
    + constructor; [|constructor]. split; [now left|now left].
    + intros t [<-|[]]. reflexivity.
  - constructor; [exact example3_struct|constructor].
  - constructor; [exact example3_enum|constructor].
Qed.
Lemma example3_reads_as_the_document :
  match sem ex3_doc with
  | Some p => parse (items_text (map sk_item ex3_skel))
              = Some (with_texts p [td_text KW_ENUM ex3_ebody (bs "STATUS"%string)] [td_text KW_STRUCT ex3_sbody (bs "obj"%string)])
  | None => False
  end.
Proof. vm_compute. reflexivity. Qed.

(* ================================================================== round 5 *)
From PV Require Import Yanny.ContMany Yanny.NoFinalNL.

(* ---- a fourth file (round 5): the typedef first, the pair, then the decorated data row as the LAST line, which is NOT
   terminated by a newline; and the same file with TWO backslash continuations inside that row:

       typedef struct { ... } t;              typedef struct { ... } t;
       k v                                    k v
       <tab>t  "5" { a b} # note<eof>         <tab>t \<nl>   "5" \ <nl><tab>{ a b} # note
   ---- *)
Definition ex4_skel : list sk :=
  [ SkStruct ex2_body ex2_name; SkPair (bs "k"%string, bs "v"%string); SkRow (ex_table, [Sc (SInt 5); Sc (STok (bs "a b"%string))]) ].
Definition ex4_items0 : list item := [ ITd KW_STRUCT ex2_body ex2_name; ILine (pair_line (bs "k"%string, bs "v"%string)) ].
Definition ex4_items : list item := ex4_items0 ++ [ILine ex_row].

Lemma example4_skeleton : skel_ok ex_doc ex_tws ex4_skel.
Proof.
  split; [reflexivity|]. split; [|split; [|constructor]].
  - split.
    + constructor; [|constructor]. split; [now left|now left].
    + intros t [<-|[]]. reflexivity.
  - constructor; [exact example2_typedef|constructor].
Qed.

Lemma example4_layout : idec (sy_of (d_enums ex_doc) ex_tws) (ex4_items0 ++ [ILine ex_row]) (map sk_item ex4_skel).
Proof.
  unfold ex4_items0, ex4_skel. cbn [map sk_item app]. repeat apply id_same.
  change (tr_line (ex_table, [Sc (SInt 5); Sc (STok (bs "a b"%string))]))
    with (render_row_line (upper (bs "t"%string))
            (map (fun gc : bytes * lcell => cell_of (snd gc))
               [([SP; SP], LSc (SInt 5) FQuoted); ([SP], LSc (STok (bs "a b"%string)) (FBraced [SP]))])).
  unfold ex_row.
  eapply (id_row _ [TAB] (bs "t"%string) _ _ [SP] (Some (bs " note"%string))); try reflexivity; try discriminate.
  - split; reflexivity.
  - constructor.
Qed.

Lemma example4_no_final_newline :
  ex_row <> [] /\
  match sem ex_doc with
  | Some p => parse (items_text ex4_items0 ++ ex_row) = Some (with_texts p [] [td_text KW_STRUCT ex2_body ex2_name])
  | None => False
  end.
Proof. split; [discriminate|vm_compute; reflexivity]. Qed.

(* the two continuations: after the table name, and after the quoted integer *)
Definition ex4_cut1 : nat := length (items_text ex4_items0) + 2.      (* ... <tab> t | <sp> ... *)
Definition ex4_text : bytes := items_text ex4_items.
Definition ex4_segs : list (bytes * bytes * bytes) :=
  [ (firstn ex4_cut1 ex4_text, [], [SP]); (firstn 3 (skipn (ex4_cut1 + 2) ex4_text), [SP], []) ].
Definition ex4_B : bytes := skipn (ex4_cut1 + 6) ex4_text.
Lemma example4_continuations :
  with_blanks ex4_segs ex4_B = items_text ex4_items /\ Forall cseg_ok ex4_segs /\ conts_heads_ok ex4_segs ex4_B /\
  mem CR (with_conts ex4_segs ex4_B) = false /\
  match sem ex_doc with
  | Some p => parse (with_conts ex4_segs ex4_B) = Some (with_texts p [] [td_text KW_STRUCT ex2_body ex2_name])
  | None => False
  end.
Proof.
  split; [vm_compute; reflexivity|]. split; [repeat constructor; vm_compute; reflexivity|].
  split; [vm_compute; repeat split; reflexivity|]. split; vm_compute; reflexivity.
Qed.

(* ---- round 5 observation: a COMMENT inside an enum block is not a freedom -- the reader (model and code alike) splits the raw
   block body on commas, so the comment becomes part of the next label and the column is sized by it (S11 instead of S5) ---- *)
Definition ex5_text : bytes :=
  bs "typedef enum {"%string ++ [NL] ++ bs "  FALSE, # no"%string ++ [NL] ++ bs "  TRUE"%string ++ [NL] ++ bs "} BOOLEAN;"%string ++ [NL]
  ++ bs "typedef struct { BOOLEAN f; int x; } T;"%string ++ [NL] ++ bs "T TRUE 1"%string ++ [NL].
(* the reader model follows the source (Parse.enum_entry, flag Generated.YannyLits.yanny_enum_strips_comments): without the
   repair fixes/C02-enum-block-comments.diff the column is sized by the comment (S11), with it by the labels (S5) *)
Lemma enum_block_comment_changes_the_width :
  option_map (fun p => map (fun t => map pc_np (pt_cols t)) (pd_tables p)) (parse ex5_text)
  = Some [[NS (if PV.Generated.YannyLits.yanny_enum_strips_comments then 5 else 11); NI4]].
Proof. vm_compute. reflexivity. Qed.
