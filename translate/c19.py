"""C19 extractor (fail-closed) -> coq/Generated/AstroConsts.v

  pydl/goddard/astro.py     airtovac, vactoair : guard threshold and comparison, iteration count, the
                                                 sigma2 / fact / update expressions (over Q and over R)
  pydl/photoop/sdssio.py    sdssflux2ab        : correction vector, factor = 10**(-c/2.5), ivar factor, += / *=
  pydl/pydlspec2d/spec2d.py filter_thru        : the normalisation res / (sumfilt + (sumfilt <= 0))

The expression translator is translate/c18.py:rexpr.  Anything not recognised raises Unrecognised and the
previous generated file is kept (recognised: false).
"""
import ast
import os

from .pyexpr import Unrecognised, find_function
from .c18 import rexpr, lit, frac_of_const, simple_assigns, call_name, let_chain


def cmp_const(test, names):
    """`name < const` / `name <= const` -> (name, op, Fraction)"""
    if isinstance(test, ast.Compare) and len(test.ops) == 1 and isinstance(test.left, ast.Name) and test.left.id in names \
            and isinstance(test.comparators[0], ast.Constant):
        op = {ast.Lt: '<', ast.LtE: '<='}.get(type(test.ops[0]))
        if op is None:
            raise Unrecognised('guard comparison %s' % type(test.ops[0]).__name__)
        return test.left.id, op, frac_of_const(test.comparators[0].value)
    raise Unrecognised('guard test')


def guard_Q(op, thr):
    t = lit(thr, 'Q')
    return ('negb (Qle_bool %s x)' % t) if op == '<' else ('Qle_bool x %s' % t)


def guard_R(op, thr):
    t = lit(thr, 'R')
    return ('Rlt_dec x %s' % t, 'x < %s' % t) if op == '<' else ('Rle_dec x %s' % t, 'x <= %s' % t)


def wave_function(fn, inname, work, result):
    """Common shape of airtovac / vactoair.  Returns dict with guard, body assignments, loop count."""
    info = {}
    scalar_guard = array_guard = None
    restore = False
    loop = None
    straight = []
    for st in fn.body:
        if isinstance(st, ast.If) and isinstance(st.test, ast.Compare) and isinstance(st.test.left, ast.Name) \
                and st.test.left.id == 't':
            # if t is None: scalar path / else: array path
            for s in st.body:
                if isinstance(s, ast.If):
                    nm, op, thr = cmp_const(s.test, (inname,))
                    if not (len(s.body) == 1 and isinstance(s.body[0], ast.Return) and isinstance(s.body[0].value, ast.Name)
                            and s.body[0].value.id == inname):
                        raise Unrecognised('%s scalar guard does not return the input' % fn.name)
                    scalar_guard = (op, thr)
            for s in st.orelse:
                if isinstance(s, ast.Assign) and isinstance(s.targets[0], ast.Name) and s.targets[0].id == 'g':
                    nm, op, thr = cmp_const(s.value, (work,))
                    array_guard = (op, thr)
                if isinstance(s, ast.If):
                    t = s.test
                    if not (isinstance(t, ast.Call) and isinstance(t.func, ast.Attribute) and t.func.attr == 'all'
                            and isinstance(t.func.value, ast.Name) and t.func.value.id == 'g'
                            and len(s.body) == 1 and isinstance(s.body[0], ast.Return)
                            and isinstance(s.body[0].value, ast.Name) and s.body[0].value.id == inname):
                        raise Unrecognised('%s: g.all() shortcut' % fn.name)
        elif isinstance(st, ast.For):
            if not (isinstance(st.iter, ast.Call) and isinstance(st.iter.func, ast.Name) and st.iter.func.id == 'range'
                    and len(st.iter.args) == 1 and isinstance(st.iter.args[0], ast.Constant)
                    and isinstance(st.iter.args[0].value, int) and not st.orelse):
                raise Unrecognised('%s loop' % fn.name)
            asg = simple_assigns(st.body)
            if len(asg) != len(st.body):
                raise Unrecognised('%s loop body' % fn.name)
            loop = (st.iter.args[0].value, asg)
        elif isinstance(st, ast.Assign) and len(st.targets) == 1 and isinstance(st.targets[0], ast.Name) \
                and st.targets[0].id in ('sigma2', 'fact', result):
            v = st.value
            # result = np.where(g, work, result)[()]  is the restore step of the repaired shape
            w = v.value if isinstance(v, ast.Subscript) else v
            if isinstance(w, ast.Call) and call_name(w.func) == 'where':
                if not (len(w.args) == 3 and all(isinstance(a, ast.Name) for a in w.args)
                        and [a.id for a in w.args] == ['g', work, result]):
                    raise Unrecognised('%s: np.where restore' % fn.name)
                restore = True
            else:
                straight.append((st.targets[0].id, st.value, st.lineno))
        elif isinstance(st, ast.If) and isinstance(st.test, ast.Compare) and isinstance(st.test.left, ast.Name) \
                and st.test.left.id == 'g':
            for s in st.body:
                # result[g] = work[g]
                if isinstance(s, ast.Assign) and isinstance(s.targets[0], ast.Subscript):
                    tg, vl = s.targets[0], s.value
                    if isinstance(tg.value, ast.Name) and tg.value.id == result and isinstance(tg.slice, ast.Name) \
                            and tg.slice.id == 'g' and isinstance(vl, ast.Subscript) and isinstance(vl.value, ast.Name) \
                            and vl.value.id == work and isinstance(vl.slice, ast.Name) and vl.slice.id == 'g':
                        restore = True
                    else:
                        raise Unrecognised('%s: restore statement' % fn.name)
                elif isinstance(s, ast.Assign) and isinstance(s.targets[0], ast.Name) and s.targets[0].id == result:
                    w = s.value.value if isinstance(s.value, ast.Subscript) else s.value
                    if isinstance(w, ast.Call) and call_name(w.func) == 'where' and len(w.args) == 3 \
                            and all(isinstance(a, ast.Name) for a in w.args) and [a.id for a in w.args] == ['g', work, result]:
                        restore = True
                    else:
                        raise Unrecognised('%s: restore statement' % fn.name)
    if scalar_guard is None or array_guard is None:
        raise Unrecognised('%s: guards not found' % fn.name)
    if scalar_guard != array_guard:
        raise Unrecognised('%s: scalar and array guards differ (%s vs %s)' % (fn.name, scalar_guard, array_guard))
    if not restore:
        raise Unrecognised('%s: below-threshold values are not restored' % fn.name)
    info['guard'] = scalar_guard
    info['loop'] = loop
    info['straight'] = straight
    return info


def gen_airvac(src):
    tree = ast.parse(src)
    fa = find_function(tree, 'airtovac')
    fv = find_function(tree, 'vactoair')
    ia = wave_function(fa, 'air', 'a', 'vacuum')
    iv = wave_function(fv, 'vacuum', 'v', 'air')
    if ia['loop'] is None or ia['straight']:
        raise Unrecognised('airtovac: expected the update inside a for loop only')
    if iv['loop'] is not None:
        raise Unrecognised('vactoair: unexpected loop')
    niter, body = ia['loop']
    if [b[0] for b in body] != ['sigma2', 'fact', 'vacuum']:
        raise Unrecognised('airtovac loop body names %s' % [b[0] for b in body])
    if [b[0] for b in iv['straight']] != ['sigma2', 'fact', 'air']:
        raise Unrecognised('vactoair body names %s' % [b[0] for b in iv['straight']])
    out = []
    for mode, ty in (('Q', 'Q'), ('R', 'R')):
        sfx = '_' + mode
        out.append('(* ---- over %s ---- *)' % mode)
        out.append('Open Scope %s_scope.' % mode)
        # airtovac: sigma2(vacuum), fact(sigma2), vacuum' = a * fact
        sig = rexpr(body[0][1], {'vacuum': 'vacuum'}, mode)
        fac = rexpr(body[1][1], {'sigma2': 'sigma2'}, mode)
        upd = rexpr(body[2][1], {'a': 'a', 'fact': 'fact'}, mode)
        out.append('Definition airtovac_sigma2%s (vacuum : %s) : %s := %s.' % (sfx, ty, ty, sig))
        out.append('Definition airtovac_fact%s (sigma2 : %s) : %s :=\n  %s.' % (sfx, ty, ty, fac))
        out.append('Definition airtovac_update%s (a fact : %s) : %s := %s.' % (sfx, ty, ty, upd))
        out.append('Definition airtovac_step%s (a vacuum : %s) : %s :=\n'
                   '  airtovac_update%s a (airtovac_fact%s (airtovac_sigma2%s vacuum)).' % (sfx, ty, ty, sfx, sfx, sfx))
        sig = rexpr(iv['straight'][0][1], {'v': 'v'}, mode)
        fac = rexpr(iv['straight'][1][1], {'sigma2': 'sigma2'}, mode)
        upd = rexpr(iv['straight'][2][1], {'v': 'v', 'fact': 'fact'}, mode)
        out.append('Definition vactoair_sigma2%s (v : %s) : %s := %s.' % (sfx, ty, ty, sig))
        out.append('Definition vactoair_fact%s (sigma2 : %s) : %s :=\n  %s.' % (sfx, ty, ty, fac))
        out.append('Definition vactoair_update%s (v fact : %s) : %s := %s.' % (sfx, ty, ty, upd))
        out.append('Definition vactoair_body%s (v : %s) : %s :=\n'
                   '  vactoair_update%s v (vactoair_fact%s (vactoair_sigma2%s v)).' % (sfx, ty, ty, sfx, sfx, sfx))
        if mode == 'Q':
            out.append('Definition airtovac_guard_Q (x : Q) : bool := %s.' % guard_Q(*ia['guard']))
            out.append('Definition vactoair_guard_Q (x : Q) : bool := %s.' % guard_Q(*iv['guard']))
        else:
            d, p = guard_R(*ia['guard'])
            out.append('Definition airtovac_guard_R (x : R) : Prop := %s.' % p)
            out.append('Definition airtovac_guard_R_dec (x : R) : {airtovac_guard_R x} + {~ airtovac_guard_R x} := %s.' % d)
            d, p = guard_R(*iv['guard'])
            out.append('Definition vactoair_guard_R (x : R) : Prop := %s.' % p)
            out.append('Definition vactoair_guard_R_dec (x : R) : {vactoair_guard_R x} + {~ vactoair_guard_R x} := %s.' % d)
        out.append('Close Scope %s_scope.\n' % mode)
    out.append('Definition airtovac_iterations : nat := %d%%nat.\n' % niter)
    return out


def gen_flux2ab(src):
    tree = ast.parse(src)
    fn = find_function(tree, 'sdssflux2ab')
    corr = None
    mag_op = flux_op = None
    factor = ivar = None
    for st in fn.body:
        if isinstance(st, ast.Assign) and isinstance(st.targets[0], ast.Name) and st.targets[0].id == 'correction':
            v = st.value
            if not (isinstance(v, ast.Call) and call_name(v.func) == 'array' and len(v.args) == 1 and isinstance(v.args[0], ast.List)):
                raise Unrecognised('correction vector')
            corr = []
            for e in v.args[0].elts:
                if isinstance(e, ast.UnaryOp) and isinstance(e.op, ast.USub) and isinstance(e.operand, ast.Constant):
                    corr.append(-frac_of_const(e.operand.value))
                elif isinstance(e, ast.Constant):
                    corr.append(frac_of_const(e.value))
                else:
                    raise Unrecognised('correction element')
        if isinstance(st, ast.If) and isinstance(st.test, ast.Name) and st.test.id == 'magnitude':
            def row_update(stmts):
                for s in stmts:
                    if isinstance(s, ast.For) and len(s.body) == 1 and isinstance(s.body[0], ast.AugAssign):
                        a = s.body[0]
                        # every row: `for i in range(rows): abflux[i, :] op= ...`
                        it, tg = s.iter, a.target
                        if not (isinstance(it, ast.Call) and call_name(it.func) == 'range' and len(it.args) == 1
                                and isinstance(it.args[0], ast.Name) and it.args[0].id == 'rows' and isinstance(s.target, ast.Name)):
                            raise Unrecognised('row update loop does not run over range(rows)')
                        if not (isinstance(tg, ast.Subscript) and isinstance(tg.value, ast.Name) and tg.value.id == 'abflux'
                                and isinstance(tg.slice, ast.Tuple) and len(tg.slice.elts) == 2 and isinstance(tg.slice.elts[0], ast.Name)
                                and tg.slice.elts[0].id == s.target.id and isinstance(tg.slice.elts[1], ast.Slice)
                                and tg.slice.elts[1].lower is None and tg.slice.elts[1].upper is None and tg.slice.elts[1].step is None):
                            raise Unrecognised('row update target is not abflux[i, :]')
                        if isinstance(a.value, ast.Name):
                            return type(a.op), a.value.id
                raise Unrecognised('row update loop')
            op, nm = row_update(st.body)
            if op is not ast.Add or nm != 'correction':
                raise Unrecognised('magnitude branch is not += correction')
            mag_op = '+'
            op, nm = row_update(st.orelse)
            if op is not ast.Mult or nm != 'factor':
                raise Unrecognised('flux branch is not *= factor')
            flux_op = '*'
            for s in st.orelse:
                if isinstance(s, ast.Assign) and isinstance(s.targets[0], ast.Name) and s.targets[0].id == 'factor':
                    factor = s.value
                if isinstance(s, ast.If) and isinstance(s.test, ast.Name) and s.test.id == 'ivar':
                    a = simple_assigns(s.body)
                    if len(a) != 1 or a[0][0] != 'factor' or s.orelse:
                        raise Unrecognised('ivar branch')
                    ivar = a[0][1]
    if corr is None or mag_op is None or factor is None or ivar is None:
        raise Unrecognised('sdssflux2ab shape')
    shape_ok = any(isinstance(st, ast.Assign) and isinstance(st.targets[0], ast.Tuple) and [getattr(e, 'id', None) for e in st.targets[0].elts] == ['rows', 'cols']
                   and isinstance(st.value, ast.Attribute) and st.value.attr == 'shape' and isinstance(st.value.value, ast.Name) and st.value.value.id == 'flux'
                   for st in fn.body)
    if not shape_ok:
        raise Unrecognised('sdssflux2ab: rows, cols = flux.shape')
    if len(corr) != 5:
        raise Unrecognised('correction vector length %d' % len(corr))
    # the two boolean keywords: `magnitude=False, ivar=False`, selected by their truth value (`if magnitude:` / `if ivar:` matched above)
    names = [a.arg for a in fn.args.args]
    dflt = [d.value if isinstance(d, ast.Constant) else d for d in fn.args.defaults]
    if names != ['flux', 'magnitude', 'ivar'] or dflt != [False, False] or not all(d is False for d in dflt) or fn.args.kwonlyargs or fn.args.vararg or fn.args.kwarg:
        raise Unrecognised('sdssflux2ab signature %s defaults %s' % (names, [ast.dump(d) if isinstance(d, ast.AST) else d for d in dflt]))
    # factor = B ** (E)   with constant base
    if not (isinstance(factor, ast.BinOp) and isinstance(factor.op, ast.Pow) and isinstance(factor.left, ast.Constant)):
        raise Unrecognised('factor is not const ** expr')
    base = frac_of_const(factor.left.value)
    if base <= 0:
        raise Unrecognised('factor base')
    expo = rexpr(factor.right, {'correction': 'c'}, 'R')
    iv = rexpr(ivar, {'factor': 'factor'}, 'R')
    out = ['(* sdssflux2ab, pydl/photoop/sdssio.py line %d *)' % fn.lineno,
           'Open Scope Q_scope.',
           'Definition flux2ab_correction : list Q := [%s].' % '; '.join(lit(c, 'Q') for c in corr),
           'Close Scope Q_scope.',
           'Open Scope R_scope.',
           'Definition flux2ab_factor (c : R) : R := Rpower %s %s.' % (lit(base, 'R'), expo),
           'Definition flux2ab_ivar_factor (factor : R) : R := %s.' % iv,
           'Definition flux2ab_mag (m c : R) : R := m + c.',
           'Definition flux2ab_flux (f factor : R) : R := f * factor.',
           'Close Scope R_scope.', '']
    return out


def gen_filter_norm(src):
    tree = ast.parse(src)
    fn = find_function(tree, 'filter_thru')
    found = None
    masked_sum = plain_sum = None
    for n in ast.walk(fn):
        if isinstance(n, ast.Assign) and len(n.targets) == 1 and isinstance(n.targets[0], ast.Subscript) \
                and isinstance(n.targets[0].value, ast.Name) and n.targets[0].value.id == 'res':
            v = n.value
            if isinstance(v, ast.BinOp) and isinstance(v.op, ast.Div):
                found = v
            elif isinstance(v, ast.Call) and isinstance(v.func, ast.Attribute) and v.func.attr == 'sum':
                b = v.func.value
                if isinstance(b, ast.BinOp) and isinstance(b.op, ast.Mult) and isinstance(b.left, ast.Name) \
                        and isinstance(b.right, ast.Name) and b.right.id == 'filtimg':
                    if b.left.id == 'flux_interp':
                        masked_sum = True
                    elif b.left.id == 'flux':
                        plain_sum = True
    if found is None or not masked_sum or not plain_sum:
        raise Unrecognised('filter_thru: weighted sums / normalisation not found')
    # res[:, i] / (sumfilt + (sumfilt <= 0).astype(...))
    num, den = found.left, found.right
    if not (isinstance(num, ast.Subscript) and isinstance(num.value, ast.Name) and num.value.id == 'res'):
        raise Unrecognised('filter_thru: numerator')

    def hookQ(node):
        if isinstance(node, ast.Call) and isinstance(node.func, ast.Attribute) and node.func.attr == 'astype':
            c = node.func.value
            if isinstance(c, ast.Compare) and len(c.ops) == 1 and isinstance(c.left, ast.Name) and c.left.id == 'sumfilt' \
                    and isinstance(c.comparators[0], ast.Constant):
                thr = lit(frac_of_const(c.comparators[0].value), 'Q')
                if isinstance(c.ops[0], ast.LtE):
                    return '(if Qle_bool sumfilt %s then 1 else 0)' % thr
                if isinstance(c.ops[0], ast.Lt):
                    return '(if negb (Qle_bool %s sumfilt) then 1 else 0)' % thr
            raise Unrecognised('filter_thru: guard in the denominator')
        return None
    den_t = rexpr(den, {'sumfilt': 'sumfilt'}, 'Q', hookQ)
    # ---- the pixel-width factor: `pixnorm, logdiff = traceset2xy(diffset)` followed by zero or more `logdiff = f(logdiff)`
    start = None
    for k, st in enumerate(fn.body):
        if isinstance(st, ast.Assign) and isinstance(st.targets[0], ast.Tuple) and len(st.targets[0].elts) == 2 \
                and isinstance(st.targets[0].elts[1], ast.Name) and st.targets[0].elts[1].id == 'logdiff' \
                and isinstance(st.value, ast.Call) and call_name(st.value.func) == 'traceset2xy':
            start = k
    if start is None:
        raise Unrecognised('filter_thru: logdiff is not taken from traceset2xy')
    logdiff_t = 'fitted'
    for st in fn.body[start + 1:]:
        if isinstance(st, ast.Assign) and len(st.targets) == 1 and isinstance(st.targets[0], ast.Name) \
                and st.targets[0].id == 'logdiff':
            v = st.value
            if isinstance(v, ast.Call) and call_name(v.func) in ('absolute', 'abs', 'fabs') and len(v.args) == 1 \
                    and isinstance(v.args[0], ast.Name) and v.args[0].id == 'logdiff' and not v.keywords:
                logdiff_t = '(Qabs %s)' % logdiff_t
            else:
                logdiff_t = rexpr(v, {'logdiff': logdiff_t}, 'Q')
    # ---- the weight image: filtimg = logdiff * <interpolated response>
    weight_t = None
    for n in ast.walk(fn):
        if isinstance(n, ast.Assign) and len(n.targets) == 1 and isinstance(n.targets[0], ast.Name) \
                and n.targets[0].id == 'filtimg':
            v = n.value
            if not (isinstance(v, ast.BinOp) and isinstance(v.op, ast.Mult)):
                raise Unrecognised('filter_thru: filtimg is not a product')

            def is_interp(e):
                return any(isinstance(c, ast.Call) and call_name(c.func) == 'interp' for c in ast.walk(e))
            sides = []
            for side in (v.left, v.right):
                if isinstance(side, ast.Name) and side.id == 'logdiff':
                    sides.append('logdiff')
                elif is_interp(side) and 'logdiff' not in {m.id for m in ast.walk(side) if isinstance(m, ast.Name)} - {'logdiff'} \
                        and not any(isinstance(m, ast.BinOp) for m in ast.walk(side)):
                    sides.append('resp')
                else:
                    raise Unrecognised('filter_thru: factor of filtimg')
            if sorted(sides) != ['logdiff', 'resp']:
                raise Unrecognised('filter_thru: filtimg factors %s' % sides)
            weight_t = '%s * %s' % tuple(sides)
    if weight_t is None:
        raise Unrecognised('filter_thru: filtimg not found')
    out = ['(* filter_thru, pydl/pydlspec2d/spec2d.py line %d: res = sum(flux * filtimg) / denominator *)' % fn.lineno,
           'Open Scope Q_scope.',
           'Definition filter_norm (res sumfilt : Q) : Q := res / %s.' % den_t,
           '(* pixel width d(log lambda): the fitted trace-set value as the source post-processes it; weight = width * response *)',
           'Definition filter_logdiff (fitted : Q) : Q := %s.' % logdiff_t,
           'Definition filter_weight (logdiff resp : Q) : Q := %s.' % weight_t,
           'Close Scope Q_scope.', '']
    return out


# ----------------------------------------------------------------------------------------------------------------
# masked pixels: pydl/pydlutils/image.py djs_maskinterp1 (the route filter_thru takes: xval None, const False) and the
# call `djs_maskinterp(flux, mask, axis=0)` in filter_thru
# ----------------------------------------------------------------------------------------------------------------

def mask_pred(node, what):
    """`mask <op> const` -> Gallina bool over the mask value m : Q"""
    if isinstance(node, ast.Compare) and len(node.ops) == 1 and isinstance(node.left, ast.Name) and node.left.id == 'mask' \
            and isinstance(node.comparators[0], ast.Constant):
        c = lit(frac_of_const(node.comparators[0].value), 'Q')
        op = type(node.ops[0])
        table = {ast.Eq: 'Qeq_bool m %s', ast.NotEq: 'negb (Qeq_bool m %s)', ast.Gt: 'negb (Qle_bool m %s)',
                 ast.GtE: 'Qle_bool %s m', ast.Lt: 'negb (Qle_bool %s m)', ast.LtE: 'Qle_bool m %s'}
        if op not in table:
            raise Unrecognised('djs_maskinterp1: comparison in %s' % what)
        return table[op] % c
    raise Unrecognised('djs_maskinterp1: %s is not a comparison of mask with a constant' % what)


def nonzero0(v):
    """X.nonzero()[0] -> X"""
    if isinstance(v, ast.Subscript) and isinstance(v.slice, ast.Constant) and v.slice.value == 0 \
            and isinstance(v.value, ast.Call) and isinstance(v.value.func, ast.Attribute) and v.value.func.attr == 'nonzero' \
            and not v.value.args:
        return v.value.func.value
    return None


def gen_maskinterp(image_src, spec2d_src):
    tree = ast.parse(image_src)
    fn = find_function(tree, 'djs_maskinterp1')
    args = [a.arg for a in fn.args.args]
    if args != ['yval', 'mask', 'xval', 'const']:
        raise Unrecognised('djs_maskinterp1 arguments %s' % args)
    good = bad = None
    dispatch = []       # (condition text, code) in source order; code 0 = the input row, 1 = constant at the first good value
    interp_seen = False
    body = [st for st in fn.body if not (isinstance(st, ast.Expr) and isinstance(st.value, ast.Constant))]
    for st in body:
        if isinstance(st, ast.Assign) and len(st.targets) == 1 and isinstance(st.targets[0], ast.Name):
            nm, v = st.targets[0].id, st.value
            if nm == 'good':
                good = mask_pred(v, 'good')
            elif nm == 'ngood':
                if not (isinstance(v, ast.Call) and isinstance(v.func, ast.Attribute) and v.func.attr == 'sum' and not v.args
                        and isinstance(v.func.value, ast.Name) and v.func.value.id == 'good'):
                    raise Unrecognised('djs_maskinterp1: ngood')
            elif nm == 'igood':
                b = nonzero0(v)
                if not (isinstance(b, ast.Name) and b.id == 'good'):
                    raise Unrecognised('djs_maskinterp1: igood')
            elif nm == 'ibad':
                b = nonzero0(v)
                if b is None:
                    raise Unrecognised('djs_maskinterp1: ibad')
                bad = mask_pred(b, 'ibad')
            elif nm == 'ynew':
                if not (isinstance(v, ast.Call) and isinstance(v.func, ast.Attribute) and v.func.attr == 'astype'
                        and isinstance(v.func.value, ast.Name) and v.func.value.id == 'yval'):
                    raise Unrecognised('djs_maskinterp1: ynew')
            elif nm == 'ny':
                pass
            else:
                raise Unrecognised('djs_maskinterp1: assignment to %s' % nm)
        elif isinstance(st, ast.If):
            t = st.test
            if isinstance(t, ast.Compare) and isinstance(t.left, ast.Name) and t.left.id == 'xval' and isinstance(t.ops[0], ast.Is):
                # xval is None: ynew[ibad] = np.interp(ibad, igood, ynew[igood])
                s0 = st.body[0]
                ok = isinstance(s0, ast.Assign) and isinstance(s0.targets[0], ast.Subscript) \
                    and isinstance(s0.targets[0].value, ast.Name) and s0.targets[0].value.id == 'ynew' \
                    and isinstance(s0.targets[0].slice, ast.Name) and s0.targets[0].slice.id == 'ibad' \
                    and isinstance(s0.value, ast.Call) and call_name(s0.value.func) == 'interp' and len(s0.value.args) == 3 \
                    and not s0.value.keywords
                if ok:
                    a0, a1, a2 = s0.value.args
                    ok = isinstance(a0, ast.Name) and a0.id == 'ibad' and isinstance(a1, ast.Name) and a1.id == 'igood' \
                        and isinstance(a2, ast.Subscript) and isinstance(a2.value, ast.Name) and a2.value.id == 'ynew' \
                        and isinstance(a2.slice, ast.Name) and a2.slice.id == 'igood'
                if not ok:
                    raise Unrecognised('djs_maskinterp1: interpolation statement')
                for s in st.body[1:]:
                    if not (isinstance(s, ast.If) and isinstance(s.test, ast.Name) and s.test.id == 'const'):
                        raise Unrecognised('djs_maskinterp1: statement after the interpolation')
                interp_seen = True
                continue
            if interp_seen:
                raise Unrecognised('djs_maskinterp1: branch after the interpolation')
            # early exits
            if isinstance(t, ast.Call) and isinstance(t.func, ast.Attribute) and t.func.attr == 'all' and not t.args \
                    and isinstance(t.func.value, ast.Name) and t.func.value.id == 'good':
                cond = 'all_good'
            elif isinstance(t, ast.Compare) and len(t.ops) == 1 and isinstance(t.left, ast.Name) and t.left.id == 'ngood' \
                    and isinstance(t.ops[0], ast.Eq) and isinstance(t.comparators[0], ast.Constant) \
                    and isinstance(t.comparators[0].value, int):
                cond = 'Z.eqb ngood (%d)%%Z' % t.comparators[0].value
            else:
                raise Unrecognised('djs_maskinterp1: early-exit test')
            if good is None or st.orelse or len(st.body) != 1 or not isinstance(st.body[0], ast.Return):
                raise Unrecognised('djs_maskinterp1: early-exit body')
            rv = st.body[0].value
            if isinstance(rv, ast.Name) and rv.id == 'yval':
                code = 0
            elif isinstance(rv, ast.BinOp) and isinstance(rv.op, ast.Add) and isinstance(rv.left, ast.Call) \
                    and call_name(rv.left.func) == 'zeros' and isinstance(rv.right, ast.Subscript) \
                    and isinstance(rv.right.value, ast.Name) and rv.right.value.id == 'yval' \
                    and isinstance(rv.right.slice, ast.Subscript) and isinstance(rv.right.slice.value, ast.Name) \
                    and rv.right.slice.value.id == 'igood' and isinstance(rv.right.slice.slice, ast.Constant) \
                    and rv.right.slice.slice.value == 0:
                code = 1
            else:
                raise Unrecognised('djs_maskinterp1: early-exit value')
            dispatch.append((cond, code))
        elif isinstance(st, ast.Return):
            if not (isinstance(st.value, ast.Name) and st.value.id == 'ynew' and interp_seen):
                raise Unrecognised('djs_maskinterp1: final return')
        else:
            raise Unrecognised('djs_maskinterp1: statement %s' % type(st).__name__)
    if good is None or bad is None or not interp_seen:
        raise Unrecognised('djs_maskinterp1: good / ibad / interpolation not found')
    # ---- djs_maskinterp, two dimensions, xval None, axis == 0: one djs_maskinterp1 call per row on yval[i, :], mask[i, :]
    fm = find_function(tree, 'djs_maskinterp')
    rowwise = False
    for n in ast.walk(fm):
        if isinstance(n, ast.If) and isinstance(n.test, ast.Compare) and isinstance(n.test.left, ast.Name) and n.test.left.id == 'axis' \
                and isinstance(n.test.ops[0], ast.Eq) and isinstance(n.test.comparators[0], ast.Constant) and n.test.comparators[0].value == 0:
            loop = n.body[0] if n.body else None
            if isinstance(loop, ast.For) and len(loop.body) == 1 and isinstance(loop.body[0], ast.Assign):
                a = loop.body[0]
                call = a.value
                if isinstance(call, ast.Call) and call_name(call.func) == 'djs_maskinterp1' and len(call.args) == 2 \
                        and not any(k.arg == 'xval' for k in call.keywords):
                    def row(e, nm):
                        return isinstance(e, ast.Subscript) and isinstance(e.value, ast.Name) and e.value.id == nm \
                            and isinstance(e.slice, ast.Tuple) and len(e.slice.elts) == 2 \
                            and isinstance(e.slice.elts[0], ast.Name) and e.slice.elts[0].id == loop.target.id \
                            and isinstance(e.slice.elts[1], ast.Slice) and e.slice.elts[1].lower is None and e.slice.elts[1].upper is None
                    it = loop.iter
                    shape0 = isinstance(it, ast.Call) and call_name(it.func) == 'range' and len(it.args) == 1 \
                        and isinstance(it.args[0], ast.Subscript) and isinstance(it.args[0].slice, ast.Constant) and it.args[0].slice.value == 0
                    if row(a.targets[0], 'ynew') and row(call.args[0], 'yval') and row(call.args[1], 'mask') and shape0:
                        rowwise = True
                        break
    if not rowwise:
        raise Unrecognised('djs_maskinterp: the axis == 0 loop is not one djs_maskinterp1 call per row')
    # ---- filter_thru: flux_interp = djs_maskinterp(flux, mask, axis=0) under `if mask is not None`
    ft = find_function(ast.parse(spec2d_src), 'filter_thru')
    call_ok = False
    for n in ast.walk(ft):
        if isinstance(n, ast.Assign) and isinstance(n.targets[0], ast.Name) and n.targets[0].id == 'flux_interp':
            c = n.value
            if isinstance(c, ast.Call) and call_name(c.func) == 'djs_maskinterp' and len(c.args) == 2 \
                    and all(isinstance(a, ast.Name) for a in c.args) and [a.id for a in c.args] == ['flux', 'mask'] \
                    and len(c.keywords) == 1 and c.keywords[0].arg == 'axis' and isinstance(c.keywords[0].value, ast.Constant) \
                    and c.keywords[0].value.value == 0:
                call_ok = True
    if not call_ok:
        raise Unrecognised('filter_thru: flux_interp is not djs_maskinterp(flux, mask, axis=0)')
    d = ''
    for cond, code in dispatch:
        d += 'if %s then %d else ' % (cond, code)
    d += '2'
    return ['(* masked pixels, pydl/pydlutils/image.py djs_maskinterp1 line %d (xval None, const False), called per row by' % fn.lineno,
            '   djs_maskinterp(flux, mask, axis=0) in filter_thru.  Mask values are rationals (integers, bools, floats alike). *)' ,
            'Open Scope Q_scope.',
            'Definition maskinterp_good (m : Q) : bool := %s.' % good,
            'Definition maskinterp_bad (m : Q) : bool := %s.' % bad,
            '(* early exits in source order: 0 = the input row is returned, 1 = constant at the first good value, 2 = np.interp *)',
            'Definition maskinterp_dispatch (all_good : bool) (ngood : Z) : Z := (%s)%%Z.' % d,
            'Close Scope Q_scope.', '']


# ----------------------------------------------------------------------------------------------------------------
# filter response curves: the files filter_thru reads and the two columns it hands to np.interp
# ----------------------------------------------------------------------------------------------------------------

def gen_filter_curves(repo, spec2d_src):
    import fractions
    ft = find_function(ast.parse(spec2d_src), 'filter_thru')
    # default filter_prefix
    names = [a.arg for a in ft.args.args]
    defaults = dict(zip(names[len(names) - len(ft.args.defaults):], ft.args.defaults))
    if 'filter_prefix' not in defaults or not isinstance(defaults['filter_prefix'], ast.Constant):
        raise Unrecognised('filter_thru: filter_prefix default')
    prefix = defaults['filter_prefix'].value
    fmt = bands = None
    colnames = None
    xcol = ycol = xarg = None
    for n in ast.walk(ft):
        if isinstance(n, ast.ListComp) and isinstance(n.elt, ast.Call):
            g = n.generators[0]
            if isinstance(g.iter, ast.Constant) and isinstance(g.iter.value, str):
                for c in ast.walk(n.elt):
                    if isinstance(c, ast.Call) and isinstance(c.func, ast.Attribute) and c.func.attr == 'format' \
                            and isinstance(c.func.value, ast.Constant) and isinstance(c.func.value.value, str) \
                            and len(c.args) == 2 and isinstance(c.args[0], ast.Name) and c.args[0].id == 'filter_prefix' \
                            and isinstance(c.args[1], ast.Name) and c.args[1].id == g.target.id:
                        fmt, bands = c.func.value.value, g.iter.value
        if isinstance(n, ast.Call) and isinstance(n.func, ast.Attribute) and n.func.attr == 'read':
            for k in n.keywords:
                if k.arg == 'names' and isinstance(k.value, ast.Tuple) and all(isinstance(e, ast.Constant) for e in k.value.elts):
                    colnames = [e.value for e in k.value.elts]
        if isinstance(n, ast.Call) and call_name(n.func) == 'interp' and len(n.args) == 3:
            def col(e):
                # filter_data['lam'].data
                if isinstance(e, ast.Attribute) and e.attr == 'data':
                    e = e.value
                if isinstance(e, ast.Subscript) and isinstance(e.value, ast.Name) and e.value.id == 'filter_data' \
                        and isinstance(e.slice, ast.Constant) and isinstance(e.slice.value, str):
                    return e.slice.value
                return None
            xcol, ycol = col(n.args[1]), col(n.args[2])
            xn = {m.id for m in ast.walk(n.args[0]) if isinstance(m, ast.Name)}
            xarg = sorted(xn)
    if fmt is None or colnames is None or xcol is None or ycol is None:
        raise Unrecognised('filter_thru: filter files / columns not found')
    if xarg != ['newwaveimg']:
        raise Unrecognised('filter_thru: the response is not interpolated at newwaveimg (%s)' % xarg)
    if xcol not in colnames or ycol not in colnames:
        raise Unrecognised('filter_thru: column names')
    ix, iy = colnames.index(xcol), colnames.index(ycol)
    # the guard on filter_prefix pins the prefix to the default
    out = ['(* filter response curves: columns %r, %r of %s for bands %r, as np.interp receives them *)' % (xcol, ycol, fmt.format(prefix, '*'), bands),
           'Open Scope Q_scope.']
    cn = []
    for b in bands:
        rel = os.path.join('pydl/pydlutils', fmt.format(prefix, b))
        rows = []
        for line in open(os.path.join(repo, rel)):
            t = line.strip()
            if not t or t.startswith('#'):
                continue
            f = t.split()
            if len(f) != len(colnames):
                raise Unrecognised('%s: row with %d columns' % (rel, len(f)))
            rows.append((fractions.Fraction(f[ix]), fractions.Fraction(f[iy])))
        if len(rows) < 2 or any(a[0] >= b_[0] for a, b_ in zip(rows, rows[1:])):
            raise Unrecognised('%s: abscissae not strictly increasing' % rel)
        nm = 'filter_curve_%s' % b
        cn.append(nm)
        out.append('Definition %s : list (Q * Q) :=\n  [%s].' % (nm, ';\n   '.join(
            '; '.join('(%s, %s)' % (lit(x, 'Q'), lit(y, 'Q')) for x, y in rows[k:k + 6]) for k in range(0, len(rows), 6))))
    out.append('Definition filter_curves : list (list (Q * Q)) := [%s].' % '; '.join(cn))
    out.append('Close Scope Q_scope.')
    out.append('')
    return out


def generate(repo):
    info = {'recognised': True, 'detail': []}
    out = ['(* GENERATED by translate/c19.py from pydl/goddard/astro.py, pydl/photoop/sdssio.py, pydl/pydlspec2d/spec2d.py, pydl/pydlutils/image.py, pydl/pydlutils/data/filters -- do not edit *)',
           'From Coq Require Import Reals QArith Qabs List Bool ZArith.', 'Import ListNotations.', '']
    try:
        out += gen_airvac(open(os.path.join(repo, 'pydl/goddard/astro.py')).read())
        out += gen_flux2ab(open(os.path.join(repo, 'pydl/photoop/sdssio.py')).read())
        spec2d_src = open(os.path.join(repo, 'pydl/pydlspec2d/spec2d.py')).read()
        out += gen_filter_norm(spec2d_src)
        out += gen_maskinterp(open(os.path.join(repo, 'pydl/pydlutils/image.py')).read(), spec2d_src)
        out += gen_filter_curves(repo, spec2d_src)
    except (Unrecognised, SyntaxError, OSError) as e:
        info['recognised'] = False
        info['detail'].append('%s: %s' % (type(e).__name__, e))
        return None, info
    return '\n'.join(out) + '\n', info


if __name__ == '__main__':
    import sys
    text, info = generate(sys.argv[1] if len(sys.argv) > 1 else '/repo')
    print(info)
    print(text)
