(* Yanny/LayoutFile2.v -- file-level layout independence including the token layout INSIDE data rows:
   on top of LayoutFile (decorations, inserted lines) every data row may be written in any admissible token
   layout (LayoutRow: blank runs, bare / quoted strings, padding inside array braces, any case of the name). *)
From Coq Require Import NArith ZArith List Bool Lia.
Import ListNotations.
From PV Require Import Yanny.Bytes Yanny.BytesFacts Yanny.Types Yanny.Parse Yanny.Render
  Yanny.TokenFacts Yanny.RowFacts Yanny.TypeFacts Yanny.DocFacts Yanny.LayoutFacts Yanny.ScanFacts Yanny.StructFacts
  Yanny.EnumFacts Yanny.DtypeFacts Yanny.FileFacts Yanny.RoundTrip Yanny.LayoutFile Yanny.LayoutRow.
Open Scope N_scope.

(* ---------------------------------------------------------------- lines equivalent for a given symbol table *)
Inductive ldec (sy : symtab) : list bytes -> list bytes -> Prop :=
  | ld_nil : ldec sy [] []
  | ld_skip l Ds Ls : all_ws l = true \/ starts_with [HASH] (lstrip l) = true -> ldec sy Ds Ls -> ldec sy (l :: Ds) Ls
  | ld_equiv l' l Ds Ls : (forall st, process_line sy st l' = process_line sy st l) -> ldec sy Ds Ls -> ldec sy (l' :: Ds) (l :: Ls).

Theorem ldec_same_state sy Ds Ls : ldec sy Ds Ls -> forall st, process_lines sy st Ds = process_lines sy st Ls.
Proof.
  induction 1 as [|l Ds Ls Hl _ IH|l' l Ds Ls He _ IH]; intros st; [reflexivity| |].
  - cbn [process_lines]. rewrite blank_and_comment_lines_skipped by auto. apply IH.
  - cbn [process_lines]. rewrite He. destruct (process_line sy st l); auto.
Qed.

(* ---------------------------------------------------------------- a laid-out row is plain text *)
Definition sform_plain (f : sform) : bool :=
  match f with FBraced lead => blank lead | FDouble w1 w2 w3 => blank w1 && blank w2 && blank w3 | _ => true end.
Definition lcell_plain (c : lcell) : bool :=
  match c with
  | LSc v f => sval_str_ok v && sform_plain f
  | LAr lead es => blank lead && forallb (fun x : sval * bool * bytes => sval_str_ok (fst (fst x)) && blank (snd x)) es
  end.
Definition cells_plain (cells : list (bytes * lcell)) : bool := forallb (fun gc => blank (fst gc) && lcell_plain (snd gc)) cells.
(* the line must not end in a backslash: a bare scalar in the last position *)
Definition lrow_end_ok (cells : list (bytes * lcell)) : bool :=
  match rev cells with (_, LSc v FBare) :: _ => negb (ends_bsl (show_sval v)) | _ => true end.

Lemma pform_plain q s : forallb printable s = true -> no_td s = true ->
  forallb printable (pform q s) = true /\ (forall c r, sep_ok c = true -> no_td r = true -> no_td (pform q s ++ c :: r) = true).
Proof.
  intros Hp Ht. unfold pform. destruct q.
  - split; [cbn [forallb]; rewrite forallb_app, Hp; reflexivity|]. intros c r Hc Hr. cbn [app].
    apply no_td_cons; [reflexivity|]. rewrite <- app_assoc. cbn [app]. apply no_td_sep; auto. now apply no_td_cons.
  - split; auto. intros c r Hc Hr. now apply no_td_sep.
Qed.

Lemma stext_plain f s : forallb printable s = true -> no_td s = true -> sform_ok f s = true -> sform_plain f = true ->
  forallb printable (stext f s) = true /\ (forall c r, sep_ok c = true -> no_td r = true -> no_td (stext f s ++ c :: r) = true).
Proof.
  intros Hp Ht Hf Hb. destruct f as [| |lead|w1 w2 w3]; cbn [stext sform_plain] in *.
  - apply (pform_plain false); auto.
  - apply (pform_plain true); auto.
  - split.
    + cbn [forallb]. rewrite !forallb_app, (blank_printable _ Hb), Hp. reflexivity.
    + intros c r Hc Hr. cbn [app]. apply no_td_cons; [reflexivity|]. rewrite <- !app_assoc. apply blank_no_td; auto.
      cbn [app]. apply no_td_sep; auto. now apply no_td_cons.
  - apply andb_true_iff in Hb as [Hb H3]. apply andb_true_iff in Hb as [H1 H2]. split.
    + change (LBRACE :: w1 ++ LBRACE :: w2 ++ RBRACE :: w3 ++ [RBRACE]) with ([LBRACE] ++ w1 ++ [LBRACE] ++ w2 ++ [RBRACE] ++ w3 ++ [RBRACE]).
      rewrite !forallb_app, (blank_printable _ H1), (blank_printable _ H2), (blank_printable _ H3). reflexivity.
    + intros c r Hc Hr. cbn [app]. apply no_td_cons; [reflexivity|]. rewrite <- !app_assoc. apply blank_no_td; auto.
      cbn [app]. apply no_td_cons; [reflexivity|]. rewrite <- !app_assoc. apply blank_no_td; auto.
      cbn [app]. apply no_td_cons; [reflexivity|]. rewrite <- !app_assoc. apply blank_no_td; auto.
      cbn [app]. apply no_td_cons; [reflexivity|]. now apply no_td_cons.
Qed.

Lemma blank_sep g r : blank g = true -> g <> [] -> no_td r = true -> exists c t, g ++ r = c :: t /\ sep_ok c = true /\ no_td t = true.
Proof.
  intros Hb Hn Hr. destruct g as [|c g]; [congruence|]. cbn [blank forallb] in Hb. apply andb_true_iff in Hb as [Hc Hg].
  exists c, (g ++ r). split; [reflexivity|]. split; [|now apply blank_no_td].
  apply orb_true_iff in Hc as [E|E]; apply N.eqb_eq in E; subst; reflexivity.
Qed.

Lemma body_plain es : elems_ok (map elem_of es) = true ->
  forallb (fun x : sval * bool * bytes => sval_str_ok (fst (fst x)) && blank (snd x)) es = true ->
  forallb printable (body (map elem_of es)) = true /\
  (forall r, no_td r = true -> no_td (body (map elem_of es) ++ RBRACE :: r) = true).
Proof.
  induction es as [|x es IH]; intros He Hp; [split; [reflexivity|intros r Hr; now apply no_td_cons]|].
  cbn [map] in He. destruct (elems_ok_cons _ _ He) as [_ [_ [_ [_ [Hne Hes]]]]].
  cbn [forallb] in Hp. apply andb_true_iff in Hp as [Hx Hps]. apply andb_true_iff in Hx as [Hv Hb].
  destruct (show_sval_plain _ Hv) as [P1 T1]. destruct (pform_plain (snd (fst x)) _ P1 T1) as [PP TT].
  destruct (IH Hes Hps) as [IP IT]. unfold body in *. cbn [map concat elem_of e_text fst snd]. split.
  - rewrite !forallb_app, PP, (blank_printable _ Hb). exact IP.
  - intros r Hr. rewrite <- !app_assoc. specialize (IT r Hr).
    destruct (snd x) as [|c g] eqn:G.
    + (* no gap: this is the last element, the brace follows *)
      destruct es as [|y es']; [|exfalso; apply Hne; [discriminate|cbn [elem_of snd]; exact G]].
      cbn [map concat app]. apply TT; [reflexivity|exact Hr].
    + cbn [app]. cbn [blank forallb] in Hb. apply andb_true_iff in Hb as [Hc Hg]. apply TT.
      * apply orb_true_iff in Hc as [E|E]; apply N.eqb_eq in E; subst; reflexivity.
      * apply blank_no_td; auto.
Qed.

Lemma rcell_plain c : lcell_ok c = true -> lcell_plain c = true ->
  forallb printable (rcell c) = true /\ (forall c0 r, sep_ok c0 = true -> no_td r = true -> no_td (rcell c ++ c0 :: r) = true).
Proof.
  destruct c as [v f|lead es]; cbn [lcell_ok lcell_plain rcell]; intros Hok Hp.
  - apply andb_true_iff in Hok as [_ Hf]. apply andb_true_iff in Hp as [Hv Hb].
    destruct (show_sval_plain _ Hv) as [P1 T1]. now apply stext_plain.
  - apply andb_true_iff in Hok as [Hok _]. apply andb_true_iff in Hok as [_ He]. apply andb_true_iff in Hp as [Hl Hes].
    destruct (body_plain es He Hes) as [BP BT]. split.
    + cbn [forallb]. rewrite !forallb_app, (blank_printable _ Hl), BP. reflexivity.
    + intros c0 r Hc Hr. cbn [app]. apply no_td_cons; [reflexivity|]. rewrite <- !app_assoc. apply blank_no_td; auto.
      cbn [app]. apply BT. now apply no_td_cons.
Qed.

Lemma rtext_plain cells : cells_ok cells = true -> cells_plain cells = true ->
  forallb printable (rtext cells) = true /\ no_td (rtext cells ++ [NL]) = true.
Proof.
  induction cells as [|[g c] cells IH]; intros Hok Hp; [split; reflexivity|].
  destruct (cells_ok_cons _ _ _ Hok) as [_ [Hgn [Hc Hcs]]]. unfold cells_plain in Hp. cbn [forallb fst snd] in Hp.
  apply andb_true_iff in Hp as [Hx Hps]. apply andb_true_iff in Hx as [Hb Hcp].
  destruct (rcell_plain c Hc Hcp) as [RP RT]. destruct (IH Hcs Hps) as [IP IT].
  unfold rtext in *. cbn [map concat fst snd]. split.
  - rewrite !forallb_app, (blank_printable _ Hb), RP. exact IP.
  - rewrite <- !app_assoc. apply blank_no_td; auto.
    destruct cells as [|[g' c'] cells'].
    + cbn [map concat app]. apply RT; reflexivity.
    + destruct (cells_ok_cons _ _ _ Hcs) as [_ [Hgn' _]]. unfold cells_plain in Hps. cbn [forallb fst snd] in Hps.
      apply andb_true_iff in Hps as [Hx' _]. apply andb_true_iff in Hx' as [Hb' _].
      cbn [map concat fst snd] in *. rewrite <- !app_assoc in *.
      destruct g' as [|x g']; [congruence|]. cbn [app] in *. cbn [blank forallb] in Hb'. apply andb_true_iff in Hb' as [Hx Hg'].
      apply RT.
      * apply orb_true_iff in Hx as [E|E]; apply N.eqb_eq in E; subst; reflexivity.
      * (* the tail after the first blank of the next gap *)
        assert (Hs : sep_ok x = true) by (apply orb_true_iff in Hx as [E|E]; apply N.eqb_eq in E; subst; reflexivity).
        unfold no_td in IT |- *. apply negb_true_iff in IT. apply negb_true_iff.
        rewrite contains_cons in IT. now apply orb_false_iff in IT as [_ IT].
Qed.

Lemma good_end_pform q s : tok_ok s = true -> adm q s = true -> (q = false -> ends_bsl s = false) -> good_end (pform q s).
Proof.
  intros Hok Ha Hb. destruct (pform_cases q s Ha) as [[_ ->]|[Hq E]].
  - unfold good_end. change (QUOTE :: s ++ [QUOTE]) with ((QUOTE :: s) ++ [QUOTE]). rewrite rev_app_distr. split; reflexivity.
  - rewrite E. destruct q.
    + (* quoted although bare was possible: protect s = s, but the text is the quoted one *)
      unfold pform in E. rewrite <- E. unfold good_end. change (QUOTE :: s ++ [QUOTE]) with ((QUOTE :: s) ++ [QUOTE]).
      rewrite rev_app_distr. split; reflexivity.
    + apply good_end_protect; auto.
Qed.

Lemma good_end_rtext cells : cells_ok cells = true -> cells <> [] -> lrow_end_ok cells = true -> good_end (rtext cells).
Proof.
  unfold lrow_end_ok. induction cells as [|[g c] cells IH]; intros Hok Hn He; [congruence|].
  destruct (cells_ok_cons _ _ _ Hok) as [_ [_ [Hc Hcs]]]. unfold rtext in *. cbn [map concat fst snd].
  destruct cells as [|gc cells'].
  - cbn [map concat]. rewrite app_nil_r. destruct (rcell_head c Hc) as [_ Hrn]. apply good_end_app; auto.
    cbn [rev app] in He. destruct c as [v f|lead es]; cbn [rcell lcell_ok] in *.
    + apply andb_true_iff in Hc as [Ht Ha]. destruct f as [| |ld|w1 w2 w3]; cbn [stext].
      * apply (good_end_pform false (show_sval v)); [now apply show_sval_tok_ok|unfold adm; cbn [sform_ok orb] in *; exact Ha|].
        intros _. now apply negb_true_iff.
      * apply (good_end_pform true (show_sval v)); [now apply show_sval_tok_ok|reflexivity|discriminate].
      * unfold good_end. rewrite app_comm_cons, app_assoc, rev_app_distr. split; reflexivity.
      * unfold good_end.
        change (LBRACE :: w1 ++ LBRACE :: w2 ++ RBRACE :: w3 ++ [RBRACE]) with ((LBRACE :: w1) ++ (LBRACE :: w2) ++ (RBRACE :: w3) ++ [RBRACE]).
        rewrite !app_assoc, rev_app_distr. split; reflexivity.
    + unfold good_end. rewrite app_comm_cons, app_assoc, rev_app_distr. split; reflexivity.
  - destruct (rtext_last (gc :: cells') Hcs) as [_ Nn]; [discriminate|]. apply good_end_app; [exact Nn|].
    apply IH; auto; [discriminate|].
    change (rev ((g, c) :: gc :: cells')) with (rev (gc :: cells') ++ [(g, c)]) in He.
    destruct (rev (gc :: cells')) eqn:E; [cbn [rev] in E; destruct (rev cells'); discriminate|]. cbn [app] in He. exact He.
Qed.

Theorem lrow_good name cells : name <> [] -> forallb is_word name = true -> no_td name = true ->
  cells_ok cells = true -> cells_plain cells = true -> lrow_end_ok cells = true ->
  item_good (ILine (lrow_core name cells)).
Proof.
  intros Hn Hw Ht Hok Hp He. destruct (rtext_plain cells Hok Hp) as [RP RT]. unfold lrow_core. apply line_good.
  - now rewrite forallb_app, (word_printable _ Hw), RP.
  - rewrite <- app_assoc. destruct cells as [|[g c] cells'].
    + unfold rtext. cbn [map concat app]. now apply no_td_end.
    + destruct (cells_ok_cons _ _ _ Hok) as [_ [Hgn _]]. unfold cells_plain in Hp. cbn [forallb fst] in Hp.
      apply andb_true_iff in Hp as [Hx _]. apply andb_true_iff in Hx as [Hb _].
      unfold rtext in *. cbn [map concat fst snd] in *. rewrite <- !app_assoc in *.
      destruct g as [|x g]; [congruence|]. cbn [app] in *. cbn [blank forallb] in Hb. apply andb_true_iff in Hb as [Hx Hg].
      apply no_td_sep; auto.
      * apply orb_true_iff in Hx as [E|E]; apply N.eqb_eq in E; subst; reflexivity.
      * unfold no_td in RT |- *. apply negb_true_iff in RT. apply negb_true_iff.
        rewrite contains_cons in RT. now apply orb_false_iff in RT as [_ RT].
  - left. destruct cells as [|gc cells'].
    + unfold rtext. cbn [map concat]. rewrite app_nil_r. unfold good_end. destruct (rev name) as [|x t] eqn:E; auto.
      assert (In x name) by (apply in_rev; rewrite E; now left). rewrite forallb_forall in Hw. specialize (Hw x H).
      split; [now apply word_not_ws|now apply word_not].
    + destruct (rtext_last (gc :: cells') Hok) as [_ Nn]; [discriminate|]. apply good_end_app; auto.
      apply good_end_rtext; auto. discriminate.
Qed.

(* ---------------------------------------------------------------- a laid-out row against its canonical row *)
Lemma lrow_fits_row_fits cols : forall cells, lrow_fits cols cells = row_fits cols (map (fun gc => cell_of (snd gc)) cells).
Proof.
  induction cols as [|[n [t|]] cols IH]; intros [|gc cells]; try reflexivity. cbn [lrow_fits map row_fits]. now rewrite IH.
Qed.

Theorem lrow_equiv_canonical (sy : symtab) name (cols : tcols) cells lead w cmt :
  name <> [] -> forallb is_word name = true -> assoc (upper name) sy = Some cols ->
  cells_ok cells = true -> lrow_fits cols cells = true ->
  all_ws lead = true -> all_ws w = true -> match cmt with Some c => comment_text_ok c = true | None => True end ->
  forall st, process_line sy st (lead ++ lrow_core name cells ++ w ++ tail_of cmt false)
             = process_line sy st (render_row_line (upper name) (map (fun gc => cell_of (snd gc)) cells)).
Proof.
  intros Hn Hw Hsy Hok Hf Hl Hww Hc st.
  rewrite line_decoration_indep; auto; [|now apply lrow_is_core_line].
  rewrite (lrow_roundtrip sy st name cols cells); auto.
  - pose proof (row_line_roundtrip sy st (upper name) cols (map (fun gc => cell_of (snd gc)) cells)) as R.
    rewrite upper_idem in R. rewrite R; auto.
    + destruct name; [congruence|discriminate].
    + now apply upper_word.
    + now rewrite <- lrow_fits_row_fits.
  - destruct cells as [|[g c] cells']; [now right|]. cbn [snd]. now rewrite (lrow_fits_gap cols [] g).
Qed.

(* ---------------------------------------------------------------- items *)
Inductive idec (sy : symtab) : list item -> list item -> Prop :=
  | id_nil : idec sy [] []
  | id_same i Ds Is : idec sy Ds Is -> idec sy (i :: Ds) (i :: Is)
  | id_skip l Ds Is :
      (blank l = true \/ exists lead c, l = lead ++ HASH :: c /\ blank lead = true /\ cmt_plain c = true) ->
      idec sy Ds Is -> idec sy (ILine l :: Ds) Is
  | id_line lead L w cmt Ds Is :
      core_line L -> blank lead = true -> blank w = true ->
      match cmt with Some c => cmt_plain c = true /\ comment_text_ok c = true | None => True end ->
      idec sy Ds Is -> idec sy (ILine (lead ++ L ++ w ++ tail_text cmt) :: Ds) (ILine L :: Is)
  | id_row lead name (cols : tcols) cells w cmt Ds Is :
      (* a data row in any admissible token layout, decorated *)
      name <> [] -> forallb is_word name = true -> no_td name = true -> assoc (upper name) sy = Some cols ->
      cells_ok cells = true -> cells_plain cells = true -> lrow_end_ok cells = true -> lrow_fits cols cells = true ->
      blank lead = true -> blank w = true ->
      match cmt with Some c => cmt_plain c = true /\ comment_text_ok c = true | None => True end ->
      idec sy Ds Is ->
      idec sy (ILine (lead ++ lrow_core name cells ++ w ++ tail_text cmt) :: Ds)
              (ILine (render_row_line (upper name) (map (fun gc => cell_of (snd gc)) cells)) :: Is).

Theorem idec_facts sy Ds Is : idec sy Ds Is ->
  (forall kw, filter (item_is_td kw) Ds = filter (item_is_td kw) Is) /\ ldec sy (map item_line Ds) (map item_line Is).
Proof.
  intros H. induction H as [|i Ds Is _ [F D]|l Ds Is Hl _ [F D]|lead L w cmt Ds Is Hc Hlead Hw Hcmt _ [F D]
                               |lead name cols cells w cmt Ds Is Hn Hwd Htd Hsy Hok Hpl Hend Hf Hlead Hw Hcmt _ [F D]].
  - split; [reflexivity|constructor].
  - split; [intros kw; cbn [filter]; now rewrite F|]. cbn [map]. apply ld_equiv; auto.
  - destruct (inserted_line_good l Hl) as [_ S1]. split; [intros kw; cbn [filter item_is_td]; apply F|]. cbn [map item_line]. now apply ld_skip.
  - split; [intros kw; cbn [filter item_is_td]; apply F|]. cbn [map item_line]. apply ld_equiv; auto. intros st.
    replace (lead ++ L ++ w ++ tail_text cmt) with (lead ++ L ++ w ++ tail_of cmt false)
      by (unfold tail_of, tail_text; now rewrite app_nil_r).
    apply line_decoration_indep; auto; [now apply blank_all_ws|now apply blank_all_ws|]. destruct cmt; auto. now destruct Hcmt.
  - split; [intros kw; cbn [filter item_is_td]; apply F|]. cbn [map item_line]. apply ld_equiv; auto. intros st.
    replace (lead ++ lrow_core name cells ++ w ++ tail_text cmt) with (lead ++ lrow_core name cells ++ w ++ tail_of cmt false)
      by (unfold tail_of, tail_text; now rewrite app_nil_r).
    apply (lrow_equiv_canonical sy name cols); auto; [now apply blank_all_ws|now apply blank_all_ws|]. destruct cmt; auto. now destruct Hcmt.
Qed.

Theorem idec_good sy Ds Is : idec sy Ds Is -> Forall item_good Is -> Forall item_good Ds.
Proof.
  intros H. induction H as [|i Ds Is _ IH|l Ds Is Hl _ IH|lead L w cmt Ds Is Hc Hlead Hw Hcmt _ IH
                               |lead name cols cells w cmt Ds Is Hn Hwd Htd Hsy Hok Hpl Hend Hf Hlead Hw Hcmt _ IH]; intros Hg.
  - constructor.
  - inversion Hg; subst. constructor; auto.
  - constructor; auto. now destruct (inserted_line_good l Hl).
  - inversion Hg; subst. constructor; auto.
    apply decorated_line_good; auto; [now destruct Hc|]. destruct cmt; auto. now destruct Hcmt.
  - inversion Hg; subst. constructor; auto.
    apply decorated_line_good; auto.
    + now apply lrow_good.
    + unfold lrow_core. destruct name; [congruence|discriminate].
    + destruct cmt; auto. now destruct Hcmt.
Qed.

(* THE FILE-LEVEL THEOREM with free token layout inside data rows *)
Theorem layout_file_rows d tws Ds : doc_ok d = true -> map fst tws = d_tables d -> tws_ok (d_enums d) tws ->
  idec (sy_of (d_enums d) tws) Ds (items_of d tws) ->
  exists p, sem d = Some p /\ parse (items_text Ds) = Some p /\ parse_binary (items_text Ds) = Some p.
Proof.
  intros Hd Et Hok HD.
  pose proof (items_all_good d tws Hd Et Hok) as Hg.
  destruct (idec_facts _ _ _ HD) as [F D].
  apply (layout_composition d tws Ds); auto.
  - now apply (idec_good _ _ _ HD).
  - intros E. subst Ds. inversion HD.
  - intros st. now apply ldec_same_state.
Qed.
