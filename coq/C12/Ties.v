(* C12 -- round 5: the boundary values of cm and dot products outside [-1, 1], for both signs of cm, by theorem.
   All statements are about the formula extracted from cap_distance / is_in_cap (Generated/MangleR.v). *)
From Coq Require Import Reals Lra.
From PV Require Import C12.RBase Generated.MangleR C12.Arccos.
Open Scope R_scope.

Lemma clip_below d : d <= -1 -> clip d = -1.
Proof.
  intros H. unfold clip, clipR. destruct (Rle_dec 1 d) as [L|L]; [lra|].
  rewrite Rmin_right by lra. rewrite Rmax_left by lra. reflexivity.
Qed.

(* any real dot product (rounding may push it outside [-1, 1] on either side), either sign of cm *)
Theorem is_in_cap_any_dot cm d : -2 <= cm <= 2 ->
  (gen_is_in_cap cm d <-> if Rlt_dec cm 0 then - cm <= 1 - clip d else 1 - clip d <= cm).
Proof. apply gen_is_in_cap_clip. Qed.

(* cm = 0 (+0.0 and -0.0 alike: `cm < 0` is false for both): only the centre itself *)
Theorem zero_cap_only_centre d : gen_is_in_cap 0 d <-> 1 <= d.
Proof.
  rewrite (is_in_cap_any_dot 0 d) by lra. destruct (Rlt_dec 0 0) as [N|_]; [lra|].
  pose proof (clip_bounds d) as B.
  destruct (Rle_dec 1 d) as [L|L].
  - rewrite clip_above by lra. lra.
  - destruct (Rle_dec (-1) d) as [M|M]; [rewrite clip_id by lra|rewrite clip_below by lra]; lra.
Qed.

(* cm = 2: the whole sphere *)
Theorem full_cap_contains_all d : gen_is_in_cap 2 d.
Proof.
  apply (is_in_cap_any_dot 2 d); [lra|]. destruct (Rlt_dec 2 0) as [N|_]; [lra|].
  pose proof (clip_bounds d). lra.
Qed.

(* cm = -2: the complement of the whole sphere, closed: only the antipode of the centre *)
Theorem neg_full_cap_only_antipode d : gen_is_in_cap (-2) d <-> d <= -1.
Proof.
  rewrite (is_in_cap_any_dot (-2) d) by lra. destruct (Rlt_dec (-2) 0) as [_|N]; [|lra].
  pose proof (clip_bounds d) as B.
  destruct (Rle_dec d (-1)) as [L|L].
  - rewrite clip_below by lra. lra.
  - destruct (Rle_dec d 1) as [M|M]; [rewrite clip_id by lra|rewrite clip_above by lra]; lra.
Qed.

(* the antipode of the centre (d <= -1 after rounding) lies in every cap with cm < 0, and in a cap with cm >= 0 only
   when cm = 2 *)
Theorem antipode_in_neg_cap cm d : d <= -1 -> -2 <= cm < 0 -> gen_is_in_cap cm d.
Proof.
  intros Hd Hc. apply (is_in_cap_any_dot cm d); [lra|]. destruct (Rlt_dec cm 0) as [_|N]; [|lra].
  rewrite clip_below by lra. lra.
Qed.

Theorem antipode_in_pos_cap cm d : d <= -1 -> 0 <= cm <= 2 -> (gen_is_in_cap cm d <-> cm = 2).
Proof.
  intros Hd Hc. rewrite (is_in_cap_any_dot cm d) by lra. destruct (Rlt_dec cm 0) as [N|_]; [lra|].
  rewrite clip_below by lra. lra.
Qed.

(* the centre (d >= 1 after rounding) lies in no cap with cm < 0 *)
Theorem centre_not_in_neg_cap cm d : 1 <= d -> -2 <= cm < 0 -> ~ gen_is_in_cap cm d.
Proof.
  intros Hd Hc H. apply (is_in_cap_any_dot cm d) in H; [|lra]. destruct (Rlt_dec cm 0) as [_|N]; [|lra].
  rewrite clip_above in H by lra. lra.
Qed.
