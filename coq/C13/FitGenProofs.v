(* C13: func_fit as assembled from the expressions regenerated from the source (Generated/Trace.v) IS the reference
   form the theorems of FitProofs / FitProofs2 speak about.  If an expression of the source changes (weights dropped
   from extra2 or beta, the (1 - ia) factor lost, the free / fixed masks swapped, the good-point test, ncfit, ...) the
   regenerated definitions change and these proofs stop checking. *)
From Coq Require Import QArith Qabs Lqa List Bool Lia ZArith.
From PV Require Import Lib.WLS C13.LinAlg C13.LinAlgProofs Generated.Trace C13.Model C13.FitProofs C13.FitProofs2.
Import ListNotations.
Open Scope Q_scope.

(* ------------------------------------------------------------------ generated pieces = reference pieces *)
Lemma g_masks_complementary b : g_fixed b = negb (g_nonfix b).
Proof. reflexivity. Qed.
Lemma g_nonfix_id l : map g_nonfix l = l.
Proof. induction l as [|b l IH]; simpl; [reflexivity|]. rewrite IH. reflexivity. Qed.
Lemma g_has_fixed l : existsb g_fixed l = negb (forallb id l).
Proof. induction l as [|b l IH]; simpl; [reflexivity|]. rewrite IH. destruct b; reflexivity. Qed.
Lemma g_single_parameter ysub w f : g_beta1 ysub w f == g_beta_w ysub w * f.
Proof. unfold g_beta1, g_beta_w. ring. Qed.
Lemma g_good_is_positive w : g_good w = Qlt_bool 0 w.
Proof. reflexivity. Qed.
Lemma g_ncfit_is_min a b : g_ncfit a b = Nat.min a b.
Proof. reflexivity. Qed.
Lemma scale_rows_gen_eq ifunc rows : scale_rows_gen ifunc rows = scale_rows ifunc rows.
Proof. reflexivity. Qed.

Lemma fixed_part_gen_veq ans : forall ia, veq (fixed_part_gen ans ia) (fixed_part ans ia).
Proof.
  unfold fixed_part_gen, fixed_part. induction ans as [|a ans IH]; intros [|b ia]; simpl; try constructor.
  - unfold g_fixv, b01. destruct b; ring.
  - apply IH.
Qed.

Lemma madd_meq A : forall A' B B', meq A A' -> meq B B' -> meq (madd A B) (madd A' B').
Proof.
  unfold madd. intros A' B B' H. revert B B'. induction H as [|a a' A A' Ha HA IH]; intros B B' HB.
  - constructor.
  - destruct HB as [|b b' B B' Hb HB]; simpl; constructor; [apply vadd_veq; assumption | apply IH; exact HB].
Qed.

Lemma outer_row_veq w a r : veq (vscale a (map (fun f => g_extra2 f w) r)) (vscale (w * a) r).
Proof. unfold vscale, g_extra2. induction r as [|f r IH]; simpl; constructor; [ring | exact IH]. Qed.
Lemma outer_gen_meq_gen w r l :
  meq (map (fun a => vscale a (map (fun f => g_extra2 f w) r)) l) (map (fun a => vscale (w * a) r) l).
Proof. induction l as [|a l IH]; simpl; constructor; [apply outer_row_veq | exact IH]. Qed.
Lemma outer_gen_meq w r : meq (outer_uv r (map (fun f => g_extra2 f w) r)) (outer_w w r).
Proof. unfold outer_uv, outer_w. apply outer_gen_meq_gen. Qed.

Lemma gen_alpha_meq m D : meq (gen_alpha m D) (normal_mat m D).
Proof.
  induction D as [|[[r w] y] D IH]; simpl; [apply meq_refl|].
  apply madd_meq; [apply outer_gen_meq | exact IH].
Qed.

Lemma gen_beta_veq m D : veq (gen_beta m D) (normal_rhs m D).
Proof.
  induction D as [|[[r w] y] D IH]; simpl; [apply veq_refl|].
  apply vadd_veq; [|exact IH]. apply vscale_veq. unfold g_beta_w. ring.
Qed.

Lemma wls_solve_gen_eq m D : wls_solve_gen m D = wls_solve m D.
Proof.
  unfold wls_solve_gen, wls_solve.
  rewrite (mred_complete _ _ (gen_alpha_meq m D)), (vred_complete _ _ (gen_beta_veq m D)). reflexivity.
Qed.

(* two problems with the same rows and weights and Qeq observations have the same normal equations *)
Lemma normal_eqs_fixv rows mask : forall w y fixv fixv', veq fixv fixv' ->
  normal_mat (count_true mask) (free_problem rows w y mask fixv) = normal_mat (count_true mask) (free_problem rows w y mask fixv')
  /\ veq (normal_rhs (count_true mask) (free_problem rows w y mask fixv)) (normal_rhs (count_true mask) (free_problem rows w y mask fixv')).
Proof.
  unfold free_problem. induction rows as [|r rows IH]; intros w y fixv fixv' Hv.
  - split; [reflexivity | apply veq_refl].
  - destruct w as [|v w]; [split; [reflexivity | apply veq_refl]|].
    destruct y as [|yi y]; [split; [reflexivity | apply veq_refl]|].
    destruct (IH w y fixv fixv' Hv) as [E1 E2]. simpl. split.
    + f_equal. exact E1.
    + apply vadd_veq; [|exact E2]. apply vscale_veq.
      rewrite (dot_veq r r fixv fixv' (veq_refl r) Hv). reflexivity.
Qed.

Theorem fit_core_gen_eq rows w y ncfit ia ans : fit_core_gen rows w y ncfit ia ans = fit_core rows w y ncfit ia ans.
Proof.
  unfold fit_core_gen, fit_core. rewrite g_nonfix_id, wls_solve_gen_eq.
  change (free_problem_gen rows w y (firstn ncfit ia) (fixed_part_gen ans ia))
    with (free_problem rows w y (firstn ncfit ia) (fixed_part_gen ans ia)).
  unfold wls_solve.
  destruct (normal_eqs_fixv rows (firstn ncfit ia) w y _ _ (fixed_part_gen_veq ans ia)) as [E1 E2].
  rewrite E1, (vred_complete _ _ E2). reflexivity.
Qed.

(* the names of func_fit's function_map resolve to the functions of the same name *)
Lemma fit_func_id f : fit_func f = f.
Proof. destruct f; reflexivity. Qed.

(* func_fit assembled from the source's expressions = reference form *)
Theorem func_fit_eq_ref f x y w ncoeff ia ans ifunc :
  func_fit f x y w ncoeff ia ans ifunc = func_fit_ref f x y w ncoeff ia ans ifunc.
Proof.
  unfold func_fit, func_fit_ref. rewrite fit_func_id.
  change (filter (fun p : Q * Q => g_good (snd p)) (combine y w)) with (filter (fun p : Q * Q => Qlt_bool 0 (snd p)) (combine y w)).
  destruct (length (filter (fun p : Q * Q => Qlt_bool 0 (snd p)) (combine y w))) as [|[|k]]; try reflexivity.
  cbn [Nat.eqb g_ngood_none g_ngood_one]. rewrite g_has_fixed, scale_rows_gen_eq, fit_core_gen_eq. reflexivity.
Qed.

(* ------------------------------------------------------------------ the theorems, for the generated form *)
Section Transport.
Variables (f : func) (x y w : vec) (ncoeff : nat) (ia : list bool) (ans : vec) (ifunc : option vec) (res yfit : vec).

Theorem gen_func_fit_optimal :
  func_fit f x y w ncoeff ia ans ifunc = Some (res, yfit) -> (2 <= ngood_of y w)%nat ->
  (ncoeff <= length ia)%nat -> Forall (fun v => 0 <= v) w ->
  let ncfit := Nat.min (ngood_of y w) ncoeff in
  let rows := scale_rows ifunc (map (basis_row f ncfit) x) in
  let iaf := firstn ncfit ia in
  let D := free_problem rows w y iaf (fixed_part ans ia) in
  exists sol, res = scatter 0 iaf sol ans ++ zeros (ncoeff - ncfit) /\
              yfit = map (fun r => dot r (scatter 0 iaf sol ans)) rows /\
              length sol = count_true iaf /\
              forall z, length z = count_true iaf -> chi2 D sol <= chi2 D z.
Proof. rewrite func_fit_eq_ref. apply func_fit_optimal. Qed.

Theorem gen_func_fit_optimal_full :
  func_fit f x y w ncoeff ia ans ifunc = Some (res, yfit) -> (2 <= ngood_of y w)%nat ->
  (ncoeff <= length ia)%nat -> Forall (fun v => 0 <= v) w ->
  let ncfit := Nat.min (ngood_of y w) ncoeff in
  let rows := scale_rows ifunc (map (basis_row f ncfit) x) in
  let iaf := firstn ncfit ia in
  let D := combine (combine rows w) y in
  exists resf, res = resf ++ zeros (ncoeff - ncfit) /\ length resf = ncfit /\ fixed_agree iaf resf ans /\
    yfit = map (fun r => dot r resf) rows /\
    forall c, length c = ncfit -> fixed_agree iaf c ans -> chi2 D resf <= chi2 D c.
Proof. rewrite func_fit_eq_ref. apply func_fit_optimal_full. Qed.

Theorem gen_func_fit_fixed_kept j v :
  func_fit f x y w ncoeff ia ans ifunc = Some (res, yfit) -> (2 <= ngood_of y w)%nat ->
  (j < Nat.min (ngood_of y w) ncoeff)%nat ->
  nth_error ia j = Some false -> nth_error ans j = Some v ->
  nth_error res j = Some v.
Proof. rewrite func_fit_eq_ref. apply func_fit_fixed_kept. Qed.

Theorem gen_func_fit_zero_weight_indep y' :
  agree3 w y y' -> (2 <= ngood_of y w)%nat ->
  func_fit f x y w ncoeff ia ans ifunc = Some (res, yfit) ->
  func_fit f x y' w ncoeff ia ans ifunc = Some (res, yfit).
Proof. rewrite !func_fit_eq_ref. apply func_fit_zero_weight_indep. Qed.

Theorem gen_func_fit_exact_recovery c :
  func_fit f x y w ncoeff ia ans ifunc = Some (res, yfit) -> (2 <= ngood_of y w)%nat ->
  (ncoeff <= length ia)%nat -> Forall (fun v => 0 <= v) w ->
  let ncfit := Nat.min (ngood_of y w) ncoeff in
  let rows := scale_rows ifunc (map (basis_row f ncfit) x) in
  let iaf := firstn ncfit ia in
  let D := free_problem rows w y iaf (fixed_part ans ia) in
  length c = count_true iaf ->
  Forall (fun o => resid c o == 0) D ->
  exists sol, res = scatter 0 iaf sol ans ++ zeros (ncoeff - ncfit) /\
              chi2 D sol == 0 /\
              Forall (fun o => 0 < snd (fst o) -> resid sol o == 0) D /\
              ((forall z, length z = count_true iaf ->
                  Forall (fun o => 0 < snd (fst o) -> dot (fst (fst o)) z == 0) D -> forall r, dot r z == 0)
               -> veq sol c).
Proof. rewrite func_fit_eq_ref. apply func_fit_exact_recovery. Qed.
End Transport.
