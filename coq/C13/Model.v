(* C13 -- trace sets.  Executable definitions only (no proofs).
   M : transliteration of pydl/pydlutils/trace.py (fchebyshev, fchebyshev_split, fpoly, func_fit,
       TraceSet.__init__/xnorm/xy) and pydl/goddard/math.py (flegendre), over exact rationals.  Every index /
       arithmetic expression of M is taken from Generated/Trace.v (names g_...), which translate/c13.py
       regenerates from the source on every run; hand-written: the list plumbing, the meaning of the two scipy
       polynomial families (legendre_rec, chebyshev_rec), np.linalg.solve (solve_checked), djs_reject (no-op).
   S : textbook closed forms of the bases, reference forms (..._ref, ..._spec, fit_core, free_problem, fixed_part,
       scale_rows) + certified checkers for fit / trace-set outputs.  S does not use Generated/ nor the recurrences of M. *)
From Coq Require Import QArith Qminmax Qround Qabs ZArith List Bool.
From PV Require Import Lib.WLS C13.LinAlg Generated.Trace.
Import ListNotations.
Open Scope Q_scope.

(* ================================================================== M : bases by recurrence *)

(* Bonnet: (k+2) P_{k+2} = (2k+3) x P_{k+1} - (k+1) P_k *)
Fixpoint legendre_rec (n : nat) (x : Q) : Q :=
  match n with
  | O => 1
  | S n' =>
      match n' with
      | O => x
      | S n'' =>
          (inject_Z (Z.of_nat (2 * n'' + 3)) * x * legendre_rec n' x
           - inject_Z (Z.of_nat (n'' + 1)) * legendre_rec n'' x) / inject_Z (Z.of_nat (n'' + 2))
      end
  end.

(* T_{k+2} = 2 x T_{k+1} - T_k *)
Fixpoint chebyshev_rec (n : nat) (x : Q) : Q :=
  match n with
  | O => 1
  | S n' =>
      match n' with
      | O => x
      | S n'' => 2 * x * chebyshev_rec n' x - chebyshev_rec n'' x
      end
  end.

(* fpoly: leg[k] = leg[k-1] * x *)
(* fpoly: leg = ones ; leg[1] = x ; leg[k] = leg[k-1] * x (k >= 2) -- expressions from the source *)
Fixpoint monomial (n : nat) (x : Q) : Q :=
  match n with
  | O => g_fill
  | S n' => match n' with O => g_poly_row1 x | S _ => g_poly_rec x (monomial n' x) end
  end.

Definition step01 (x : Q) : Q := if Qle_bool 0 x then 1 else 0.

(* fchebyshev_split: leg[0] = (x >= 0), leg[1] = 1, leg[2] = x, leg[k] = 2 x leg[k-1] - leg[k-2] (k >= 3) *)
Fixpoint chebyshev_split (n : nat) (x : Q) : Q :=
  match n with
  | O => g_split_row0 x
  | S n' =>
      match n' with
      | O => g_fill
      | S n'' =>
          match n'' with
          | O => g_split_row2 x
          | S _ => g_split_rec x (chebyshev_split n' x) (chebyshev_split n'' x)
          end
      end
  end.

(* what np.polyval(scipy.special.<family>(k), x) means *)
Definition fam_eval (fam : polyfam) (k : nat) (x : Q) : Q :=
  match fam with FamLegendre => legendre_rec k x | FamChebyshevT => chebyshev_rec k x end.
(* flegendre / fchebyshev: ones ; row 1 = x ; row k = polyval(family(degree k), x) (k >= 2) *)
Definition flegendre_row (k : nat) (x : Q) : Q :=
  match k with O => g_fill | S O => g_leg_row1 x | _ => fam_eval g_leg_family (g_leg_degree k) x end.
Definition fchebyshev_row (k : nat) (x : Q) : Q :=
  match k with O => g_fill | S O => g_cheb_row1 x | _ => fam_eval g_cheb_family (g_cheb_degree k) x end.

Inductive func := Legendre | Chebyshev | Poly | ChebSplit.

Definition basis (f : func) (k : nat) (x : Q) : Q :=
  match f with
  | Legendre => flegendre_row k x
  | Chebyshev => fchebyshev_row k x
  | Poly => monomial k x
  | ChebSplit => chebyshev_split k x
  end.

(* the column of the m basis functions at one abscissa *)
Definition basis_row (f : func) (m : nat) (x : Q) : vec := map (fun k => basis f k x) (seq 0 m).

(* names -> functions: func_fit's function_map and TraceSet._func_map as written in the source *)
Definition to_gfunc (f : func) : gfunc :=
  match f with Legendre => GLegendre | Chebyshev => GChebyshev | Poly => GPoly | ChebSplit => GChebSplit end.
Definition of_gfunc (g : gfunc) : func :=
  match g with GLegendre => Legendre | GChebyshev => Chebyshev | GPoly => Poly | GChebSplit => ChebSplit end.
Definition fit_func (name : func) : func := of_gfunc (g_function_map (to_gfunc name)).
Definition xy_func (name : func) : option func := option_map of_gfunc (g_xy_func_map (to_gfunc name)).

(* the order guards: `if m < K: raise ValueError` *)
Definition min_order (f : func) : nat :=
  match f with Legendre => g_leg_min_order | Chebyshev => g_cheb_min_order | Poly => g_poly_min_order
             | ChebSplit => g_split_min_order end.
(* a call f(xs, m): None = ValueError *)
Definition basis_call (f : func) (m : nat) (xs : list Q) : option (list (list Q)) :=
  if Nat.ltb m (min_order f) then None else Some (map (fun k => map (basis f k) xs) (seq 0 m)).
(* S: the documented minimum orders *)
Definition min_order_spec (f : func) : nat := match f with ChebSplit => 2%nat | _ => 1%nat end.

(* ================================================================== S : textbook closed forms *)
Definition zfact (n : nat) : Z := fold_left Z.mul (map Z.of_nat (seq 1 n)) 1%Z.
Definition binom (n k : nat) : Z := if Nat.leb k n then (zfact n / (zfact k * zfact (n - k)))%Z else 0%Z.
Definition msign (k : nat) : Z := if Nat.even k then 1%Z else (-1)%Z.

(* polynomials as coefficient lists, lowest degree first *)
Fixpoint peval (p : list Q) (x : Q) : Q := match p with [] => 0 | c :: p' => c + x * peval p' x end.

(* P_n(x) = 2^-n sum_{k <= n/2} (-1)^k C(n,k) C(2n-2k,n) x^(n-2k) : coefficient of x^j, j = n - 2k *)
Definition legendre_coeffs (n : nat) : list Q :=
  map (fun j => if Nat.even (n - j) then
                  let k := Nat.div2 (n - j) in
                  inject_Z (msign k * binom n k * binom (2 * n - 2 * k) n) / inject_Z (2 ^ Z.of_nat n)
                else 0)
      (seq 0 (S n)).

(* T_n(x) = (n/2) sum_{k <= n/2} (-1)^k (n-k-1)! / (k! (n-2k)!) (2x)^(n-2k)   (n >= 1), T_0 = 1 :
   coefficient of x^(n-2k) = (-1)^k n C(n-k,k) 2^(n-2k) / (2 (n-k)) *)
Definition chebyshev_coeffs (n : nat) : list Q :=
  match n with
  | O => [1]
  | _ => map (fun j => if Nat.even (n - j) then
                         let k := Nat.div2 (n - j) in
                         inject_Z (msign k * Z.of_nat n * binom (n - k) k * 2 ^ Z.of_nat (n - 2 * k))
                         / inject_Z (2 * Z.of_nat (n - k))
                       else 0)
             (seq 0 (S n))
  end.

Definition legendre_explicit (n : nat) (x : Q) : Q := peval (legendre_coeffs n) x.
Definition chebyshev_explicit (n : nat) (x : Q) : Q := peval (chebyshev_coeffs n) x.

Definition basis_spec (f : func) (k : nat) (x : Q) : Q :=
  match f with
  | Legendre => legendre_explicit k x
  | Chebyshev => chebyshev_explicit k x
  | Poly => x ^ Z.of_nat k
  | ChebSplit => match k with O => step01 x | S k' => chebyshev_explicit k' x end
  end.
Definition basis_row_spec (f : func) (m : nat) (x : Q) : vec := map (fun k => basis_spec f k x) (seq 0 m).

(* ================================================================== M : func_fit *)

Definition select {A : Type} (mask : list bool) (l : list A) : list A :=
  map snd (filter fst (combine mask l)).

(* res[nonfix] = sol ; res[fixed] = inputans[fixed] *)
Fixpoint scatter (i : nat) (mask : list bool) (free ans : vec) : vec :=
  match mask with
  | [] => []
  | true :: mask' =>
      match free with
      | s :: free' => s :: scatter (S i) mask' free' ans
      | [] => 0 :: scatter (S i) mask' [] ans
      end
  | false :: mask' => nth i ans 0 :: scatter (S i) mask' free ans
  end.

Definition count_true (l : list bool) : nat := length (filter id l).

(* inputans * (1 - ia) *)
Definition fixed_part (ans : vec) (ia : list bool) : vec := map2 (fun a (b : bool) => if b then 0 else a) ans ia.

(* the weighted least-squares sub-problem in the free parameters *)
Definition free_problem (rows : list vec) (w y : vec) (iaf : list bool) (fixv : vec) : list obs :=
  combine (combine (map (select iaf) rows) w) (map2 (fun yi r => yi - dot r fixv) y rows).

(* core: basis matrix given row-wise (one row of ncfit values per data point) *)
Definition fit_core (rows : list vec) (w y : vec) (ncfit : nat) (ia : list bool) (ans : vec) : option (vec * vec) :=
  let iaf := firstn ncfit ia in
  let fixv := fixed_part ans ia in
  match wls_solve (count_true iaf) (free_problem rows w y iaf fixv) with
  | None => None
  | Some sol =>
      let res := scatter 0 iaf sol ans in
      Some (res, map (fun r => dot r res) rows)
  end.

Definition scale_rows (ifunc : option vec) (rows : list vec) : list vec :=
  match ifunc with None => rows | Some s => map2 (fun c r => map (fun f => f * c) r) s rows end.

(* reference form of func_fit (hand-written; the theorems about the generated form go through it) *)
Definition func_fit_ref (f : func) (x y w : vec) (ncoeff : nat) (ia : list bool) (ans : vec)
           (ifunc : option vec) : option (vec * vec) :=
  let n := length x in
  let good := filter (fun p => Qlt_bool 0 (snd p)) (combine y w) in
  match length good with
  | O => Some (zeros ncoeff, zeros n)
  | S O => let y0 := hd 0 (map fst good) in Some (y0 :: zeros (ncoeff - 1), repeat y0 n)
  | ngood =>
      let ncfit := Nat.min ngood ncoeff in
      let rows := scale_rows ifunc (map (basis_row f ncfit) x) in
      let has_fixed := negb (forallb id (firstn ncfit ia)) in
      if has_fixed && negb (Nat.eqb (length ans) ncoeff && Nat.eqb ncfit ncoeff) then None
      else
        match fit_core rows w y ncfit ia ans with
        | None => None
        | Some (res, yfit) => Some (res ++ zeros (ncoeff - ncfit), yfit)
        end
  end.

(* ---- the same with every expression taken from the source (Generated/Trace.v) *)
Definition b01 (b : bool) : Q := if b then 1 else 0.
(* inputans * (1 - ia) *)
Definition fixed_part_gen (ans : vec) (ia : list bool) : vec := map2 (fun a (b : bool) => g_fixv a (b01 b)) ans ia.
Definition outer_uv (u v : vec) : mat := map (fun a => vscale a v) u.
(* alpha = finalarr . extra2^T with extra2 = g_extra2(finalarr, invvar) ; beta = (g_beta_w ysub invvar) . finalarr^T *)
Fixpoint gen_alpha (m : nat) (D : list obs) : mat :=
  match D with
  | [] => zero_mat m
  | o :: D' => let '(r, w, y) := o in madd (outer_uv r (map (fun f => g_extra2 f w) r)) (gen_alpha m D')
  end.
Fixpoint gen_beta (m : nat) (D : list obs) : vec :=
  match D with
  | [] => zeros m
  | o :: D' => let '(r, w, y) := o in vadd (vscale (g_beta_w y w) r) (gen_beta m D')
  end.
Definition wls_solve_gen (m : nat) (D : list obs) : option vec :=
  solve_checked (mred (gen_alpha m D)) (vred (gen_beta m D)).
Definition free_problem_gen (rows : list vec) (w y : vec) (mask : list bool) (fixv : vec) : list obs :=
  combine (combine (map (select mask) rows) w) (map2 (fun yi r => g_ysub yi (dot r fixv)) y rows).
Definition fit_core_gen (rows : list vec) (w y : vec) (ncfit : nat) (ia : list bool) (ans : vec) : option (vec * vec) :=
  let mask := map g_nonfix (firstn ncfit ia) in
  match wls_solve_gen (count_true mask) (free_problem_gen rows w y mask (fixed_part_gen ans ia)) with
  | None => None
  | Some sol =>
      let res := scatter 0 mask sol ans in
      Some (res, map (fun r => dot r res) rows)
  end.
Definition scale_rows_gen (ifunc : option vec) (rows : list vec) : list vec :=
  match ifunc with None => rows | Some s => map2 (fun c r => map (fun f => g_ifunc f c) r) s rows end.

(* func_fit(x, y, ncoeff, invvar, function_name, ia, inputans, inputfunc); None = the code raises *)
Definition func_fit (f : func) (x y w : vec) (ncoeff : nat) (ia : list bool) (ans : vec)
           (ifunc : option vec) : option (vec * vec) :=
  let n := length x in
  let good := filter (fun p => g_good (snd p)) (combine y w) in
  let ngood := length good in
  if Nat.eqb ngood g_ngood_none then Some (zeros ncoeff, zeros n)
  else if Nat.eqb ngood g_ngood_one then
    let y0 := hd 0 (map fst good) in Some (y0 :: zeros (ncoeff - 1), repeat y0 n)
  else
    let ncfit := g_ncfit ngood ncoeff in
    let rows := scale_rows_gen ifunc (map (basis_row (fit_func f) ncfit) x) in
    let has_fixed := existsb g_fixed (firstn ncfit ia) in
    if has_fixed && negb (Nat.eqb (length ans) ncoeff && Nat.eqb ncfit ncoeff) then None
    else
      match fit_core_gen rows w y ncfit ia ans with
      | None => None
      | Some (res, yfit) => Some (res ++ zeros (ncoeff - ncfit), yfit)
      end.

(* ================================================================== M : TraceSet *)
Definition clamp01 (q : Q) : Q := Qmin (Qmax q 0) 1.

(* jump = (xjumplo, xjumphi, xjumpval) *)
Definition jump := (Q * Q * Q)%type.

Definition xnorm_spec (xmin xmax : Q) (j : option jump) (x : Q) : Q :=
  let xnat := match j with
              | Some (lo, hi, val) => x + clamp01 ((x - lo) / (hi - lo)) * val
              | None => x
              end in
  2 * (xnat - (1 # 2) * (xmin + xmax)) / (xmax - xmin).

(* TraceSet.xnorm with the expressions of the source *)
Definition xnorm (xmin xmax : Q) (j : option jump) (x : Q) : Q :=
  let xnat := match j with
              | Some (lo, hi, val) => g_xnatural x (g_jfrac x lo hi) val
              | None => x
              end in
  g_xnorm xnat (g_xmid xmin xmax) (g_xrange xmin xmax).
Definition is_some {A : Type} (o : option A) : bool := match o with Some _ => true | None => false end.
(* the jump argument __init__ passes to xnorm (do_jump is True iff xjumplo was given) *)
Definition fit_jump (j : option jump) : option jump :=
  match g_fit_jump_arg with ArgDoJump => j | ArgFalse => None | ArgTrue => j end.
(* the jump argument xy() passes: do_jump = has_jump and not ignore_jump *)
Definition xy_jump (j : option jump) (ignore_jump : bool) : option jump :=
  match g_xy_jump_arg with
  | ArgDoJump => if g_do_jump (g_has_jump (is_some j)) ignore_jump then j else None
  | ArgFalse => None
  | ArgTrue => j
  end.

Definition qmin_list (d : Q) (l : vec) : Q := fold_left Qmin l d.
Definition qmax_list (d : Q) (l : vec) : Q := fold_left Qmax l d.
Definition mat_min (A : mat) : Q := let l := concat A in qmin_list (hd 0 l) l.
Definition mat_max (A : mat) : Q := let l := concat A in qmax_list (hd 0 l) l.

Record traceset := {
  ts_func : func; ts_ncoeff : nat; ts_xmin : Q; ts_xmax : Q; ts_jump : option jump; ts_coeff : mat }.

Definition all_true (n : nat) : list bool := repeat true n.
Definition mask_w (iv : vec) (m : list bool) : vec := map2 (fun v (b : bool) => v * (if b then 1 else 0)) iv m.

(* TraceSet(xpos, ypos, invvar=, inmask=, func=, ncoeff=, xmin=, xmax=, xjump*=) -> (trace set, yfit).
   djs_reject is called without rejection criteria, so every trace is one weighted fit. *)
Definition ts_fit (f : func) (ncoeff : nat) (oxmin oxmax : option Q) (j : option jump)
           (xpos ypos ivar : mat) (inmask : list (list bool)) : option (traceset * mat) :=
  let xmin := match oxmin with Some v => v | None => mat_min xpos end in
  let xmax := match oxmax with Some v => v | None => mat_max xpos end in
  let fits := map (fun t => let '(xr, yr, wr, mr) := t in
                            func_fit f (map (xnorm xmin xmax (fit_jump j)) xr) yr (mask_w wr mr) ncoeff (all_true ncoeff) [] None)
                  (combine (combine (combine xpos ypos) ivar) inmask) in
  match opt_all fits with
  | None => None
  | Some l => Some ({| ts_func := f; ts_ncoeff := ncoeff; ts_xmin := xmin; ts_xmax := xmax; ts_jump := j;
                       ts_coeff := map fst l |}, map snd l)
  end.

(* ---- TraceSet.__init__ as the source writes it: keyword defaults, tempivar = invvar * inmask, and the rejection loop
   `while (not qdone) and (iIter <= maxiter)` around func_fit / djs_reject.  The translator verifies that djs_reject is
   called WITHOUT any rejection criterion (no lower / upper / maxdev / maxrej / grow / inmask / sticky): on that path
   djs_reject computes badness = 0 everywhere, returns an all-True mask and qdone = (all-True == default outmask) = True. *)
Definition reject_nocrit (y yfit w : vec) : list bool * bool := (repeat true (length y), true).

Definition extremum_of (e : extremum) (A : mat) : Q := match e with ExtMin => mat_min A | ExtMax => mat_max A end.
Definition tempivar_gen (iv : vec) (m : list bool) : vec := map2 (fun v (b : bool) => g_tempivar v (b01 b)) iv m.

(* None = an exception (func_fit raised, or the loop body never ran and `ycurfit` is unbound) *)
Fixpoint fit_loop (fuel : nat) (fit : vec -> option (vec * vec)) (y tempivar : vec) (maxiter iiter : Z) (qdone : bool)
         (mask : list bool) (cur : option (vec * vec)) : option (vec * vec * list bool) :=
  if g_loop_continue qdone iiter maxiter then
    match fuel with
    | O => None
    | S fuel' =>
        let wts := match g_fit_weight with
                   | WTempivar => tempivar
                   | WMasked => map2 (fun v (b : bool) => v * b01 b) tempivar mask
                   end in
        match fit wts with
        | None => None
        | Some ry =>
            let '(mask', qd) := reject_nocrit y (snd ry) tempivar in
            fit_loop fuel' fit y tempivar maxiter (iiter + g_iiter_step) qd mask' (Some ry)
        end
    end
  else match cur with Some ry => Some (fst ry, snd ry, mask) | None => None end.

Definition spec_default_func : func := Legendre.
Definition spec_default_ncoeff : nat := 3.

(* TraceSet(xpos, ypos, func=, ncoeff=, maxiter=, xmin=, xmax=, xjump*=, invvar=, inmask=) -> (trace set, yfit, outmask) *)
Definition ts_fit_src (ofunc : option func) (oncoeff : option nat) (omaxiter : option Z) (oxmin oxmax : option Q)
           (j : option jump) (xpos ypos : mat) (oivar : option mat) (oinmask : option (list (list bool)))
  : option (traceset * mat * list (list bool)) :=
  let f := match ofunc with Some f => f | None => of_gfunc g_default_func end in
  let ncoeff := match oncoeff with Some n => n | None => g_default_ncoeff end in
  let maxiter := match omaxiter with Some n => n | None => g_default_maxiter end in
  let ivar := match oivar with Some v => v | None => map (map (fun _ => g_default_invvar)) xpos end in
  let inmask := match oinmask with Some v => v | None => map (map (fun _ => g_default_inmask)) xpos end in
  let xmin := match oxmin with Some v => v | None => extremum_of g_xmin_default xpos end in
  let xmax := match oxmax with Some v => v | None => extremum_of g_xmax_default xpos end in
  let fits := map (fun t => let '(xr, yr, wr, mr) := t in
                            let tempivar := tempivar_gen wr mr in
                            fit_loop (Z.to_nat (maxiter + 2))
                                     (fun wts => func_fit f (map (xnorm xmin xmax (fit_jump j)) xr) yr wts ncoeff (all_true ncoeff) [] None)
                                     yr tempivar maxiter g_iiter0 g_qdone0 (map g_good tempivar) None)
                  (combine (combine (combine xpos ypos) ivar) inmask) in
  match opt_all fits with
  | None => None
  | Some l => Some ({| ts_func := f; ts_ncoeff := ncoeff; ts_xmin := xmin; ts_xmax := xmax; ts_jump := j;
                       ts_coeff := map (fun r => fst (fst r)) l |}, map (fun r => snd (fst r)) l, map snd l)
  end.

(* TraceSet._func_map (from the source) has no chebyshev_split entry: KeyError *)
Definition xy_supported (f : func) : bool := is_some (xy_func f).

Definition ts_eval_row (t : traceset) (ignore_jump : bool) (xr c : vec) : vec :=
  let j := xy_jump (ts_jump t) ignore_jump in
  let f := match xy_func (ts_func t) with Some g => g | None => ts_func t end in
  map (fun x => dot (basis_row f (ts_ncoeff t) (xnorm (ts_xmin t) (ts_xmax t) j x)) c) xr.

Definition ts_nx_spec (t : traceset) : nat := Z.to_nat (Qfloor (ts_xmax t - ts_xmin t + 1)).
Definition ts_nx (t : traceset) : nat := g_nx (g_xrange (ts_xmin t) (ts_xmax t)).
Definition default_grid (t : traceset) : mat :=
  map (fun _ => map (fun k => g_grid (inject_Z (Z.of_nat k)) (ts_xmin t)) (seq 0 (ts_nx t))) (ts_coeff t).

(* TraceSet.xy(xpos=None, ignore_jump=False) *)
Definition ts_xy (t : traceset) (oxpos : option mat) (ignore_jump : bool) : option (mat * mat) :=
  if xy_supported (ts_func t) then
    let xpos := match oxpos with Some p => p | None => default_grid t end in
    Some (xpos, map2 (ts_eval_row t ignore_jump) xpos (ts_coeff t))
  else None.

(* ================================================================== S : certified checkers *)
Definition tol9 : Q := 1 # 1000000000.
Definition tol7 : Q := 1 # 10000000.

(* does (res, yfit) returned by func_fit satisfy the property's statement? *)
Definition fit_ok (f : func) (x y w : vec) (ncoeff : nat) (ia : list bool) (ans : vec) (ifunc : option vec)
           (res yfit : vec) : bool :=
  let n := length x in
  let good := filter (fun p => Qlt_bool 0 (snd p)) (combine y w) in
  match length good with
  | O => veq_bool res (zeros ncoeff) && veq_bool yfit (zeros n)
  | S O => let y0 := hd 0 (map fst good) in
           veq_bool res (y0 :: zeros (ncoeff - 1)) && veq_bool yfit (repeat y0 n)
  | ngood =>
      let ncfit := Nat.min ngood ncoeff in
      let rows := scale_rows ifunc (map (basis_row_spec f ncfit) x) in
      let iaf := firstn ncfit ia in
      let resf := firstn ncfit res in
      Nat.eqb (length res) ncoeff
      (* coefficients declared fixed keep their prescribed values, exactly *)
      && forallb (fun p => let '(b, r, a) := p in if (b : bool) then true else Qeq_bool r a)
                 (combine (combine iaf resf) (firstn ncfit (ans ++ zeros ncoeff)))
      && veq_bool (skipn ncfit res) (zeros (ncoeff - ncfit))
      (* the free coefficients solve the weighted normal equations *)
      && grad_small tol9 (count_true iaf) (free_problem rows w y iaf (fixed_part ans ia)) (select iaf resf)
      (* fitted values are the basis expansion *)
      && vclose (qclose_rel tol9) yfit (map (fun r => dot r resf) rows)
  end.

(* S-side evaluation of a trace set *)
Definition ts_eval_row_spec (t : traceset) (ignore_jump : bool) (xr c : vec) : vec :=
  let j := if ignore_jump then None else ts_jump t in
  map (fun x => dot (basis_row_spec (ts_func t) (ts_ncoeff t) (xnorm_spec (ts_xmin t) (ts_xmax t) j x)) c) xr.

(* default grid: nTrace rows, floor(xmax-xmin+1) columns xmin, xmin+1, ... *)
Definition grid_ok (t : traceset) (xs : mat) : bool :=
  Nat.eqb (length xs) (length (ts_coeff t))
  && forallb (fun r => Nat.eqb (length r) (ts_nx_spec t)
                       && forallb (fun p => Qeq_bool (fst p) (inject_Z (Z.of_nat (snd p)) + ts_xmin t))
                                  (combine r (seq 0 (length r)))) xs.

(* ================================================================== cases *)
Definition fres := option (vec * vec).

Inductive case :=
  (* impl[k][i] = value of basis function k at xs[i]; scalar calls are encoded as one-element xs *)
  (* impl = None : the call raised ValueError *)
| CBasis (f : func) (m : nat) (xs : vec) (impl : option mat)
| CFit (f : func) (x y w : vec) (ncoeff : nat) (ia : list bool) (ans : vec) (ifunc : option vec) (impl : fres)
  (* TraceSet(xpos, ypos, ...) ; impl = coeff, yfit, y of xy(xpos), (x, y) of xy(None) *)
  (* absent keywords are None: func, ncoeff, maxiter, xmin, xmax, invvar, inmask *)
| CTrace (ofunc : option func) (oncoeff : option nat) (omaxiter : option Z) (oxmin oxmax : option Q) (j : option jump)
         (xpos ypos : mat) (oivar : option mat) (oinmask : option (list (list bool)))
         (icoeff iyfit ixy_x ixy_y igrid_x igrid_y : mat) (ioutmask : list (list bool))
  (* TraceSet(FITS_rec).xy(xpos or None, ignore_jump) *)
| CEval (t : traceset) (oxpos : option mat) (ignore_jump : bool) (ix iy : mat).

Definition b2z (bit : Z) (ok : bool) : Z := if ok then 0%Z else bit.
Fixpoint bvec_eqb (u v : list bool) : bool :=
  match u, v with [], [] => true | a :: u', b :: v' => Bool.eqb a b && bvec_eqb u' v' | _, _ => false end.
Fixpoint bmat_eqb (A B : list (list bool)) : bool :=
  match A, B with [], [] => true | a :: A', b :: B' => bvec_eqb a b && bmat_eqb A' B' | _, _ => false end.

Definition run_case (c : case) : Z :=
  match c with
  | CBasis f m xs impl =>
      let mS := map (fun k => map (basis_spec f k) xs) (seq 0 m) in
      let agree := match basis_call f m xs, impl with
                   | None, None => true
                   | Some mM, Some im => mclose (qclose tol9) im mM
                   | _, _ => false
                   end in
      let spec := match impl with
                  | Some im => Nat.leb (min_order_spec f) m && mclose (qclose tol9) im mS
                  | None => Nat.ltb m (min_order_spec f)
                  end in
      (b2z 1 agree + b2z 2 spec)%Z
  | CFit f x y w ncoeff ia ans ifunc impl =>
      let m := func_fit f x y w ncoeff ia ans ifunc in
      let agree := match m, impl with
                   | None, None => true
                   | Some (r, yf), Some (ir, iyf) => vclose (qclose_rel tol7) ir r && vclose (qclose_rel tol7) iyf yf
                   | _, _ => false
                   end in
      let spec := match impl with
                  | Some (ir, iyf) => fit_ok f x y w ncoeff ia ans ifunc ir iyf
                  | None => true   (* an exception is judged by the model only *)
                  end in
      (b2z 1 agree + b2z 2 spec)%Z
  | CTrace ofunc oncoeff omaxiter oxmin oxmax j xpos ypos oivar oinmask icoeff iyfit ixy_x ixy_y igrid_x igrid_y ioutmask =>
      (* S side: the documented defaults *)
      let f := match ofunc with Some f => f | None => spec_default_func end in
      let ncoeff := match oncoeff with Some n => n | None => spec_default_ncoeff end in
      let ivar := match oivar with Some v => v | None => map (map (fun _ => 1)) xpos end in
      let inmask := match oinmask with Some v => v | None => map (map (fun _ => true)) xpos end in
      let xmin := match oxmin with Some v => v | None => mat_min xpos end in
      let xmax := match oxmax with Some v => v | None => mat_max xpos end in
      let ti := {| ts_func := f; ts_ncoeff := ncoeff; ts_xmin := xmin; ts_xmax := xmax; ts_jump := j; ts_coeff := icoeff |} in
      let agree :=
        match ts_fit_src ofunc oncoeff omaxiter oxmin oxmax j xpos ypos oivar oinmask with
        | None => false
        | Some (t, yfit, om) =>
            mclose (qclose_rel tol7) icoeff (ts_coeff t) && mclose (qclose_rel tol7) iyfit yfit
            && bmat_eqb om ioutmask
            && match ts_xy t (Some xpos) false with
               | Some (mx, my) => meq_bool ixy_x mx && mclose (qclose_rel tol7) ixy_y my
               | None => false
               end
            && match ts_xy ti None false with
               | Some (mx, my) => meq_bool igrid_x mx && mclose (qclose_rel tol7) igrid_y my
               | None => false
               end
        end in
      let spec :=
        (* every trace is the weighted least-squares fit *)
        forallb (fun q => let '(xr, yr, wr, mr, cr, yfr) := q in
                   fit_ok f (map (xnorm_spec xmin xmax j) xr) yr (mask_w wr mr) ncoeff (all_true ncoeff) [] None cr yfr)
                (combine (combine (combine (combine (combine xpos ypos) ivar) inmask) icoeff) iyfit)
        && Nat.eqb (length icoeff) (length xpos) && Nat.eqb (length iyfit) (length xpos)
        (* evaluating at the same positions returns the positions and the fitted values *)
        && meq_bool ixy_x xpos && mclose (qclose_rel tol9) ixy_y iyfit
        (* default grid *)
        && grid_ok ti igrid_x
        && mclose (qclose_rel tol9) igrid_y (map2 (ts_eval_row_spec ti false) igrid_x icoeff) in
      (b2z 1 agree + b2z 2 spec)%Z
  | CEval t oxpos ig ix iy =>
      let agree := match ts_xy t oxpos ig with
                   | Some (mx, my) => meq_bool ix mx && mclose (qclose_rel tol9) iy my
                   | None => false
                   end in
      let spec := match oxpos with
                  | Some p => meq_bool ix p
                  | None => grid_ok t ix
                  end
                  && mclose (qclose_rel tol9) iy (map2 (ts_eval_row_spec t ig) ix (ts_coeff t)) in
      (b2z 1 agree + b2z 2 spec)%Z
  end.

Definition run_cases (cs : list case) : list Z := map run_case cs.
