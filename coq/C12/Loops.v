(* C12 -- round 5: the WHOLE bodies of set_use_caps, is_in_polygon (one point) and is_in_window (one point), as
   translate/c12.py compiles them statement by statement from the source (Generated/Mangle.v: gen_set_use_caps_body,
   gen_is_in_polygon_body, gen_is_in_window_body with its fuelled while loop), are the hand-written loop skeletons
   of C12/Model.v that all theorems are about.  A change of a loop bound, of the order of the guards, of the
   start value, of the while condition or of the increment breaks these lemmas. *)
From Coq Require Import ZArith QArith Qabs List Bool Lia.
Import ListNotations.
From PV Require Import C12.Spec Generated.Mangle C12.Model C12.Proofs C12.SetUse.
Open Scope Z_scope.

(* ------------------------------------------------------------------ folds and ranges *)

Lemma fold_left_map_l {A B C} (f : A -> B -> A) (g : C -> B) l : forall u,
  fold_left f (map g l) u = fold_left (fun u x => f u (g x)) l u.
Proof. induction l as [|x l IH]; intro u; cbn [map fold_left]; [reflexivity|apply IH]. Qed.

Lemma fold_left_ext_in {A B} (f g : A -> B -> A) l : (forall u x, In x l -> f u x = g u x) ->
  forall u, fold_left f l u = fold_left g l u.
Proof.
  induction l as [|x l IH]; intros H u; cbn [fold_left]; [reflexivity|].
  rewrite (H u x (or_introl eq_refl)). apply IH. intros u' y Hy. apply H. right. exact Hy.
Qed.

Lemma zrange_seq (a b : nat) : zrange (Z.of_nat a) (Z.of_nat b) = map Z.of_nat (seq a (b - a)).
Proof.
  unfold zrange. replace (Z.to_nat (Z.of_nat b - Z.of_nat a)) with (b - a)%nat by lia.
  generalize (b - a)%nat as len. intro len.
  assert (forall s, map (fun k => Z.of_nat a + Z.of_nat k) (seq s len) = map Z.of_nat (seq (a + s) len)) as G.
  { induction len as [|len IH]; intro s; cbn [seq map]; [reflexivity|].
    f_equal; [lia|]. rewrite IH. f_equal. f_equal. lia. }
  rewrite (G 0%nat). rewrite Nat.add_0_r. reflexivity.
Qed.

Lemma zrange_0 (z : Z) : zrange 0 z = map Z.of_nat (seq 0 (Z.to_nat z)).
Proof.
  unfold zrange. rewrite Z.sub_0_r. apply map_ext. intro k. reflexivity.
Qed.

(* ------------------------------------------------------------------ set_use_caps *)

Definition cm_of (caps : list cap) (i : Z) : Q :=
  match nth_error caps (Z.to_nat i) with Some c => ccm c | None => 0%Q end.

Definition d2_of (caps : list cap) (i j : Z) : Q :=
  match nth_error caps (Z.to_nat i), nth_error caps (Z.to_nat j) with
  | Some a, Some b => dist2 (cx a) (cx b)
  | _, _ => 0%Q
  end.

Lemma set_use_caps_body_is_model P idx o : wf_poly P ->
  gen_set_use_caps_body (Z.of_nat (pn P)) (d2_of (pcaps P)) (cm_of (pcaps P)) idx
                        (o_add o) (o_tol o) (o_allow_doubles o) (o_allow_neg_doubles o) (puse P)
  = set_use_caps P idx o.
Proof.
  intro Hwf. unfold wf_poly in Hwf. unfold gen_set_use_caps_body, set_use_caps. cbv zeta.
  change (if negb (o_add o) then 0 else puse P) with (gen_initial_use (o_add o) (puse P)).
  change (fold_left (fun u i => Z.lor u (Z.shiftl 1 i)) idx (gen_initial_use (o_add o) (puse P)))
    with (set_bits (gen_initial_use (o_add o) (puse P)) idx).
  generalize (set_bits (gen_initial_use (o_add o) (puse P)) idx) as u1. intro u1.
  destruct (o_allow_doubles o); cbn [negb]; [reflexivity|].
  unfold dedup. change 0 with (Z.of_nat 0) at 1. rewrite zrange_seq, fold_left_map_l, Nat.sub_0_r.
  apply fold_left_ext_in. intros u i Hi. apply in_seq in Hi.
  unfold is_cap_used. destruct (gen_is_cap_used u (Z.of_nat i)); [|reflexivity].
  unfold dedup_inner. rewrite inner_range_eq.
  replace (Z.of_nat i + 1) with (Z.of_nat (S i)) by lia.
  rewrite zrange_seq, fold_left_map_l.
  apply fold_left_ext_in. intros u' j Hj. apply in_seq in Hj.
  unfold is_cap_used. destruct (gen_is_cap_used u' (Z.of_nat j)); [|reflexivity].
  unfold dup_at, d2_of, cm_of. rewrite !Nat2Z.id.
  destruct (nth_error (pcaps P) i) as [a|] eqn:Ei; [|apply nth_error_None in Ei; lia].
  destruct (nth_error (pcaps P) j) as [b|] eqn:Ej; [|apply nth_error_None in Ej; lia].
  unfold same_cap, gen_doubles, gen_clear_bit.
  destruct (gQlt (dist2 (cx a) (cx b)) (Qmult (o_tol o) (o_tol o))); cbn [andb]; [|reflexivity].
  destruct (orb _ _); reflexivity.
Qed.

(* ------------------------------------------------------------------ is_in_polygon, one point *)

Definition incap_of (caps : list cap) (p : vec) (i : Z) : bool :=
  match nth_error caps (Z.to_nat i) with Some c => in_cap c p | None => false end.

Lemma is_in_polygon_body_is_model P ncaps p :
  gen_is_in_polygon_body (Z.of_nat (pn P)) (puse P) ncaps (incap_of (pcaps P) p) = in_polygon P ncaps p.
Proof.
  unfold gen_is_in_polygon_body, in_polygon. cbv zeta.
  change (if 0 <? ncaps then Z.min ncaps (Z.of_nat (pn P)) else Z.of_nat (pn P)) with (gen_usencaps ncaps (Z.of_nat (pn P))).
  unfold usencaps. rewrite zrange_0, fold_left_map_l.
  change true with gen_poly_init at 1.
  apply fold_left_ext_in. intros acc i _.
  unfold is_cap_used. destruct (gen_is_cap_used (puse P) (Z.of_nat i)); [|reflexivity].
  unfold incap_of. rewrite Nat2Z.id. unfold gen_poly_acc.
  destruct (nth_error (pcaps P) i); [reflexivity|apply andb_false_r].
Qed.

(* ------------------------------------------------------------------ is_in_window, one point *)

Definition inpoly_of (Ps : list polygon) (ncaps : Z) (p : vec) (k : Z) : bool :=
  match nth_error Ps (Z.to_nat k) with Some P => in_polygon P ncaps p | None => false end.

(* the per-point meaning of one pass of the vectorised loop body *)
Definition pstep (ncaps : Z) (p : vec) (st : Z * Z) (P : polygon) : Z * Z :=
  let '(a, k) := st in
  (if gen_window_unassigned a then (if in_polygon P ncaps p then gen_window_assign k else a) else a, gen_window_next k).

Lemma window_step_pointwise ncaps pts : forall Ps k assigned, length assigned = length pts ->
  fst (fold_left (window_step ncaps pts) Ps (assigned, k))
  = map (fun ap : Z * vec => fst (fold_left (pstep ncaps (snd ap)) Ps (fst ap, k))) (combine assigned pts).
Proof.
  induction Ps as [|P Ps IH]; intros k assigned Hlen; cbn [fold_left].
  - cbn [fst]. revert pts Hlen. induction assigned as [|a assigned IHa]; intros [|p pts] Hlen; try discriminate; try reflexivity.
    cbn [combine map fst fold_left]. f_equal. apply IHa. cbn in Hlen. lia.
  - unfold window_step at 2. rewrite IH by (rewrite map_length, combine_length; lia).
    clear IH. revert pts Hlen. induction assigned as [|a assigned IHa]; intros [|p pts] Hlen; try discriminate; try reflexivity.
    cbn [combine map fst snd]. f_equal; try reflexivity. apply IHa; cbn in Hlen; lia.
Qed.

Lemma window_while_is_fold ncaps p : forall Ps done a fuel, (length Ps <= fuel)%nat ->
  gen_is_in_window_while0 fuel (Z.of_nat (length (done ++ Ps))) (inpoly_of (done ++ Ps) ncaps p) a (Z.of_nat (length done))
  = fold_left (pstep ncaps p) Ps (a, Z.of_nat (length done)).
Proof.
  induction Ps as [|P Ps IH]; intros done a fuel Hf.
  - rewrite app_nil_r. cbn [fold_left]. destruct fuel as [|fuel]; cbn [gen_is_in_window_while0]; [reflexivity|].
    rewrite Z.ltb_irrefl. reflexivity.
  - destruct fuel as [|fuel]; [cbn in Hf; lia|]. cbn [gen_is_in_window_while0 fold_left].
    assert (Z.of_nat (length done) <? Z.of_nat (length (done ++ P :: Ps)) = true) as ->.
    { apply Z.ltb_lt. rewrite app_length. cbn [length]. lia. }
    cbv zeta.
    assert (inpoly_of (done ++ P :: Ps) ncaps p (Z.of_nat (length done)) = in_polygon P ncaps p) as ->.
    { unfold inpoly_of. rewrite Nat2Z.id, nth_error_app2 by lia. rewrite Nat.sub_diag. reflexivity. }
    replace (Z.of_nat (length done) + 1) with (Z.of_nat (length (done ++ [P]))) by (rewrite app_length; cbn [length]; lia).
    replace (done ++ P :: Ps) with ((done ++ [P]) ++ Ps) by (rewrite <- app_assoc; reflexivity).
    rewrite IH by (cbn in Hf; lia).
    unfold pstep at 2. unfold gen_window_unassigned, gen_window_assign, gen_window_next.
    replace (Z.of_nat (length (done ++ [P]))) with (Z.of_nat (length done) + 1) by (rewrite app_length; cbn [length]; lia).
    reflexivity.
Qed.

(* what is_in_window returns for point number i is the generated per-point body, for every fuel >= len(polygons) *)
Lemma is_in_window_body_is_model Ps ncaps pts i p fuel : (length Ps <= fuel)%nat -> nth_error pts i = Some p ->
  nth_error (in_window Ps ncaps pts) i
  = Some (gen_is_in_window_body fuel (Z.of_nat (length Ps)) (inpoly_of Ps ncaps p)).
Proof.
  intros Hf Hp. unfold in_window, in_window_idx.
  rewrite window_step_pointwise by apply map_length.
  rewrite nth_error_map, nth_error_map.
  assert (nth_error (combine (map (fun _ : vec => gen_window_default) pts) pts) i = Some (gen_window_default, p)) as ->.
  { clear Hf. revert i Hp. induction pts as [|q pts IH]; intros [|i] Hp; try discriminate; cbn [map combine nth_error] in *.
    - injection Hp as ->. reflexivity.
    - apply IH. exact Hp. }
  cbn [option_map fst snd]. f_equal.
  unfold gen_is_in_window_body. cbv zeta.
  pose proof (window_while_is_fold ncaps p Ps [] (0 - 1) fuel Hf) as W. cbn [app length Z.of_nat] in W.
  rewrite W. unfold gen_window_default, gen_window_start.
  destruct (fold_left (pstep ncaps p) Ps (0 - 1, 0)) as [a k]. cbn [fst]. reflexivity.
Qed.
