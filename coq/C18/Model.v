(* C18 -- algorithmic model M: the expressions GENERATED from the pydl source (Generated/Gcirc.v, Generated/Coord.v)
   composed into the functions the harness talks about.  Definitions only.
   The models are over R (Coq Reals); they are evaluated by the Interval tactic, one certified enclosure per case
   (see harness/props/c18.py), not by vm_compute, so there is no run_case here. *)
From Coq Require Import Reals ZArith QArith Qreals.
From PV Require Import C18.Spec Generated.Gcirc Generated.Coord.
Open Scope R_scope.

(* gcirc as the source computes it *)
Definition gcirc_M (units : Z) (ra1 dec1 ra2 dec2 : R) : R := gcirc_gen units ra1 dec1 ra2 dec2.

(* frame attributes, in radians *)
Definition node_rad : R := deg (Q2R sdss_node_default_deg).
Definition incl_rad (stripe : Z) : R := deg (Q2R (stripe_to_incl_gen stripe)).

(* the two frame transforms on unit vectors (node frame), angles in degrees as the frames hold them *)
Definition munu_to_radec_M (stripe : Z) (mu nu : R) : V3 := m2r_vec (deg mu) (deg nu) (incl_rad stripe) node_rad.
Definition radec_to_munu_M (stripe : Z) (ra dec : R) : V3 := r2m_vec (deg ra) (deg dec) (incl_rad stripe) node_rad.

(* angles <-> unit vectors of pydl.pydlutils.mangle *)
Definition angles_to_x_M := angles_to_x_gen.
Definition x_to_angles_M := x_to_angles_gen atan2.
