(* C11 -- combine1fiber resamples spectra: finite flux, conservative inverse variance.
   Property theorems only; each is closed by `exact` and followed by Print Assumptions.
   Model: C11/Model.v (combine1fiber_model c fits: c = inputs, fits = one B-spline fit result per group -- the recorded
   iterfit result in the correspondence run, `model_fit` = the C10 iterfit model in the fit-level theorems).
   "Same grid is the identity to interpolation accuracy" is an approximation statement: measured by the
   correspondence run (2e-3 on smooth inputs), deliberately NOT a theorem. *)
From Coq Require Import QArith Qminmax Qabs List Bool Arith.
Import ListNotations.
From PV Require Import Lib.WLS BSpline.Eval BSpline.Fit BSpline.Iter BSpline.KnotsProofs
  Generated.Combine1fiber C11.Model C11.Proofs C11.ProofsIvar C11.ProofsFlux C11.ProofsScale C11.ProofsFit C11.ProofsGen C11.ProofsR5.
Open Scope Q_scope.

(* ---- lengths: |newflux| = |newivar| = |newloglam|, for every input and every fit result *)
Theorem C11_lengths : forall c fits,
  length (fst (combine1fiber_model c fits)) = length (c_newloglam c) /\
  length (snd (combine1fiber_model c fits)) = length (c_newloglam c).
Proof. exact lengths. Qed.
Print Assumptions C11_lengths.

(* ---- inverse variance >= 0 (single spectrum with non-negative input ivar; any number of exposures with
   non-negative weights) *)
Theorem C11_ivar_nonneg : forall c fits, single_spectrum c -> ivar_input_nonneg c ->
  Forall (fun v => 0 <= v) (snd (combine1fiber_model c fits)).
Proof. exact ivar_nonneg. Qed.
Print Assumptions C11_ivar_nonneg.

Theorem C11_ivar_nonneg_weights : forall c fits, (forall i, 0 <= nthQ (weights c) i) ->
  Forall (fun v => 0 <= v) (snd (combine1fiber_model c fits)).
Proof. exact ivar_nonneg_weights. Qed.
Print Assumptions C11_ivar_nonneg_weights.

(* ---- no good input pixel at all: everything is zero *)
Theorem C11_no_good_pixel_all_zero : forall c fits, good_index c = [] ->
  combine1fiber_model c fits = (map (fun _ => 0) (c_newloglam c), map (fun _ => 0) (c_newloglam c)).
Proof. exact no_good_pixel_all_zero. Qed.
Print Assumptions C11_no_good_pixel_all_zero.

(* ---- newivar = 0 unless the output pixel lies between two adjacent input pixels that both passed the fit
   (fullcombmask), up to the code's own window of EPS = 2^-23 of a pixel beside a passing pixel
   (exists_bracket / allowed_between spell this out).  So: outside the input range, next to or inside runs of
   zero-weight / rejected pixels, in groups too small to be fitted -> newivar = 0. *)
Theorem C11_ivar_zero_outside : forall c fits q, single_spectrum c -> incrl (c_inloglam c) ->
  (2 <= length (c_inloglam c))%nat ->
  ~ nthQ (snd (combine1fiber_model c fits)) q == 0 ->
  exists_bracket (map (fun i => (nthQ (c_inloglam c) i, nthB (s_comb (fst (stages c fits))) i))
                      (seq 0 (length (c_inloglam c)))) (nthQ (c_newloglam c) q) = true.
Proof. exact ivar_zero_outside. Qed.
Print Assumptions C11_ivar_zero_outside.

Theorem C11_ivar_zero_outside_multi : forall c fits q,
  (forall j, (j < c_nspec c)%nat -> incrl (map (nthQ (c_inloglam c)) (these_of c j)) /\ (2 <= length (these_of c j))%nat) ->
  ~ nthQ (snd (combine1fiber_model c fits)) q == 0 ->
  exists j, (j < c_nspec c)%nat /\
    exists_bracket (map (fun i => (nthQ (c_inloglam c) i, nthB (s_comb (fst (stages c fits))) i)) (these_of c j))
                   (nthQ (c_newloglam c) q) = true.
Proof. exact ivar_zero_outside_multi. Qed.
Print Assumptions C11_ivar_zero_outside_multi.

(* a non-zero output inverse variance also needs a valid spline value there *)
Theorem C11_newivar_nonzero_needs_mask : forall c fits q,
  ~ nthQ (snd (stages c fits)) q == 0 -> nth q (s_mask (fst (stages c fits))) false = true.
Proof. exact newivar_nonzero_needs_mask. Qed.
Print Assumptions C11_newivar_nonzero_needs_mask.

(* ---- single spectrum: every non-zero output ivar is the linear interpolation of the (masked) input ivar and
   never above the larger of its two neighbours *)
Theorem C11_ivar_is_interp_le_localmax : forall c fits iv q, single_spectrum c -> incrl (c_inloglam c) ->
  (2 <= length (c_inloglam c))%nat -> c_ivar c = Some iv -> Forall (fun w => 0 <= w) iv ->
  length iv = length (c_inloglam c) ->
  let p := nthQ (c_newloglam c) q in
  let comb := s_comb (fst (stages c fits)) in
  let v := nthQ (snd (combine1fiber_model c fits)) q in
  ~ v == 0 ->
  exists i, (S i < length iv)%nat /\ nthQ (c_inloglam c) i <= p <= nthQ (c_inloglam c) (S i) /\
    allowed_between (nthQ (c_inloglam c) i) (nthQ (c_inloglam c) (S i)) (nthB comb i) (nthB comb (S i)) p = true /\
    v == interp (map (fun i => (nthQ (c_inloglam c) i, nthQ iv i * b2q (nthB comb i))) (seq 0 (length iv))) p /\
    v <= Qmax (nthQ iv i) (nthQ iv (S i)).
Proof. exact ivar_is_interp_le_localmax. Qed.
Print Assumptions C11_ivar_is_interp_le_localmax.

(* np.interp: bracketing and convexity *)
Theorem C11_interp_bracket_bounds : forall pts p, ssorted pts -> (2 <= length pts)%nat ->
  fst (hd (0, 0) pts) <= p -> p <= fst (last pts (0, 0)) ->
  exists a b, adjacent pts a b /\ fst a < fst b /\ fst a <= p <= fst b /\
    interp pts p == snd a + (snd b - snd a) * ((p - fst a) / (fst b - fst a)) /\
    Qmin (snd a) (snd b) <= interp pts p <= Qmax (snd a) (snd b).
Proof. exact interp_bracket_bounds. Qed.
Print Assumptions C11_interp_bracket_bounds.

(* ---- a constant spectrum stays constant *)
Theorem C11_constant_spectrum_stays_constant : forall c c0 fits,
  fits_constant c c0 fits -> (1 <= c_k c)%nat -> good_index c <> [] ->
  forall q, 0 < nthQ (snd (combine1fiber_model c fits)) q -> nthQ (fst (combine1fiber_model c fits)) q == c0.
Proof. exact constant_spectrum_stays_constant_pos. Qed.
Print Assumptions C11_constant_spectrum_stays_constant.

Theorem C11_aesthetics_constant : forall m flux iv c, length iv = length flux -> m <> Nothing ->
  (forall q, (q < length flux)%nat -> ~ nthQ iv q == 0 -> nthQ flux q == c) ->
  (exists q, 0 < nthQ iv q) ->
  Forall (fun a => a == c) (aesthetics_model m flux iv).
Proof. exact aesthetics_constant. Qed.
Print Assumptions C11_aesthetics_constant.

(* aesthetics only touches pixels without variance *)
Theorem C11_aesthetics_support : forall m flux iv, length iv = length flux ->
  forall q, 0 < nthQ iv q -> nthQ (aesthetics_model m flux iv) q = nthQ flux q.
Proof. exact aesthetics_support_pos. Qed.
Print Assumptions C11_aesthetics_support.

(* the fit model (C10 loop with the certified solver) returns constant coefficients on constant data *)
Theorem C11_iter_loop_constant : forall gb k lower upper ds c0,
  incr gb -> (1 <= k)%nat -> (2 * k <= length gb)%nat ->
  Forall (fun d => dy d == c0) ds ->
  forall fuel mask coef m,
  iter_loop fit_dense fuel gb k lower upper ds mask = Some (coef, m) -> Forall (fun a => a == c0) coef.
Proof. exact iter_loop_constant. Qed.
Print Assumptions C11_iter_loop_constant.

Theorem C11_model_fit_constant : forall maxiter lower upper bkspace k c ss c0 g,
  let gb := knots_of_option (OBkspace bkspace) (map (nthQ (c_inloglam c)) ss) k 1 in
  incr gb -> (1 <= k)%nat -> (2 * k <= length gb)%nat ->
  Forall (fun i => nthQ (c_flux c) i == c0) ss ->
  model_fit fit_dense maxiter lower upper bkspace k c ss = Some g ->
  Forall (fun a => a == c0) (g_coeff g).
Proof. exact model_fit_constant. Qed.
Print Assumptions C11_model_fit_constant.

(* ---- scaling law: flux * s, ivar / s^2 (and the per-group fits scaled by s) scale the outputs likewise.
   The growth test |smooth3| < EPS is absolute; the hypothesis says the rescaling moves no 3-pixel mean across EPS. *)
Theorem C11_scaling_law : forall s c iv fits,
  0 < s -> c_nspec c = 1%nat -> c_stacked c = false -> c_ivar c = Some iv ->
  growth_decisions_agree s c fits ->
  let (nf, ni) := combine1fiber_model c fits in
  let (nf', ni') := combine1fiber_model (scale_cin s c) (map (scale_fit s) fits) in
  Forall2 Qeq nf' (map (fun a => a * s) nf) /\ Forall2 Qeq ni' (map (fun a => a / (s * s)) ni).
Proof. exact scaling_law. Qed.
Print Assumptions C11_scaling_law.

(* ... and the fit model itself scales: same rejection masks, coefficients times s *)
Theorem C11_iter_loop_scale : forall gb k lower upper s ds,
  (1 <= k)%nat -> (2 * k <= length gb)%nat -> 0 < s ->
  forall fuel mask x m x' m',
  iter_loop fit_dense fuel gb k lower upper ds mask = Some (x, m) ->
  iter_loop fit_dense fuel gb k lower upper (map (scale_datum s) ds) mask = Some (x', m') ->
  m' = m /\ Forall2 Qeq x' (map (fun a => a * s) x).
Proof. exact iter_loop_scale. Qed.
Print Assumptions C11_iter_loop_scale.

Theorem C11_model_fit_scale : forall s maxiter lower upper bkspace k c ss iv g g',
  let gb := knots_of_option (OBkspace bkspace) (map (nthQ (c_inloglam c)) ss) k 1 in
  (1 <= k)%nat -> (2 * k <= length gb)%nat -> 0 < s ->
  c_ivar c = Some iv -> c_stacked c = false ->
  model_fit fit_dense maxiter lower upper bkspace k c ss = Some g ->
  model_fit fit_dense maxiter lower upper bkspace k (scale_cin s c) ss = Some g' ->
  fit_equiv (Some g') (scale_fit s (Some g)).
Proof. exact model_fit_scale_single. Qed.
Print Assumptions C11_model_fit_scale.

(* ---- preprocess_spectra: a pixel at log-wavelength L is resampled at L - logshift (logshift = log10(1+z), a
   parameter); grouping and interpolation do not see the shift *)
Theorem C11_shift_grid_nth : forall s l i, (i < length l)%nat -> nthQ (shift_grid s l) i = nthQ l i - s.
Proof. exact shift_grid_nth. Qed.
Print Assumptions C11_shift_grid_nth.

Theorem C11_preprocess_is_shifted_call : forall shift c fits,
  preprocess_model shift c fits =
  combine1fiber_model (mkCin (shift_grid shift (c_inloglam c)) (c_flux c) (c_ivar c) (c_specnum c) (c_nspec c)
                             (c_newloglam c) (c_maxsep c) (c_k c) (c_method c) (c_isort c) (c_stacked c)) fits.
Proof. exact preprocess_is_shifted_call. Qed.
Print Assumptions C11_preprocess_is_shifted_call.

Theorem C11_groups_shift_invariant : forall maxsep s l isort,
  Forall (fun i => (i < length l)%nat) isort ->
  groups maxsep (shift_grid s l) isort = groups maxsep l isort.
Proof. exact groups_shift_invariant. Qed.
Print Assumptions C11_groups_shift_invariant.

Theorem C11_interp_shift : forall s pts p,
  interp (map (fun q => (fst q - s, snd q)) pts) (p - s) == interp pts p.
Proof. exact interp_shift. Qed.
Print Assumptions C11_interp_shift.

(* ---- the model's thresholds and index arithmetic are the ones translate/c11.py extracts from the source on every
   run (Generated/Combine1fiber.v): EPS, defaults, grouping comparison, minimum group size, inside bounds, the
   smask >= 1-EPS test, the bad-region test and the +-2 growth offsets *)
Theorem C11_generated_EPS_and_defaults : c1f_EPS = EPS /\ c1f_nord = 3%nat /\ c1f_maxsep_factor == 2 /\
  c1f_bkptbin_factor == 12 # 10 /\ c1f_pad_lo == 2 /\ c1f_pad_hi == 2 /\ c1f_slice_extra = 1%nat /\ c1f_smooth_width = 3%nat.
Proof. exact (conj gen_EPS gen_defaults). Qed.
Print Assumptions C11_generated_EPS_and_defaults.

Theorem C11_generated_grouping : forall maxsep w,
  gap_after maxsep w =
  (fix go (w : list Q) : list bool :=
     match w with
     | [] => []
     | [a] => [true]
     | a :: ((b :: _) as r) => c1f_gap maxsep (b - a) :: go r
     end) w.
Proof. exact gen_gap_after. Qed.
Print Assumptions C11_generated_grouping.

Theorem C11_generated_min_group : forall ss f, (length ss <=? c1f_min_group)%nat = true -> usable ss f = None.
Proof. exact gen_usable_size. Qed.
Print Assumptions C11_generated_min_group.

Theorem C11_generated_inside : forall lo hi p, c1f_inside lo hi p = inside_b lo hi p.
Proof. exact gen_inside. Qed.
Print Assumptions C11_generated_inside.

Theorem C11_generated_smask : forall inloglam wts comb these newloglam newmask,
  ivar_of_exposure inloglam wts comb these newloglam newmask =
  let xs := map (nthQ inloglam) these in
  let lo := lminQ xs in let hi := lmaxQ xs in
  let pv := map (fun i => (nthQ inloglam i, nthQ wts i * b2q (nthB comb i))) these in
  let pm := map (fun i => (nthQ inloglam i, b2q (nthB comb i))) these in
  map (fun t => let '(p, m) := t in
         if Qle_bool lo p && Qle_bool p hi then
           (if c1f_smask_ok (interp pm p) then interp pv p else 0) * b2q m
         else 0) (combine newloglam newmask).
Proof. exact gen_smask. Qed.
Print Assumptions C11_generated_smask.

Theorem C11_generated_growth : forall v,
  grow v =
  let n := length v in
  let bad := map c1f_bad (smooth3 v) in
  let ibad := filter (fun i => nthB bad i) (seq 0 n) in
  let lower := map c1f_grow_lo ibad in
  let upper := map (c1f_grow_hi n) ibad in
  set_many upper (map (fun _ => 0) upper) (set_many lower (map (fun _ => 0) lower) v).
Proof. exact gen_grow. Qed.
Print Assumptions C11_generated_growth.

(* ================================================================== round 5 *)
(* ---- aesthetics='damp', the taper 0.5*(1+erf) an arbitrary function with values in [0,1]:
   the inverse variance is the one of every other method (all ivar theorems above hold verbatim for damp) ... *)
Theorem C11_damp_ivar_same : forall (erfh : Q -> Q) c fits,
  snd (combine1fiber_damp erfh c fits) = snd (combine1fiber_model c fits).
Proof. exact damp_ivar_same. Qed.
Print Assumptions C11_damp_ivar_same.

Theorem C11_damp_lengths : forall (erfh : Q -> Q) c fits,
  length (fst (combine1fiber_damp erfh c fits)) = length (c_newloglam c) /\
  length (snd (combine1fiber_damp erfh c fits)) = length (c_newloglam c).
Proof. exact damp_lengths. Qed.
Print Assumptions C11_damp_lengths.

(* ... and the damped flux never exceeds in size the flux filled in by the traditional method (so it is finite, zero
   where that is zero, and the taper cannot overshoot) *)
Theorem C11_damp_le_traditional : forall (erfh : Q -> Q), (forall x, 0 <= erfh x /\ erfh x <= 1) ->
  forall c fits q, c_method c = Traditional ->
  Qabs (nthQ (fst (combine1fiber_damp erfh c fits)) q) <= Qabs (nthQ (fst (combine1fiber_model c fits)) q).
Proof. exact damp_le_traditional. Qed.
Print Assumptions C11_damp_le_traditional.

(* ---- same grid = identity, the exact part: when the data of a group are the values of a spline of the fit's own space
   (coefficients a on the group's knots), the rejection loop recovers a in its first pass, rejects nothing, and the
   fitted spline evaluated at the data abscissae -- resampling onto the same grid -- returns the data exactly.
   (constants are the special case a = const: C11_iter_loop_constant) *)
Theorem C11_same_grid_identity_in_space : forall gb k lower upper ds a fuel mask coef m,
  (1 <= k)%nat -> (2 * k <= length gb)%nat -> length a = (length gb - k)%nat -> length mask = length ds ->
  Forall2 Qeq (map dy ds) (yfit_of gb k a (map dx ds)) ->
  iter_loop fit_dense fuel gb k lower upper ds mask = Some (coef, m) ->
  Forall2 Qeq coef a /\ m = mask /\ Forall2 Qeq (yfit_of gb k coef (map dx ds)) (map dy ds).
Proof. exact same_grid_identity_in_space. Qed.
Print Assumptions C11_same_grid_identity_in_space.

(* ... and the unconditional exact identity is false: with breakpoints every 1.2 pixels a group of n pixels has fewer
   coefficients than pixels, so data outside the spline space are not reproduced.  Witness: eight good pixels with a
   spike, resampled onto the same grid by the whole chain model; a pixel with positive inverse variance changes.
   "To interpolation accuracy" is therefore an approximation statement about smooth data (measured: 2e-3). *)
Theorem C11_same_grid_exact_identity_refuted : exists c bkspace q,
  c_newloglam c = c_inloglam c /\ c_ivar c = Some (map (fun _ => 1) (c_inloglam c)) /\
  0 < nthQ (snd (combine1fiber_chain fit_dense bkspace c)) q /\
  ~ nthQ (fst (combine1fiber_chain fit_dense bkspace c)) q == nthQ (c_flux c) q.
Proof. exact same_grid_exact_identity_refuted. Qed.
Print Assumptions C11_same_grid_exact_identity_refuted.

(* ---- degenerate output grids: with fewer than 3 pixels smooth() has no interior pixel, so
   one pixel: newivar is the interpolated inverse variance itself; two pixels: both or none *)
Theorem C11_grow_one_pixel : forall a, Forall2 Qeq (grow [a]) [a].
Proof. exact grow_one. Qed.
Print Assumptions C11_grow_one_pixel.

Theorem C11_grow_two_pixels : forall a b,
  grow [a; b] = if c1f_bad a || c1f_bad b then [0; 0] else [a; b].
Proof. exact grow_two. Qed.
Print Assumptions C11_grow_two_pixels.

(* ---- more of the stage control is the source's (Generated/Combine1fiber.v, regenerated on every run) *)
Theorem C11_generated_no_good : forall c fits, c1f_no_good (length (good_index c)) = true ->
  combine1fiber_model c fits = (map (fun _ => 0) (c_newloglam c), map (fun _ => 0) (c_newloglam c)).
Proof. exact gen_no_good. Qed.
Print Assumptions C11_generated_no_good.

Theorem C11_generated_usable : forall ss f, usable ss f =
  if (length ss <=? c1f_min_group)%nat then None
  else match f with Some g => if c1f_coeff_dead (g_coeff g) then None else Some g | None => None end.
Proof. exact gen_usable. Qed.
Print Assumptions C11_generated_usable.

Theorem C11_generated_inbetween : forall inloglam wts comb these newloglam newmask,
  ivar_of_exposure inloglam wts comb these newloglam newmask =
  let xs := map (nthQ inloglam) these in
  let pv := map (fun i => (nthQ inloglam i, nthQ wts i * b2q (nthB comb i))) these in
  let pm := map (fun i => (nthQ inloglam i, b2q (nthB comb i))) these in
  map (fun t => let '(p, m) := t in
         if c1f_inbetween (lminQ xs) (lmaxQ xs) p then
           (if c1f_smask_ok (interp pm p) then interp pv p else 0) * b2q m
         else 0) (combine newloglam newmask).
Proof. exact gen_inbetween. Qed.
Print Assumptions C11_generated_inbetween.

Theorem C11_generated_median : forall nspec specnum ivar,
  smooth_weights nspec specnum ivar =
  fold_left (fun iv j =>
      let idx := filter (fun i => (nth i specnum O =? j)%nat && Qltb 0 (nthQ ivar i)) (seq 0 (length ivar)) in
      set_many idx (median_filter c1f_median_width (map (nthQ ivar) idx)) iv)
    (seq 0 nspec) ivar.
Proof. exact gen_median. Qed.
Print Assumptions C11_generated_median.

Theorem C11_generated_chain_fit : forall sv bkspace c ss,
  chain_fit sv bkspace c ss =
  let ys := map (nthQ (c_flux c)) ss in
  let ws := match c_ivar c with
            | Some iv => map (nthQ (weights c)) ss
            | None => let w := default_invvar ys in map (fun _ => w) ss end in
  let ds := map (fun t : nat * Q => mkDatum (nthQ (c_inloglam c) (fst t)) (nthQ (c_flux c) (fst t)) (snd t)) (combine ss ws) in
  let bk := knots_of_option (OBkspace bkspace) (map dx ds) (c_k c) 1 in
  chain_loop sv (S c1f_iterfit_maxiter) c1f_requiren (c_k c) c1f_iterfit_lower c1f_iterfit_upper
             bk (map (fun _ => true) bk) ds (initial_mask ds).
Proof. exact gen_chain_fit. Qed.
Print Assumptions C11_generated_chain_fit.

Theorem C11_generated_damp : forall erfh flux iv,
  aesthetics_damp erfh flux iv =
  let bad := map (fun v => Qeq_bool v 0) iv in
  if forallb (fun b : bool => b) bad then flux
  else if existsb (fun b => b) bad then
    let good := filter (fun i => negb (nthB bad i)) (seq 0 (length iv)) in
    let mingood := hd O good in
    let maxgood := last good O in
    let n := length flux in
    let t1 := fun i : nat => if c1f_taper1_on mingood
                             then erfh ((qnat i - qnat mingood) / qnat (Nat.min mingood c1f_damp_len)) else 1 in
    let t2 := fun i : nat => if c1f_taper2_on maxgood n
                             then erfh ((qnat maxgood - qnat i) / qnat (Nat.max (Nat.min maxgood c1f_damp_len) c1f_damp2_floor)) else 1 in
    map (fun t : nat * Q => snd t * t1 (fst t) * t2 (fst t)) (combine (seq 0 n) (maskinterp_idx flux bad))
  else flux.
Proof. exact gen_damp. Qed.
Print Assumptions C11_generated_damp.

Theorem C11_generated_pp_shift : forall s l, shift_grid s l = map (fun L => pp_shift L s) l.
Proof. exact gen_pp_shift. Qed.
Print Assumptions C11_generated_pp_shift.

(* non-vacuity, round 5 *)
(* damp with the table instance: three pixels, the first without variance: maskinterp fills 2, the taper (value 1/2 at
   argument 0, 1/4 at -1, 3/4 at 1) multiplies EVERY pixel *)
Example C11_example_damp :
  all2 Qeq_bool (aesthetics_damp (table_fun [(-1 # 1, 1 # 4); (0, 1 # 2); (1, 3 # 4)]) [7; 2; 2] [0; 4; 4]) [1 # 2; 1; 3 # 2] = true.
Proof. vm_compute. reflexivity. Qed.

(* the in-space theorem is not vacuous: the all-ones spline on 6 knots of order 3 fitted to four points *)
Example C11_example_in_space :
  let gb := [0; 0; 0; 1; 1; 1] in
  let ds := [mkDatum 0 1 1; mkDatum (1 # 4) 1 1; mkDatum (1 # 2) 1 1; mkDatum (3 # 4) 1 1] in
  all2 Qeq_bool (map dy ds) (yfit_of [-2 # 1; -1 # 1; 0; 1; 2; 3] 3 [1; 1; 1] (map dx ds)) = true /\
  match iter_loop fit_dense 11 [-2 # 1; -1 # 1; 0; 1; 2; 3] 3 5 5 ds [true; true; true; true] with
  | Some (coef, m) => all2 Qeq_bool coef [1; 1; 1] = true /\ m = [true; true; true; true]
  | None => False
  end.
Proof. vm_compute. repeat split; reflexivity. Qed.

(* the whole chain on a degenerate call: six good pixels on a line, ONE output pixel half way between pixels 1 and 2;
   answer: the line's value there, inverse variance 4 -- what the code returns for this call *)
Example C11_example_chain_one_pixel :
  let c := mkCin [0; 1; 2; 3; 4; 5] [2; 3; 4; 5; 6; 7] (Some [4; 4; 4; 4; 4; 4]) [0; 0; 0; 0; 0; 0]%nat 1 [3 # 2]
                 2 3 Traditional [0; 1; 2; 3; 4; 5]%nat false in
  all2 Qeq_bool (fst (combine1fiber_chain fit_dense (6 # 5) c)) [7 # 2] = true /\
  all2 Qeq_bool (snd (combine1fiber_chain fit_dense (6 # 5) c)) [4] = true.
Proof. vm_compute. split; reflexivity. Qed.

(* non-vacuity: five pixels, the middle one without weight, resampled half a pixel off: the two output pixels next
   to the bad pixel get no variance, the outer ones the interpolated one *)
Example C11_example :
  let c := mkCin [0; 1; 2; 3; 4] [1; 1; 1; 1; 1] (Some [4; 4; 0; 2; 2]) [0; 0; 0; 0; 0]%nat 1 [1 # 2; 3 # 2; 5 # 2; 7 # 2]
                 2 3 Nothing [0; 1; 3; 4]%nat false in
  snd (stages c [None; None]) = [0; 0; 0; 0] /\
  all2 Qeq_bool (ivar_of_exposure (c_inloglam c) [4; 4; 0; 2; 2] [true; true; false; true; true] [0; 1; 2; 3; 4]%nat
                                  (c_newloglam c) [true; true; true; true]) [4; 0; 0; 2] = true.
Proof. vm_compute. split; reflexivity. Qed.
