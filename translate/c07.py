"""C07 extractor: does set_maskbits() upper-case the group / label / alias names it reads?

The answer becomes `load_upper : bool` in coq/Generated/Maskbits.v; the algorithmic model
`C07.Model.load up rows aliases` is run with that flag, and C07/Props.v closes with the obligation
`load_upper = true` (the lookups upper-case their arguments, so a dictionary that keeps the file's
spelling is only consistent with them for all-upper-case files).

Fail-closed: every expression used as a key of the `maskbits` dictionary inside set_maskbits must be
classifiable (ends in `.upper()` or not, after resolving local names); a mixture or an unknown shape
=> `recognised: False`, the previous generated file is kept.
"""
import ast
import os


class Unrecognised(Exception):
    pass


def _is_upper_call(e):
    return (isinstance(e, ast.Call) and isinstance(e.func, ast.Attribute) and e.func.attr == 'upper'
            and not e.args and not e.keywords)


def _collect_local_assigns(fn):
    env = {}
    for node in ast.walk(fn):
        if isinstance(node, ast.Assign) and len(node.targets) == 1 and isinstance(node.targets[0], ast.Name):
            env.setdefault(node.targets[0].id, []).append(node.value)
    return env


def _classify(e, env, depth=0):
    """True = upper-cased, False = taken from the file as is."""
    if depth > 4:
        raise Unrecognised('name chain too long')
    if _is_upper_call(e):
        return True
    if isinstance(e, ast.Name):
        vals = env.get(e.id)
        if not vals:
            raise Unrecognised('key name %s has no local assignment' % e.id)
        cls = set(_classify(v, env, depth + 1) for v in vals)
        if len(cls) != 1:
            raise Unrecognised('key name %s assigned inconsistently' % e.id)
        return cls.pop()
    if isinstance(e, ast.Subscript):
        # maskfile['MASKBITS']['flag'][k] : a value straight from the reader
        base = e
        while isinstance(base, ast.Subscript):
            base = base.value
        if isinstance(base, ast.Name) and base.id != 'maskbits':
            return False
    raise Unrecognised('cannot classify key expression %s' % ast.dump(e)[:120])


def _slice(sub):
    s = sub.slice
    if isinstance(s, ast.Index):  # pragma: no cover (python < 3.9)
        s = s.value
    return s


def analyse(source):
    tree = ast.parse(source)
    fn = next((n for n in tree.body if isinstance(n, ast.FunctionDef) and n.name == 'set_maskbits'), None)
    if fn is None:
        raise Unrecognised('no function set_maskbits')
    env = _collect_local_assigns(fn)
    keys = []
    for node in ast.walk(fn):
        if isinstance(node, ast.Subscript):
            v = node.value
            if isinstance(v, ast.Name) and v.id == 'maskbits':
                keys.append(_slice(node))                       # maskbits[K]
            elif isinstance(v, ast.Subscript) and isinstance(v.value, ast.Name) and v.value.id == 'maskbits':
                keys.append(_slice(node))                       # maskbits[G][K]
        elif isinstance(node, ast.Compare) and len(node.ops) == 1 and isinstance(node.ops[0], (ast.In, ast.NotIn)) \
                and isinstance(node.comparators[0], ast.Name) and node.comparators[0].id == 'maskbits':
            keys.append(node.left)                              # K in maskbits
        elif isinstance(node, ast.Assign) and isinstance(node.value, ast.Dict) and len(node.targets) == 1 \
                and isinstance(node.targets[0], ast.Subscript) and isinstance(node.targets[0].value, ast.Name) \
                and node.targets[0].value.id == 'maskbits':
            keys.extend(node.value.keys)                        # maskbits[G] = {K: bit}
    if len(keys) < 4:
        raise Unrecognised('fewer than 4 dictionary keys found in set_maskbits (%d)' % len(keys))
    cls = [_classify(k, env) for k in keys]
    if all(cls):
        return True, len(keys)
    if not any(cls):
        return False, len(keys)
    raise Unrecognised('some keys are upper-cased and some are not: %r' % cls)


# ----------------------------------------------------------------------------------------------
# round 2: the facts of sdss_flagval / sdss_flagname / sdss_flagexist that the model hard-coded

def _func(tree, name):
    fn = next((n for n in tree.body if isinstance(n, ast.FunctionDef) and n.name == name), None)
    if fn is None:
        raise Unrecognised('no function %s' % name)
    return fn


def _np_call(e):
    """np.T(arg) -> (T, arg)"""
    if isinstance(e, ast.Call) and isinstance(e.func, ast.Attribute) and isinstance(e.func.value, ast.Name) \
            and e.func.value.id == 'np' and len(e.args) == 1 and not e.keywords:
        return e.func.attr, e.args[0]
    raise Unrecognised('not a numpy scalar constructor: %s' % ast.dump(e)[:80])


def _upper_of(e, var):
    """is e `var.upper()` (True) or plain `var` (False)?"""
    if _is_upper_call(e) and isinstance(e.func.value, ast.Name) and e.func.value.id == var:
        return True
    if isinstance(e, ast.Name) and e.id == var:
        return False
    raise Unrecognised('expected %s or %s.upper(): %s' % (var, var, ast.dump(e)[:80]))


def _one(cls, what):
    cls = set(cls)
    if len(cls) != 1:
        raise Unrecognised('%s is not uniform: %r' % (what, sorted(cls)))
    return cls.pop()


def _label_uppers(fn):
    """the two forms  bitnames = [bitname.upper()]  /  bitnames = [b.upper() for b in bitname]"""
    found = []
    for node in ast.walk(fn):
        if isinstance(node, ast.Assign) and len(node.targets) == 1 and isinstance(node.targets[0], ast.Name) \
                and node.targets[0].id == 'bitnames':
            v = node.value
            if isinstance(v, ast.List) and len(v.elts) == 1:
                found.append(_upper_of(v.elts[0], 'bitname'))
            elif isinstance(v, ast.ListComp) and len(v.generators) == 1 and isinstance(v.generators[0].target, ast.Name) \
                    and not v.generators[0].ifs and isinstance(v.generators[0].iter, ast.Name) and v.generators[0].iter.id == 'bitname':
                found.append(_upper_of(v.elt, v.generators[0].target.id))
            else:
                raise Unrecognised('bitnames assigned in an unknown way')
    if len(found) != 2:
        raise Unrecognised('expected two assignments to bitnames in %s, found %d' % (fn.name, len(found)))
    return _one(found, 'upper-casing of the labels in %s' % fn.name)


def _group_uppers(fn):
    """every use of the parameter `flagname`: flagname.upper() or flagname itself"""
    found = []
    consumed = set()
    for node in ast.walk(fn):
        if _is_upper_call(node) and isinstance(node.func.value, ast.Name) and node.func.value.id == 'flagname':
            found.append(True)
            consumed.add(id(node.func.value))
    for node in ast.walk(fn):
        if isinstance(node, ast.Name) and node.id == 'flagname' and isinstance(node.ctx, ast.Load) and id(node) not in consumed:
            found.append(False)
    if not found:
        raise Unrecognised('%s never uses flagname' % fn.name)
    return _one(found, 'upper-casing of the group in %s' % fn.name)


def analyse_queries(tree):
    facts = {}
    # ---- sdss_flagval: flagvalue = np.T(0) ... flagvalue OP= np.T(2)**np.T(maskbits[flagu][bit])
    fv = _func(tree, 'sdss_flagval')
    inits = [n for n in ast.walk(fv) if isinstance(n, ast.Assign) and len(n.targets) == 1
             and isinstance(n.targets[0], ast.Name) and n.targets[0].id == 'flagvalue']
    augs = [n for n in ast.walk(fv) if isinstance(n, ast.AugAssign) and isinstance(n.target, ast.Name) and n.target.id == 'flagvalue']
    if len(inits) != 1 or len(augs) != 1:
        raise Unrecognised('sdss_flagval: expected one initialisation and one augmented assignment of flagvalue')
    t0, a0 = _np_call(inits[0].value)
    if not (isinstance(a0, ast.Constant) and a0.value == 0):
        raise Unrecognised('flagvalue not initialised with 0')
    aug = augs[0]
    if isinstance(aug.op, ast.Add):
        facts['accumulate_is_add'] = True
    elif isinstance(aug.op, ast.BitOr):
        facts['accumulate_is_add'] = False
    else:
        raise Unrecognised('flagvalue accumulated with %s' % type(aug.op).__name__)
    v = aug.value
    if not (isinstance(v, ast.BinOp) and isinstance(v.op, ast.Pow)):
        raise Unrecognised('accumulated term is not a power')
    t1, base = _np_call(v.left)
    t2, expo = _np_call(v.right)
    if not (isinstance(base, ast.Constant) and base.value == 2):
        raise Unrecognised('base of the power is not 2')
    if not (isinstance(expo, ast.Subscript) and isinstance(expo.value, ast.Subscript)
            and isinstance(expo.value.value, ast.Name) and expo.value.value.id == 'maskbits'):
        raise Unrecognised('exponent is not maskbits[..][..]')
    dt = _one([t0, t1, t2], 'dtype of the accumulation')
    if dt == 'uint64':
        facts['acc_dtype_uint64'] = True
    elif dt == 'int64':
        facts['acc_dtype_uint64'] = False
    else:
        raise Unrecognised('accumulation dtype %s' % dt)
    # ---- sdss_flagname: bits = [bit for bit in range(N) if (flagvaluint & (one << np.uint64(bit))) != 0]
    fn = _func(tree, 'sdss_flagname')
    comps = [n for n in ast.walk(fn) if isinstance(n, ast.Assign) and len(n.targets) == 1 and isinstance(n.targets[0], ast.Name)
             and n.targets[0].id == 'bits' and isinstance(n.value, ast.ListComp)]
    if len(comps) != 1:
        raise Unrecognised('sdss_flagname: no single list comprehension for bits')
    lc = comps[0].value
    g = lc.generators[0]
    if len(lc.generators) != 1 or not (isinstance(lc.elt, ast.Name) and isinstance(g.target, ast.Name) and lc.elt.id == g.target.id):
        raise Unrecognised('bits comprehension has an unknown shape')
    it = g.iter
    if not (isinstance(it, ast.Call) and isinstance(it.func, ast.Name) and it.func.id == 'range' and not it.keywords):
        raise Unrecognised('bit scan does not iterate over range(...)')
    args = it.args
    if len(args) == 2 and isinstance(args[0], ast.Constant) and args[0].value == 0:
        args = args[1:]
    if not (len(args) == 1 and isinstance(args[0], ast.Constant) and isinstance(args[0].value, int) and 0 <= args[0].value <= 4096):
        raise Unrecognised('bit scan range is not range(N)')
    facts['scan_bits'] = args[0].value
    bitvar = g.target.id
    if len(g.ifs) != 1:
        raise Unrecognised('bit scan has no single test')
    t = g.ifs[0]
    ok = (isinstance(t, ast.Compare) and len(t.ops) == 1 and isinstance(t.ops[0], ast.NotEq)
          and isinstance(t.comparators[0], ast.Constant) and t.comparators[0].value == 0
          and isinstance(t.left, ast.BinOp) and isinstance(t.left.op, ast.BitAnd)
          and isinstance(t.left.left, ast.Name) and t.left.left.id == 'flagvaluint'
          and isinstance(t.left.right, ast.BinOp) and isinstance(t.left.right.op, ast.LShift)
          and isinstance(t.left.right.left, ast.Name) and t.left.right.left.id == 'one')
    if ok:
        ty, arg = _np_call(t.left.right.right)
        ok = ty == 'uint64' and isinstance(arg, ast.Name) and arg.id == bitvar
    if not ok:
        raise Unrecognised('bit test is not (flagvaluint & (one << np.uint64(bit))) != 0')
    env = _collect_local_assigns(fn)
    for name, want in (('flagvaluint', 'flagvalue'), ('one', 1)):
        vals = env.get(name, [])
        if len(vals) != 1:
            raise Unrecognised('%s not assigned exactly once' % name)
        ty, arg = _np_call(vals[0])
        if ty != 'uint64' or not ((isinstance(arg, ast.Name) and arg.id == want) or (isinstance(arg, ast.Constant) and arg.value == want)):
            raise Unrecognised('%s is not np.uint64(%s)' % (name, want))
    # reverse lookup: f = [x for x in maskbits[flagu].items() if x[1] == bit] ; retval.append(f[I][0])
    fl = [v for v in env.get('f', []) if isinstance(v, ast.ListComp)]
    if len(fl) != 1:
        raise Unrecognised('reverse lookup list f not found')
    lc = fl[0]
    g = lc.generators[0]
    ok = (len(lc.generators) == 1 and isinstance(g.target, ast.Name) and isinstance(lc.elt, ast.Name) and lc.elt.id == g.target.id
          and isinstance(g.iter, ast.Call) and isinstance(g.iter.func, ast.Attribute) and g.iter.func.attr == 'items'
          and isinstance(g.iter.func.value, ast.Subscript) and isinstance(g.iter.func.value.value, ast.Name)
          and g.iter.func.value.value.id == 'maskbits' and len(g.ifs) == 1)
    if ok:
        c = g.ifs[0]
        ok = (isinstance(c, ast.Compare) and len(c.ops) == 1 and isinstance(c.ops[0], ast.Eq)
              and isinstance(c.left, ast.Subscript) and isinstance(c.left.value, ast.Name) and c.left.value.id == g.target.id
              and isinstance(_slice(c.left), ast.Constant) and _slice(c.left).value == 1
              and isinstance(c.comparators[0], ast.Name))
    if not ok:
        raise Unrecognised('reverse lookup is not [x for x in maskbits[g].items() if x[1] == bit]')
    apps = [n for n in ast.walk(fn) if isinstance(n, ast.Call) and isinstance(n.func, ast.Attribute) and n.func.attr == 'append'
            and isinstance(n.func.value, ast.Name) and n.func.value.id == 'retval']
    if len(apps) != 1 or len(apps[0].args) != 1:
        raise Unrecognised('retval.append(...) not found exactly once')
    a = apps[0].args[0]
    ok = (isinstance(a, ast.Subscript) and isinstance(_slice(a), ast.Constant) and _slice(a).value == 0
          and isinstance(a.value, ast.Subscript) and isinstance(a.value.value, ast.Name) and a.value.value.id == 'f')
    if not ok:
        raise Unrecognised('appended label is not f[I][0]')
    idx = _slice(a.value)
    if isinstance(idx, ast.UnaryOp) and isinstance(idx.op, ast.USub) and isinstance(idx.operand, ast.Constant):
        idxv = -idx.operand.value
    elif isinstance(idx, ast.Constant):
        idxv = idx.value
    else:
        raise Unrecognised('index of f is not a constant')
    if idxv == 0:
        facts['lookup_first'] = True
    elif idxv == -1:
        facts['lookup_first'] = False
    else:
        raise Unrecognised('f[%r]' % idxv)
    # ---- upper-casing of the arguments
    fe = _func(tree, 'sdss_flagexist')
    facts['upper_group'] = _one([_group_uppers(fv), _group_uppers(fn), _group_uppers(fe)], 'upper-casing of the group name')
    facts['upper_labels'] = _one([_label_uppers(fv), _label_uppers(fe)], 'upper-casing of the labels')
    # ---- sdss_flagexist: l = sum(which) == len(which)
    ls = [v for v in _collect_local_assigns(fe).get('l', []) if not (isinstance(v, ast.Constant) and v.value is False)]
    if len(ls) != 1:
        raise Unrecognised('sdss_flagexist: l not assigned exactly once (besides l = False)')
    v = ls[0]

    def is_call(e, f):
        return isinstance(e, ast.Call) and isinstance(e.func, ast.Name) and e.func.id == f and len(e.args) == 1 \
            and isinstance(e.args[0], ast.Name) and e.args[0].id == 'which'
    if isinstance(v, ast.Compare) and len(v.ops) == 1 and isinstance(v.ops[0], ast.Eq) and is_call(v.left, 'sum') and is_call(v.comparators[0], 'len'):
        facts['exist_all'] = True
    elif is_call(v, 'all'):
        facts['exist_all'] = True
    elif is_call(v, 'any'):
        facts['exist_all'] = False
    else:
        raise Unrecognised('sdss_flagexist: unknown rule for l')
    return facts


# ----------------------------------------------------------------------------------------------
# round 5: (a) the return chain of sdss_flagexist as a Gallina function, (b) which table / column of the raw
# yanny object set_maskbits reads for which role (group key, label key, bit value, alias key, alias target),
# which table's size() bounds each loop and which table the alias guard tests.

_FIELD = {'l': 0, 'f': 1, 'which': 2}


def _flag_test(e):
    """a condition over the parameters flagexist / whichexist -> Gallina boolean expression"""
    if isinstance(e, ast.Name) and e.id in ('flagexist', 'whichexist'):
        return e.id
    if isinstance(e, ast.BoolOp) and isinstance(e.op, (ast.And, ast.Or)):
        op = ' && ' if isinstance(e.op, ast.And) else ' || '
        return '(' + op.join(_flag_test(v) for v in e.values) + ')'
    if isinstance(e, ast.UnaryOp) and isinstance(e.op, ast.Not):
        return '(negb %s)' % _flag_test(e.operand)
    raise Unrecognised('sdss_flagexist: condition of the return chain: %s' % ast.dump(e)[:80])


def _ret_fields(e):
    if isinstance(e, ast.Name) and e.id in _FIELD:
        return [_FIELD[e.id]]
    if isinstance(e, ast.Tuple) and all(isinstance(x, ast.Name) and x.id in _FIELD for x in e.elts) and e.elts:
        return [_FIELD[x.id] for x in e.elts]
    raise Unrecognised('sdss_flagexist: returned expression: %s' % ast.dump(e)[:80])


def _ret_chain(node):
    """if C: return A elif ...: ... else: return Z   ->  Gallina term"""
    if isinstance(node, ast.Return) and node.value is not None:
        return '[%s]' % '; '.join('%d%%nat' % k for k in _ret_fields(node.value))
    if isinstance(node, ast.If) and len(node.body) == 1 and len(node.orelse) == 1:
        return '(if %s then %s else %s)' % (_flag_test(node.test), _ret_chain(node.body[0]), _ret_chain(node.orelse[0]))
    raise Unrecognised('sdss_flagexist: the return chain has an unknown shape')


def analyse_exist_return(tree):
    fe = _func(tree, 'sdss_flagexist')
    rets = [n for n in ast.walk(fe) if isinstance(n, ast.Return)]
    last = fe.body[-1]
    term = _ret_chain(last)
    inside = [n for n in ast.walk(last) if isinstance(n, ast.Return)]
    if len(rets) != len(inside):
        raise Unrecognised('sdss_flagexist returns outside its final if / elif chain')
    return term


def _const_str(e):
    if isinstance(e, ast.Constant) and isinstance(e.value, str) and e.value.isidentifier():
        return e.value
    raise Unrecognised('expected a string constant: %s' % ast.dump(e)[:80])


def _strip_upper(e):
    return e.func.value if _is_upper_call(e) else e


def _cell_ref(e, env, loopvar, depth=0):
    """resolve e (through .upper() and local names of the loop) to maskfile[T][C][loopvar] -> (T, C)"""
    if depth > 4:
        raise Unrecognised('name chain too long')
    e = _strip_upper(e)
    if isinstance(e, ast.Name):
        vals = env.get(e.id, [])
        if len(vals) != 1:
            raise Unrecognised('%s is not assigned exactly once in its loop' % e.id)
        return _cell_ref(vals[0], env, loopvar, depth + 1)
    if isinstance(e, ast.Subscript) and isinstance(_slice(e), ast.Name) and _slice(e).id == loopvar:
        c = e.value
        if isinstance(c, ast.Subscript) and isinstance(c.value, ast.Subscript) and isinstance(c.value.value, ast.Name) \
                and c.value.value.id == 'maskfile':
            return (_const_str(_slice(c.value)), _const_str(_slice(c)))
    raise Unrecognised('not a cell maskfile[T][C][%s]: %s' % (loopvar, ast.dump(e)[:100]))


def _is_maskbits_sub(e, depth):
    """maskbits[X] (depth 1) or maskbits[X][Y] (depth 2) -> list of slices"""
    out = []
    while isinstance(e, ast.Subscript):
        out.append(_slice(e))
        e = e.value
    if isinstance(e, ast.Name) and e.id == 'maskbits' and len(out) == depth:
        return out[::-1]
    return None


def analyse_loader(tree):
    fn = _func(tree, 'set_maskbits')
    loops = []

    def visit(body, guard):
        for st in body:
            if isinstance(st, ast.For):
                loops.append((st, guard))
            elif isinstance(st, ast.If):
                g = None
                t = st.test
                if isinstance(t, ast.Compare) and len(t.ops) == 1 and isinstance(t.ops[0], ast.In) \
                        and isinstance(t.comparators[0], ast.Name) and t.comparators[0].id == 'maskfile':
                    g = _const_str(t.left)
                visit(st.body, g if g is not None else guard)
                visit(st.orelse, guard)
    visit(fn.body, None)
    names = {}
    for loop, guard in loops:
        it = loop.iter
        ok = (isinstance(loop.target, ast.Name) and isinstance(it, ast.Call) and isinstance(it.func, ast.Name) and it.func.id == 'range'
              and len(it.args) == 1 and isinstance(it.args[0], ast.Call) and isinstance(it.args[0].func, ast.Attribute)
              and it.args[0].func.attr == 'size' and isinstance(it.args[0].func.value, ast.Name)
              and it.args[0].func.value.id == 'maskfile' and len(it.args[0].args) == 1)
        if not ok:
            raise Unrecognised('set_maskbits: a loop that is not `for k in range(maskfile.size(T))`')
        size_t = _const_str(it.args[0].args[0])
        k = loop.target.id
        env = {}
        for node in ast.walk(loop):
            if isinstance(node, ast.Assign) and len(node.targets) == 1 and isinstance(node.targets[0], ast.Name):
                env.setdefault(node.targets[0].id, []).append(node.value)
        bits = []
        alias = []
        for node in ast.walk(loop):
            if not (isinstance(node, ast.Assign) and len(node.targets) == 1):
                continue
            t2 = _is_maskbits_sub(node.targets[0], 2)
            t1 = _is_maskbits_sub(node.targets[0], 1)
            if t2 is not None:                                   # maskbits[G][L] = B
                bits.append((_cell_ref(t2[0], env, k), _cell_ref(t2[1], env, k), _cell_ref(node.value, env, k)))
            elif t1 is not None and isinstance(node.value, ast.Dict) and len(node.value.keys) == 1:   # maskbits[G] = {L: B}
                bits.append((_cell_ref(t1[0], env, k), _cell_ref(node.value.keys[0], env, k), _cell_ref(node.value.values[0], env, k)))
            elif t1 is not None:                                 # maskbits[A] = maskbits[F].copy()
                v = node.value
                if isinstance(v, ast.Call) and isinstance(v.func, ast.Attribute) and v.func.attr == 'copy' and not v.args:
                    v = v.func.value
                src = _is_maskbits_sub(v, 1)
                if src is None:
                    raise Unrecognised('set_maskbits: alias entry is not a copy of another entry')
                alias.append((_cell_ref(t1[0], env, k), _cell_ref(src[0], env, k)))
        if bits and not alias:
            if len(bits) != 2 or bits[0] != bits[1] or 'bits_size' in names or guard is not None:
                raise Unrecognised('set_maskbits: the MASKBITS loop has an unknown shape')
            names.update(bits_size=size_t, bits_flag=bits[0][0], bits_label=bits[0][1], bits_bit=bits[0][2])
        elif alias and not bits:
            if len(alias) != 1 or 'alias_size' in names or guard is None:
                raise Unrecognised('set_maskbits: the MASKALIAS loop has an unknown shape')
            names.update(alias_guard=guard, alias_size=size_t, alias_alias=alias[0][0], alias_flag=alias[0][1])
        else:
            raise Unrecognised('set_maskbits: a loop that fills neither the groups nor the aliases')
    if len(names) != 8:
        raise Unrecognised('set_maskbits: MASKBITS / MASKALIAS loops not both found')
    return names


def coq_bool(b):
    return 'true' if b else 'false'


def generate(repo):
    path = os.path.join(repo, 'pydl', 'pydlutils', 'sdss.py')
    info = {'source': path, 'recognised': False}
    try:
        src = open(path).read()
        up, n = analyse(src)
        facts = analyse_queries(ast.parse(src))
        ret_term = analyse_exist_return(ast.parse(src))
        names = analyse_loader(ast.parse(src))
    except (Unrecognised, SyntaxError, OSError) as e:
        info['why'] = str(e)
        return None, info
    info.update(recognised=True, load_upper=up, keys=n, facts=facts, exist_return=ret_term, names=names)

    def pair(tc):
        return '("%s"%%string, "%s"%%string)' % tc
    text = ('From Coq Require Import List Bool String.\nImport ListNotations.\n'
            '(* GENERATED by translate/c07.py from pydl/pydlutils/sdss.py -- do not edit. *)\n'
            '(* set_maskbits: are the group, label and alias names upper-cased when stored?  (%d key expressions) *)\n'
            'Definition load_upper : bool := %s.\n'
            '(* sdss_flagname: bits = [bit for bit in range(N) if (flagvaluint & (one << np.uint64(bit))) != 0] *)\n'
            'Definition scan_bits : nat := %d.\n'
            '(* sdss_flagname: retval.append(f[0][0]) -- the first (true) or the last (false) label carrying the bit *)\n'
            'Definition lookup_first : bool := %s.\n'
            '(* sdss_flagval: flagvalue += (true) or |= (false)  np.T(2)**np.T(bit);  T = uint64 (true) or int64 (false) *)\n'
            'Definition accumulate_is_add : bool := %s.\n'
            'Definition acc_dtype_uint64 : bool := %s.\n'
            '(* .upper() on the group name (all three query functions) and on the labels (sdss_flagval, sdss_flagexist) *)\n'
            'Definition upper_group : bool := %s.\n'
            'Definition upper_labels : bool := %s.\n'
            '(* sdss_flagexist: l = sum(which) == len(which)  (true)  or any(which) (false) *)\n'
            'Definition exist_all : bool := %s.\n'
            '(* sdss_flagexist: the final if / elif chain of return statements; components 0 = l, 1 = f, 2 = which *)\n'
            'Definition exist_ret_code (flagexist whichexist : bool) : list nat :=\n  %s.\n'
            '(* set_maskbits: for k in range(maskfile.size(T)) ... maskfile[T][column][k]: which cell plays which role *)\n'
            'Definition src_bits_size : string := "%s"%%string.\n'
            'Definition src_bits_flag : string * string := %s.\n'
            'Definition src_bits_label : string * string := %s.\n'
            'Definition src_bits_bit : string * string := %s.\n'
            '(* if T in maskfile: for k in range(maskfile.size(T2)): maskbits[alias] = maskbits[flag].copy() *)\n'
            'Definition src_alias_guard : string := "%s"%%string.\n'
            'Definition src_alias_size : string := "%s"%%string.\n'
            'Definition src_alias_alias : string * string := %s.\n'
            'Definition src_alias_flag : string * string := %s.\n'
            % (n, coq_bool(up), facts['scan_bits'], coq_bool(facts['lookup_first']), coq_bool(facts['accumulate_is_add']),
               coq_bool(facts['acc_dtype_uint64']), coq_bool(facts['upper_group']), coq_bool(facts['upper_labels']),
               coq_bool(facts['exist_all']), ret_term,
               names['bits_size'], pair(names['bits_flag']), pair(names['bits_label']), pair(names['bits_bit']),
               names['alias_guard'], names['alias_size'], pair(names['alias_alias']), pair(names['alias_flag'])))
    return text, info


if __name__ == '__main__':
    import sys
    print(generate(sys.argv[1] if len(sys.argv) > 1 else '/repo'))
