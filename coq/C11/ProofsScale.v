(* C11 -- the scaling law of combine1fiber_model (single spectrum with inverse variance):
   flux * s and ivar / s^2 (and recorded fit coefficients * s) give newflux * s and newivar / s^2,
   provided the rescaling does not move any 3-pixel mean of the pre-growth inverse variance across EPS
   (`growth_decisions_agree`: the growth test compares with the absolute constant EPS).
   Internally everything is phrased with a multiplicative factor t (a / d is a * / d by definition):
     Vs t x' x  :=  Forall2 (fun a' a => a' == a * t) x' x   <->   Forall2 Qeq x' (map (fun a => a * t) x). *)
From Coq Require Import QArith Qround Qabs Lqa List Bool Arith Lia Setoid Morphisms.
Import ListNotations.
From PV Require Import Lib.WLS BSpline.Eval BSpline.EvalProofs BSpline.FitProofs Generated.Combine1fiber C11.Model.
Open Scope Q_scope.

Local Notation Veq := (Forall2 Qeq).

(* ------------------------------------------------------------------ boolean tests respect == and positive factors *)
Lemma Qltb_ext a a' b b' : a == a' -> b == b' -> Qltb a b = Qltb a' b'.
Proof. intros Ha Hb. unfold Qltb. now rewrite Ha, Hb. Qed.

Lemma Qeqb_ext a a' b b' : a == a' -> b == b' -> Qeq_bool a b = Qeq_bool a' b'.
Proof.
  intros Ha Hb. destruct (Qeq_bool a b) eqn:E1, (Qeq_bool a' b') eqn:E2; try reflexivity.
  - apply Qeq_bool_iff in E1. rewrite Ha, Hb in E1. apply Qeq_bool_iff in E1. congruence.
  - apply Qeq_bool_iff in E2. rewrite <- Ha, <- Hb in E2. apply Qeq_bool_iff in E2. congruence.
Qed.

Lemma Qltb_0_scale v t : 0 < t -> Qltb 0 (v * t) = Qltb 0 v.
Proof.
  intro Ht. destruct (Qltb 0 v) eqn:E.
  - apply Qltb_lt in E. apply Qltb_lt. nra.
  - apply Qltb_ge in E. apply Qltb_ge. nra.
Qed.

Lemma Qeqb_0_scale v t : ~ t == 0 -> Qeq_bool (v * t) 0 = Qeq_bool v 0.
Proof.
  intro Ht. destruct (Qeq_bool v 0) eqn:E.
  - apply Qeq_bool_iff in E. apply Qeq_bool_iff. rewrite E. ring.
  - destruct (Qeq_bool (v * t) 0) eqn:E2; [| reflexivity].
    apply Qeq_bool_iff in E2. apply Qmult_integral in E2. destruct E2 as [E2 | E2]; [| contradiction].
    apply Qeq_bool_iff in E2. congruence.
Qed.

Lemma sq_pos s : 0 < s -> 0 < s * s.
Proof. intro H. nra. Qed.

Lemma inv_sq_pos s : 0 < s -> 0 < / (s * s).
Proof. intro H. apply Qinv_lt_0_compat, sq_pos, H. Qed.

(* ------------------------------------------------------------------ the pointwise relation *)
Definition Vs (t : Q) : list Q -> list Q -> Prop := Forall2 (fun a' a => a' == a * t).

Lemma Vs_map t x' x : Vs t x' x <-> Veq x' (map (fun a => a * t) x).
Proof.
  split.
  - induction 1; cbn [map]; constructor; assumption.
  - revert x'. induction x as [|a x IH]; intros x' H; cbn [map] in H; inversion H; subst; constructor; auto.
    apply IH; assumption.
Qed.

Lemma Vs_div d x' x : Vs (/ d) x' x <-> Veq x' (map (fun a => a / d) x).
Proof. exact (Vs_map (/ d) x' x). Qed.

Lemma Vs_length t x' x : Vs t x' x -> length x' = length x.
Proof. induction 1; cbn [length]; congruence. Qed.

Lemma Vs_nth t x' x : Vs t x' x -> forall i, nthQ x' i == nthQ x i * t.
Proof.
  unfold nthQ. induction 1 as [|a' a x' x Ha Hx IH]; intros [|i]; cbn [nth]; try ring.
  - exact Ha.
  - apply IH.
Qed.

Lemma Vs_self_map t x : Vs t (map (fun a => a * t) x) x.
Proof. apply Vs_map, Veq_refl. Qed.

Lemma Vs_zeros {A} t (l : list A) : Vs t (map (fun _ => 0) l) (map (fun _ => 0) l).
Proof. induction l; cbn [map]; constructor; [ring | assumption]. Qed.

(* ================================================================== S1. bookkeeping *)
Lemma good_index_scale s c : 0 < s -> good_index (scale_cin s c) = good_index c.
Proof.
  intro Hs. unfold good_index, scale_cin; cbn [c_ivar c_inloglam].
  destruct (c_ivar c) as [iv |]; [| reflexivity].
  rewrite map_length. apply filter_ext. intro i.
  assert (H : Vs (/ (s * s)) (map (fun v => v / (s * s)) iv) iv) by (apply Vs_div, Veq_refl).
  rewrite (Qltb_ext 0 0 _ _ (Qeq_refl 0) (Vs_nth _ _ _ H i)).
  apply Qltb_0_scale, inv_sq_pos, Hs.
Qed.

Lemma groups_scale s c :
  groups (c_maxsep (scale_cin s c)) (c_inloglam (scale_cin s c)) (c_isort (scale_cin s c))
  = groups (c_maxsep c) (c_inloglam c) (c_isort c).
Proof. reflexivity. Qed.

Lemma all_zero_coeff_scale s l : ~ s == 0 -> all_zero_coeff (map (fun a => a * s) l) = all_zero_coeff l.
Proof.
  intro Hs. unfold all_zero_coeff. induction l as [|a l IH]; [reflexivity |].
  cbn [map forallb]. rewrite IH, Qeqb_0_scale by exact Hs. reflexivity.
Qed.

Lemma usable_scale s ss f : ~ s == 0 -> usable ss (scale_fit s f) = scale_fit s (usable ss f).
Proof.
  intro Hs. unfold usable. destruct (length ss <=? 2)%nat; [reflexivity |].
  destruct f as [g |]; [| reflexivity]. cbn [scale_fit g_coeff].
  rewrite all_zero_coeff_scale by exact Hs.
  destruct (all_zero_coeff (g_coeff g)); reflexivity.
Qed.

(* ================================================================== S2. the spline value is linear in the coefficients *)
Definition scale_g (s : Q) (g : gfit) : gfit :=
  mkGfit (g_bk g) (g_bkmask g) (map (fun a => a * s) (g_coeff g)) (g_bmask g).

Lemma scale_fit_Some s g : scale_fit s (Some g) = Some (scale_g s g).
Proof. reflexivity. Qed.

Lemma select_map {A B} (f : A -> B) m : forall l, select m (map f l) = map f (select m l).
Proof.
  induction m as [|b m IH]; intros [|a l]; cbn [select map]; try reflexivity.
  destruct b; cbn [map]; rewrite IH; reflexivity.
Qed.

Lemma dot_map_r s u : forall v, dot u (map (fun a => a * s) v) == dot u v * s.
Proof.
  induction u as [|a u IH]; intros [|b v]; cbn [dot map]; try ring.
  rewrite IH. ring.
Qed.

Lemma eval1_scale gb k c p s : eval1 gb k (map (fun a => a * s) c) p == eval1 gb k c p * s.
Proof. unfold eval1, eval_at. rewrite !Qred_correct, skipn_map. apply dot_map_r. Qed.

Lemma spline_at_scale k g p s :
  fst (spline_at k (scale_g s g) p) == fst (spline_at k g p) * s /\
  snd (spline_at k (scale_g s g) p) = snd (spline_at k g p).
Proof.
  unfold spline_at, scale_g; cbn [g_bk g_bkmask g_coeff g_bmask fst snd]. split; [| reflexivity].
  destruct (2 * k <=? length (select (g_bkmask g) (g_bk g)))%nat; [| ring].
  rewrite select_map. apply eval1_scale.
Qed.

(* ================================================================== S3. the group steps *)
Definition st_rel (s : Q) (st' st0 : st) : Prop :=
  Vs s (s_flux st') (s_flux st0) /\ s_mask st' = s_mask st0 /\ s_comb st' = s_comb st0.

Lemma upd_flux_scale k s g lo hi : forall fl' fl, Vs s fl' fl -> forall newl,
  Vs s (map (fun t : Q * option (Q * bool) => match snd t with Some v => fst v | None => fst t end)
            (combine fl' (map (fun p => if inside_b lo hi p then Some (spline_at k (scale_g s g) p) else None) newl)))
       (map (fun t : Q * option (Q * bool) => match snd t with Some v => fst v | None => fst t end)
            (combine fl (map (fun p => if inside_b lo hi p then Some (spline_at k g p) else None) newl))).
Proof.
  induction 1 as [|a' a fl' fl Ha Hf IH]; intros [|p newl]; cbn [map combine]; constructor.
  - cbn [fst snd]. destruct (inside_b lo hi p); cbn [fst snd]; [apply spline_at_scale | exact Ha].
  - apply IH.
Qed.

Lemma upd_mask_scale k s g lo hi : forall (mk : list bool) newl,
  map (fun t : bool * option (Q * bool) => match snd t with Some v => if snd v then true else fst t | None => fst t end)
      (combine mk (map (fun p => if inside_b lo hi p then Some (spline_at k (scale_g s g) p) else None) newl))
  = map (fun t : bool * option (Q * bool) => match snd t with Some v => if snd v then true else fst t | None => fst t end)
      (combine mk (map (fun p => if inside_b lo hi p then Some (spline_at k g p) else None) newl)).
Proof.
  induction mk as [|b mk IH]; intros [|p newl]; cbn [map combine]; try reflexivity.
  f_equal; [| apply IH].
  cbn [fst snd]. destruct (inside_b lo hi p); cbn [fst snd]; [| reflexivity].
  destruct (spline_at_scale k g p s) as [_ E]. rewrite E. reflexivity.
Qed.

Lemma step_group_scale k inl newl s st' st0 ss f : 0 < s -> st_rel s st' st0 ->
  st_rel s (step_group k inl newl st' (ss, scale_fit s f)) (step_group k inl newl st0 (ss, f)).
Proof.
  intros Hs (Hf & Hm & Hc). unfold step_group. cbv zeta.
  rewrite usable_scale by (intro E; rewrite E in Hs; discriminate Hs).
  destruct (usable ss f) as [g |].
  - rewrite scale_fit_Some. unfold st_rel; cbn [s_flux s_mask s_comb]. split; [| split].
    + apply upd_flux_scale, Hf.
    + rewrite Hm. apply upd_mask_scale.
    + rewrite Hc. reflexivity.
  - cbn [scale_fit]. unfold st_rel; cbn [s_flux s_mask s_comb]. rewrite Hc. auto.
Qed.

Lemma fold_step_scale k inl newl s : 0 < s -> forall grps fits st' st0, st_rel s st' st0 ->
  st_rel s (fold_left (step_group k inl newl) (combine grps (map (scale_fit s) fits)) st')
           (fold_left (step_group k inl newl) (combine grps fits) st0).
Proof.
  intro Hs. induction grps as [|ss grps IH]; intros [|f fits] st' st0 H; cbn [map combine fold_left]; try exact H.
  apply IH. apply step_group_scale; assumption.
Qed.

(* the two components of `stages`, named *)
Definition st_of (c : cin) (fits : list (option gfit)) : st :=
  fold_left (step_group (c_k c) (c_inloglam c) (c_newloglam c))
            (combine (groups (c_maxsep c) (c_inloglam c) (c_isort c)) fits)
            (mkSt (map (fun _ => 0) (c_newloglam c)) (map (fun _ => false) (c_newloglam c))
                  (map (fun _ => false) (c_inloglam c))).

Definition iv_of (c : cin) (s : st) : list Q :=
  fold_left (fun acc j =>
      let these := filter (fun i => (nth i (c_specnum c) O =? j)%nat) (seq 0 (length (c_inloglam c))) in
      vsum acc (ivar_of_exposure (c_inloglam c) (weights c) (s_comb s) these (c_newloglam c) (s_mask s)))
    (seq 0 (c_nspec c)) (map (fun _ => 0) (c_newloglam c)).

Lemma stages_eq c fits : stages c fits = (st_of c fits, iv_of c (st_of c fits)).
Proof. reflexivity. Qed.

Lemma st_of_scale s c fits : 0 < s -> st_rel s (st_of (scale_cin s c) (map (scale_fit s) fits)) (st_of c fits).
Proof.
  intro Hs. unfold st_of, scale_cin; cbn [c_k c_inloglam c_newloglam c_maxsep c_isort].
  apply fold_step_scale; [exact Hs |].
  unfold st_rel; cbn [s_flux s_mask s_comb]. split; [apply Vs_zeros | auto].
Qed.

Theorem stages_fst_scale s c fits : 0 < s ->
  Veq (s_flux (fst (stages (scale_cin s c) (map (scale_fit s) fits)))) (map (fun a => a * s) (s_flux (fst (stages c fits)))) /\
  s_mask (fst (stages (scale_cin s c) (map (scale_fit s) fits))) = s_mask (fst (stages c fits)) /\
  s_comb (fst (stages (scale_cin s c) (map (scale_fit s) fits))) = s_comb (fst (stages c fits)).
Proof.
  intro Hs. rewrite !stages_eq; cbn [fst]. destruct (st_of_scale s c fits Hs) as (Hf & Hm & Hc).
  split; [apply Vs_map, Hf | auto].
Qed.

(* ================================================================== S4. inverse variance before growth *)
Definition Ps (t : Q) : list (Q * Q) -> list (Q * Q) -> Prop :=
  Forall2 (fun q' q : Q * Q => fst q' = fst q /\ snd q' == snd q * t).

Lemma interp_from_scale t x : forall rest' rest, Ps t rest' rest -> forall x0 y0' y0, y0' == y0 * t ->
  interp_from x0 y0' rest' x == interp_from x0 y0 rest x * t.
Proof.
  induction 1 as [|[x1' y1'] [x1 y1] r' r [Hx Hy] Hr IH]; intros x0 y0' y0 H0; cbn [interp_from]; [exact H0 |].
  cbn [fst snd] in Hx, Hy. subst x1'. destruct (Qltb x x1).
  - rewrite H0, Hy. generalize ((x - x0) / (x1 - x0)); intro w. ring.
  - apply IH; exact Hy.
Qed.

Lemma interp_Ps t pts' pts x : Ps t pts' pts -> interp pts' x == interp pts x * t.
Proof.
  intro H. destruct H as [|[x0' y0'] [x0 y0] r' r [Hx Hy] Hr]; cbn [interp]; [ring |].
  cbn [fst snd] in Hx, Hy. subst x0'. destruct (Qle_bool x x0); [exact Hy |].
  apply interp_from_scale; assumption.
Qed.

Lemma Ps_self_map t pts : Ps t (map (fun q : Q * Q => (fst q, snd q * t)) pts) pts.
Proof. induction pts as [|q pts IH]; cbn [map]; constructor; [split; cbn [fst snd]; reflexivity | exact IH]. Qed.

(* interp is linear in the ordinates *)
Lemma interp_scale t pts x : interp (map (fun q : Q * Q => (fst q, snd q * t)) pts) x == interp pts x * t.
Proof. apply interp_Ps, Ps_self_map. Qed.

Lemma interp_scale_div d pts x : interp (map (fun q : Q * Q => (fst q, snd q / d)) pts) x == interp pts x / d.
Proof. exact (interp_scale (/ d) pts x). Qed.

Lemma ivar_of_exposure_scale t inl wts' wts comb these newl mask :
  (forall i, nthQ wts' i == nthQ wts i * t) ->
  Vs t (ivar_of_exposure inl wts' comb these newl mask) (ivar_of_exposure inl wts comb these newl mask).
Proof.
  intro Hw. unfold ivar_of_exposure. cbv zeta.
  assert (HP : Ps t (map (fun i => (nthQ inl i, nthQ wts' i * b2q (nthB comb i))) these)
                    (map (fun i => (nthQ inl i, nthQ wts i * b2q (nthB comb i))) these)).
  { induction these as [|i these IH]; cbn [map]; constructor; [| exact IH].
    cbn [fst snd]. split; [reflexivity |]. rewrite Hw. ring. }
  induction (combine newl mask) as [|[p m] l IH]; cbn [map]; constructor; [| exact IH].
  destruct (Qle_bool _ p && Qle_bool p _); [| ring].
  destruct (Qle_bool (1 - EPS) _); [| ring].
  rewrite (interp_Ps t _ _ p HP). ring.
Qed.

Lemma vsum_scale t a' a : Vs t a' a -> forall b' b, Vs t b' b -> Vs t (vsum a' b') (vsum a b).
Proof.
  unfold vsum. induction 1 as [|x' x a' a Hx Ha IH]; intros b' b Hb; [constructor |].
  destruct Hb as [|y' y b' b Hy Hb]; cbn [combine map]; constructor.
  - cbn [fst snd]. rewrite !Qred_correct, Hx, Hy. ring.
  - apply IH, Hb.
Qed.

Lemma iv_of_scale s c iv st' st0 : 0 < s -> c_nspec c = 1%nat -> c_stacked c = false -> c_ivar c = Some iv ->
  s_mask st' = s_mask st0 -> s_comb st' = s_comb st0 ->
  Vs (/ (s * s)) (iv_of (scale_cin s c) st') (iv_of c st0).
Proof.
  intros Hs Hn Hst Hiv Hm Hc. unfold iv_of, weights, scale_cin;
    cbn [c_ivar c_inloglam c_newloglam c_specnum c_nspec c_stacked].
  rewrite Hiv, Hn, Hst, Hm, Hc. cbn [Nat.leb seq fold_left]. cbv zeta.
  apply vsum_scale; [apply Vs_zeros |].
  apply ivar_of_exposure_scale. apply Vs_nth. apply Vs_div, Veq_refl.
Qed.

Theorem stages_snd_scale s c iv fits : 0 < s -> c_nspec c = 1%nat -> c_stacked c = false -> c_ivar c = Some iv ->
  Veq (snd (stages (scale_cin s c) (map (scale_fit s) fits))) (map (fun a => a / (s * s)) (snd (stages c fits))).
Proof.
  intros Hs Hn Hst Hiv. rewrite !stages_eq; cbn [snd]. apply Vs_div.
  destruct (st_of_scale s c fits Hs) as (_ & Hm & Hc). apply (iv_of_scale s c iv); assumption.
Qed.

(* ================================================================== S5. growth *)
Lemma set_nth_scale t a' a : a' == a * t -> forall l' l, Vs t l' l -> forall i, Vs t (set_nth i a' l') (set_nth i a l).
Proof.
  intro Ha. induction 1 as [|b' b l' l Hb Hl IH]; intros [|i]; cbn [set_nth]; constructor; auto.
  apply IH.
Qed.

Lemma set_many_zero_scale t (idx : list nat) : forall l' l, Vs t l' l ->
  Vs t (set_many idx (map (fun _ => 0) idx) l') (set_many idx (map (fun _ => 0) idx) l).
Proof.
  induction idx as [|i idx IH]; intros l' l H; cbn [map set_many]; [exact H |].
  apply IH. apply set_nth_scale; [ring | exact H].
Qed.

Lemma grow_Vs t v' v : Vs t v' v ->
  map c1f_bad (smooth3 v') = map c1f_bad (smooth3 v) ->
  Vs t (grow v') (grow v).
Proof.
  intros H Hb. unfold grow. cbv zeta. rewrite Hb, (Vs_length _ _ _ H).
  apply set_many_zero_scale, set_many_zero_scale, H.
Qed.

Theorem grow_scale d v' v : Veq v' (map (fun a => a / d) v) ->
  map c1f_bad (smooth3 v') = map c1f_bad (smooth3 v) ->
  Veq (grow v') (map (fun a => a / d) (grow v)).
Proof. intros H Hb. apply Vs_div, grow_Vs; [apply Vs_div, H | exact Hb]. Qed.

(* ================================================================== S6. aesthetics *)
Lemma bad_scale t iv' iv : ~ t == 0 -> Vs t iv' iv ->
  map (fun v => Qeq_bool v 0) iv' = map (fun v => Qeq_bool v 0) iv.
Proof.
  intro Ht. induction 1 as [|a' a iv' iv Ha Hi IH]; [reflexivity |]. cbn [map]. f_equal; [| exact IH].
  rewrite (Qeqb_ext a' (a * t) 0 0 Ha (Qeq_refl 0)). apply Qeqb_0_scale, Ht.
Qed.

Lemma pos_scale t iv' iv : 0 < t -> Vs t iv' iv ->
  map (fun v => Qltb 0 v) iv' = map (fun v => Qltb 0 v) iv.
Proof.
  intro Ht. induction 1 as [|a' a iv' iv Ha Hi IH]; [reflexivity |]. cbn [map]. f_equal; [| exact IH].
  rewrite (Qltb_ext 0 0 a' (a * t) (Qeq_refl 0) Ha). apply Qltb_0_scale, Ht.
Qed.

Lemma good_table_scale s : forall ys' ys, Vs s ys' ys -> forall i bad,
  Ps s (good_table i ys' bad) (good_table i ys bad).
Proof.
  induction 1 as [|y' y ys' ys Hy Hys IH]; intros i [|b bad]; cbn [good_table]; try constructor.
  destruct b; [apply IH |]. constructor; [split; [reflexivity | exact Hy] | apply IH].
Qed.

Lemma const_fill_scale s g' g : g' == g * s -> forall ys' ys : list Q, length ys' = length ys ->
  Vs s (map (fun _ : Q => g') ys') (map (fun _ : Q => g) ys).
Proof.
  intro Hg. induction ys' as [|a ys' IH]; intros [|b ys] L; try discriminate; cbn [map]; constructor; [exact Hg |].
  apply IH. cbn [length] in L. congruence.
Qed.

Lemma interp_fill_scale s tbl' tbl : Ps s tbl' tbl -> forall ys' ys, Vs s ys' ys -> forall i0 bad,
  Vs s (map (fun t : nat * (Q * bool) => if snd (snd t) then Qred (interp tbl' (qnat (fst t))) else fst (snd t))
            (combine (seq i0 (length ys')) (combine ys' bad)))
       (map (fun t : nat * (Q * bool) => if snd (snd t) then Qred (interp tbl (qnat (fst t))) else fst (snd t))
            (combine (seq i0 (length ys)) (combine ys bad))).
Proof.
  intro HT. induction 1 as [|y' y ys' ys Hy Hys IH]; intros i0 [|b bad]; cbn [length seq combine map]; try constructor.
  - cbn [fst snd]. destruct b; [| exact Hy]. rewrite !Qred_correct. apply interp_Ps, HT.
  - apply IH.
Qed.

Lemma maskinterp_scale s ys' ys bad : Vs s ys' ys -> Vs s (maskinterp_idx ys' bad) (maskinterp_idx ys bad).
Proof.
  intro H. unfold maskinterp_idx. destruct (forallb negb bad); [exact H |].
  pose proof (good_table_scale s ys' ys H 0%nat bad) as HT.
  remember (good_table 0 ys' bad) as T' eqn:E'. remember (good_table 0 ys bad) as T eqn:E. clear E E'.
  destruct HT as [|q0' q0 T' T H0 HT]; [exact H |].
  destruct HT as [|q1' q1 T' T H1 HT].
  - apply const_fill_scale; [apply H0 | apply (Vs_length _ _ _ H)].
  - apply interp_fill_scale; [| exact H]. constructor; [exact H0 |]. constructor; [exact H1 | exact HT].
Qed.

Lemma select_scale t l' l : Vs t l' l -> forall m, Vs t (select m l') (select m l).
Proof.
  induction 1 as [|a' a l' l Ha Hl IH]; intros [|b m]; cbn [select]; try constructor.
  destruct b; [constructor; [exact Ha | apply IH] | apply IH].
Qed.

Lemma qsum_red_fold_scale t l' l : Vs t l' l -> forall a' a, a' == a * t ->
  fold_left (fun acc v => Qred (acc + v)) l' a' == fold_left (fun acc v => Qred (acc + v)) l a * t.
Proof.
  induction 1 as [|x' x l' l Hx Hl IH]; intros a' a Ha; cbn [fold_left]; [exact Ha |].
  apply IH. rewrite !Qred_correct, Hx, Ha. ring.
Qed.

Lemma qsum_red_scale t l' l : Vs t l' l -> qsum_red l' == qsum_red l * t.
Proof. intro H. unfold qsum_red. apply qsum_red_fold_scale; [exact H | ring]. Qed.

Lemma mean_fill_scale s t mu' mu : 0 < t -> mu' == mu * s -> forall fl' fl, Vs s fl' fl -> forall iv' iv, Vs t iv' iv ->
  Vs s (map (fun fg : Q * Q => if Qltb 0 (snd fg) then fst fg else mu') (combine fl' iv'))
       (map (fun fg : Q * Q => if Qltb 0 (snd fg) then fst fg else mu) (combine fl iv)).
Proof.
  intros Ht Hmu. induction 1 as [|a' a fl' fl Ha Hf IH]; intros iv' iv Hiv; [constructor |].
  destruct Hiv as [|v' v iv' iv Hv Hiv]; cbn [combine map]; constructor; [| apply IH, Hiv].
  cbn [fst snd]. rewrite (Qltb_ext 0 0 v' (v * t) (Qeq_refl 0) Hv), (Qltb_0_scale v t Ht).
  destruct (Qltb 0 v); assumption.
Qed.

Lemma aesthetics_Vs m s t flux' flux iv' iv : 0 < t -> Vs s flux' flux -> Vs t iv' iv ->
  Vs s (aesthetics_model m flux' iv') (aesthetics_model m flux iv).
Proof.
  intros Ht Hf Hi. unfold aesthetics_model, aesthetics_core. cbv zeta.
  rewrite (bad_scale t iv' iv) by (try exact Hi; intro E; rewrite E in Ht; discriminate Ht).
  destruct (forallb (fun b : bool => b) (map (fun v => Qeq_bool v 0) iv)); [exact Hf |].
  destruct (existsb (fun b : bool => b) (map (fun v => Qeq_bool v 0) iv)); [| exact Hf].
  destruct m.
  - apply maskinterp_scale, Hf.
  - apply maskinterp_scale, Hf.
  - rewrite (pos_scale t iv' iv Ht Hi).
    apply (mean_fill_scale s t); [exact Ht | | exact Hf | exact Hi].
    pose proof (select_scale s _ _ Hf (map (fun v => Qltb 0 v) iv)) as Hg.
    rewrite !Qred_correct, (Vs_length _ _ _ Hg), (qsum_red_scale _ _ _ Hg). unfold Qdiv. ring.
  - exact Hf.
Qed.

Theorem aesthetics_scale m s d flux' flux iv' iv : 0 < d ->
  Veq flux' (map (fun a => a * s) flux) -> Veq iv' (map (fun a => a / d) iv) ->
  Veq (aesthetics_model m flux' iv') (map (fun a => a * s) (aesthetics_model m flux iv)).
Proof.
  intros Hd Hf Hi. apply Vs_map. apply (aesthetics_Vs m s (/ d)).
  - apply Qinv_lt_0_compat, Hd.
  - apply Vs_map, Hf.
  - apply Vs_div, Hi.
Qed.

(* ================================================================== S7. the scaling law *)
(* the rescaling does not move any 3-pixel mean of the pre-growth inverse variance across EPS *)
Definition growth_decisions_agree (s : Q) (c : cin) (fits : list (option gfit)) : Prop :=
  map c1f_bad (smooth3 (snd (stages (scale_cin s c) (map (scale_fit s) fits))))
  = map c1f_bad (smooth3 (snd (stages c fits))).

Theorem scaling_law s c iv fits :
  0 < s -> c_nspec c = 1%nat -> c_stacked c = false -> c_ivar c = Some iv ->
  growth_decisions_agree s c fits ->
  let (nf, ni) := combine1fiber_model c fits in
  let (nf', ni') := combine1fiber_model (scale_cin s c) (map (scale_fit s) fits) in
  Forall2 Qeq nf' (map (fun a => a * s) nf) /\ Forall2 Qeq ni' (map (fun a => a / (s * s)) ni).
Proof.
  intros Hs Hn Hst Hiv Hg. unfold growth_decisions_agree in Hg. rewrite !stages_eq in Hg. cbn [snd] in Hg.
  unfold combine1fiber_model, combine1fiber_full. rewrite (good_index_scale s c Hs).
  destruct (good_index c) as [|i0 gi].
  - cbn [fst]. unfold scale_cin; cbn [c_newloglam].
    split; [apply Vs_map | apply Vs_div]; apply Vs_zeros.
  - rewrite !stages_eq. cbn [fst].
    destruct (st_of_scale s c fits Hs) as (Hf & Hm & Hc).
    pose proof (iv_of_scale s c iv _ _ Hs Hn Hst Hiv Hm Hc) as Hi.
    pose proof (grow_Vs _ _ _ Hi Hg) as Hgr.
    split.
    + apply Vs_map. replace (c_method (scale_cin s c)) with (c_method c) by reflexivity.
      apply (aesthetics_Vs _ s (/ (s * s))); [apply inv_sq_pos, Hs | exact Hf | exact Hgr].
    + apply Vs_div, Hgr.
Qed.

Print Assumptions scaling_law.
