(* C15 -- least-squares and factorisation solvers.  Executable definitions only (no proofs).
   M : computechi2 (pydl/pydlutils/math.py), HMF.astep/gstep/astepnn/gstepnn/badness/normbase
       (pydl/pydlspec2d/spec1d.py) over exact rationals.
   Every elementwise expression, broadcasting axis and slice offset of M is taken from Generated/Chi2.v (names g_...),
   regenerated from the source by translate/c15.py on every run; the forms ..._ref are the hand-written reference forms
   the theorems go through.  Hand-written: list plumbing, SVD/solve/eigh (oracles), kmeans, reorder, normalisation.
   S : certified checkers chi2_ok, astep_ok, gstep_ok, eig_ok, pcomp_ok, pca_ok evaluated on the arrays the
       implementation returns.  LAPACK eigh/svd are oracles: their outputs are checked per case, not modelled. *)
From Coq Require Import QArith Qabs Qminmax ZArith List Bool.
From PV Require Import Lib.WLS C13.LinAlg Generated.Chi2.
Import ListNotations.
Open Scope Q_scope.

(* ================================================================== M : computechi2 *)
(* rows of A paired with weight sqivar^2 and observation b *)
Definition cc_data (A : mat) (sq b : vec) : list obs := combine (combine A (map sqr sq)) b.

Record chi2res := { c_acoeff : vec; c_chi2 : Q; c_yfit : vec; c_dof : Z; c_covar : mat; c_var : vec }.

(* chi2 as the code computes it: sum ((mmatrix . acoeff) - bvec*sqivar)^2 *)
Fixpoint cc_chi2 (A : mat) (sq b a : vec) : Q :=
  match A, sq, b with
  | r :: A', s :: sq', y :: b' => Qred (sqr (s * dotr r a - y * s) + cc_chi2 A' sq' b' a)
  | _, _, _ => 0
  end.

Definition cc_dof (sq : vec) (nstar : nat) : Z :=
  (Z.of_nat (length (filter (fun s => Qlt_bool 0 s) sq)) - Z.of_nat nstar)%Z.

Definition computechi2_ref (b sq : vec) (A : mat) : option chi2res :=
  let nstar := ncols A in
  let D := cc_data A sq b in
  let mm := mred (normal_mat nstar D) in
  match solve_checked mm (vred (normal_rhs nstar D)), inverse_checked mm with
  | Some a, Some cov =>
      Some {| c_acoeff := a; c_chi2 := cc_chi2 A sq b a; c_yfit := mat_vec A a;
              c_dof := cc_dof sq nstar; c_covar := cov; c_var := diag cov |}
  | _, _ => None
  end.

(* ---- computechi2 with the expressions of the source *)
(* mmatrix = amatrix * tile(sqivar) on the axis the source uses *)
Definition gen_mm (A : mat) (sq : vec) : mat :=
  match g_mm_axis with
  | ScaleRows => map2 (fun r s => map (fun a => g_mm a s) r) A sq
  | ScaleCols => map (fun r => map2 g_mm r sq) A
  end.
Definition gen_bw (b sq : vec) : vec := map2 g_bw b sq.
(* the code works on the pre-weighted system: unit weights *)
Definition gen_data (A : mat) (sq b : vec) : list obs :=
  let Mm := gen_mm A sq in combine (combine Mm (map (fun _ => 1) Mm)) (gen_bw b sq).
Fixpoint gen_chi2 (Mm : mat) (bw a : vec) : Q :=
  match Mm, bw with
  | r :: Mm', y :: bw' => Qred (g_chi2_term (dotr r a) y + gen_chi2 Mm' bw' a)
  | _, _ => 0
  end.
Definition computechi2 (b sq : vec) (A : mat) : option chi2res :=
  let nstar := ncols A in
  let D := gen_data A sq b in
  let mm := mred (normal_mat nstar D) in
  match solve_checked mm (vred (normal_rhs nstar D)), inverse_checked mm with
  | Some a, Some cov =>
      Some {| c_acoeff := a; c_chi2 := gen_chi2 (gen_mm A sq) (gen_bw b sq) a; c_yfit := mat_vec A a;
              c_dof := g_dof (Z.of_nat (length (filter g_dof_good sq))) (Z.of_nat nstar);
              c_covar := cov; c_var := diag cov |}
  | _, _ => None
  end.

(* ================================================================== M : HMF steps *)
(* spectra s, invvar w : N x M ; a : N x K ; g : K x M  (lists of rows) *)
Definition eps_active (eps : option Q) : option Q :=
  match eps with Some e => if Qlt_bool 0 e then Some e else None | None => None end.

(* row i: unknown a_i (K), one observation per pixel j with design row g[:,j] *)
Definition hmf_row_data (g : mat) (wi si : vec) : list obs := combine (combine (transpose g) wi) si.
(* column j: unknown g[:,j] (K), one observation per spectrum i with design row a_i *)
Definition hmf_col_data (a : mat) (wj sj : vec) : list obs := combine (combine a wj) sj.

Definition nbrs (M j : nat) : list nat :=
  (if Nat.ltb 0 j then [(j - 1)%nat] else []) ++ (if Nat.ltb (S j) M then [S j] else []).
Definition gat (g : mat) (k n : nat) : Q := nth n (nth k g []) 0.

(* the smoothness penalty eps * sum_{n in nbrs j} |x - gold[:,n]|^2 written as weighted observations *)
Definition pen_data (K : nat) (e : Q) (g : mat) (M j : nat) : list obs :=
  flat_map (fun n => map (fun k => (unit_vec K k, e, gat g k n)) (seq 0 K)) (nbrs M j).

Definition astep_ref (s w g : mat) : option mat :=
  opt_all (map2 (fun si wi => wls_solve (length g) (hmf_row_data g wi si)) s w).

(* as the code does it: Aj = sum_i w_ij a_i a_i^T + d[:,:,j] ; Fj = a^T (s_j w_j) + e[:,j] *)
Definition gstep_col_ref (s w a g : mat) (eps : option Q) (K M j : nat) : option vec :=
  let D := hmf_col_data a (col j w) (col j s) in
  let Aj := normal_mat K D in
  let Fj := normal_rhs K D in
  match eps_active eps with
  | None => solve_checked (mred Aj) (vred Fj)
  | Some e =>
      let mult := inject_Z (Z.of_nat (length (nbrs M j))) in
      let d := map (vscale (e * mult)) (identity K) in
      let ej := map (fun k => e * vsum (map (gat g k) (nbrs M j))) (seq 0 K) in
      solve_checked (mred (madd Aj d)) (vred (vadd Fj ej))
  end.

Definition gstep_ref (s w a g : mat) (eps : option Q) : option mat :=
  let K := ncols a in
  let M := ncols s in
  match opt_all (map (gstep_col_ref s w a g eps K M) (seq 0 M)) with
  | Some cols => Some (transpose cols)
  | None => None
  end.

(* ---- the same with the terms of the source *)
(* sum over the observations of T(r_k, r_kp, w) / of r_k * F(y, w) *)
Fixpoint gen_normal (T : Q -> Q -> Q -> Q) (m : nat) (D : list obs) : mat :=
  match D with
  | [] => zero_mat m
  | o :: D' => let '(r, w, y) := o in madd (map (fun a => map (fun b => T a b w) r) r) (gen_normal T m D')
  end.
Fixpoint gen_rhsF (F : Q -> Q -> Q) (m : nat) (D : list obs) : vec :=
  match D with
  | [] => zeros m
  | o :: D' => let '(r, w, y) := o in vadd (map (fun a => a * F y w) r) (gen_rhsF F m D')
  end.
Definition astep (s w g : mat) : option mat :=
  opt_all (map2 (fun si wi => let D := hmf_row_data g wi si in
                              solve_checked (mred (gen_normal g_astep_G (length g) D)) (vred (gen_rhsF g_astep_F (length g) D))) s w).
Definition eps_active_gen (eps : option Q) : option Q :=
  match eps with Some e => if g_eps_pos e then Some e else None | None => None end.
(* e[:, j] and the multiplier of d[:, :, j] as the three assignments / the loop of the source give them *)
Definition gen_e (e : Q) (g : mat) (M j k : nat) : Q :=
  if Nat.eqb j 0 then g_e_first e (gat g k g_e_first_src)
  else if Nat.eqb j (M - 1) then g_e_last e (gat g k (g_e_last_src M))
  else g_e_mid e (gat g k (g_e_mid_src_a j)) (gat g k (g_e_mid_src_b j)).
Definition gen_dmult (M j : nat) : Q := if g_d_interior j M then g_d_factor else 1.
Definition gstep_col (s w a g : mat) (eps : option Q) (K M j : nat) : option vec :=
  let D := hmf_col_data a (col j w) (col j s) in
  let Aj := gen_normal g_gstep_A K D in
  let Fj := gen_rhsF g_gstep_F K D in
  match eps_active_gen eps with
  | None => solve_checked (mred Aj) (vred Fj)
  | Some e =>
      let d := map (vscale (g_d_diag e * gen_dmult M j)) (identity K) in
      let ej := map (gen_e e g M j) (seq 0 K) in
      solve_checked (mred (madd Aj d)) (vred (vadd Fj ej))
  end.
Definition gstep (s w a g : mat) (eps : option Q) : option mat :=
  let K := ncols a in
  let M := ncols s in
  match opt_all (map (gstep_col s w a g eps K M) (seq 0 M)) with
  | Some cols => Some (transpose cols)
  | None => None
  end.

Definition astepnn (s w a g : mat) : mat :=
  let ag := mat_mul a g in
  map2 (fun t ai => let '(si, wi, agi) := t in
          map2 (fun gk aik => g_nn_upd aik (dot (map2 g_nn_num si wi) gk) (dot (map2 g_nn_den agi wi) gk)) g ai)
       (combine (combine s w) ag) a.

Definition gstepnn (s w a g : mat) (eps : option Q) : mat :=
  let sw := map2 (map2 g_nn_num) s w in
  let agw := map2 (map2 g_nn_den) (mat_mul a g) w in
  let M := ncols g in
  map2 (fun atk kg => let '(k, gk) := kg in
          map (fun j =>
                 let gkj := nth j gk 0 in
                 let e_ := match eps_active_gen eps with Some e => gen_e e g M j k | None => 0 end in
                 let d_ := match eps_active_gen eps with Some e => g_nn_d e gkj * gen_dmult M j | None => 0 end in
                 g_nn_upd gkj (dot atk (col j sw) + e_) (dot atk (col j agw) + d_))
              (seq 0 M))
       (transpose a) (combine (seq 0 (length g)) g).

(* sum_ij w_ij (s_ij - (a g)_ij)^2 *)
Definition chi2_mat (s w a g : mat) : Q :=
  vsum (map2 (fun sw mi => vsum (map2 (fun p mij => sqr (fst p - mij) * snd p) (combine (fst sw) (snd sw)) mi))
             (combine s w) (mat_mul a g)).
Definition penalty (eps : option Q) (g : mat) : Q :=
  match eps with
  | None => 0
  | Some e => e * vsum (map (fun gk => vsum (map2 (fun x y => sqr (y - x)) gk (tl gk))) g)
  end.
Definition badness (s w a g : mat) (eps : option Q) : Q := chi2_mat s w a g + penalty eps g.

(* the same numbers with per-step reduction (evaluation only: badness_r_correct) *)
Fixpoint vsum_r (v : vec) : Q := match v with [] => 0 | a :: v' => Qred (a + vsum_r v') end.
Definition chi2_mat_r (s w a g : mat) : Q :=
  vsum_r (map2 (fun sw mi => vsum_r (map2 (fun p mij => sqr (fst p - mij) * snd p) (combine (fst sw) (snd sw)) mi))
               (combine s w) (mat_mul_r a g)).
Definition badness_r (s w a g : mat) (eps : option Q) : Q := chi2_mat_r s w a g + penalty eps g.

(* normbase() squared: mean_j g_kj^2 *)
Definition normbase2 (g : mat) : vec :=
  let G := if Nat.eqb g_norm_axis 1 then g else transpose g in
  map (fun gk => vsum (map g_norm_sq gk) / inject_Z (Z.of_nat (length gk))) G.
(* g /= norm ; a *= norm *)
Definition normalise (n : vec) (a g : mat) : mat * mat :=
  (map (fun ai => map2 Qmult ai n) a, map2 (fun gk nk => map (fun v => v / nk) gk) g n).


(* ---- normalisation with the expressions and the broadcasting axes of the source (iterate) *)
Definition scale_mat (ax : scale_axis) (f : Q -> Q -> Q) (X : mat) (n : vec) : mat :=
  match ax with
  | ScaleRows => map2 (fun r nk => map (fun v => f v nk) r) X n
  | ScaleCols => map (fun r => map2 f r n) X
  end.
Definition normalise_gen (n : vec) (a g : mat) : mat * mat :=
  (scale_mat g_norm_a_axis g_norm_a a n, scale_mat g_norm_g_axis g_norm_g g n).

(* ================================================================== M : one pass of HMF.iterate's loop *)
(* The loop body is the list of steps the translator reads from the source (g_iter_nn / g_iter_std).  The model runs
   it as a CHECKED TRACE: every step is applied to the state (a, g) recorded at the call of that step in the real
   loop, its result must agree with the state recorded at the next step, and the next step starts from that recorded
   state (so exact arithmetic never accumulates).  reorder() (eigh) is an oracle: its recorded output is accepted
   when it leaves a.g unchanged and makes a^T a diagonal with ascending diagonal; the square roots of normbase()
   enter as float witnesses whose squares are verified. *)
Definition state := (mat * mat)%type.
Definition a_float_sqrt_ok (s v : Q) : bool := Qlt_bool 0 s && Qle_bool (Qabs (s * s - v)) ((1 # 1000000000000) * v).
Fixpoint ascending_tol (t : Q) (v : vec) : bool :=
  match v with a :: ((b :: _) as r) => Qle_bool a (b + t) && ascending_tol t r | _ => true end.
Definition reorder_ok (tol : Q) (a g ar gr : mat) : bool :=
  let G := mat_mul_r (transpose ar) ar in
  let sc := vmaxabs (map vmaxabs G) in
  mclose (qclose_rel tol) (mat_mul_r ar gr) (mat_mul_r a g)
  && forallb (fun p => forallb (fun q => if Nat.eqb (fst p) (fst q) then true else Qle_bool (Qabs (snd q)) (tol * sc))
                               (combine (seq 0 (length (snd p))) (snd p)))
             (combine (seq 0 (length G)) G)
  && ascending_tol (tol * sc) (diag G).
Definition close_state (tol : Q) (m r : state) : bool :=
  mclose (qclose_rel tol) (fst r) (fst m) && mclose (qclose_rel tol) (snd r) (snd m).
Definition hmf_apply (s w : mat) (eps : option Q) (nw : vec) (rec : state) (stp : hstep) (st : state) : option state :=
  let '(a, g) := st in
  match stp with
  | SAstep => match astep s w g with Some a' => Some (a', g) | None => None end
  | SGstep => match gstep s w a g eps with Some g' => Some (a, g') | None => None end
  | SAstepNN => Some (astepnn s w a g, g)
  | SGstepNN => Some (a, gstepnn s w a g eps)
  | SReorder => if reorder_ok (1 # 100000000) a g (fst rec) (snd rec) then Some rec else None
  | SNormalise => if vclose a_float_sqrt_ok nw (normbase2 g) then Some (normalise_gen nw a g) else None
  end.
Fixpoint hmf_trace (s w : mat) (eps : option Q) (nw : vec) (steps : list hstep) (recs : list state) (st : state) : bool :=
  match steps, recs with
  | [], [] => true
  | stp :: steps', r :: recs' =>
      match hmf_apply s w eps nw r stp st with
      | Some st' => close_state (1 # 100000000) st' r && hmf_trace s w eps nw steps' recs' r
      | None => false
      end
  | _, _ => false
  end.
Definition hmf_iter_steps (nonneg : bool) : list hstep := if nonneg then g_iter_nn else g_iter_std.

(* ================================================================== M : one inner pass of pca_solve *)
(* synthetic weight of a pixel: mean of its non-zero inverse variances, the default when there is none *)
Definition pca_synw (ivar : mat) : vec :=
  map (fun c => match filter g_pca_synw_good c with
                | [] => g_pca_synw_default
                | good => Qred (vsum good / inject_Z (Z.of_nat (length good)))
                end) (transpose ivar).
Fixpoint filt_row (mi f sw y : vec) : vec :=
  match mi, f, sw, y with
  | a :: mi', b :: f', c :: sw', d :: y' => Qred (g_pca_filt a b c d) :: filt_row mi' f' sw' y'
  | _, _, _, _ => []
  end.
(* object i: computechi2(newflux_i, sqrt(maskivar_i), pres[:, 0:nkeep]) -> (acoeff_i, new filtflux_i) *)
Definition pca_obj_data (nkeep : nat) (pres : mat) (fi vi mi : vec) : list obs :=
  combine (combine (map (firstn nkeep) pres) (map g_pca_weight (map2 g_pca_maskivar vi mi))) fi.
Definition pca_obj_step (nkeep : nat) (pres : mat) (synw fi vi mi : vec) : option (vec * vec) :=
  match wls_solve nkeep (pca_obj_data nkeep pres fi vi mi) with
  | Some ac => Some (ac, filt_row (map2 g_pca_maskivar vi mi) fi synw (mat_vec_r (map (firstn nkeep) pres) ac))
  | None => None
  end.
Fixpoint zip3 (a b c : mat) : list (vec * vec * vec) :=
  match a, b, c with x :: a', y :: b', z :: c' => (x, y, z) :: zip3 a' b' c' | _, _, _ => [] end.
Definition pca_step (nkeep : nat) (newflux ivar mask pres : mat) : option (list (vec * vec)) :=
  let synw := pca_synw ivar in
  opt_all (map (fun t => let '(fi, vi, mi) := t in pca_obj_step nkeep pres synw fi vi mi) (zip3 newflux ivar mask)).

(* ================================================================== S : checkers *)
Definition tol8 : Q := 1 # 100000000.
Definition tol9 : Q := 1 # 1000000000.
Definition tol5 : Q := 1 # 100000.
Definition tol6 : Q := 1 # 1000000.

Definition qle (a b : Q) : bool := Qle_bool a b.
Fixpoint descending (v : vec) : bool :=
  match v with
  | a :: ((b :: _) as t) => qle b a && descending t
  | _ => true
  end.

(* X ~ I *)
Definition near_identity (tol : Q) (X : mat) : bool := mclose (qclose tol) X (identity (length X)).

(* covar * N ~ I with an error relative to the size of the products *)
Definition inverse_ok (tol : Q) (cov N : mat) : bool :=
  let n := length N in
  let Nt := transpose N in
  Nat.eqb (length cov) n
  && forallb (fun p => let '(i, r) := p in
        Nat.eqb (length r) n &&
        forallb (fun q => let '(j, c) := q in
           Qle_bool (Qabs (dot r c - (if Nat.eqb i j then 1 else 0))) (tol * (dot (vabs r) (vabs c) + 1)))
          (combine (seq 0 n) Nt))
      (combine (seq 0 n) cov).

(* slack >= 1 scales the rounding tolerances with the conditioning of the system (supplied by the harness as
   max(1, cond(A^T W A) / 1e8), i.e. tolerances ~ cond * 1e-16 .. 1e-17); clause 7, the certified optimality test, does NOT use it *)
(* prec >= 1 : working precision of the storage type relative to float64 (1 for float64 / integer inputs, 2^29 for
   float32 inputs, where the code computes everything in float32); it multiplies the rounding tolerances only *)
Definition chi2_clauses (slack prec : Q) (b sq : vec) (A : mat) (ia : vec) (ichi2 : Q) (iyfit : vec) (idof : Z) (icovar : mat) (ivar : vec) : list bool :=
  let nstar := ncols A in
  let D := cc_data A sq b in
  let S0 := chi2r D (zeros nstar) in                             (* sum w b^2 : the scale of chi-square *)
  (* every comparison is relative (to the terms of the equation, to the largest entry, to S0): the clauses mean the
     same whatever the absolute scale of sqivar and bvec *)
  [ grad_small (tol9 * slack * prec) nstar D ia                  (* 0 weighted normal equations *)
  ; vclose_max (tol9 * slack * prec) iyfit (mat_vec A ia)        (* 1 fitted values *)
  ; qclose_s (tol8 * prec) S0 ichi2 (chi2r D ia)                 (* 2 chi-square of the returned coefficients *)
  ; Z.eqb idof (cc_dof sq nstar)                                 (* 3 degrees of freedom *)
  ; inverse_ok (tol8 * slack * prec) icovar (normal_mat nstar D) (* 4 covariance = inverse of A^T W A *)
  ; meq_bool icovar (transpose icovar)                           (* 5 symmetric *)
  ; veq_bool ivar (diag icovar)                                  (* 6 variances = diagonal *)
    (* 7 the chi-square of the returned coefficients is within 1e-6 (relative) of the PROVEN minimum
         (wls_solve_optimal; chi2r = chi2 by chi2r_correct): decides optimality also for badly scaled systems, where a truncated
         pseudo-inverse is off by far more than rounding.  No conditioning slack: measured on the unmodified code the excess is
         <= 1e-12 T up to cond 1e14 (nearly collinear templates), a truncated solution has >= 1e-5 T *)
  ; match wls_solve nstar D with
    | Some xopt =>
        (* T = |a|^T |A^T W A| |a| : the un-cancelled size of the quadratic form (backward-error scale) *)
        let T := dotr (vabs ia) (mat_vec_r (map vabs (normal_mat nstar D)) (vabs ia)) in
        Qle_bool (chi2r D ia) (chi2r D xopt * (1 + tol6) + tol9 * T)
    | None => false
    end ].
Definition chi2_ok (slack prec : Q) (b sq : vec) (A : mat) (ia : vec) (ichi2 : Q) (iyfit : vec) (idof : Z) (icovar : mat) (ivar : vec) : bool :=
  forallb id (chi2_clauses slack prec b sq A ia ichi2 iyfit idof icovar ivar).

Definition astep_ok (tol : Q) (s w g a' : mat) : bool :=
  Nat.eqb (length a') (length s)
  && forallb (fun t => let '(si, wi, ai) := t in grad_small tol (length g) (hmf_row_data g wi si) ai)
             (combine (combine s w) a').

Definition gstep_ok (tol : Q) (s w a g : mat) (eps : option Q) (g' : mat) : bool :=
  let K := ncols a in
  let M := ncols s in
  Nat.eqb (length g') K && forallb (fun r => Nat.eqb (length r) M) g'
  && forallb (fun j =>
        let D := hmf_col_data a (col j w) (col j s)
                 ++ match eps_active eps with Some e => pen_data K e g M j | None => [] end in
        grad_small tol K D (col j g'))
       (seq 0 M).

Definition mat_nonneg (A : mat) : bool := forallb (forallb (fun v => qle 0 v)) A.

(* eigen-output checker.  vecs = columns v_k as rows of the list; vals = l_k; n2 = expected squared norms
   (ones for unit eigenvectors, l_k for pcomp's coefficients).
   descending eigenvalues; C v_k ~ l_k v_k ; v_j . v_k ~ delta_jk n2_k ; sum_k (l_k / n2_k) v_k v_k^T ~ C is
   implied (spectral_reconstruction) and also checked directly by the callers. *)
Definition eig_ok (tol : Q) (C : mat) (vals : vec) (vecs : mat) (n2 : vec) : bool :=
  let n := length C in
  let scale := 1 + vmaxabs (map vmaxabs C) * inject_Z (Z.of_nat n) in
  Nat.eqb (length vals) n && Nat.eqb (length vecs) n && Nat.eqb (length n2) n
  && descending vals
  && forallb (fun p => let '(l, v) := p in
        Nat.eqb (length v) n && vclose (qclose (tol * scale * (1 + vmaxabs v))) (mat_vec_r C v) (vscale l v))
      (combine vals vecs)
  && forallb (fun p => let '(j, vj) := p in
        forallb (fun q => let '(k, vk, nk) := q in
           qclose (tol * scale) (dotr vj vk) (if Nat.eqb j k then nk else 0))
          (combine (combine (seq 0 n) vecs) n2))
      (combine (seq 0 n) vecs).

(* statistics of a data matrix (rows = observations) *)
Definition qn (n : nat) : Q := inject_Z (Z.of_nat n).
Definition col_means (x : mat) : vec := map (fun c => Qred (vsum c / qn (length x))) (transpose x).
Definition center (x : mat) : mat := let mu := col_means x in map (fun r => vred (vsub r mu)) x.
(* np.cov(rowvar=0): ddof = 1 *)
Definition cov_mat (x : mat) : mat :=
  let cols := transpose (center x) in
  map (fun ci => map (fun cj => Qred (dotr ci cj / qn (length x - 1))) cols) cols.
(* population variance (np.std(0)**2, ddof = 0) *)
Definition var0 (x : mat) : vec := map (fun c => Qred (dotr c c / qn (length x))) (transpose (center x)).
(* a float witness s of sqrt v *)
Definition sqrt_wit_ok (s v : Q) : bool := Qlt_bool 0 s && Qle_bool (Qabs (s * s - v)) ((1 # 1000000000000) * v).

(* the array pcomp works on, and its covariance / correlation matrix; sd0, sdc are checked square-root witnesses *)
Definition pcomp_array (x : mat) (standardize : bool) (sd0 : vec) : mat :=
  if standardize then map (fun r => vred (map2 Qdiv r sd0)) (center x) else x.
Definition pcomp_C (arr : mat) (covariance : bool) (sdc : vec) : mat :=
  let cv := cov_mat arr in
  if covariance then cv else map2 (fun r si => map2 (fun v sj => Qred (v / (si * sj))) r sdc) cv sdc.

Definition pcomp_clauses (tol : Q) (x : mat) (standardize covariance : bool) (sd0 sdc : vec)
           (ievals : vec) (icoef iderived : mat) (ivariance : vec) : list bool :=
  let nv := ncols x in
  let arr := pcomp_array x standardize sd0 in
  let C := pcomp_C arr covariance sdc in
  let tr := Qred (vsum (diag C)) in
  let cols := transpose icoef in
  [ (if standardize then vclose sqrt_wit_ok sd0 (var0 x) else true)                    (* 0 witnesses *)
  ; (if covariance then true else vclose sqrt_wit_ok sdc (diag (cov_mat arr)))         (* 1 witnesses *)
  ; Nat.eqb (length icoef) nv                                                          (* 2 shape *)
    (* 3 eigenvalues descending; coefficient columns are eigenvectors scaled to squared norm l_k *)
  ; eig_ok tol C ievals cols ievals
    (* 4 outer product of the components reproduces the matrix *)
  ; mclose (qclose (tol * (1 + vmaxabs (map vmaxabs C)))) (mat_mul_r icoef (transpose icoef)) C
    (* 5, 6 variance fractions *)
  ; vclose (qclose tol) ivariance (map (fun l => l / tr) ievals)
  ; qclose tol (vsum ivariance) 1
    (* 7 derived variables = data times components *)
  ; mclose (qclose_rel tol) iderived (mat_mul_r arr icoef) ].
Definition pcomp_ok (tol : Q) (x : mat) (standardize covariance : bool) (sd0 sdc : vec)
           (ievals : vec) (icoef iderived : mat) (ivariance : vec) : bool :=
  forallb id (pcomp_clauses tol x standardize covariance sd0 sdc ievals icoef iderived ivariance).

(* pca_solve: flux = returned eigenspectra (nreturn x npix, float32), acoeff (nobj x nkeep) *)
Definition pca_clauses (tol : Q) (newflux newivar : mat) (nkeep : nat) (iflux iacoeff : mat) (ieval : vec) (iusemask : list Z)
           (ioutmask : mat) : list bool :=
  let basis := transpose (firstn nkeep iflux) in         (* npix rows of nkeep values *)
  [ Nat.eqb (length iacoeff) (length newflux) && Nat.leb nkeep (length iflux)
    (* 1 acoeff = inverse-variance-weighted projection on the returned eigenspectra *)
  ; forallb (fun t => let '(fi, wi, ai) := t in grad_small tol nkeep (combine (combine basis wi) fi) ai)
            (combine (combine newflux newivar) iacoeff)
  ; descending ieval                                      (* 2 *)
  ; Nat.eqb (length iusemask) (ncols newivar)
    (* 4 usemask = number of good spectra per pixel *)
  ; forallb (fun p => Z.eqb (fst p) (Z.of_nat (length (filter (fun v => negb (Qeq_bool v 0)) (snd p)))))
            (combine iusemask (transpose newivar))
    (* 5 the returned per-pixel mask marks exactly the pixels with non-zero inverse variance (nothing is rejected:
         pca_solve calls djs_reject without limits) *)
  ; Nat.eqb (length ioutmask) (length newivar)
    && forallb (fun p => Nat.eqb (length (fst p)) (length (snd p))
                         && forallb (fun q => Qeq_bool (fst q) (if Qeq_bool (snd q) 0 then 0 else 1)) (combine (fst p) (snd p)))
               (combine ioutmask newivar) ].
Definition pca_ok (tol : Q) (newflux newivar : mat) (nkeep : nat) (iflux iacoeff : mat) (ieval : vec) (iusemask : list Z) (ioutmask : mat) : bool :=
  forallb id (pca_clauses tol newflux newivar nkeep iflux iacoeff ieval iusemask ioutmask).

(* ================================================================== cases *)
Inductive case :=
| CChi2 (slack prec : Q) (b sq : vec) (A : mat) (ia : vec) (ichi2 : Q) (iyfit : vec) (idof : Z) (icovar : mat) (ivar : vec)
| CPcomp (prec : Q) (x : mat) (standardize covariance : bool) (sd0 sdc : vec) (ievals : vec) (icoef iderived : mat) (ivariance : vec)
  (* HMF with a, g set by the harness: astep(), gstep(), astepnn(), gstepnn(), normbase(),
     badness() at (a,g), at (astep, g), at (a, gstep) *)
| CHmf (s w a g : mat) (eps : option Q) (ia ig iann ignn : mat) (inorm : vec) (ibad ibad_a ibad_g : Q)
| CPca (newflux newivar : mat) (nkeep : nat) (iflux iacoeff : mat) (ieval : vec) (iusemask : list Z) (ioutmask : mat)
  (* one pass of the real HMF.iterate loop: state at the first step, witnesses of normbase(), states recorded at the
     following steps and at the end of the pass *)
| CHmfIter (nonneg : bool) (s w : mat) (eps : option Q) (nw : vec) (st0 : state) (recs : list state)
  (* the same pass judged by the certified clauses ALONE (no exact re-computation of the updates): used for runs too
     large for exact arithmetic on full doubles.  recs = states after the coefficient update, after the component
     update, ..., at the end of the pass *)
| CHmfIterS (nonneg : bool) (s w : mat) (eps : option Q) (st0 : state) (recs : list state)
  (* one inner pass of pca_solve: pres = derived variables of the pcomp object of this pass (oracle, judged separately),
     inext = the array handed to pcomp in the next pass (transposed back), iacoeff = the returned coefficients (last pass) *)
| CPcaStep (nkeep : nat) (newflux ivar mask pres : mat) (inext : option mat) (iacoeff : option mat).

Definition hmf_clauses (s w a g : mat) (eps : option Q) (ia ig iann ignn : mat) (ibad ibad_a ibad_g : Q) : list bool :=
  let slack := tol9 * (1 + Qabs ibad) in
  [ astep_ok tol9 s w g ia                  (* 0 every row of astep() solves its weighted normal equations *)
  ; gstep_ok tol9 s w a g eps ig            (* 1 every column of gstep() solves its (penalised) normal equations *)
    (* 2, 3 chi-square (badness) never increases in an a-step; nor in a g-step without smoothing *)
  ; qle ibad_a (ibad + slack)
  ; (match eps_active eps with None => qle ibad_g (ibad + slack) | Some _ => true end)
    (* 4 non-negative updates keep non-negative factors non-negative *)
  ; (if mat_nonneg s && mat_nonneg w && mat_nonneg a && mat_nonneg g
     then mat_nonneg iann && mat_nonneg ignn else true) ].


(* S for one pass of the loop (independent of the generated step list): in the default mode the state recorded after
   the coefficient update solves every row's normal equations for the old g, the state after the component update
   solves every column's (penalised) normal equations for the NEW a; in both modes the pass ends with components of
   unit mean square; in non-negative mode non-negative data and factors give non-negative factors at every step *)
Definition unit_ms (tol : Q) (g : mat) : bool :=
  forallb (fun gk => qclose tol (vsum (map sqr gk) / inject_Z (Z.of_nat (length gk))) 1) g.
Definition iter_clauses (nonneg : bool) (s w : mat) (eps : option Q) (st0 : state) (recs : list state) : list bool :=
  [ (if nonneg then true else
       match recs with
       | r1 :: r2 :: _ => astep_ok tol9 s w (snd st0) (fst r1) && gstep_ok tol9 s w (fst r1) (snd st0) eps (snd r2)
       | _ => false
       end)
  ; unit_ms tol9 (snd (last recs st0))
  ; (if nonneg && mat_nonneg s && mat_nonneg w && mat_nonneg (fst st0) && mat_nonneg (snd st0)
     then forallb (fun r => mat_nonneg (fst r) && mat_nonneg (snd r)) recs else true) ].

(* what the source says about pcomp's public arrays (sort idiom, scaling axis and factor, variance formula) *)
Fixpoint ascending (v : vec) : bool :=
  match v with a :: ((b :: _) as t) => qle a b && ascending t | _ => true end.
Definition pcomp_model_agree (tol : Q) (C : mat) (ievals : vec) (icoef : mat) (ivariance : vec) : bool :=
  let tr := Qred (vsum (diag C)) in
  let vecs := match g_pcomp_axis with ScaleCols => transpose icoef | ScaleRows => icoef end in
  (match g_pcomp_order with Descending => descending ievals | Ascending => ascending ievals end)
  && vclose (qclose (tol * (1 + vmaxabs ievals))) (map (fun v => dotr v v) vecs) (map g_pcomp_norm2 ievals)
  && vclose (qclose tol) ivariance (map (fun l => g_variance l tr) ievals).

Definition b2z (bit : Z) (ok : bool) : Z := if ok then 0%Z else bit.

Definition run_case (c : case) : Z :=
  match c with
  | CChi2 slack prec b sq A ia ichi2 iyfit idof icovar ivar =>
      let t := tol8 * slack * prec in
      let agree := match computechi2 b sq A with
                   | None => false
                   | Some r => vclose_max t ia (c_acoeff r)
                               && qclose_s t (chi2r (cc_data A sq b) (zeros (ncols A))) ichi2 (c_chi2 r)
                               && vclose_max t iyfit (c_yfit r) && Z.eqb idof (c_dof r)
                               && mclose_max t icovar (c_covar r) && vclose_max t ivar (c_var r)
                   end in
      (b2z 1 agree + b2z 2 (chi2_ok slack prec b sq A ia ichi2 iyfit idof icovar ivar))%Z
  | CPcomp prec x st cv sd0 sdc ievals icoef ider ivariance =>
      (b2z 1 (pcomp_model_agree (tol8 * prec) (pcomp_C (pcomp_array x st sd0) cv sdc) ievals icoef ivariance)
       + b2z 2 (pcomp_ok (tol8 * prec) x st cv sd0 sdc ievals icoef ider ivariance))%Z
  | CHmf s w a g eps ia ig iann ignn inorm ibad ibad_a ibad_g =>
      let agree :=
        match astep s w g, gstep s w a g eps with
        | Some ma, Some mg =>
            mclose (qclose_rel tol8) ia ma && mclose (qclose_rel tol8) ig mg
            && qclose_rel tol8 ibad_a (badness_r s w ma g eps) && qclose_rel tol8 ibad_g (badness_r s w a mg eps)
        | _, _ => false
        end
        && mclose (qclose_rel tol8) iann (astepnn s w a g) && mclose (qclose_rel tol8) ignn (gstepnn s w a g eps)
        && vclose (qclose_rel tol8) (map sqr inorm) (normbase2 g)
        && qclose_rel tol8 ibad (badness_r s w a g eps) in
      let spec := forallb id (hmf_clauses s w a g eps ia ig iann ignn ibad ibad_a ibad_g) in
      (b2z 1 agree + b2z 2 spec)%Z
  | CPca newflux newivar nkeep iflux iacoeff ieval iusemask ioutmask =>
      b2z 2 (pca_ok tol5 newflux newivar nkeep iflux iacoeff ieval iusemask ioutmask)
  | CHmfIter nonneg s w eps nw st0 recs =>
      (b2z 1 (hmf_trace s w eps nw (hmf_iter_steps nonneg) recs st0)
       + b2z 2 (forallb id (iter_clauses nonneg s w eps st0 recs)))%Z
  | CHmfIterS nonneg s w eps st0 recs => b2z 2 (forallb id (iter_clauses nonneg s w eps st0 recs))
  | CPcaStep nkeep newflux ivar mask pres inext iacoeff =>
      b2z 1 (match pca_step nkeep newflux ivar mask pres with
             | Some res =>
                 (match inext with Some nx => mclose (qclose_rel tol8) nx (map snd res) | None => true end)
                 && (match iacoeff with Some ac => mclose (qclose_s tol8 (vmaxabs (map vmaxabs (map fst res)))) ac (map fst res) | None => true end)
             | None => false
             end)
  end.

(* clause-by-clause verdict of the specification checker (used to label a violation) *)
Definition diag_case (c : case) : list bool :=
  match c with
  | CChi2 slack prec b sq A ia ichi2 iyfit idof icovar ivar => chi2_clauses slack prec b sq A ia ichi2 iyfit idof icovar ivar
  | CPcomp prec x st cv sd0 sdc ievals icoef ider ivariance => pcomp_clauses (tol8 * prec) x st cv sd0 sdc ievals icoef ider ivariance
  | CHmf s w a g eps ia ig iann ignn inorm ibad ibad_a ibad_g => hmf_clauses s w a g eps ia ig iann ignn ibad ibad_a ibad_g
  | CPca newflux newivar nkeep iflux iacoeff ieval iusemask ioutmask => pca_clauses tol5 newflux newivar nkeep iflux iacoeff ieval iusemask ioutmask
  | CHmfIter nonneg s w eps nw st0 recs => iter_clauses nonneg s w eps st0 recs
  | CHmfIterS nonneg s w eps st0 recs => iter_clauses nonneg s w eps st0 recs
  | CPcaStep _ _ _ _ _ _ _ => []
  end.

Definition run_cases (cs : list case) : list Z := map run_case cs.
