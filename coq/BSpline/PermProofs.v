(* Permutation / sort / un-sort lemmas for the index-list permutations of BSpline/Eval.v
   (apply_perm, index_of, unsort, is_perm) and uniqueness of the strictly sorted arrangement of
   a list of data (datum, strictly_sorted of BSpline/Iter.v). *)
From Coq Require Import QArith List Bool Arith Lia Permutation.
Import ListNotations.
From PV Require Import Lib.WLS BSpline.Eval BSpline.Fit BSpline.Iter BSpline.EvalProofs.
Open Scope Q_scope.

(* ------------------------------------------------------------------ P1. is_perm *)
Lemma is_perm_basic p n : is_perm p n = true ->
  length p = n /\ (forall i, (i < n)%nat -> In i p).
Proof.
  unfold is_perm. intro H. apply andb_true_iff in H. destruct H as [HL HF].
  apply Nat.eqb_eq in HL. split; [exact HL |].
  intros i Hi. rewrite forallb_forall in HF.
  assert (Hin : In i (seq 0 n)) by (apply in_seq; lia).
  specialize (HF i Hin). apply existsb_exists in HF. destruct HF as [x [Hx E]].
  apply Nat.eqb_eq in E. now subst x.
Qed.

Lemma is_perm_Permutation p n : is_perm p n = true -> Permutation (seq 0 n) p.
Proof.
  intro H. destruct (is_perm_basic p n H) as [HL HI].
  apply NoDup_Permutation_bis.
  - apply seq_NoDup.
  - rewrite seq_length. lia.
  - intros i Hi. apply in_seq in Hi. apply HI. lia.
Qed.

Theorem is_perm_spec p n : is_perm p n = true ->
  length p = n /\ NoDup p /\ (forall i, In i p <-> (i < n)%nat).
Proof.
  intro H. pose proof (is_perm_Permutation p n H) as HP.
  destruct (is_perm_basic p n H) as [HL HI]. split; [exact HL |]. split.
  - apply (Permutation_NoDup HP). apply seq_NoDup.
  - intro i. split; [| apply HI].
    intro Hi. apply (Permutation_in _ (Permutation_sym HP)) in Hi. apply in_seq in Hi. lia.
Qed.

(* converse: a list of length n that contains every index below n passes the check *)
Lemma is_perm_intro p n : length p = n -> (forall i, (i < n)%nat -> In i p) -> is_perm p n = true.
Proof.
  intros HL HI. unfold is_perm. apply andb_true_iff. split; [now apply Nat.eqb_eq |].
  apply forallb_forall. intros i Hi. apply in_seq in Hi.
  apply existsb_exists. exists i. split; [apply HI; lia | apply Nat.eqb_refl].
Qed.

(* ------------------------------------------------------------------ P2. index_of *)
Lemma index_of_nth p : forall i, NoDup p -> (i < length p)%nat -> index_of (nth i p 0%nat) p = i.
Proof.
  induction p as [|a r IH]; intros i ND Hi; cbn [length] in Hi; [lia |].
  inversion ND as [|a' r' Ha NDr]; subst.
  destruct i as [|i]; cbn [nth index_of].
  - now rewrite Nat.eqb_refl.
  - assert (Hin : In (nth i r 0%nat) r) by (apply nth_In; lia).
    destruct (Nat.eqb_spec a (nth i r 0%nat)) as [E | E].
    + exfalso. apply Ha. now rewrite E.
    + f_equal. apply IH; [exact NDr | lia].
Qed.

Lemma nth_index_of j p : In j p ->
  nth (index_of j p) p 0%nat = j /\ (index_of j p < length p)%nat.
Proof.
  induction p as [|a r IH]; intro H; [destruct H |].
  cbn [index_of length]. destruct (Nat.eqb_spec a j) as [E | E].
  - cbn [nth]. split; [exact E | lia].
  - destruct H as [H | H]; [contradiction |]. destruct (IH H) as [H1 H2].
    cbn [nth]. split; [exact H1 | lia].
Qed.

(* ------------------------------------------------------------------ P3. lengths, un-sort after sort *)
Lemma length_apply_perm {A} (d : A) p l : length (apply_perm d p l) = length p.
Proof. unfold apply_perm. apply map_length. Qed.

Lemma length_unsort {A} (d : A) p s : length (unsort d p s) = length p.
Proof. unfold unsort. now rewrite map_length, seq_length. Qed.

Lemma nth_map_seq {A} (f : nat -> A) n j (e : A) : (j < n)%nat -> nth j (map f (seq 0 n)) e = f j.
Proof.
  intro H. rewrite (nth_indep _ e (f 0%nat)) by (now rewrite map_length, seq_length).
  rewrite map_nth. now rewrite seq_nth.
Qed.

Lemma nth_unsort {A} (e e' : A) p s j : (j < length p)%nat ->
  nth j (unsort e p s) e' = nth (index_of j p) s e.
Proof. intro H. unfold unsort. now rewrite nth_map_seq. Qed.

Lemma nth_apply_perm {A} (d d' : A) p l i : (i < length p)%nat ->
  nth i (apply_perm d p l) d' = nth (nth i p 0%nat) l d.
Proof.
  intro H. unfold apply_perm.
  rewrite (nth_indep _ d' ((fun i => nth i l d) 0%nat)) by (now rewrite map_length).
  now rewrite (map_nth (fun i => nth i l d)).
Qed.

Theorem unsort_apply : forall A (d : A) p l, is_perm p (length l) = true ->
  unsort d p (apply_perm d p l) = l.
Proof.
  intros A d p l H. destruct (is_perm_spec _ _ H) as [HL [ND HI]].
  apply (nth_ext _ _ d d).
  - now rewrite length_unsort.
  - intros j Hj. rewrite length_unsort in Hj.
    rewrite nth_unsort by exact Hj.
    assert (Hin : In j p) by (apply HI; lia).
    destruct (nth_index_of j p Hin) as [E Hlt].
    rewrite nth_apply_perm by exact Hlt. now rewrite E.
Qed.

(* ------------------------------------------------------------------ P4. naturality *)
Lemma apply_perm_map {A B} (f : A -> B) (d : A) p l :
  apply_perm (f d) p (map f l) = map f (apply_perm d p l).
Proof.
  unfold apply_perm. rewrite map_map. apply map_ext. intro i. apply map_nth.
Qed.

Lemma unsort_map {A B} (f : A -> B) (d : A) p s :
  unsort (f d) p (map f s) = map f (unsort d p s).
Proof.
  unfold unsort. rewrite map_map. apply map_ext. intro i. apply map_nth.
Qed.

(* ------------------------------------------------------------------ P5. the strictly sorted arrangement is unique *)
Lemma strictly_sorted_head a r : strictly_sorted (a :: r) = true ->
  Forall (fun b => a < b) r /\ strictly_sorted r = true.
Proof.
  revert a; induction r as [|b r IH]; intros a H; [split; [constructor | reflexivity] |].
  cbn [strictly_sorted] in H. apply andb_true_iff in H. destruct H as [Hab Hr].
  apply Qltb_lt in Hab. split; [| exact Hr].
  destruct (IH b Hr) as [Hall _]. constructor; [exact Hab |].
  eapply Forall_impl; [| exact Hall]. intros c Hc. cbv beta in Hc. eapply Qlt_trans; eauto.
Qed.

Lemma strictly_sorted_map_head (a : datum) r : strictly_sorted (map dx (a :: r)) = true ->
  (forall b, In b r -> dx a < dx b) /\ strictly_sorted (map dx r) = true.
Proof.
  cbn [map]. intro H. destruct (strictly_sorted_head _ _ H) as [Hall Hr]. split; [| exact Hr].
  intros b Hb. rewrite Forall_forall in Hall. apply Hall. now apply in_map.
Qed.

Theorem strictly_sorted_unique (l1 l2 : list datum) :
  Permutation l1 l2 ->
  strictly_sorted (map dx l1) = true -> strictly_sorted (map dx l2) = true -> l1 = l2.
Proof.
  revert l2; induction l1 as [|a r1 IH]; intros l2 HP S1 S2.
  - apply Permutation_nil in HP. now subst.
  - destruct l2 as [|b r2]; [apply Permutation_sym, Permutation_nil in HP; discriminate |].
    destruct (strictly_sorted_map_head _ _ S1) as [H1 S1'].
    destruct (strictly_sorted_map_head _ _ S2) as [H2 S2'].
    assert (Hab : a = b).
    { assert (Ha : In a (b :: r2)) by (apply (Permutation_in _ HP); now left).
      assert (Hb : In b (a :: r1)) by (apply (Permutation_in _ (Permutation_sym HP)); now left).
      destruct Ha as [Ha | Ha]; [now symmetry |].
      destruct Hb as [Hb | Hb]; [exact Hb |].
      exfalso. apply (Qlt_irrefl (dx a)). eapply Qlt_trans; [apply (H1 b Hb) | apply (H2 a Ha)]. }
    subst b. f_equal. apply IH; [| exact S1' | exact S2'].
    now apply Permutation_cons_inv in HP.
Qed.

(* strictly sorted keys: no two entries are equal *)
Lemma strictly_sorted_NoDup (l : list datum) : strictly_sorted (map dx l) = true -> NoDup l.
Proof.
  induction l as [|a r IH]; intro H; [constructor |].
  destruct (strictly_sorted_map_head _ _ H) as [H1 Hr]. constructor; [| now apply IH].
  intro Hin. apply (Qlt_irrefl (dx a)). now apply H1.
Qed.

(* ------------------------------------------------------------------ P6. apply_perm is a Permutation *)
Lemma map_nth_seq {A} (d : A) l : map (fun i => nth i l d) (seq 0 (length l)) = l.
Proof.
  apply (nth_ext _ _ d d).
  - now rewrite map_length, seq_length.
  - intros j Hj. rewrite map_length, seq_length in Hj. now rewrite nth_map_seq.
Qed.

Theorem apply_perm_Permutation {A} (d : A) p l : is_perm p (length l) = true ->
  Permutation (apply_perm d p l) l.
Proof.
  intro H. pose proof (is_perm_Permutation _ _ H) as HP.
  rewrite <- (map_nth_seq d l) at 2. unfold apply_perm.
  apply Permutation_map. now apply Permutation_sym.
Qed.

(* ------------------------------------------------------------------ P7. composition *)
Theorem apply_perm_compose {A} (d : A) q p' l :
  is_perm q (length l) = true -> is_perm p' (length l) = true ->
  apply_perm d p' (apply_perm d q l) = apply_perm d (apply_perm 0%nat p' q) l.
Proof.
  intros Hq Hp'. destruct (is_perm_spec _ _ Hq) as [Lq _]. destruct (is_perm_spec _ _ Hp') as [_ [_ Ip']].
  unfold apply_perm at 1 3. unfold apply_perm at 2. rewrite map_map.
  apply map_ext_in. intros i Hi. apply Ip' in Hi.
  apply nth_apply_perm. lia.
Qed.

Theorem is_perm_compose q p' n :
  is_perm q n = true -> is_perm p' n = true -> is_perm (apply_perm 0%nat p' q) n = true.
Proof.
  intros Hq Hp'. destruct (is_perm_spec _ _ Hq) as [Lq [_ Iq]]. destruct (is_perm_spec _ _ Hp') as [Lp' [_ Ip']].
  apply is_perm_intro; [now rewrite length_apply_perm |].
  intros j Hj. apply Iq in Hj. destruct (In_nth _ _ 0%nat Hj) as [k [Hk E]].
  unfold apply_perm. rewrite <- E. apply (in_map (fun i => nth i q 0%nat)). apply Ip'. lia.
Qed.

(* ------------------------------------------------------------------ P8. un-sort equivariance *)
Lemma map_nth_inj {A} (d : A) l : NoDup l -> forall p r,
  (forall i, In i p -> (i < length l)%nat) -> (forall i, In i r -> (i < length l)%nat) ->
  map (fun i => nth i l d) p = map (fun i => nth i l d) r -> p = r.
Proof.
  intros ND. induction p as [|a p IH]; intros [|b r] Hp Hr E; cbn [map] in E; try discriminate; [reflexivity |].
  injection E as E1 E2. f_equal.
  - apply (proj1 (NoDup_nth l d) ND); [apply Hp; now left | apply Hr; now left | exact E1].
  - apply IH; [intros i Hi; apply Hp; now right | intros i Hi; apply Hr; now right | exact E2].
Qed.

(* the index lists agree: p = q o p' *)
Lemma perm_factor {A} (d : A) q p p' l :
  is_perm q (length l) = true -> is_perm p (length l) = true -> is_perm p' (length l) = true ->
  apply_perm d p l = apply_perm d p' (apply_perm d q l) ->
  NoDup (apply_perm d p l) ->
  p = apply_perm 0%nat p' q.
Proof.
  intros Hq Hp Hp' E ND.
  rewrite apply_perm_compose in E by assumption.
  pose proof (is_perm_compose _ _ _ Hq Hp') as Hr.
  assert (NDl : NoDup l).
  { apply (Permutation_NoDup (apply_perm_Permutation d p l Hp) ND). }
  apply (map_nth_inj d l NDl).
  - intros i Hi. now apply (proj2 (proj2 (is_perm_spec _ _ Hp))).
  - intros i Hi. now apply (proj2 (proj2 (is_perm_spec _ _ Hr))).
  - exact E.
Qed.

(* note: no hypothesis on the length of s is needed *)
Theorem unsort_equivariant {A B} (d : A) (e : B) q p p' l l' :
  l' = apply_perm d q l ->
  is_perm q (length l) = true -> is_perm p (length l) = true -> is_perm p' (length l') = true ->
  apply_perm d p l = apply_perm d p' l' ->
  NoDup (apply_perm d p l) ->
  forall s : list B, unsort e p' s = apply_perm e q (unsort e p s).
Proof.
  intros El' Hq Hp Hp' E ND s. subst l'.
  destruct (is_perm_spec _ _ Hq) as [Lq [NDq Iq]].
  rewrite length_apply_perm, Lq in Hp'.
  pose proof (perm_factor d q p p' l Hq Hp Hp' E ND) as F.
  destruct (is_perm_spec _ _ Hp) as [Lp [NDp Ip]].
  destruct (is_perm_spec _ _ Hp') as [Lp' [NDp' Ip']].
  apply (nth_ext _ _ e e).
  - now rewrite length_unsort, length_apply_perm, Lp', Lq.
  - intros j Hj. rewrite length_unsort in Hj.
    rewrite nth_unsort by exact Hj.
    rewrite nth_apply_perm by lia.
    assert (Hqj : (nth j q 0%nat < length l)%nat) by (apply Iq; apply nth_In; lia).
    rewrite nth_unsort by lia.
    f_equal.
    assert (Hin : In j p') by (apply Ip'; lia).
    destruct (nth_index_of j p' Hin) as [Ek Hk].
    set (k := index_of j p') in *.
    assert (Epk : nth k p 0%nat = nth j q 0%nat).
    { rewrite F at 1. rewrite nth_apply_perm by exact Hk. now rewrite Ek. }
    rewrite <- Epk. symmetry. apply index_of_nth; [exact NDp | lia].
Qed.

Print Assumptions unsort_apply.
Print Assumptions strictly_sorted_unique.
Print Assumptions unsort_equivariant.
