(* C09 -- property theorems only (temporary skeleton) *)
From Coq Require Import QArith List Bool Arith.
Import ListNotations.
From PV Require Import Lib.WLS BSpline.Eval BSpline.Fit BSpline.FitProofs C09.Model C09.Proofs.
Open Scope Q_scope.

Theorem C09_fit_optimal : forall m D x, wf m D -> fit_dense m D = Some x ->
  forall z, length z = m -> chi2 D x <= chi2 D z.
Proof. exact fit_optimal. Qed.
Print Assumptions C09_fit_optimal.
