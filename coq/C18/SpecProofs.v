(* C18 -- lemmas about the specification side only (no Generated/ import): these still build when a
   proof about the generated model breaks, so the enclosure cases can still be decided against S. *)
From Coq Require Import Reals ZArith Lra Nsatz Psatz.
From PV Require Import C18.Spec.
Open Scope R_scope.

Lemma pair3_eq : forall (a b c a' b' c' : R), a = a' -> b = b' -> c = c' -> (a, b, c) = (a', b', c').
Proof. intros; subst; reflexivity. Qed.

Lemma sc1 : forall x, sin x * sin x + cos x * cos x = 1.
Proof. intro x. generalize (sin2_cos2 x). unfold Rsqr. lra. Qed.

Lemma sin_half_sq : forall x, sin (x / 2) * sin (x / 2) = (1 - cos x) / 2.
Proof.
  intro x. replace x with (2 * (x / 2)) at 3 by field.
  rewrite cos_2a_sin. field.
Qed.

Lemma vec_unit : forall d a, dot (vec d a) (vec d a) = 1.
Proof.
  intros d a. unfold dot, vec.
  generalize (sc1 d) (sc1 a). intros Hd Ha. nsatz.
Qed.

Lemma dot_comm : forall p q, dot p q = dot q p.
Proof. intros [[a b] c] [[d e] f]. unfold dot. ring. Qed.

Lemma dot_vec : forall d1 a1 d2 a2,
  dot (vec d1 a1) (vec d2 a2) = cos d1 * cos d2 * cos (a2 - a1) + sin d1 * sin d2.
Proof. intros. unfold dot, vec. rewrite cos_minus. ring. Qed.

(* hav is half the squared chord / (1 - cos separation)/2 *)
Lemma hav_is_chord : forall d1 a1 d2 a2,
  hav d1 a1 d2 a2 = (1 - dot (vec d1 a1) (vec d2 a2)) / 2.
Proof.
  intros. unfold hav. rewrite !sin_half_sq, dot_vec, (cos_minus d2 d1). field.
Qed.

(* Cauchy-Schwarz for unit vectors *)
Lemma dot_unit_bound : forall p q, dot p p = 1 -> dot q q = 1 -> -1 <= dot p q <= 1.
Proof.
  intros [[a b] c] [[d e] f]. unfold dot. intros Hp Hq.
  assert (L : (a*d + b*e + c*f) * (a*d + b*e + c*f) <= 1).
  { assert (E : (a*a + b*b + c*c) * (d*d + e*e + f*f) - (a*d + b*e + c*f) * (a*d + b*e + c*f)
                = (a*e - b*d) * (a*e - b*d) + (a*f - c*d) * (a*f - c*d) + (b*f - c*e) * (b*f - c*e)) by ring.
    rewrite Hp, Hq in E.
    generalize (Rle_0_sqr (a*e - b*d)) (Rle_0_sqr (a*f - c*d)) (Rle_0_sqr (b*f - c*e)). unfold Rsqr. lra. }
  generalize (a*d + b*e + c*f) L. intros t Ht. split; nra.
Qed.

Lemma hav_range : forall d1 a1 d2 a2, 0 <= hav d1 a1 d2 a2 <= 1.
Proof.
  intros. rewrite hav_is_chord.
  generalize (dot_unit_bound _ _ (vec_unit d1 a1) (vec_unit d2 a2)). lra.
Qed.

Lemma hav_sym : forall d1 a1 d2 a2, hav d1 a1 d2 a2 = hav d2 a2 d1 a1.
Proof. intros. rewrite !hav_is_chord, dot_comm. reflexivity. Qed.

Lemma hav_refl : forall d a, hav d a d a = 0.
Proof. intros. rewrite hav_is_chord, vec_unit. lra. Qed.

Lemma gcirc_sym : forall a1 d1 a2 d2, gcirc_rad a1 d1 a2 d2 = gcirc_rad a2 d2 a1 d1.
Proof. intros. unfold gcirc_rad. rewrite hav_sym. reflexivity. Qed.

Lemma gcirc_refl_zero : forall a d, gcirc_rad a d a d = 0.
Proof. intros. unfold gcirc_rad. rewrite hav_refl, sqrt_0, asin_0. ring. Qed.

Lemma sqrt_unit : forall h, 0 <= h <= 1 -> 0 <= sqrt h <= 1.
Proof.
  intros h [H0 H1]. split. apply sqrt_pos.
  rewrite <- sqrt_1. apply sqrt_le_1_alt. exact H1.
Qed.

Lemma asin_nonneg : forall x, 0 <= x <= 1 -> 0 <= asin x <= PI / 2.
Proof.
  intros x [H0 H1]. split; [| apply asin_bound].
  destruct H1 as [H1| ->]. 2:{ rewrite asin_1. generalize PI_RGT_0. lra. }
  destruct H0 as [H0| <-]. 2:{ rewrite asin_0. lra. }
  rewrite asin_atan by lra.
  rewrite <- atan_0. left. apply atan_increasing.
  apply Rdiv_lt_0_compat. lra. apply sqrt_lt_R0. unfold Rsqr. nra.
Qed.

Lemma gcirc_range : forall a1 d1 a2 d2, 0 <= gcirc_rad a1 d1 a2 d2 <= PI.
Proof.
  intros. unfold gcirc_rad.
  generalize (asin_nonneg _ (sqrt_unit _ (hav_range d1 a1 d2 a2))). lra.
Qed.

(* the haversine form equals the independent dot-product form *)
Lemma two_asin_sqrt : forall h, 0 <= h <= 1 -> 2 * asin (sqrt h) = acos (1 - 2 * h).
Proof.
  intros h Hh.
  pose proof (asin_nonneg _ (sqrt_unit _ Hh)) as B.
  rewrite <- (acos_cos (2 * asin (sqrt h))) by lra.
  f_equal. rewrite cos_2a_sin, sin_asin.
  rewrite Rmult_assoc, sqrt_def by lra. reflexivity.
  generalize (sqrt_unit _ Hh). lra.
Qed.

Lemma gcirc_is_vector_formula : forall a1 d1 a2 d2, gcirc_rad a1 d1 a2 d2 = gcirc_vec a1 d1 a2 d2.
Proof.
  intros. unfold gcirc_rad, gcirc_vec. rewrite two_asin_sqrt by apply hav_range.
  f_equal. rewrite hav_is_chord. field.
Qed.

(* evaluation form for Interval *)
Lemma asin_sqrt_atan : forall h, 0 <= h < 1 -> 2 * asin (sqrt h) = atan_form h.
Proof.
  intros h [H0 H1]. unfold atan_form. f_equal.
  assert (S1 : sqrt h < 1).
  { rewrite <- sqrt_1. apply sqrt_lt_1_alt. lra. }
  rewrite asin_atan. 2:{ generalize (sqrt_pos h). lra. }
  unfold Rsqr. rewrite sqrt_def by lra. reflexivity.
Qed.

Lemma gcirc_antipodal_hav : forall d a, hav d a (- d) (a + PI) = 1.
Proof.
  intros. rewrite hav_is_chord, dot_vec.
  replace (a + PI - a) with PI by ring. rewrite cos_PI, cos_neg, sin_neg.
  generalize (sc1 d). lra.
Qed.

Lemma gcirc_antipodal : forall a d, gcirc_rad a d (a + PI) (- d) = PI.
Proof.
  intros. unfold gcirc_rad. rewrite gcirc_antipodal_hav, sqrt_1, asin_1. field.
Qed.

Lemma arcsec_PI : arcsec_of_rad PI = 648000.
Proof. unfold arcsec_of_rad. field. apply PI_neq0. Qed.

Lemma arcsec_mono : forall x y, x <= y -> arcsec_of_rad x <= arcsec_of_rad y.
Proof.
  intros. unfold arcsec_of_rad. pose proof PI_RGT_0 as P.
  apply Rmult_le_compat_r; [lra|]. apply Rmult_le_compat_r; [left; apply Rinv_0_lt_compat; exact P|]. lra.
Qed.

(* evaluation shortcuts for the enclosure cases: coincident and exactly antipodal pairs *)
Lemma gcirc_S_refl : forall u a d, (u = 0 \/ u = 1 \/ u = 2)%Z -> gcirc_S u a d a d = 0.
Proof.
  intros u a d [ -> | [ -> | -> ] ]; unfold gcirc_S, arcsec_of_rad; rewrite gcirc_refl_zero; try reflexivity; unfold Rdiv; ring.
Qed.

Lemma gcirc_S_antipodal : forall u a d a2 d2, (u = 1 \/ u = 2)%Z ->
  a2 = a + (if (u =? 1)%Z then 12 else 180) -> d2 = - d -> gcirc_S u a d a2 d2 = 648000.
Proof.
  intros u a d a2 d2 [ -> | -> ] -> ->; cbn [Z.eqb Pos.eqb]; unfold gcirc_S.
  - replace (deg (15 * (a + 12))) with (deg (15 * a) + PI) by (unfold deg; field).
    replace (deg (- d)) with (- deg d) by (unfold deg; field).
    rewrite gcirc_antipodal. apply arcsec_PI.
  - replace (deg (a + 180)) with (deg a + PI) by (unfold deg; field).
    replace (deg (- d)) with (- deg d) by (unfold deg; field).
    rewrite gcirc_antipodal. apply arcsec_PI.
Qed.

(* ---------------- rotations ---------------- *)

Lemma rotx_inverse : forall i v, rotx (- i) (rotx i v) = v.
Proof.
  intros i [[x y] z]. unfold rotx. rewrite cos_neg, sin_neg.
  generalize (sc1 i). intro H. f_equal; [f_equal|]; nsatz.
Qed.

Lemma rotx_inverse' : forall i v, rotx i (rotx (- i) v) = v.
Proof. intros. rewrite <- (Ropp_involutive i) at 1. apply rotx_inverse. Qed.

Lemma rotx_preserves_dot : forall i p q, dot (rotx i p) (rotx i q) = dot p q.
Proof.
  intros i [[a b] c] [[d e] f]. unfold rotx, dot.
  generalize (sc1 i). intro H. nsatz.
Qed.

Lemma munu_radec_inverse_S : forall mu nu incl node,
  rotx (- incl) (munu_to_radec_S mu nu incl node) = vec nu (mu - node).
Proof. intros. unfold munu_to_radec_S. apply rotx_inverse. Qed.

(* nu = 0 lies in the plane through the node direction whose normal is tilted by incl from the pole *)
Lemma nu0_in_plane : forall mu incl node, dot (munu_to_radec_S mu 0 incl node) (gc_normal incl) = 0.
Proof.
  intros. unfold munu_to_radec_S, vec, rotx, gc_normal, dot. rewrite sin_0, cos_0. ring.
Qed.

Lemma nu0_through_node : forall incl node, munu_to_radec_S node 0 incl node = vec 0 0.
Proof.
  intros. unfold munu_to_radec_S, vec, rotx. replace (node - node) with 0 by ring.
  rewrite sin_0, cos_0. f_equal; [f_equal|]; ring.
Qed.

Lemma gc_normal_inclination : forall i, dot (gc_normal i) (0, 0, 1) = cos i /\ dot (gc_normal i) (gc_normal i) = 1.
Proof. intro i. unfold gc_normal, dot. split. ring. generalize (sc1 i). intro; nsatz. Qed.
