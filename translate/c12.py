"""C12 extractor: the decision expressions of the Mangle membership functions
(pydl/pydlutils/mangle.py) and of the balkans assembly (pydl/photoop/window.py)
-> coq/Generated/Mangle.v (executable, Z/Q/bool) and coq/Generated/MangleR.v (the real-valued
cap_distance formula).

Extracted (fail-closed: any statement shape this file does not know => Unrecognised => recognised: false,
the previous generated files are kept and the correspondence run alone ties model and code):
  cap_distance   : dotprod = [np.clip(]np.dot(xyz, x)[, lo, hi)];  cdist = np.degrees(np.arccos(1.0 - np.abs(cm)) -
                   np.arccos(dotprod));  if cm < 0: cdist *= -1.0
  is_in_cap      : return cap_distance(x, cm, points) >= 0.0
  angles_to_x    : phi, theta (latitude and co-latitude branch), the three Cartesian components; and that
                   cap_distance sends two-column input through angles_to_x(points, latitude=True)
  is_cap_used    : return (use_caps & 1 << i) != 0
  is_in_polygon  : usencaps = p['ncaps']; if ncaps > 0: usencaps = min(ncaps, p['ncaps']);  np.ones start value;
                   for icap in range(usencaps): if is_cap_used(p['use_caps'], icap): in_polygon &= is_in_cap(...)
  is_in_window   : -1 default, `== -1` still-unassigned test, `= curr_polygon` assignment, `curr_polygon += 1`,
                   return (in_polygon >= 0, in_polygon)
  set_use_caps   : if not add: use_caps = 0;  t2 = tol**2;  use_caps |= (1 << i);  the double loop with
                   range(i+1, ncaps), the nested distance / cm tests and  use_caps -= 1 << j
  window_read    : USE_CAPS = (1 << NCAPS) - 1 and the source / destination slices of the XCAPS and CMCAPS rows
C12/Model.v builds the algorithmic model M from these definitions; C12/Proofs.v, SetUse.v, Arccos.v prove the
property theorems about them.
"""
import ast
import os
from fractions import Fraction

from . import pyexpr as P

MANGLE = 'pydl/pydlutils/mangle.py'
WINDOW = 'pydl/photoop/window.py'
U = P.Unrecognised


def un(node):
    return ast.unparse(node)


def body_of(fn):
    """function body without the docstring"""
    b = list(fn.body)
    if b and isinstance(b[0], ast.Expr) and isinstance(b[0].value, ast.Constant) and isinstance(b[0].value.value, str):
        b = b[1:]
    return b


def is_np(f, *names):
    return isinstance(f, ast.Attribute) and isinstance(f.value, ast.Name) and f.value.id == 'np' and f.attr in names


# ---------------------------------------------------------------- integer / boolean expressions

def zexpr(node, env):
    """integer expression; env maps ast.unparse() text of leaves to Gallina variables"""
    key = un(node)
    if key in env:
        return env[key]
    if isinstance(node, ast.Constant) and isinstance(node.value, int) and not isinstance(node.value, bool):
        return P.zlit(node.value)
    if isinstance(node, ast.UnaryOp) and isinstance(node.op, ast.USub):
        try:
            return P.zlit(P.const_value(node))
        except U:
            return '(Z.opp %s)' % zexpr(node.operand, env)
    if isinstance(node, ast.BinOp):
        op = P.BIN.get(type(node.op))
        if op is None:
            raise U('operator %s' % type(node.op).__name__)
        return '(%s %s %s)' % (op, zexpr(node.left, env), zexpr(node.right, env))
    if isinstance(node, ast.Call) and isinstance(node.func, ast.Name) and node.func.id in ('min', 'max') \
            and len(node.args) == 2 and not node.keywords:
        return '(Z.%s %s %s)' % (node.func.id, zexpr(node.args[0], env), zexpr(node.args[1], env))
    # np.zeros(shape, dtype=...) / np.ones(...) as the constant they broadcast
    if isinstance(node, ast.Call) and is_np(node.func, 'zeros', 'ones'):
        return '0' if node.func.attr == 'zeros' else '1'
    raise U('integer expression %s' % key[:60])


ZCMP = {ast.Eq: ('Z.eqb', False, False), ast.NotEq: ('Z.eqb', False, True), ast.Lt: ('Z.ltb', False, False),
        ast.LtE: ('Z.leb', False, False), ast.Gt: ('Z.ltb', True, False), ast.GtE: ('Z.leb', True, False)}


def zcond(test, env):
    if not (isinstance(test, ast.Compare) and len(test.ops) == 1):
        raise U('condition %s' % un(test)[:60])
    a, b = zexpr(test.left, env), zexpr(test.comparators[0], env)
    f, swap, neg = ZCMP[type(test.ops[0])]
    if swap:
        a, b = b, a
    s = '(%s %s %s)' % (f, a, b)
    return '(negb %s)' % s if neg else s


# ---------------------------------------------------------------- rational / boolean expressions (doubles test)

def qexpr(node, env):
    key = un(node)
    if key in env:
        return env[key]
    if isinstance(node, ast.BinOp) and isinstance(node.op, (ast.Add, ast.Sub, ast.Mult)):
        op = {ast.Add: 'Qplus', ast.Sub: 'Qminus', ast.Mult: 'Qmult'}[type(node.op)]
        return '(%s %s %s)' % (op, qexpr(node.left, env), qexpr(node.right, env))
    if isinstance(node, ast.BinOp) and isinstance(node.op, ast.Pow) and isinstance(node.right, ast.Constant) \
            and node.right.value == 2:
        a = qexpr(node.left, env)
        return '(Qmult %s %s)' % (a, a)
    if isinstance(node, ast.Call) and is_np(node.func, 'absolute', 'abs', 'fabs') and len(node.args) == 1:
        return '(Qabs %s)' % qexpr(node.args[0], env)
    raise U('rational expression %s' % key[:60])


def qbool(node, env, benv):
    key = un(node)
    if key in benv:
        return benv[key]
    if isinstance(node, ast.BoolOp):
        op = 'andb' if isinstance(node.op, ast.And) else 'orb'
        out = qbool(node.values[0], env, benv)
        for v in node.values[1:]:
            out = '(%s %s %s)' % (op, out, qbool(v, env, benv))
        return out
    if isinstance(node, ast.UnaryOp) and isinstance(node.op, ast.Not):
        return '(negb %s)' % qbool(node.operand, env, benv)
    if isinstance(node, ast.Compare) and len(node.ops) == 1:
        a, b = qexpr(node.left, env), qexpr(node.comparators[0], env)
        op = node.ops[0]
        if isinstance(op, ast.Lt):
            return '(gQlt %s %s)' % (a, b)
        if isinstance(op, ast.Gt):
            return '(gQlt %s %s)' % (b, a)
        if isinstance(op, ast.LtE):
            return '(Qle_bool %s %s)' % (a, b)
        if isinstance(op, ast.GtE):
            return '(Qle_bool %s %s)' % (b, a)
    raise U('boolean expression %s' % key[:60])


# ---------------------------------------------------------------- real expressions (cap_distance)

def rlit(v):
    fr = Fraction(repr(float(v))) if isinstance(v, float) else Fraction(v)
    if fr.denominator == 1:
        return '(%d)' % fr.numerator if fr.numerator < 0 else '%d' % fr.numerator
    return '(%d / %d)' % (fr.numerator, fr.denominator)


def rexpr(node, env):
    key = un(node)
    if key in env:
        return env[key]
    if isinstance(node, ast.Constant) and isinstance(node.value, (int, float)) and not isinstance(node.value, bool):
        return rlit(node.value)
    if isinstance(node, ast.UnaryOp) and isinstance(node.op, ast.USub):
        if isinstance(node.operand, ast.Constant):
            return rlit(-node.operand.value)
        return '(- %s)' % rexpr(node.operand, env)
    if isinstance(node, ast.BinOp) and isinstance(node.op, (ast.Add, ast.Sub, ast.Mult, ast.Div)):
        op = {ast.Add: '+', ast.Sub: '-', ast.Mult: '*', ast.Div: '/'}[type(node.op)]
        return '(%s %s %s)' % (rexpr(node.left, env), op, rexpr(node.right, env))
    if isinstance(node, ast.Call) and not node.keywords:
        f = node.func
        if is_np(f, 'degrees', 'rad2deg') and len(node.args) == 1:
            return '(degrees %s)' % rexpr(node.args[0], env)
        if is_np(f, 'arccos') and len(node.args) == 1:
            return '(acos %s)' % rexpr(node.args[0], env)
        if is_np(f, 'abs', 'absolute', 'fabs') and len(node.args) == 1:
            return '(Rabs %s)' % rexpr(node.args[0], env)
        if is_np(f, 'radians', 'deg2rad') and len(node.args) == 1:
            return '(radians %s)' % rexpr(node.args[0], env)
        if is_np(f, 'sin', 'cos') and len(node.args) == 1:
            return '(%s %s)' % (f.attr, rexpr(node.args[0], env))
        if is_np(f, 'clip') and len(node.args) == 3:
            return '(clipR %s %s %s)' % (rexpr(node.args[1], env), rexpr(node.args[2], env), rexpr(node.args[0], env))
    raise U('real expression %s' % key[:60])


RCMP = {ast.GtE: '>=', ast.Gt: '>', ast.LtE: '<=', ast.Lt: '<'}


# ---------------------------------------------------------------- the functions

def x_cap_distance(fn):
    b = body_of(fn)
    # skip the shape dispatch (npoints, ncol = points.shape; if ncol == 2 ... raise ValueError)
    assigns = {}
    flip = None
    ret = None
    for st in b:
        if isinstance(st, ast.Assign) and len(st.targets) == 1 and isinstance(st.targets[0], ast.Name):
            assigns[st.targets[0].id] = st.value
        elif isinstance(st, ast.If) and un(st.test).startswith('ncol'):
            # if ncol == 2: xyz = angles_to_x(points, latitude=True) elif ncol == 3: xyz = points else: raise
            if not (un(st.test) == 'ncol == 2' and len(st.body) == 1
                    and un(st.body[0]) == 'xyz = angles_to_x(points, latitude=True)'
                    and len(st.orelse) == 1 and isinstance(st.orelse[0], ast.If) and un(st.orelse[0].test) == 'ncol == 3'
                    and len(st.orelse[0].body) == 1 and un(st.orelse[0].body[0]) == 'xyz = points'):
                raise U('cap_distance: RA/Dec dispatch')
            continue
        elif isinstance(st, ast.If):
            if flip is not None or st.orelse or len(st.body) != 1:
                raise U('cap_distance: second/complex if')
            flip = st
        elif isinstance(st, ast.Return):
            ret = st.value
        elif isinstance(st, ast.Assign) and isinstance(st.targets[0], ast.Tuple):
            continue
        else:
            raise U('cap_distance: statement %s' % un(st)[:50])
    if ret is None or un(ret) != 'cdist' or 'cdist' not in assigns or 'dotprod' not in assigns or flip is None:
        raise U('cap_distance: skeleton')
    dot = rexpr(assigns['dotprod'], {'np.dot(xyz, x)': 'd'})
    cdist = rexpr(assigns['cdist'], {'cm': 'cm', 'dotprod': '(gen_dotprod d)'})
    t = flip.test
    if not (isinstance(t, ast.Compare) and len(t.ops) == 1 and type(t.ops[0]) in (ast.Lt, ast.Gt)):
        raise U('cap_distance: flip condition')
    a, c = rexpr(t.left, {'cm': 'cm'}), rexpr(t.comparators[0], {'cm': 'cm'})
    if isinstance(t.ops[0], ast.Gt):
        a, c = c, a
    s = flip.body[0]
    if not (isinstance(s, ast.AugAssign) and un(s.target) == 'cdist' and isinstance(s.op, ast.Mult)):
        raise U('cap_distance: flip statement')
    factor = rexpr(s.value, {})
    return ['Definition gen_dotprod (d : R) : R := %s.' % dot,
            'Definition gen_cdist (cm d : R) : R := %s.' % cdist,
            'Definition gen_cap_distance (cm d : R) : R :=\n  if Rlt_dec %s %s then gen_cdist cm d * %s else gen_cdist cm d.' % (a, c, factor)]


def x_angles_to_x(fn):
    """phi, theta (both latitude branches), and the three components"""
    b = body_of(fn)
    env0 = {'points[:, 0]': 'a0', 'points[:, 1]': 'a1'}
    out = {}
    for st in b:
        if isinstance(st, ast.Assign) and len(st.targets) == 1:
            t = un(st.targets[0])
            if isinstance(st.targets[0], ast.Tuple) or t == 'x':
                continue
            if t == 'phi':
                out['phi'] = rexpr(st.value, env0)
            elif t == 'st':
                if un(st.value) != 'np.sin(theta)':
                    raise U('angles_to_x: st')
            elif t in ('x[:, 0]', 'x[:, 1]', 'x[:, 2]'):
                out['x' + t[5]] = rexpr(st.value, {'phi': 'phi', 'theta': 'theta', 'st': '(sin theta)'})
            else:
                raise U('angles_to_x: assignment to %s' % t)
        elif isinstance(st, ast.If) and un(st.test) == 'latitude':
            if not (len(st.body) == 1 and len(st.orelse) == 1 and un(st.body[0].targets[0]) == 'theta'
                    and un(st.orelse[0].targets[0]) == 'theta'):
                raise U('angles_to_x: latitude branch')
            out['theta_lat'] = rexpr(st.body[0].value, env0)
            out['theta_colat'] = rexpr(st.orelse[0].value, env0)
        elif isinstance(st, ast.If) and all(isinstance(q, ast.Assign) and un(q.targets[0]) == 'x' and isinstance(q.value, ast.Call)
                                            and is_np(q.value.func, 'zeros') for q in st.body + st.orelse):
            continue     # choice of the output dtype (x = np.zeros(..., dtype=...) in both branches)
        elif isinstance(st, ast.Return):
            if un(st.value) != 'x':
                raise U('angles_to_x: return')
        else:
            raise U('angles_to_x: statement %s' % un(st)[:50])
    if sorted(out) != ['phi', 'theta_colat', 'theta_lat', 'x0', 'x1', 'x2']:
        raise U('angles_to_x: skeleton %s' % sorted(out))
    return ['Definition gen_phi (a0 a1 : R) : R := %s.' % out['phi'],
            'Definition gen_theta_lat (a0 a1 : R) : R := %s.' % out['theta_lat'],
            'Definition gen_theta_colat (a0 a1 : R) : R := %s.' % out['theta_colat'],
            'Definition gen_x0 (phi theta : R) : R := %s.' % out['x0'],
            'Definition gen_x1 (phi theta : R) : R := %s.' % out['x1'],
            'Definition gen_x2 (phi theta : R) : R := %s.' % out['x2']]


def x_is_in_cap(fn):
    b = body_of(fn)
    if not (len(b) == 1 and isinstance(b[0], ast.Return)):
        raise U('is_in_cap: body')
    v = b[0].value
    if not (isinstance(v, ast.Compare) and len(v.ops) == 1 and type(v.ops[0]) in RCMP
            and un(v.left) == 'cap_distance(x, cm, points)'):
        raise U('is_in_cap: return expression')
    return ['Definition gen_is_in_cap (cm d : R) : Prop := gen_cap_distance cm d %s %s.'
            % (RCMP[type(v.ops[0])], rexpr(v.comparators[0], {}))]


def x_is_cap_used(fn):
    b = body_of(fn)
    if not (len(b) == 1 and isinstance(b[0], ast.Return)):
        raise U('is_cap_used: body')
    return ['Definition gen_is_cap_used (use_caps i : Z) : bool :=\n  %s.'
            % zcond(b[0].value, {'use_caps': 'use_caps', 'i': 'i'})]


def x_is_in_polygon(fn):
    b = body_of(fn)
    env = {"p['ncaps']": 'pn', 'ncaps': 'ncaps'}
    init = cond = then = start = acc = None
    seen_loop = False
    for st in b:
        if isinstance(st, ast.Assign) and un(st.targets[0]) == 'usencaps':
            init = zexpr(st.value, env)
        elif isinstance(st, ast.If) and len(st.body) == 1 and not st.orelse and isinstance(st.body[0], ast.Assign) \
                and un(st.body[0].targets[0]) == 'usencaps':
            cond, then = zcond(st.test, env), zexpr(st.body[0].value, env)
        elif isinstance(st, ast.Assign) and un(st.targets[0]) == 'in_polygon':
            if not (isinstance(st.value, ast.Call) and is_np(st.value.func, 'ones', 'zeros')):
                raise U('is_in_polygon: start value')
            start = 'true' if st.value.func.attr == 'ones' else 'false'
        elif isinstance(st, ast.For) and un(st.target) == 'icap':
            if un(st.iter) != 'range(usencaps)' or st.orelse or len(st.body) != 1:
                raise U('is_in_polygon: loop header')
            g = st.body[0]
            if not (isinstance(g, ast.If) and not g.orelse and len(g.body) == 1
                    and un(g.test) == "is_cap_used(p['use_caps'], icap)"):
                raise U('is_in_polygon: use-mask guard')
            s = g.body[0]
            if not (isinstance(s, ast.AugAssign) and un(s.target) == 'in_polygon'
                    and un(s.value) == "is_in_cap(p['x'][icap, :], p['cm'][icap], points)"):
                raise U('is_in_polygon: accumulation')
            if isinstance(s.op, ast.BitAnd):
                acc = 'andb acc b'
            elif isinstance(s.op, ast.BitOr):
                acc = 'orb acc b'
            elif isinstance(s.op, ast.BitXor):
                acc = 'xorb acc b'
            else:
                raise U('is_in_polygon: accumulation operator')
            seen_loop = True
        elif isinstance(st, ast.Return):
            if un(st.value) != 'in_polygon' or not seen_loop:
                raise U('is_in_polygon: return')
        elif isinstance(st, ast.For) and un(st.target) == 'key':
            continue     # attribute / column dispatch
        elif isinstance(st, ast.Assign) and (isinstance(st.targets[0], ast.Tuple) or un(st.targets[0]) in ('p', 'pmap', "p['x']", "p['cm']")):
            if un(st.targets[0]) == "p['x']" and un(st.value) != "np.atleast_2d(p['x'])":
                raise U('is_in_polygon: p[x]')
            if un(st.targets[0]) == "p['cm']" and un(st.value) != "np.atleast_1d(p['cm'])":
                raise U('is_in_polygon: p[cm]')
        else:
            raise U('is_in_polygon: statement %s' % un(st)[:50])
    if None in (init, cond, then, start, acc):
        raise U('is_in_polygon: skeleton')
    return ['Definition gen_usencaps (ncaps pn : Z) : Z :=\n  if %s then %s else %s.' % (cond, then, init),
            'Definition gen_poly_init : bool := %s.' % start,
            'Definition gen_poly_acc (acc b : bool) : bool := %s.' % acc]


def x_is_in_window(fn):
    b = body_of(fn)
    out = {}
    for st in b:
        if isinstance(st, ast.Assign) and un(st.targets[0]) == 'in_polygon':
            out['default'] = zexpr(st.value, {})
        elif isinstance(st, ast.Assign) and un(st.targets[0]) == 'curr_polygon':
            out['start'] = zexpr(st.value, {})
        elif isinstance(st, ast.Assign) and (isinstance(st.targets[0], ast.Tuple) or un(st.targets[0]) == 'npoly'):
            if un(st.targets[0]) == 'npoly' and un(st.value) != 'len(polygons)':
                raise U('is_in_window: npoly')
        elif isinstance(st, ast.While):
            if un(st.test) != 'curr_polygon < npoly' or st.orelse or len(st.body) != 3:
                raise U('is_in_window: loop header')
            s0, s1, s2 = st.body
            v = s0.value if isinstance(s0, ast.Assign) and un(s0.targets[0]) == 'indx_not_in' else None
            # (in_polygon == -1).nonzero()[0]
            if not (v is not None and isinstance(v, ast.Subscript) and un(v.slice) == '0' and isinstance(v.value, ast.Call)
                    and isinstance(v.value.func, ast.Attribute) and v.value.func.attr == 'nonzero'):
                raise U('is_in_window: still-unassigned selection')
            out['unassigned'] = zcond(v.value.func.value, {'in_polygon': 'a'})
            if not (isinstance(s1, ast.If) and un(s1.test) == 'len(indx_not_in) > 0' and not s1.orelse and len(s1.body) == 2):
                raise U('is_in_window: guard')
            c0, c1 = s1.body
            if not (isinstance(c0, ast.Assign) and un(c0.targets[0]) == 'indx_in_curr_polygon' and
                    un(c0.value) == 'is_in_polygon(polygons[curr_polygon], points[indx_not_in], ncaps=ncaps)'):
                raise U('is_in_window: is_in_polygon call')
            if not (isinstance(c1, ast.If) and un(c1.test) == 'indx_in_curr_polygon.any()' and not c1.orelse
                    and len(c1.body) == 1 and isinstance(c1.body[0], ast.Assign)
                    and un(c1.body[0].targets[0]) == 'in_polygon[indx_not_in[indx_in_curr_polygon]]'):
                raise U('is_in_window: assignment')
            out['assign'] = zexpr(c1.body[0].value, {'curr_polygon': 'k'})
            if not (isinstance(s2, ast.AugAssign) and un(s2.target) == 'curr_polygon' and type(s2.op) in P.BIN):
                raise U('is_in_window: increment')
            out['next'] = '(%s k %s)' % (P.BIN[type(s2.op)], zexpr(s2.value, {}))
        elif isinstance(st, ast.Return):
            v = st.value
            if not (isinstance(v, ast.Tuple) and len(v.elts) == 2 and un(v.elts[1]) == 'in_polygon'):
                raise U('is_in_window: return')
            out['flag'] = zcond(v.elts[0], {'in_polygon': 'a'})
        else:
            raise U('is_in_window: statement %s' % un(st)[:50])
    if sorted(out) != ['assign', 'default', 'flag', 'next', 'start', 'unassigned']:
        raise U('is_in_window: skeleton %s' % sorted(out))
    return ['Definition gen_window_default : Z := %s.' % out['default'],
            'Definition gen_window_start : Z := %s.' % out['start'],
            'Definition gen_window_unassigned (a : Z) : bool := %s.' % out['unassigned'],
            'Definition gen_window_assign (k : Z) : Z := %s.' % out['assign'],
            'Definition gen_window_next (k : Z) : Z := %s.' % out['next'],
            'Definition gen_window_flag (a : Z) : bool := %s.' % out['flag']]


def x_set_use_caps(fn):
    b = body_of(fn)
    out = {}
    t2 = None
    for st in b:
        if isinstance(st, ast.If) and un(st.test) == 'not add':
            if st.orelse or len(st.body) != 1 or not isinstance(st.body[0], ast.Assign) \
                    or un(st.body[0].targets[0]) != 'polygon.use_caps':
                raise U('set_use_caps: initialisation')
            out['init'] = 'if negb add then %s else old' % zexpr(st.body[0].value, {})
        elif isinstance(st, ast.Assign) and un(st.targets[0]) == 't2':
            t2 = qexpr(st.value, {'tol': 'tol'})
        elif isinstance(st, ast.For) and un(st.iter) == 'index_list':
            s = st.body[0]
            if len(st.body) != 1 or st.orelse or un(st.target) != 'i' or not (
                    isinstance(s, ast.AugAssign) and un(s.target) == 'polygon.use_caps' and type(s.op) in P.BIN):
                raise U('set_use_caps: selection loop')
            out['set'] = '(%s u %s)' % (P.BIN[type(s.op)], zexpr(s.value, {'i': 'i'}))
        elif isinstance(st, ast.If) and un(st.test) == 'not allow_doubles':
            if st.orelse or len(st.body) != 1:
                raise U('set_use_caps: doubles block')
            fi = st.body[0]
            if not (isinstance(fi, ast.For) and un(fi.target) == 'i' and un(fi.iter) == 'range(polygon.ncaps)'
                    and len(fi.body) == 1 and not fi.orelse):
                raise U('set_use_caps: outer loop')
            gi = fi.body[0]
            if not (isinstance(gi, ast.If) and un(gi.test) == 'is_cap_used(polygon.use_caps, i)' and not gi.orelse
                    and len(gi.body) == 1):
                raise U('set_use_caps: outer guard')
            fj = gi.body[0]
            if not (isinstance(fj, ast.For) and un(fj.target) == 'j' and isinstance(fj.iter, ast.Call)
                    and un(fj.iter.func) == 'range' and len(fj.iter.args) == 2 and un(fj.iter.args[1]) == 'polygon.ncaps'
                    and len(fj.body) == 1 and not fj.orelse):
                raise U('set_use_caps: inner loop')
            out['jstart'] = zexpr(fj.iter.args[0], {'i': 'i'})
            gj = fj.body[0]
            if not (isinstance(gj, ast.If) and un(gj.test) == 'is_cap_used(polygon.use_caps, j)' and not gj.orelse
                    and len(gj.body) == 1):
                raise U('set_use_caps: inner guard')
            # nested tests down to the decrement
            tests = []
            cur = gj.body[0]
            while isinstance(cur, ast.If):
                if cur.orelse or len(cur.body) != 1:
                    raise U('set_use_caps: doubles test shape')
                tests.append(cur.test)
                cur = cur.body[0]
            if not (isinstance(cur, ast.AugAssign) and un(cur.target) == 'polygon.use_caps' and type(cur.op) in P.BIN):
                raise U('set_use_caps: decrement')
            out['clear'] = '(%s u %s)' % (P.BIN[type(cur.op)], zexpr(cur.value, {'j': 'j', 'i': 'i0'}))
            if 'i0' in out['clear']:
                out['clear_uses_i'] = True
            if t2 is None or not tests:
                raise U('set_use_caps: t2 / tests')
            env = {'np.sum((polygon.x[i, :] - polygon.x[j, :]) ** 2)': 'd2', 'polygon.cm[i]': 'cmi', 'polygon.cm[j]': 'cmj',
                   'tol': 'tol', 't2': t2}
            benv = {'allow_neg_doubles': 'allow_neg'}
            d = qbool(tests[0], env, benv)
            for t in tests[1:]:
                d = '(andb %s %s)' % (d, qbool(t, env, benv))
            out['doubles'] = d
        elif isinstance(st, ast.Return):
            if un(st.value) != 'polygon.use_caps':
                raise U('set_use_caps: return')
        else:
            raise U('set_use_caps: statement %s' % un(st)[:50])
    for k in ('init', 'set', 'jstart', 'clear', 'doubles'):
        if k not in out:
            raise U('set_use_caps: %s not found' % k)
    return ['Definition gen_initial_use (add : bool) (old : Z) : Z := %s.' % out['init'],
            'Definition gen_set_bit (u i : Z) : Z := %s.' % out['set'],
            'Definition gen_inner_start (i : Z) : Z := %s.' % out['jstart'],
            'Definition gen_clear_bit (u i0 j : Z) : Z := %s.' % out['clear'],
            'Definition gen_doubles (tol : Q) (allow_neg : bool) (d2 cmi cmj : Q) : bool :=\n  %s.' % out['doubles']]


def x_window_read(fn):
    env = {"r['blist']['ICAP'][k]": 'icap', "r['blist']['NCAPS'][k]": 'n'}
    out = {}
    use = None
    for n in ast.walk(fn):
        if isinstance(n, ast.Assign) and len(n.targets) == 1:
            t = un(n.targets[0])
            if t == "r['balkans']['USE_CAPS']":
                use = zexpr(n.value, {"r['blist']['NCAPS']": 'n'})
            elif t == "r['balkans']['NCAPS']" and un(n.value) != "r['blist']['NCAPS']":
                raise U('window_read: NCAPS column')
            for col, src, tag, twod in (('XCAPS', 'X', 'x', True), ('CMCAPS', 'CM', 'cm', False)):
                tgt, val = n.targets[0], n.value
                if isinstance(tgt, ast.Subscript) and un(tgt.value) == "r['balkans'][k]['%s']" % col:
                    if not (isinstance(val, ast.Subscript) and un(val.value) == "r['bcaps']['%s']" % src):
                        raise U('window_read: source of %s' % col)

                    def bounds(sub):
                        sl = sub.slice
                        if twod:
                            if not (isinstance(sl, ast.Tuple) and len(sl.elts) == 2 and un(sl.elts[1]) == ':'):
                                raise U('window_read: 2-d slice')
                            sl = sl.elts[0]
                        if not (isinstance(sl, ast.Slice) and sl.step is None and sl.lower is not None and sl.upper is not None):
                            raise U('window_read: slice bounds')
                        return zexpr(sl.lower, env), zexpr(sl.upper, env)
                    if tag in out:
                        raise U('window_read: two assignments to %s' % col)
                    out[tag] = bounds(val) + bounds(tgt)
    if use is None or sorted(out) != ['cm', 'x']:
        raise U('window_read: balkans assembly not found')
    lines = ['Definition gen_balkans_use (n : Z) : Z := %s.' % use]
    for tag in ('x', 'cm'):
        for nm, e in zip(('src_lo', 'src_hi', 'dst_lo', 'dst_hi'), out[tag]):
            lines.append('Definition gen_%s_%s (icap n : Z) : Z := %s.' % (tag, nm, e))
    return lines


# ---------------------------------------------------------------- whole function bodies (round 5)
#
# A small fail-closed compiler from Python statements to Gallina: assignments and augmented assignments to declared
# variables, `if` (one or several assigned variables), `for v in range(..)` / `for v in <list parameter>` (a fold_left
# over zrange / the list, state = the one variable the body assigns), `while` (a fuelled Fixpoint, state = the assigned
# variables), `return`.  Expressions go through zexpr / qexpr / qbool above, selected by the declared type of the
# assigned variable.  Anything else raises Unrecognised.

class Body:
    def __init__(self, name, vars_, zenv, qenv, benv, lists=(), bcall=None, qleaf=None):
        self.name = name
        self.vars = dict(vars_)        # python text of an assignable -> (gallina name, 'Z' | 'Q' | 'B')
        self.zenv = dict(zenv)         # python text -> gallina (integer valued leaves, parameters)
        self.qenv = dict(qenv)
        self.benv = dict(benv)
        self.lists = dict(lists)       # python text of an iterable parameter -> gallina list
        self.bcall = bcall             # hook: ast.Call -> gallina bool or None
        self.qleaf = qleaf             # hook: loop variables in scope -> extra qenv entries
        self.loopvars = []
        self.aux = []                  # auxiliary Fixpoints (while loops)
        self.params = ''               # binder text repeated in auxiliary definitions
        self.param_names = ''

    # ---- expressions
    def ze(self):
        env = dict(self.zenv)
        for k, (g, t) in self.vars.items():
            if t == 'Z':
                env[k] = g
        for v in self.loopvars:
            env[v] = v
        return env

    def qe(self):
        env = dict(self.qenv)
        for k, (g, t) in self.vars.items():
            if t == 'Q':
                env[k] = g
        if self.qleaf:
            env.update(self.qleaf(self.loopvars))
        return env

    def be(self):
        env = dict(self.benv)
        for k, (g, t) in self.vars.items():
            if t == 'B':
                env[k] = g
        return env

    def bexpr(self, node):
        key = un(node)
        be = self.be()
        if key in be:
            return be[key]
        if isinstance(node, ast.UnaryOp) and isinstance(node.op, ast.Not):
            return '(negb %s)' % self.bexpr(node.operand)
        if isinstance(node, ast.BoolOp):
            op = 'andb' if isinstance(node.op, ast.And) else 'orb'
            out = self.bexpr(node.values[0])
            for v in node.values[1:]:
                out = '(%s %s %s)' % (op, out, self.bexpr(v))
            return out
        if isinstance(node, ast.Call):
            if is_np(node.func, 'ones', 'zeros') and any(k.arg == 'dtype' and un(k.value) in ('bool', 'np.bool_') for k in node.keywords):
                return 'true' if node.func.attr == 'ones' else 'false'
            if self.bcall:
                r = self.bcall(self, node)
                if r is not None:
                    return r
            raise U('%s: boolean call %s' % (self.name, key[:60]))
        if isinstance(node, ast.Compare) and len(node.ops) == 1:
            try:
                return zcond(node, self.ze())
            except (U, KeyError):
                return qbool(node, self.qe(), be)
        raise U('%s: boolean expression %s' % (self.name, key[:60]))

    def expr(self, node, typ):
        if typ == 'Z':
            return zexpr(node, self.ze())
        if typ == 'Q':
            return qexpr(node, self.qe())
        return self.bexpr(node)

    # ---- statements
    def assigned(self, stmts):
        out = []
        for st in stmts:
            if isinstance(st, (ast.Assign, ast.AugAssign)):
                t = st.targets[0] if isinstance(st, ast.Assign) else st.target
                if isinstance(st, ast.Assign) and len(st.targets) != 1:
                    raise U('%s: multiple targets' % self.name)
                k = un(t)
                if k not in self.vars:
                    raise U('%s: assignment to %s' % (self.name, k[:40]))
                if k not in out:
                    out.append(k)
            elif isinstance(st, ast.If):
                for k in self.assigned(st.body) + self.assigned(st.orelse):
                    if k not in out:
                        out.append(k)
            elif isinstance(st, (ast.For, ast.While)):
                if st.orelse:
                    raise U('%s: loop else' % self.name)
                for k in self.assigned(st.body):
                    if k not in out:
                        out.append(k)
            elif isinstance(st, ast.Return):
                raise U('%s: return inside a block' % self.name)
            else:
                raise U('%s: statement %s' % (self.name, un(st)[:50]))
        return out

    def pack(self, keys):
        g = [self.vars[k][0] for k in keys]
        return g[0] if len(g) == 1 else '(%s)' % ', '.join(g)

    def bind(self, keys, value, k):
        if len(keys) == 1:
            return 'let %s := %s in\n%s' % (self.vars[keys[0]][0], value, k)
        return "let '%s := %s in\n%s" % (self.pack(keys), value, k)

    def block(self, stmts, k):
        out = k
        for st in reversed(stmts):
            out = self.stmt(st, out)
        return out

    def stmt(self, st, k):
        if isinstance(st, ast.Assign):
            key = un(st.targets[0])
            self.assigned([st])
            g, typ = self.vars[key]
            return 'let %s := %s in\n%s' % (g, self.expr(st.value, typ), k)
        if isinstance(st, ast.AugAssign):
            key = un(st.target)
            self.assigned([st])
            g, typ = self.vars[key]
            if typ == 'Z':
                if type(st.op) not in P.BIN:
                    raise U('%s: operator' % self.name)
                return 'let %s := (%s %s %s) in\n%s' % (g, P.BIN[type(st.op)], g, self.expr(st.value, 'Z'), k)
            if typ == 'B':
                op = {ast.BitAnd: 'andb', ast.BitOr: 'orb', ast.BitXor: 'xorb'}.get(type(st.op))
                if op is None:
                    raise U('%s: boolean operator' % self.name)
                return 'let %s := (%s %s %s) in\n%s' % (g, op, g, self.expr(st.value, 'B'), k)
            raise U('%s: augmented assignment on %s' % (self.name, key))
        if isinstance(st, ast.If):
            keys = self.assigned([st])
            if not keys:
                raise U('%s: if without effect' % self.name)
            res = self.pack(keys)
            val = 'if %s then\n%s\nelse\n%s' % (self.bexpr(st.test), self.block(st.body, res), self.block(st.orelse, res))
            return self.bind(keys, '(%s)' % val, k)
        if isinstance(st, ast.For):
            keys = self.assigned([st])
            if len(keys) != 1 or not isinstance(st.target, ast.Name):
                raise U('%s: for loop state' % self.name)
            v = st.target.id
            if v in self.loopvars or v in self.ze():
                raise U('%s: loop variable %s shadows' % (self.name, v))
            it = st.iter
            if un(it) in self.lists:
                lst = self.lists[un(it)]
            elif isinstance(it, ast.Call) and un(it.func) == 'range' and not it.keywords and len(it.args) in (1, 2):
                lo = '0' if len(it.args) == 1 else zexpr(it.args[0], self.ze())
                hi = zexpr(it.args[-1], self.ze())
                lst = '(zrange %s %s)' % (lo, hi)
            else:
                raise U('%s: iterable %s' % (self.name, un(it)[:40]))
            g = self.vars[keys[0]][0]
            self.loopvars.append(v)
            body = self.block(st.body, g)
            self.loopvars.pop()
            return 'let %s := fold_left (fun %s %s =>\n%s) %s %s in\n%s' % (g, g, v, body, lst, g, k)
        if isinstance(st, ast.While):
            keys = self.assigned([st])
            if self.loopvars:
                raise U('%s: while inside a loop' % self.name)
            gs = [self.vars[q][0] for q in keys]
            tys = [{'Z': 'Z', 'Q': 'Q', 'B': 'bool'}[self.vars[q][1]] for q in keys]
            fn = 'gen_%s_while%d' % (self.name, len(self.aux))
            call = '%s fuel %s %s' % (fn, self.param_names, ' '.join(gs))
            res = self.pack(keys)
            body = self.block(st.body, call)
            self.aux.append('Fixpoint %s (fuel : nat) %s %s : %s :=\n  match fuel with\n  | O => %s\n  | S fuel =>\n    if %s then\n%s\n    else %s\n  end.'
                            % (fn, self.params, ' '.join('(%s : %s)' % gt for gt in zip(gs, tys)), ' * '.join(tys), res,
                               self.bexpr(st.test), body, res))
            return self.bind(keys, '(%s)' % call, k)
        raise U('%s: statement %s' % (self.name, un(st)[:50]))


def indent(text, n=2):
    return '\n'.join(' ' * n + ln for ln in text.split('\n'))


def b_set_use_caps(fn):
    """the whole body of set_use_caps as one Gallina function of the starting use_caps"""
    b = body_of(fn)
    if not (b and isinstance(b[-1], ast.Return) and un(b[-1].value) == 'polygon.use_caps'):
        raise U('set_use_caps: return')

    def qleaf(lv):
        env = {}
        for a in lv:
            env['polygon.cm[%s]' % a] = '(cm %s)' % a
            for c in lv:
                env['np.sum((polygon.x[%s, :] - polygon.x[%s, :]) ** 2)' % (a, c)] = '(d2 %s %s)' % (a, c)
        return env

    def bcall(self, node):
        if un(node.func) == 'is_cap_used' and len(node.args) == 2 and not node.keywords:
            return '(gen_is_cap_used %s %s)' % (zexpr(node.args[0], self.ze()), zexpr(node.args[1], self.ze()))
        return None
    B = Body('set_use_caps', {'polygon.use_caps': ('u', 'Z'), 't2': ('t2', 'Q')}, {'polygon.ncaps': 'ncaps'}, {'tol': 'tol'},
             {'add': 'add', 'allow_doubles': 'allow_doubles', 'allow_neg_doubles': 'allow_neg'},
             lists={'index_list': 'index_list'}, bcall=bcall, qleaf=qleaf)
    text = B.block(b[:-1], 'u')
    return ['Definition gen_set_use_caps_body (ncaps : Z) (d2 : Z -> Z -> Q) (cm : Z -> Q) (index_list : list Z)\n'
            '    (add : bool) (tol : Q) (allow_doubles allow_neg : bool) (u : Z) : Z :=\n' + indent(text) + '.']


def b_is_in_polygon(fn):
    """usencaps / start value / the loop over caps of is_in_polygon, for one point (incap i = is_in_cap(x[i], cm[i], point))"""
    b = body_of(fn)
    keep = []
    for st in b:
        if isinstance(st, ast.Assign) and un(st.targets[0]) in ('usencaps', 'in_polygon'):
            keep.append(st)
        elif isinstance(st, ast.If) and 'usencaps' in un(st):
            keep.append(st)
        elif isinstance(st, ast.For) and un(st.target) == 'icap':
            keep.append(st)
        elif isinstance(st, ast.Return):
            if un(st.value) != 'in_polygon' or st is not b[-1]:
                raise U('is_in_polygon: return')
        # everything else (attribute / column dispatch, atleast_2d) is checked by x_is_in_polygon

    def bcall(self, node):
        if un(node.func) == 'is_cap_used' and len(node.args) == 2 and not node.keywords:
            return '(gen_is_cap_used %s %s)' % (zexpr(node.args[0], self.ze()), zexpr(node.args[1], self.ze()))
        if un(node.func) == 'is_in_cap' and len(node.args) == 3 and not node.keywords and un(node.args[2]) == 'points':
            a0, a1 = node.args[0], node.args[1]
            if isinstance(a0, ast.Subscript) and un(a0.value) == "p['x']" and isinstance(a0.slice, ast.Tuple) \
                    and len(a0.slice.elts) == 2 and un(a0.slice.elts[1]) == ':' \
                    and isinstance(a1, ast.Subscript) and un(a1.value) == "p['cm']" and un(a1.slice) == un(a0.slice.elts[0]):
                return '(incap %s)' % zexpr(a1.slice, self.ze())
        return None
    B = Body('is_in_polygon', {'usencaps': ('usencaps', 'Z'), 'in_polygon': ('in_polygon', 'B')},
             {"p['ncaps']": 'pn', 'ncaps': 'ncaps', "p['use_caps']": 'use_caps'}, {}, {}, bcall=bcall)
    text = B.block(keep, 'in_polygon')
    return ['Definition gen_is_in_polygon_body (pn use_caps ncaps : Z) (incap : Z -> bool) : bool :=\n' + indent(text) + '.']


def b_is_in_window(fn):
    """is_in_window for ONE point: the vectorised statements of the while body (shapes checked by x_is_in_window) are
    re-assembled into their per-point meaning and compiled: `in_polygon` is this point's entry, the selection
    `(in_polygon == -1).nonzero()` becomes a guard, `is_in_polygon(polygons[k], points[sel], ncaps=ncaps)` is inpoly k."""
    b = body_of(fn)
    x_is_in_window(fn)      # shape checks
    pre, loop, ret = [], None, None
    for st in b:
        if isinstance(st, ast.Assign) and un(st.targets[0]) in ('in_polygon', 'curr_polygon'):
            pre.append(un(st))
        elif isinstance(st, ast.While):
            loop = st
        elif isinstance(st, ast.Return):
            ret = st.value
    s0, s1, s2 = loop.body
    sel = un(s0.value.value.func.value)                    # in_polygon == -1
    assign = un(s1.body[1].body[0].value)                    # curr_polygon
    src = '\n'.join(pre) + '\nwhile %s:\n    if %s:\n        if is_in_polygon(polygons[curr_polygon]):\n            in_polygon = %s\n    %s\n' % (
        un(loop.test), sel, assign, un(s2))
    stmts = ast.parse(src).body

    def bcall(self, node):
        if un(node.func) == 'is_in_polygon' and len(node.args) == 1 and isinstance(node.args[0], ast.Subscript) \
                and un(node.args[0].value) == 'polygons':
            return '(inpoly %s)' % zexpr(node.args[0].slice, self.ze())
        return None
    B = Body('is_in_window', {'in_polygon': ('a', 'Z'), 'curr_polygon': ('k', 'Z')}, {'npoly': 'npoly'}, {}, {}, bcall=bcall)
    B.params = '(npoly : Z) (inpoly : Z -> bool)'
    B.param_names = 'npoly inpoly'
    flag = B.bexpr(ret.elts[0])
    text = B.block(stmts, '(%s, a)' % flag)
    return B.aux + ['Definition gen_is_in_window_body (fuel : nat) (npoly : Z) (inpoly : Z -> bool) : bool * Z :=\n' + indent(text) + '.']


HEAD_Z = '''(* GENERATED by translate/c12.py from pydl/pydlutils/mangle.py and pydl/photoop/window.py -- do not edit *)
From Coq Require Import ZArith QArith Qabs Bool List.
Open Scope Z_scope.

(* a < b on rationals, as a boolean *)
Definition gQlt (a b : Q) : bool := negb (Qle_bool b a).

(* Python range(lo, hi) *)
Definition zrange (lo hi : Z) : list Z := map (fun k => Z.add lo (Z.of_nat k)) (seq 0 (Z.to_nat (Z.sub hi lo))).
'''

HEAD_R = '''(* GENERATED by translate/c12.py from pydl/pydlutils/mangle.py (cap_distance, is_in_cap) -- do not edit *)
From Coq Require Import Reals.
From PV Require Import C12.RBase.
Open Scope R_scope.

(* d stands for np.dot(xyz, x); degrees, radians, clipR: C12/RBase.v (meaning of np.degrees, np.radians, np.clip) *)
'''


def generate(repo):
    info = {'recognised': True, 'detail': []}
    try:
        t1 = ast.parse(open(os.path.join(repo, MANGLE)).read())
        t2 = ast.parse(open(os.path.join(repo, WINDOW)).read())
        f = lambda name: P.find_function(t1, name)   # noqa: E731
        z = []
        for title, lines in (('is_cap_used', x_is_cap_used(f('is_cap_used'))),
                             ('is_in_polygon', x_is_in_polygon(f('is_in_polygon'))),
                             ('is_in_window', x_is_in_window(f('is_in_window'))),
                             ('set_use_caps', x_set_use_caps(f('set_use_caps'))),
                             ('window_read (balkans)', x_window_read(P.find_function(t2, 'window_read'))),
                             ('whole bodies: set_use_caps; is_in_polygon and is_in_window for one point',
                              b_set_use_caps(f('set_use_caps')) + [''] + b_is_in_polygon(f('is_in_polygon')) + ['']
                              + b_is_in_window(f('is_in_window')))):
            z.append('(* %s *)' % title)
            z.extend(lines)
            z.append('')
        r = ['(* cap_distance *)'] + x_cap_distance(f('cap_distance')) + ['', '(* is_in_cap *)'] + x_is_in_cap(f('is_in_cap')) \
            + ['', '(* angles_to_x (RA/Dec input: cap_distance calls it with latitude=True when points has two columns) *)'] \
            + x_angles_to_x(f('angles_to_x'))
        info['lines'] = {'is_in_polygon': f('is_in_polygon').lineno, 'set_use_caps': f('set_use_caps').lineno,
                         'cap_distance': f('cap_distance').lineno}
    except (U, SyntaxError, OSError, KeyError, AttributeError, IndexError, ValueError) as e:
        info['recognised'] = False
        info['detail'].append('%s: %s' % (type(e).__name__, e))
        return None, None, info
    return HEAD_Z + '\n' + '\n'.join(z), HEAD_R + '\n' + '\n'.join(r) + '\n', info


if __name__ == '__main__':
    import sys
    a, b, info = generate(sys.argv[1] if len(sys.argv) > 1 else '/repo')
    print(info)
    print(a)
    print(b)
