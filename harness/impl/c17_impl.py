"""Runs djs_reject, djs_maskinterp, aesthetics, djs_median(reflect) and skymask of the repository under
test on a list of calls (stdin JSON).  Floats travel as JSON numbers (repr round-trips exactly)."""
import json
import os
import sys
import tempfile
import warnings

import numpy as np

import pydl
import pydl.pydlutils.sdss as sdss
from pydl.pydlutils.math import djs_reject, djs_median
from pydl.pydlutils.image import djs_maskinterp, djs_maskinterp1
from pydl.pydlspec2d.spec2d import aesthetics
from pydl.pydlspec2d.spec1d import skymask
from astropy.utils.data import get_pkg_data_filename

warnings.simplefilter('ignore')


def load_maskbits(bits):
    """The packaged maskbits file has no SPPIXMASK group; append one (SDSS bit numbers unless the call
    asks for other positions) and load the result through the real set_maskbits, exactly as the
    repository's own tests populate the cache."""
    base = open(get_pkg_data_filename('tests/t/testMaskbits.par', package='pydl.pydlutils')).read()
    extra = ['masktype SPPIXMASK 32 "Mask bits for an SDSS spectrum."',
             'maskbits SPPIXMASK  0 NOPLUG "Fiber not listed in plugmap file"',
             'maskbits SPPIXMASK 24 NODATA "No data available in combine B-spline (INVVAR=0)"',
             'maskbits SPPIXMASK 25 COMBINEREJ "Rejected in combine B-spline"',
             'maskbits SPPIXMASK %d BADSKYCHI "Relative chi^2 > 3 in sky residuals at this wavelength"' % bits[0],
             'maskbits SPPIXMASK %d REDMONSTER "Contiguous region of bad chi^2 in sky residuals"' % bits[1]]
    fd, path = tempfile.mkstemp(suffix='.par', prefix='c17maskbits')
    with os.fdopen(fd, 'w') as f:
        f.write(base + '\n' + '\n'.join(extra) + '\n')
    try:
        sdss.maskbits = sdss.set_maskbits(maskbits_file=path)
    finally:
        os.unlink(path)
    return [int(sdss.sdss_flagval('SPPIXMASK', 'BADSKYCHI')), int(sdss.sdss_flagval('SPPIXMASK', 'REDMONSTER'))]


def err(e):
    return {'err': type(e).__name__, 'msg': str(e)[:160]}


def arr(x, shape, dtype='d'):
    return None if x is None else np.array(x, dtype=dtype).reshape(shape)


def call(c):
    f = c['f']
    try:
        if f == 'reject':
            shape = tuple(c['shape'])
            kw = {}
            for k in ('lower', 'upper', 'maxdev'):
                if c.get(k) is not None:
                    kw[k] = c[k]
            if c.get('sigma') is not None:
                kw['sigma'] = c['sigma'] if not isinstance(c['sigma'], list) else arr(c['sigma'], shape)
            if c.get('invvar') is not None:
                kw['invvar'] = arr(c['invvar'], shape)
            if c.get('inmask') is not None:
                kw['inmask'] = arr(c['inmask'], shape, 'bool')
            om = arr(c['outmask'], shape, 'bool') if c.get('outmask') is not None else None
            om_before = None if om is None else om.copy()
            if 'grow' in c:
                kw['grow'] = c['grow']
            if 'sticky' in c:
                kw['sticky'] = c['sticky']
            data = arr(c['data'], shape)
            model = arr(c['model'], shape)
            mask, qdone = djs_reject(data, model, outmask=om, **kw)
            if mask.shape != shape or mask.dtype != np.bool_ or not isinstance(qdone, bool):
                return {'err': 'BadResult', 'msg': '%s %s %r' % (mask.shape, mask.dtype, qdone)}
            return {'ok': {'mask': [bool(x) for x in mask.ravel()], 'qdone': qdone,
                           'outmask_untouched': bool(om is None or np.array_equal(om, om_before))}}
        if f == 'interp':
            shape = tuple(c['shape'])
            y = arr(c['y'], shape)
            m = arr(c['mask'], shape, c.get('maskdtype', 'i4'))
            x = arr(c.get('xval'), shape)
            y0 = y.copy()
            if c.get('direct1'):
                out = djs_maskinterp1(y, m, xval=x, const=bool(c.get('const')))
            else:
                out = djs_maskinterp(y, m, xval=x, axis=c.get('axis'), const=bool(c.get('const')))
            if out.shape != shape:
                return {'err': 'BadResult', 'msg': str(out.shape)}
            nd = len(shape)
            ax = nd - 1 - (c.get('axis') or 0)
            idx = np.arange(y.size).reshape(shape)
            return {'ok': [float(v) for v in out.ravel()], 'input_untouched': bool(np.array_equal(y, y0)),
                    'np_lines': np.moveaxis(idx, ax, -1).reshape(-1, shape[ax]).tolist()}
        if f == 'aesth':
            flux = np.array(c['flux'], dtype='d')
            iv = np.array(c['invvar'], dtype='d')
            out = aesthetics(flux, iv, method=c['method'])
            return {'ok': [float(v) for v in out]}
        if f == 'median':
            shape = tuple(c['shape'])
            a = arr(c['xs'], shape)
            out = djs_median(a, width=c['width'], boundary='reflect')
            if out.shape != shape:
                return {'err': 'BadResult', 'msg': str(out.shape)}
            return {'ok': [float(v) for v in out.ravel()]}
        if f == 'sky':
            shape = tuple(c['shape'])
            iv = arr(c['invvar'], shape)
            om = None if c.get('mask') is None else np.array(c['mask'], dtype=c['dtype']).reshape(shape)
            am = np.zeros(shape, dtype=c['dtype'])
            kw = {}
            if c.get('ngrow') is not None:
                kw['ngrow'] = c['ngrow']
            out = skymask(iv, am, om, **kw)
            if out.shape != shape:
                return {'err': 'BadResult', 'msg': str(out.shape)}
            return {'ok': [float(v) for v in out.ravel()]}
        return {'err': 'BadCall'}
    except Exception as e:  # noqa: BLE001 - the error class is the observation
        return err(e)


def main():
    payload = json.load(sys.stdin)
    flags = load_maskbits(payload.get('bits', [27, 28]))
    out = {'pydl_file': pydl.__file__, 'flags': flags, 'numpy': np.__version__,
           'results': [call(c) for c in payload['calls']]}
    json.dump(out, sys.stdout)


if __name__ == '__main__':
    main()
