(* C02 -- yanny: the meaning of a file does not depend on its surface syntax.
   Property theorems only; each is closed by `exact` and followed by Print Assumptions.
   One theorem per syntactic freedom, at the level it acts on (token, line, or a pre-pass over the text);
   the model of the reader is Yanny/Parse.v (of the code with fixes/C01-*.diff applied). *)
From Coq Require Import String.
From Coq Require Import NArith ZArith List Bool.
Import ListNotations.
From PV Require Import Yanny.Bytes Yanny.BytesFacts Yanny.Types Yanny.Parse Yanny.Render
  Yanny.TokenFacts Yanny.RowFacts Yanny.TypeFacts Yanny.DocFacts Yanny.LayoutFacts Yanny.ScanFacts Yanny.FileFacts
  Yanny.RoundTrip Yanny.LayoutFile Yanny.LayoutRow Yanny.LayoutFile2 Yanny.Interleave Yanny.ContFile C02.Model C02.Proofs.
Open Scope N_scope.

(* arbitrary runs of blanks / tabs between tokens *)
Theorem C02_get_token_ws_indep : forall s w1 w2 rest,
  tok_ok s = true -> w1 <> [] -> all_ws w1 = true -> w2 <> [] -> all_ws w2 = true -> head_not_ws rest ->
  get_token (protect s ++ w1 ++ rest) = get_token (protect s ++ w2 ++ rest).
Proof. exact get_token_ws_indep. Qed.
Print Assumptions C02_get_token_ws_indep.

(* a string written bare, double-quoted or brace-wrapped (where its content admits the form) is the same token *)
Theorem C02_get_token_quote_forms : forall s lead w rest,
  bare_adm s = true -> brace_adm s = true -> all_ws lead = true -> w <> [] -> all_ws w = true -> head_not_ws rest ->
  get_token (s ++ w ++ rest) = Some (s, rest) /\
  get_token (QUOTE :: s ++ QUOTE :: w ++ rest) = Some (s, rest) /\
  get_token (LBRACE :: lead ++ s ++ RBRACE :: w ++ rest) = Some (s, rest).
Proof. exact get_token_quote_forms. Qed.
Print Assumptions C02_get_token_quote_forms.

Theorem C02_empty_string_forms : forall w rest, all_ws w = true -> head_not_ws rest ->
  get_token (QUOTE :: QUOTE :: w ++ rest) = Some ([], rest) /\
  get_token (LBRACE :: RBRACE :: w ++ rest) = Some ([], rest).
Proof. exact empty_string_forms. Qed.
Print Assumptions C02_empty_string_forms.

(* { { } } with any inner blanks, standing where a value can start, is rewritten to two quotes *)
Theorem C02_double_brace_is_empty_string : forall w1 w2 w3 r, all_ws w1 = true -> all_ws w2 = true -> all_ws w3 = true ->
  dbl_aux 0 0 (LBRACE :: w1 ++ LBRACE :: w2 ++ RBRACE :: w3 ++ RBRACE :: r) = QUOTE :: QUOTE :: dbl_aux 0 0 r.
Proof. exact double_brace_is_empty_string. Qed.
Print Assumptions C02_double_brace_is_empty_string.

(* a trailing comment (no further #, an even number of double quotes) is removed, and nothing else *)
Theorem C02_trailing_comment_strips : forall line w c,
  last_not_ws line -> all_ws w = true -> mem HASH c = false -> Nat.even (count QUOTE c) = true ->
  trailing_comment (line ++ w ++ HASH :: c) = line.
Proof. exact trailing_comment_strips. Qed.
Print Assumptions C02_trailing_comment_strips.

(* backslash continuation: backslash, blanks, line end and the next line's indentation read as one blank *)
Theorem C02_continuation_join : forall a w1 w2 b,
  mem BSL a = false -> all_ws w1 = true -> all_ws w2 = true -> mem NL w2 = false -> head_not_ws b ->
  join_cont (a ++ BSL :: w1 ++ NL :: w2 ++ b) = a ++ SP :: w2 ++ join_cont b.
Proof. exact continuation_join. Qed.
Print Assumptions C02_continuation_join.

(* CRLF: text-mode reads translate it; binary reads keep the CR, which never changes what a line means *)
Theorem C02_crlf_text_mode : forall l r, mem CR l = false -> univ_nl (l ++ CR :: NL :: r) = l ++ NL :: univ_nl r.
Proof. exact univ_nl_crlf. Qed.
Print Assumptions C02_crlf_text_mode.

Theorem C02_crlf_indep : forall sy st l, process_line sy st (l ++ [CR]) = process_line sy st l.
Proof. exact crlf_line_indep. Qed.
Print Assumptions C02_crlf_indep.

(* any letter case of the structure name on a data row *)
Theorem C02_rowname_case_indep : forall es t r sy st name',
  forallb enum_ok es = true -> table_ok es t = true -> In r (t_rows t) ->
  assoc (upper (t_name t)) sy = Some (tcols_of es (t_cols t)) ->
  name' <> [] -> forallb is_word name' = true -> upper name' = upper (t_name t) ->
  process_line sy st (render_row_line name' r)
  = Some (mkst (st_pairs st) (assoc_app (upper (t_name t)) r (st_rows st))).
Proof. exact rowname_case_indep_doc. Qed.
Print Assumptions C02_rowname_case_indep.

(* [n] and legacy <n>: same declared type, same column name *)
Theorem C02_legacy_array_notation : forall var n rest,
  check_decl var (var ++ LT :: show_N n ++ GT :: SEMI :: NL :: rest) = Some (LT :: show_N n ++ [GT]) /\
  check_decl var (var ++ brack n ++ SEMI :: NL :: rest) = Some (brack n) /\
  normalise_array (LT :: show_N n ++ [GT]) = brack n /\ normalise_array (brack n) = brack n.
Proof. exact legacy_array_notation. Qed.
Print Assumptions C02_legacy_array_notation.

Theorem C02_legacy_array_column_name : forall name o c mid,
  forallb is_word name = true -> is_open o = true -> is_close c = true -> cut_array (name ++ o :: mid ++ [c]) = name.
Proof. exact cut_array_brackets. Qed.
Print Assumptions C02_legacy_array_column_name.

Theorem C02_blank_and_comment_lines_skipped : forall sy st l,
  all_ws l = true \/ starts_with [HASH] (lstrip l) = true -> process_line sy st l = Some st.
Proof. exact blank_and_comment_lines_skipped. Qed.
Print Assumptions C02_blank_and_comment_lines_skipped.

(* rows of different tables commute *)
Theorem C02_interleaving_indep : forall sy st n1 c1 r1 n2 c2 r2,
  n1 <> [] -> n2 <> [] -> forallb is_word n1 = true -> forallb is_word n2 = true ->
  beq (upper n1) (upper n2) = false ->
  assoc (upper n1) sy = Some c1 -> row_fits c1 r1 = true -> assoc (upper n2) sy = Some c2 -> row_fits c2 r2 = true ->
  process_lines sy st [render_row_line n1 r1; render_row_line n2 r2]
  = process_lines sy st [render_row_line n2 r2; render_row_line n1 r1].
Proof. exact interleaving_indep. Qed.
Print Assumptions C02_interleaving_indep.

(* char[] columns size themselves to the longest value (and need one) *)
Theorem C02_char_unsized_width : forall enums v vs,
  col_dtype enums T_CHAR_UNSIZED (v :: vs)
  = Some (NS (N.of_nat (fold_right (fun c m => Nat.max (cell_maxlen c) m) O (v :: vs))), None).
Proof. exact char_unsized_width. Qed.
Print Assumptions C02_char_unsized_width.

(* enum columns read as their label text, sized by the longest label *)
Theorem C02_enum_reads_as_label : forall enums typ labels values,
  assoc_last (basetype typ) enums = Some labels -> beq (basetype typ) KW_CHAR = false -> isarray typ = false ->
  classify typ = KOther ->
  col_dtype enums typ values = Some (NS (N.of_nat (maxlen labels)), None) /\ (forall t, conv1 (classify typ) t = Some (STok t)).
Proof. exact enum_reads_as_label. Qed.
Print Assumptions C02_enum_reads_as_label.

(* a table is typed by the typedef whose own name it bears -- whatever other names or columns contain it
   (this is the repaired lookup; the unrepaired substring search is the defect the check reports) *)
Theorem C02_struct_name_lookup_exact : forall structs name body text,
  names_distinct structs = true -> In (name, body, text) structs -> lookup_def name structs = Some text.
Proof. exact struct_name_lookup_exact. Qed.
Print Assumptions C02_struct_name_lookup_exact.

(* raw mode is the first stage of the same parse; the second stage changes no value (strings longer than
   the declared width are cut, as numpy does) *)
Theorem C02_raw_mode_is_the_first_stage : forall s, parse_text s = obind (parse_text_raw s) to_records.
Proof. exact raw_mode_is_the_first_stage. Qed.
Print Assumptions C02_raw_mode_is_the_first_stage.

Theorem C02_raw_mode_same_values : forall k v v', conv_sval k v = Some v' ->
  v' = v \/ exists w t, k = NS w /\ v = STok t /\ v' = STok (firstn (N.to_nat w) t).
Proof. exact raw_mode_same_values. Qed.
Print Assumptions C02_raw_mode_same_values.

(* indentation, trailing blanks, a trailing comment and the CR of a CRLF line end around ANY core line
   (a data row or a keyword pair) do not change what the line does *)
Theorem C02_line_decoration_indep : forall sy st lead L w cmt cr,
  core_line L -> all_ws lead = true -> all_ws w = true ->
  match cmt with Some c => comment_text_ok c = true | None => True end ->
  process_line sy st (lead ++ L ++ w ++ tail_of cmt cr) = process_line sy st L.
Proof. exact line_decoration_indep. Qed.
Print Assumptions C02_line_decoration_indep.

Theorem C02_rendered_row_is_core_line : forall name r,
  name <> [] -> forallb is_word name = true -> forallb cell_tok_ok r = true -> core_line (render_row_line name r).
Proof. exact row_is_core_line. Qed.
Print Assumptions C02_rendered_row_is_core_line.

(* a data row in ANY admissible token layout -- arbitrary blank runs between tokens and inside array braces,
   every scalar bare, double-quoted, brace-wrapped or (empty string) written as the empty double brace where its
   content allows, array elements bare or quoted, any letter case of the name -- is processed exactly like the
   row of its cells *)
Theorem C02_row_layout_independence : forall (sy : symtab) st name (cols : tcols) cells,
  name <> [] -> forallb is_word name = true -> assoc (upper name) sy = Some cols ->
  cells_ok cells = true ->
  match cells with [] => cols = [] \/ True | gc :: cells' => lrow_fits cols ((@nil N, snd gc) :: cells') = true end ->
  process_line sy st (lrow_core name cells)
  = Some (mkst (st_pairs st) (assoc_app (upper name) (map (fun gc => cell_of (snd gc)) cells) (st_rows st))).
Proof. exact lrow_roundtrip. Qed.
Print Assumptions C02_row_layout_independence.

(* layout_independence, PARTIAL.  Full statement (not proved as one theorem):
     forall d lay, doc_ok d -> layout_ok lay d -> parse (render_with lay d) = Some (lsem d).
   Proved at FILE level (C02_layout_independence_partial): for every document of the domain doc_ok, every
   ordering of its data rows that keeps each table's rows in order (rows of different tables interleaved),
   and every text obtained from that file by
     - writing any data row in any admissible token layout (blank runs, bare / quoted / brace-wrapped strings,
       the empty double brace, padding inside array braces, any letter case of the table name),
     - indentation, trailing blanks and a trailing comment on every keyword / data line,
     - comment lines and blank lines inserted anywhere between the items (also around the typedef blocks),
   the text-mode and the binary read return exactly the document's meaning; CRLF line ends read in text mode
   change nothing (C02_crlf_file_independence).
   Continuation lines compose with it one at a time (C02_continuation_file: a file with one more continuation
   reads like the file with a blank instead).
   NOT composed into the file-level theorem (proved at token / pre-pass level above, exercised by every run of
   the correspondence): [n] / <n> and any other layout inside typedef blocks, char[] columns, typedefs and
   pairs in other positions, blanks other than SP / TAB. *)
Theorem C02_layout_independence_partial : forall d tws trs Ds,
  doc_ok d = true -> map fst tws = d_tables d -> tws_ok (d_enums d) tws ->
  trs_ok d trs -> idec (sy_of (d_enums d) tws) Ds (items_gen d tws trs) ->
  exists p, sem d = Some p /\ parse (items_text Ds) = Some p /\ parse_binary (items_text Ds) = Some p.
Proof. exact layout_file_general. Qed.
Print Assumptions C02_layout_independence_partial.

(* backslash continuation at file level (CR-free text): one more continuation between two tokens, anywhere after
   text whose earlier backslashes are harmless, reads like a blank *)
Theorem C02_continuation_file : forall A w1 w2 B,
  cont_okb A = true -> all_ws w1 = true -> all_ws w2 = true -> mem NL w2 = false -> head_not_ws B ->
  mem CR (A ++ BSL :: w1 ++ NL :: w2 ++ B) = false ->
  parse (A ++ BSL :: w1 ++ NL :: w2 ++ B) = parse (A ++ SP :: w2 ++ B) /\
  parse_binary (A ++ BSL :: w1 ++ NL :: w2 ++ B) = parse_binary (A ++ SP :: w2 ++ B).
Proof. exact continuation_file. Qed.
Print Assumptions C02_continuation_file.

(* rows of different tables interleaved, nothing else changed *)
Theorem C02_interleaved_file : forall d tws trs,
  doc_ok d = true -> map fst tws = d_tables d -> tws_ok (d_enums d) tws -> trs_ok d trs ->
  exists p, sem d = Some p /\ parse (items_text (items_gen d tws trs)) = Some p
            /\ parse_binary (items_text (items_gen d tws trs)) = Some p.
Proof. exact interleaved_roundtrip. Qed.
Print Assumptions C02_interleaved_file.

(* the canonical ordering is an admissible one, and its item list is the written file *)
Theorem C02_canonical_order_admissible : forall d, distinct (tnames d) = true -> trs_ok d (all_trs (d_tables d)).
Proof. exact all_trs_ok. Qed.
Print Assumptions C02_canonical_order_admissible.

Theorem C02_canonical_items : forall d tws, items_of d tws = items_gen d tws (all_trs (d_tables d)).
Proof. exact items_of_gen. Qed.
Print Assumptions C02_canonical_items.

(* decorations only (no change inside rows): the earlier, simpler statement *)
Theorem C02_decorated_file : forall d tws Ds,
  doc_ok d = true -> map fst tws = d_tables d -> tws_ok (d_enums d) tws ->
  decorates_items Ds (items_of d tws) ->
  exists p, sem d = Some p /\ parse (items_text Ds) = Some p /\ parse_binary (items_text Ds) = Some p.
Proof. exact layout_file_independence. Qed.
Print Assumptions C02_decorated_file.

(* the undecorated list of items is the file the writer produces, so the theorem is about real files *)
Theorem C02_canonical_items_are_the_written_file : forall d tws,
  d_comments d <> [] -> forallb enum_ok (d_enums d) = true -> map fst tws = d_tables d -> tws_ok (d_enums d) tws ->
  render_checked d = Some (items_text (items_of d tws)).
Proof. exact render_items. Qed.
Print Assumptions C02_canonical_items_are_the_written_file.

Theorem C02_crlf_file_independence : forall s, mem CR s = false -> parse (crlf s) = parse s.
Proof. exact crlf_file_independence. Qed.
Print Assumptions C02_crlf_file_independence.

(* the line loop alone: same state for every decoration of every line and every inserted blank / comment line *)
Theorem C02_line_loop_layout_independence : forall Ds Ls, decorates Ds Ls ->
  forall sy st, process_lines sy st Ds = process_lines sy st Ls.
Proof. exact decorated_lines_same_state. Qed.
Print Assumptions C02_line_loop_layout_independence.

(* composition principle: every line-level freedom lifts to file level *)
Theorem C02_layout_composition : forall d tws Ds,
  doc_ok d = true -> map fst tws = d_tables d -> tws_ok (d_enums d) tws ->
  Forall item_good Ds -> Ds <> [] ->
  (forall kw, filter (item_is_td kw) Ds = filter (item_is_td kw) (items_of d tws)) ->
  (forall st, process_lines (sy_of (d_enums d) tws) st (map item_line Ds)
              = process_lines (sy_of (d_enums d) tws) st (map item_line (items_of d tws))) ->
  exists p, sem d = Some p /\ parse (items_text Ds) = Some p /\ parse_binary (items_text Ds) = Some p.
Proof. exact layout_composition. Qed.
Print Assumptions C02_layout_composition.

(* ---- non-vacuity: a concrete laid-out file (C02/Proofs.v: ex_doc, ex_items -- a comment line and a blank line
   inserted, the data row indented, its name in lower case, its integer quoted, a trailing comment) satisfies every
   hypothesis of C02_layout_independence_partial, and its parse is the document's meaning by computation ---- *)
Example C02_example_in_domain : doc_ok ex_doc = true /\ map fst ex_tws = d_tables ex_doc.
Proof. exact example_in_domain. Qed.
Example C02_example_tws_ok : tws_ok (d_enums ex_doc) ex_tws.
Proof. exact example_tws_ok. Qed.
Example C02_example_layout : idec (sy_of (d_enums ex_doc) ex_tws) ex_items (items_gen ex_doc ex_tws ex_trs).
Proof. exact example_layout. Qed.
Example C02_example_reads_as_the_document :
  match sem ex_doc with Some p => parse (items_text ex_items) = Some p | None => False end.
Proof. exact example_reads_as_the_document. Qed.

(* ---- tie of the hand-written scanners to the literals of the CURRENT source (Generated/YannyLits.v is regenerated
   from yanny.py on every run by translate/c01.py; the scanners and their attribution: C01/Lits.v) ---- *)
From PV Require Import Generated.YannyLits C01.Lits.

Theorem C02_source_regexes_are_the_scanners : yanny_regexes = scanner_regexes.
Proof. exact regexes_are_the_scanners. Qed.
Print Assumptions C02_source_regexes_are_the_scanners.

Theorem C02_source_tables_are_the_scanners :
  yanny_dtmap_write = scanner_dtmap_write /\ yanny_dtmap_read = scanner_dtmap_read /\
  yanny_int_types = scanner_int_types /\ yanny_float_types = scanner_float_types /\
  yanny_protect_condition = scanner_protect_condition.
Proof. exact tables_are_the_scanners. Qed.
Print Assumptions C02_source_tables_are_the_scanners.

(* ================================================================== round 3: typedef blocks in any layout, typedefs and
   pairs anywhere *)
From PV Require Import Yanny.StructFacts Yanny.EnumFacts Yanny.TypedefLayout Yanny.Skeleton Yanny.StructLayout Yanny.EnumLayout.

(* LAYOUT INSIDE A STRUCT TYPEDEF BLOCK: any blank run (blanks, tabs, newlines) before the first declaration, between type
   word and name and after every semicolon, with at least one newline between two declarations; comment / filler words
   after a declaration and on lines of their own; every array / length suffix in brackets or angle brackets independently;
   the trailing name in any letter case -- such a block is read as the declaration of the table (td_reads: the pre-passes
   isolate it, the declaration scanner finds exactly the column names, the type lookup gives every column its type) *)
Theorem C02_typedef_block_layout : forall es t ws ys lead fill0 name,
  forallb enum_ok es = true -> table_ok es t = true -> cols_words es (t_cols t) ws -> clays_ok es (t_cols t) ys = true ->
  lead <> [] -> forallb wsch lead = true -> forallb fpart_ok fill0 = true ->
  name <> [] -> forallb is_word name = true -> upper name = upper (t_name t) ->
  no_td name = true -> no_td (lbody lead fill0 (t_cols t) ws ys) = true ->
  td_reads es t (lbody lead fill0 (t_cols t) ws ys) name.
Proof. exact lbody_td_reads. Qed.
Print Assumptions C02_typedef_block_layout.

(* the writer's own typedef text is one such layout *)
Theorem C02_canonical_typedef_reads : forall es tw,
  forallb enum_ok es = true -> table_ok es (fst tw) = true -> cols_words es (t_cols (fst tw)) (snd tw) ->
  td_reads es (fst tw) (fst (struct_td es tw)) (snd (struct_td es tw)).
Proof. exact canonical_td_reads. Qed.
Print Assumptions C02_canonical_typedef_reads.

(* LAYOUT INSIDE AN ENUM TYPEDEF BLOCK: any blank run before the first label, after every comma and after the last label
   (labels on one line or on several); the block is read as the enum (etd_reads: isolated by the pre-passes, the enum
   scanner returns the type name and exactly the labels) *)
Theorem C02_enum_block_layout : forall e lead gaps trail,
  enum_ok e = true -> forallb wsch lead = true -> forallb (forallb wsch) gaps = true -> forallb wsch trail = true ->
  no_td (ebody lead (e_labels e) gaps trail) = true ->
  etd_reads e (ebody lead (e_labels e) gaps trail) (upper (e_tname e)).
Proof. exact ebody_etd_reads. Qed.
Print Assumptions C02_enum_block_layout.

Theorem C02_canonical_enum_reads : forall e, enum_ok e = true -> etd_reads e (fst (enum_td e)) (snd (enum_td e)).
Proof. exact canonical_etd_reads. Qed.
Print Assumptions C02_canonical_enum_reads.

(* composition principle with free typedef blocks: ANY text of well-formed items whose struct typedefs are read as the
   document's tables, whose enum typedefs are read as the document's enums and whose lines drive the line loop to the
   document's pairs and rows is read as the document; only the typedef TEXTS reported by the read are those of the file *)
Theorem C02_typedef_layout_composition : forall d tws bns ebns its st',
  doc_ok d = true -> map fst tws = d_tables d -> tws_ok (d_enums d) tws ->
  Forall2 (fun tw bn => td_reads (d_enums d) (fst tw) (fst bn) (snd bn)) tws bns ->
  Forall2 (fun e bn => etd_reads e (fst bn) (snd bn)) (d_enums d) ebns ->
  Forall item_good its -> its <> [] ->
  map item_td_text (filter (item_is_td KW_STRUCT) its) = map btext bns ->
  map item_td_text (filter (item_is_td KW_ENUM) its) = map ebtext ebns ->
  process_lines (sy_of (d_enums d) tws) (st_init (sy_of (d_enums d) tws)) (map item_line its ++ [[]]) = Some st' ->
  loop_result d st' ->
  exists p, sem d = Some p /\ parse (items_text its) = Some (with_texts p (map ebtext ebns) (map btext bns)) /\
            parse_binary (items_text its) = Some (with_texts p (map ebtext ebns) (map btext bns)).
Proof. exact parse_items_td. Qed.
Print Assumptions C02_typedef_layout_composition.

(* FILE LEVEL, round 3 (supersedes C02_layout_independence_partial): the file is ANY sequence l of its core items --
   keyword pairs, data rows, struct typedefs in any layout td_reads accepts, enum typedefs in any layout etd_reads accepts
   -- that keeps the pairs in order, every table's rows in order (trs_ok), the struct typedefs in table order and the enum
   typedefs in order: typedefs and pairs may stand anywhere, also after data rows.  On top of it every decoration of idec:
   any data row in any admissible token layout, indentation, trailing blanks and a trailing comment on every pair / row
   line, comment and blank lines inserted anywhere.  Then parse and parse_binary of the text = sem d, reporting the
   typedef texts of the file *)
Theorem C02_layout_independence_partial2 : forall d tws l Ds,
  doc_ok d = true -> map fst tws = d_tables d -> tws_ok (d_enums d) tws ->
  skel_ok d tws l -> idec (sy_of (d_enums d) tws) Ds (map sk_item l) -> Ds <> [] ->
  exists p, sem d = Some p /\
            parse (items_text Ds) = Some (with_texts p (map ebtext (sk_enums l)) (map btext (sk_structs l))) /\
            parse_binary (items_text Ds) = Some (with_texts p (map ebtext (sk_enums l)) (map btext (sk_structs l))).
Proof. exact layout_file_skeleton. Qed.
Print Assumptions C02_layout_independence_partial2.

(* ---- non-vacuity (C02/Proofs.v, the ex2 definitions): the data row BEFORE the typedef of its table, the pair after the row, the typedef
   with a comment line, a trailing comment, blank runs, s<4> and a lower-case name ---- *)
Example C02_example2_typedef : td_reads (d_enums ex_doc) ex_table ex2_body ex2_name.
Proof. exact example2_typedef. Qed.
Example C02_example2_skeleton : skel_ok ex_doc ex_tws ex2_skel.
Proof. exact example2_skeleton. Qed.
Example C02_example2_layout : idec (sy_of (d_enums ex_doc) ex_tws) ex2_items (map sk_item ex2_skel).
Proof. exact example2_layout. Qed.
Example C02_example2_reads_as_the_document :
  match sem ex_doc with
  | Some p => parse (items_text ex2_items) = Some (with_texts p [] [td_text KW_STRUCT ex2_body ex2_name])
  | None => False
  end.
Proof. exact example2_reads_as_the_document. Qed.

(* a third file: the enum typedef on one line (blanks after the brace and the comma) AFTER the struct that uses it and after
   the data row; the struct with n<2> and a lower-case name *)
Example C02_example3_enum : etd_reads ex3_enum ex3_ebody (bs "STATUS"%string).
Proof. exact example3_enum. Qed.
Example C02_example3_skeleton : doc_ok ex3_doc = true /\ skel_ok ex3_doc ex3_tws ex3_skel.
Proof. exact (conj (proj1 example3_in_domain) example3_skeleton). Qed.
Example C02_example3_reads_as_the_document :
  match sem ex3_doc with
  | Some p => parse (items_text (map sk_item ex3_skel))
              = Some (with_texts p [td_text KW_ENUM ex3_ebody (bs "STATUS"%string)] [td_text KW_STRUCT ex3_sbody (bs "obj"%string)])
  | None => False
  end.
Proof. exact example3_reads_as_the_document. Qed.

(* ================================================================== round 5: continuations in any number, a missing final
   newline -- both composed with the file-level theorem *)
From PV Require Import Yanny.ContMany Yanny.NoFinalNL.
Open Scope list_scope.

(* ANY NUMBER of backslash continuations (CR-free text): a text cut at n places by continuations (backslash, blanks,
   newline, indentation) reads like the text with one blank + the indentation at every cut *)
Theorem C02_continuations_file : forall segs B,
  Forall cseg_ok segs -> conts_heads_ok segs B -> mem CR (with_conts segs B) = false ->
  parse (with_conts segs B) = parse (with_blanks segs B) /\ parse_binary (with_conts segs B) = parse_binary (with_blanks segs B).
Proof. exact continuations_file. Qed.
Print Assumptions C02_continuations_file.

(* the head condition is met whenever every piece after a continuation starts with a non-blank (or is empty) *)
Theorem C02_continuations_heads : forall segs B,
  head_not_ws B -> Forall (fun s => head_not_ws (fst (fst s))) (tl segs) -> conts_heads_ok segs B.
Proof. exact conts_heads_suff. Qed.
Print Assumptions C02_continuations_heads.

(* FILE LEVEL, round 5 (extends C02_layout_independence_partial2): every file of partial2 -- any skeleton of pairs, rows,
   struct and enum typedefs in any admissible layout, every decoration of idec -- in which ANY NUMBER of its blank runs are
   replaced by backslash continuations (with_blanks segs B is the file of partial2, with_conts segs B the file read) *)
Theorem C02_layout_independence_partial3 : forall d tws l Ds segs B,
  doc_ok d = true -> map fst tws = d_tables d -> tws_ok (d_enums d) tws ->
  skel_ok d tws l -> idec (sy_of (d_enums d) tws) Ds (map sk_item l) -> Ds <> [] ->
  Forall cseg_ok segs -> conts_heads_ok segs B -> mem CR (with_conts segs B) = false ->
  with_blanks segs B = items_text Ds ->
  exists p, sem d = Some p /\
    parse (with_conts segs B) = Some (with_texts p (map ebtext (sk_enums l)) (map btext (sk_structs l))) /\
    parse_binary (with_conts segs B) = Some (with_texts p (map ebtext (sk_enums l)) (map btext (sk_structs l))).
Proof. exact layout_file_skeleton_conts. Qed.
Print Assumptions C02_layout_independence_partial3.

(* a MISSING FINAL NEWLINE: any text of well-formed items whose last line is not terminated reads like the terminated one *)
Theorem C02_no_final_newline : forall its l, Forall item_good (its ++ [ILine l]) -> l <> [] ->
  parse (items_text its ++ l) = parse (items_text (its ++ [ILine l])) /\
  parse_binary (items_text its ++ l) = parse_binary (items_text (its ++ [ILine l])).
Proof. exact no_final_newline. Qed.
Print Assumptions C02_no_final_newline.

(* FILE LEVEL: every file of partial2 whose last item is a line (a pair, a data row in any layout, a comment), that line
   NOT terminated by a newline *)
Theorem C02_layout_independence_no_final_newline : forall d tws l Ds0 ll,
  doc_ok d = true -> map fst tws = d_tables d -> tws_ok (d_enums d) tws ->
  skel_ok d tws l -> idec (sy_of (d_enums d) tws) (Ds0 ++ [ILine ll]) (map sk_item l) -> ll <> [] ->
  exists p, sem d = Some p /\
    parse (items_text Ds0 ++ ll) = Some (with_texts p (map ebtext (sk_enums l)) (map btext (sk_structs l))) /\
    parse_binary (items_text Ds0 ++ ll) = Some (with_texts p (map ebtext (sk_enums l)) (map btext (sk_structs l))).
Proof. exact layout_file_skeleton_nonl. Qed.
Print Assumptions C02_layout_independence_no_final_newline.

(* ---- non-vacuity (C02/Proofs.v, the ex4 definitions): typedef, pair, then the decorated data row as the last, unterminated
   line; and the same file with two continuations inside that row ---- *)
Example C02_example4_skeleton : skel_ok ex_doc ex_tws ex4_skel.
Proof. exact example4_skeleton. Qed.
Example C02_example4_layout : idec (sy_of (d_enums ex_doc) ex_tws) (ex4_items0 ++ [ILine ex_row]) (map sk_item ex4_skel).
Proof. exact example4_layout. Qed.
Example C02_example4_no_final_newline :
  ex_row <> [] /\
  match sem ex_doc with
  | Some p => parse (items_text ex4_items0 ++ ex_row) = Some (with_texts p [] [td_text KW_STRUCT ex2_body ex2_name])
  | None => False
  end.
Proof. exact example4_no_final_newline. Qed.
Example C02_example4_continuations :
  with_blanks ex4_segs ex4_B = items_text ex4_items /\ Forall cseg_ok ex4_segs /\ conts_heads_ok ex4_segs ex4_B /\
  mem CR (with_conts ex4_segs ex4_B) = false /\
  match sem ex_doc with
  | Some p => parse (with_conts ex4_segs ex4_B) = Some (with_texts p [] [td_text KW_STRUCT ex2_body ex2_name])
  | None => False
  end.
Proof. exact example4_continuations. Qed.
Example C02_continuations_example : Forall cseg_ok conts_ex_segs /\ conts_heads_ok conts_ex_segs conts_ex_B /\
  mem CR (with_conts conts_ex_segs conts_ex_B) = false /\
  with_conts conts_ex_segs conts_ex_B = bs "FOO 1\ "%string ++ [NL] ++ bs "  2\"%string ++ [NL; TAB] ++ bs "3"%string ++ [NL] /\
  with_blanks conts_ex_segs conts_ex_B = bs "FOO 1   2 "%string ++ [TAB] ++ bs "3"%string ++ [NL].
Proof. exact conts_example. Qed.

(* round 5 defect (replayed on the real code: dtype S11; repair fixes/C02-enum-block-comments.diff): without the repair a comment
   inside an ENUM block is taken into the next label, so the enum column is sized by the comment; the reader model follows the
   source shape through the generated flag yanny_enum_strips_comments, so this example holds for both shapes *)
Example C02_enum_block_comment_changes_the_width :
  option_map (fun p => map (fun t => map pc_np (pt_cols t)) (pd_tables p)) (parse ex5_text)
  = Some [[NS (if PV.Generated.YannyLits.yanny_enum_strips_comments then 5 else 11); NI4]].
Proof. exact enum_block_comment_changes_the_width. Qed.

(* round 5, the repaired shape of isenum() (Parse.drop_hash_comments, used by Parse.enum_entry iff the generated flag
   yanny_enum_strips_comments is true): a comment after hash-free text inside an enum block reads as nothing, its line end
   stays -- so the labels are those of the block without the comment *)
From PV Require Import Yanny.EnumComments.
Theorem C02_enum_block_comment_dropped : forall a c r, mem HASH a = false -> mem NL c = false ->
  drop_hash_comments false (a ++ HASH :: c ++ NL :: r) = a ++ NL :: drop_hash_comments false r.
Proof. exact enum_comment_dropped. Qed.
Print Assumptions C02_enum_block_comment_dropped.

Theorem C02_enum_block_comment_free : forall a c r, mem HASH a = false -> mem NL c = false -> mem HASH r = false ->
  enum_body_of true (a ++ HASH :: c ++ NL :: r) = enum_body_of true (a ++ NL :: r).
Proof. exact enum_body_comment_free. Qed.
Print Assumptions C02_enum_block_comment_free.
