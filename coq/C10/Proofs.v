(* C10 proofs beyond BSpline/IterProofs.v: the cheap evaluator agrees with the certified-unique solver
   through the whole loop, and the returned curve is the least-squares optimum over the kept points. *)
From Coq Require Import QArith Qround Qabs Lqa List Bool Arith Lia.
Import ListNotations.
From PV Require Import Lib.WLS BSpline.Eval BSpline.EvalProofs BSpline.Fit BSpline.Iter BSpline.FitProofs
  BSpline.PermProofs BSpline.IterProofs C09.Proofs C10.Model.
Open Scope Q_scope.

(* ---- fit_fast (used to evaluate the model in the correspondence run) and fit_dense (used in the theorems)
   drive the loop to the same masks and to pointwise-equal coefficients *)
Theorem iter_loop_fast_agrees gb k lower upper ds :
  (1 <= k)%nat -> (2 * k <= length gb)%nat ->
  forall fuel mask c1 m1 c2 m2,
  iter_loop fit_dense fuel gb k lower upper ds mask = Some (c1, m1) ->
  iter_loop fit_fast fuel gb k lower upper ds mask = Some (c2, m2) ->
  m1 = m2 /\ Forall2 Qeq c2 c1.
Proof.
  intros Hk Hg. induction fuel as [|f IH]; intros mask c1 m1 c2 m2 H1 H2; [discriminate|].
  rewrite iter_loop_S in H1, H2.
  destruct (fit_masked fit_dense gb k ds mask) as [cd|] eqn:Ed; [|discriminate].
  destruct (fit_masked fit_fast gb k ds mask) as [cf|] eqn:Ef; [|discriminate].
  assert (Hv : Forall2 Qeq cf cd).
  { unfold fit_masked, fit_coeff_with in Ed, Ef.
    apply (fit_fast_agrees _ _ cd cf) in Ef; [exact Ef| |exact Ed].
    unfold fit_obs. apply rows_len_mk_obs. apply design_rows_length; assumption. }
  assert (Hr : reject lower upper ds (yfit_of gb k cf (map dx ds)) mask
               = reject lower upper ds (yfit_of gb k cd (map dx ds)) mask).
  { apply reject_ext; [reflexivity | apply yfit_of_Veq; exact Hv | intros; reflexivity]. }
  rewrite Hr in H2.
  destruct (mask_eqb (reject lower upper ds (yfit_of gb k cd (map dx ds)) mask) mask || (f =? 0)%nat).
  - inversion H1; inversion H2; subst. split; [reflexivity | exact Hv].
  - exact (IH _ _ _ _ _ H1 H2).
Qed.

Corollary iterfit_model_fast_agrees maxiter lower upper gb k ds perm c1 m1 c2 m2 :
  (1 <= k)%nat -> (2 * k <= length gb)%nat ->
  iterfit_model maxiter lower upper gb k ds perm = Some (c1, m1) ->
  iterfit_model_fast maxiter lower upper gb k ds perm = Some (c2, m2) ->
  m1 = m2 /\ Forall2 Qeq c2 c1.
Proof.
  intros Hk Hg H1 H2. unfold iterfit_model, iterfit_model_fast, iterfit_model_with in *.
  destruct (iter_loop fit_dense _ _ _ _ _ _ _) as [[cd md]|] eqn:Ed; [|discriminate].
  destruct (iter_loop fit_fast _ _ _ _ _ _ _) as [[cf mf]|] eqn:Ef; [|discriminate].
  destruct (iter_loop_fast_agrees gb k lower upper _ Hk Hg _ _ _ _ _ _ Ed Ef) as [Hm Hc].
  inversion H1; inversion H2; subst. split; [reflexivity | exact Hc].
Qed.

(* ---- weights seen by any fit of the loop are non-negative: w where the mask is true (then w > 0), else 0 *)
Lemma masked_weights_nonneg ds : forall mask,
  (forall i, nth i mask false = true -> nth i (initial_mask ds) false = true) ->
  Forall (fun w => 0 <= w) (masked_weights (map dw ds) mask).
Proof.
  unfold masked_weights. induction ds as [|d ds IH]; intros mask H; [constructor|].
  destruct mask as [|b mask]; [constructor|]. cbn [map combine fst snd]. constructor.
  - destruct b; [|apply Qle_refl].
    specialize (H 0%nat eq_refl). cbn in H. apply Qltb_lt in H. apply Qlt_le_weak. exact H.
  - apply IH. intros i Hi. exact (H (S i) Hi).
Qed.

(* after convergence the returned coefficients are THE weighted least-squares optimum over the points the
   returned mask keeps (rejected and non-positively weighted points carry weight 0) *)
Theorem converged_curve_is_optimal_fit gb k lower upper ds fuel c m' :
  (1 <= k)%nat -> (2 * k <= length gb)%nat -> sortedQ (map dx ds) = true ->
  (count_true (initial_mask ds) < fuel)%nat ->
  iter_loop fit_dense fuel gb k lower upper ds (initial_mask ds) = Some (c, m') ->
  let D := fit_obs gb k (map dx ds) (map dy ds) (masked_weights (map dw ds) m') in
  reject lower upper ds (yfit_of gb k c (map dx ds)) m' = m' /\
  forall z, length z = (length gb - k)%nat -> chi2 D c <= chi2 D z.
Proof.
  intros Hk Hg Hs Hfuel Hloop D.
  assert (Hlen : length (initial_mask ds) = length ds) by (unfold initial_mask; apply map_length).
  destruct (iter_loop_ends_by_convergence fit_dense fuel gb k lower upper ds _ c m' Hlen Hfuel Hloop) as [Hfit Hfix].
  destruct (iter_loop_monotone fit_dense fuel gb k lower upper ds _ c m' Hloop Hlen) as [Hmono _].
  split; [exact Hfix|].
  intros z Hz. unfold D.
  apply (bspline_fit_optimal gb k (map dx ds) (map dy ds) _ c Hk Hg Hs); [|exact Hfit|exact Hz].
  apply masked_weights_nonneg. exact Hmono.
Qed.
