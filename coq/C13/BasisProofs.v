(* C13: the recurrences of the model are the textbook polynomials (exact, over Q). *)
From Coq Require Import QArith Qpower Qabs Lqa List Bool Lia ZArith.
From PV Require Import Lib.WLS C13.LinAlg C13.LinAlgProofs Generated.Trace C13.Model.
Import ListNotations.
Open Scope Q_scope.

Definition Qn (n : nat) : Q := inject_Z (Z.of_nat n).

Lemma Qn_add a b : Qn (a + b) == Qn a + Qn b.
Proof. unfold Qn. rewrite Nat2Z.inj_add, inject_Z_plus. reflexivity. Qed.
Lemma Qn_mul a b : Qn (a * b) == Qn a * Qn b.
Proof. unfold Qn. rewrite Nat2Z.inj_mul, inject_Z_mult. reflexivity. Qed.
Lemma Qn_nonneg a : 0 <= Qn a.
Proof. unfold Qn, Qle. simpl. lia. Qed.
Lemma Qn_S_nz a : ~ Qn (S a) == 0.
Proof. unfold Qn, Qeq. simpl. lia. Qed.
Lemma Qn_plus2_nz a : ~ Qn (a + 2) == 0.
Proof. replace (a + 2)%nat with (S (S a)) by lia. apply Qn_S_nz. Qed.

(* ------------------------------------------------------------------ unfolding lemmas *)
Lemma legendre_rec_SS n x :
  legendre_rec (S (S n)) x = (Qn (2 * n + 3) * x * legendre_rec (S n) x - Qn (n + 1) * legendre_rec n x) / Qn (n + 2).
Proof. reflexivity. Qed.
Lemma chebyshev_rec_SS n x : chebyshev_rec (S (S n)) x = 2 * x * chebyshev_rec (S n) x - chebyshev_rec n x.
Proof. reflexivity. Qed.
Lemma chebyshev_split_SSS n x :
  chebyshev_split (S (S (S n))) x = 2 * x * chebyshev_split (S (S n)) x - chebyshev_split (S n) x.
Proof. reflexivity. Qed.

(* Bonnet's recurrence, division-free *)
Lemma legendre_bonnet n x :
  Qn (n + 2) * legendre_rec (S (S n)) x == Qn (2 * n + 3) * x * legendre_rec (S n) x - Qn (n + 1) * legendre_rec n x.
Proof. rewrite legendre_rec_SS. field. apply Qn_plus2_nz. Qed.

Lemma pair_induction (P : nat -> Prop) :
  P O -> P 1%nat -> (forall n, P n -> P (S n) -> P (S (S n))) -> forall n, P n.
Proof.
  intros H0 H1 HS n. assert (H : P n /\ P (S n)); [|tauto].
  induction n as [|n [IH1 IH2]]; split; auto.
Qed.

Lemma legendre_at_one n : legendre_rec n 1 == 1.
Proof.
  induction n as [| |n IH1 IH2] using pair_induction; try reflexivity.
  rewrite legendre_rec_SS, IH1, IH2.
  replace (2 * n + 3)%nat with ((n + 2) + (n + 1))%nat by lia. rewrite Qn_add.
  field. apply Qn_plus2_nz.
Qed.

Definition psign (n : nat) : Q := if Nat.even n then 1 else -1.
Lemma psign_SS n : psign (S (S n)) = psign n.
Proof. reflexivity. Qed.
Lemma psign_S n : psign (S n) == - psign n.
Proof.
  unfold psign. rewrite Nat.even_succ, <- Nat.negb_even. destruct (Nat.even n); simpl; ring.
Qed.

Lemma legendre_parity n x : legendre_rec n (- x) == psign n * legendre_rec n x.
Proof.
  induction n as [| |n IH1 IH2] using pair_induction.
  - unfold psign; simpl; ring.
  - unfold psign; simpl; ring.
  - rewrite !legendre_rec_SS, IH1, IH2, psign_SS, psign_S. field. apply Qn_plus2_nz.
Qed.

Lemma chebyshev_parity n x : chebyshev_rec n (- x) == psign n * chebyshev_rec n x.
Proof.
  induction n as [| |n IH1 IH2] using pair_induction.
  - unfold psign; simpl; ring.
  - unfold psign; simpl; ring.
  - rewrite !chebyshev_rec_SS, IH1, IH2, psign_SS, psign_S. ring.
Qed.

Lemma chebyshev_at_one n : chebyshev_rec n 1 == 1.
Proof.
  induction n as [| |n IH1 IH2] using pair_induction; try reflexivity.
  rewrite chebyshev_rec_SS, IH1, IH2. ring.
Qed.

(* ------------------------------------------------------------------ monomials *)
(* fpoly as written in the source: ones, leg[1] = x, leg[k] = leg[k-1] * x *)
Lemma monomial_SS n x : monomial (S (S n)) x = monomial (S n) x * x.
Proof. reflexivity. Qed.
Lemma monomial_is_pow n x : monomial n x == x ^ Z.of_nat n.
Proof.
  induction n as [| |n IH1 IH2] using pair_induction.
  - reflexivity.
  - reflexivity.
  - rewrite monomial_SS, IH2.
    rewrite (Nat2Z.inj_succ (S n)), <- Z.add_1_r. rewrite Qpower_plus' by lia.
    change (x ^ 1) with x. reflexivity.
Qed.

(* ------------------------------------------------------------------ fchebyshev_split *)
Lemma chebyshev_split_0 x : chebyshev_split 0 x = step01 x.
Proof. reflexivity. Qed.
Lemma chebyshev_split_S n x : chebyshev_split (S n) x == chebyshev_rec n x.
Proof.
  induction n as [| |n IH1 IH2] using pair_induction; try reflexivity.
  rewrite chebyshev_split_SSS, chebyshev_rec_SS, IH1, IH2. reflexivity.
Qed.

(* ------------------------------------------------------------------ polynomials as coefficient lists *)
Fixpoint padd (p q : list Q) : list Q :=
  match p, q with
  | [], _ => q
  | _, [] => p
  | a :: p', b :: q' => (a + b) :: padd p' q'
  end.
Definition pscale (c : Q) (p : list Q) : list Q := map (Qmult c) p.
Definition pshift (p : list Q) : list Q := 0 :: p.

Lemma peval_padd p q x : peval (padd p q) x == peval p x + peval q x.
Proof.
  revert q; induction p as [|a p IH]; intros [|b q]; simpl; try ring.
  rewrite IH. ring.
Qed.
Lemma peval_pscale c p x : peval (pscale c p) x == c * peval p x.
Proof. induction p as [|a p IH]; simpl; [ring|]. unfold pscale in IH. rewrite IH. ring. Qed.
Lemma peval_pshift p x : peval (pshift p) x == x * peval p x.
Proof. simpl. ring. Qed.
Lemma peval_veq p q x : veq p q -> peval p x == peval q x.
Proof. induction 1 as [|a b p q Hab _ IH]; simpl; [reflexivity|]. rewrite Hab, IH. reflexivity. Qed.

Fixpoint legendre_poly (n : nat) : list Q :=
  match n with
  | O => [1]
  | S n' =>
      match n' with
      | O => [0; 1]
      | S n'' => pscale (/ Qn (n'' + 2))
                   (padd (pscale (Qn (2 * n'' + 3)) (pshift (legendre_poly n')))
                         (pscale (- Qn (n'' + 1)) (legendre_poly n'')))
      end
  end.
Lemma legendre_poly_SS n :
  legendre_poly (S (S n)) = pscale (/ Qn (n + 2)) (padd (pscale (Qn (2 * n + 3)) (pshift (legendre_poly (S n))))
                                                     (pscale (- Qn (n + 1)) (legendre_poly n))).
Proof. reflexivity. Qed.

Lemma legendre_poly_ok n x : legendre_rec n x == peval (legendre_poly n) x.
Proof.
  induction n as [| |n IH1 IH2] using pair_induction.
  - simpl. ring.
  - simpl. ring.
  - rewrite legendre_rec_SS, legendre_poly_SS, peval_pscale, peval_padd, !peval_pscale, peval_pshift, <- IH1, <- IH2.
    field. apply Qn_plus2_nz.
Qed.

Fixpoint chebyshev_poly (n : nat) : list Q :=
  match n with
  | O => [1]
  | S n' =>
      match n' with
      | O => [0; 1]
      | S n'' => padd (pscale 2 (pshift (chebyshev_poly n'))) (pscale (- (1)) (chebyshev_poly n''))
      end
  end.
Lemma chebyshev_poly_SS n :
  chebyshev_poly (S (S n)) = padd (pscale 2 (pshift (chebyshev_poly (S n)))) (pscale (- (1)) (chebyshev_poly n)).
Proof. reflexivity. Qed.

Lemma chebyshev_poly_ok n x : chebyshev_rec n x == peval (chebyshev_poly n) x.
Proof.
  induction n as [| |n IH1 IH2] using pair_induction.
  - simpl. ring.
  - simpl. ring.
  - rewrite chebyshev_rec_SS, chebyshev_poly_SS, peval_padd, !peval_pscale, peval_pshift, <- IH1, <- IH2. ring.
Qed.

(* the recurrences equal the closed-form coefficient tables, as polynomial identities (all x), for every order the
   property quantifies over (and one more) *)
Lemma legendre_closed_form n x : (n <= 12)%nat -> legendre_rec n x == legendre_explicit n x.
Proof.
  intros H. unfold legendre_explicit. rewrite legendre_poly_ok. apply peval_veq.
  do 13 (destruct n as [|n]; [apply veq_bool_sound; vm_compute; reflexivity|]). lia.
Qed.

Lemma chebyshev_closed_form n x : (n <= 12)%nat -> chebyshev_rec n x == chebyshev_explicit n x.
Proof.
  intros H. unfold chebyshev_explicit. rewrite chebyshev_poly_ok. apply peval_veq.
  do 13 (destruct n as [|n]; [apply veq_bool_sound; vm_compute; reflexivity|]). lia.
Qed.

(* the first few in the familiar form *)
Lemma legendre_2 x : legendre_rec 2 x == (3 * x * x - 1) / 2.
Proof. rewrite legendre_rec_SS. unfold Qn. simpl. field. Qed.
Lemma legendre_3 x : legendre_rec 3 x == (5 * x * x * x - 3 * x) / 2.
Proof. rewrite !legendre_rec_SS. unfold Qn. simpl. field. Qed.
Lemma chebyshev_3 x : chebyshev_rec 3 x == 4 * x * x * x - 3 * x.
Proof. rewrite !chebyshev_rec_SS. simpl. ring. Qed.

(* flegendre / fchebyshev as written in the source (ones, row 1 = x, polyval of the scipy family of degree k) are
   the Legendre / Chebyshev recurrences *)
Lemma flegendre_row_is_legendre k x : flegendre_row k x == legendre_rec k x.
Proof. destruct k as [|[|k]]; reflexivity. Qed.
Lemma fchebyshev_row_is_chebyshev k x : fchebyshev_row k x == chebyshev_rec k x.
Proof. destruct k as [|[|k]]; reflexivity. Qed.

(* M's basis = S's basis for every order up to 12 (degree k <= 12; ChebSplit: k <= 13) *)
Lemma basis_is_spec f k x : (k <= 12)%nat -> basis f k x == basis_spec f k x.
Proof.
  intros H. destruct f; simpl.
  - rewrite flegendre_row_is_legendre. apply legendre_closed_form; exact H.
  - rewrite fchebyshev_row_is_chebyshev. apply chebyshev_closed_form; exact H.
  - apply monomial_is_pow.
  - destruct k as [|k]; [reflexivity|]. rewrite chebyshev_split_S. apply chebyshev_closed_form. lia.
Qed.

(* ------------------------------------------------------------------ all orders: characterisation and degree *)
(* Bonnet's recursion with P_0 = 1, P_1 = x (the textbook definition by recursion, Abramowitz-Stegun 8.5.3) has exactly
   one solution: the model's sequence.  Likewise T_0 = 1, T_1 = x, T_{n+2} = 2x T_{n+1} - T_n (A-S 22.7.4). *)
Lemma legendre_characterised (P : nat -> Q -> Q) :
  (forall x, P 0%nat x == 1) -> (forall x, P 1%nat x == x) ->
  (forall n x, Qn (n + 2) * P (S (S n)) x == Qn (2 * n + 3) * x * P (S n) x - Qn (n + 1) * P n x) ->
  forall n x, P n x == legendre_rec n x.
Proof.
  intros H0 H1 HB n x. induction n as [| |n IH1 IH2] using pair_induction.
  - apply H0.
  - apply H1.
  - apply (Qmult_inj_l _ _ (Qn (n + 2))); [apply Qn_plus2_nz|].
    rewrite HB, legendre_bonnet, IH1, IH2. reflexivity.
Qed.
Lemma chebyshev_characterised (T : nat -> Q -> Q) :
  (forall x, T 0%nat x == 1) -> (forall x, T 1%nat x == x) ->
  (forall n x, T (S (S n)) x == 2 * x * T (S n) x - T n x) ->
  forall n x, T n x == chebyshev_rec n x.
Proof.
  intros H0 H1 HR n x. induction n as [| |n IH1 IH2] using pair_induction.
  - apply H0.
  - apply H1.
  - rewrite HR, chebyshev_rec_SS, IH1, IH2. reflexivity.
Qed.

Lemma padd_length p : forall q, length (padd p q) = Nat.max (length p) (length q).
Proof. induction p as [|a p IH]; intros [|b q]; simpl; auto. Qed.
Lemma pscale_length c p : length (pscale c p) = length p.
Proof. unfold pscale. apply map_length. Qed.
Lemma legendre_poly_length n : length (legendre_poly n) = S n.
Proof.
  induction n as [| |n IH1 IH2] using pair_induction; [reflexivity | reflexivity |].
  rewrite legendre_poly_SS, pscale_length, padd_length, !pscale_length. unfold pshift. cbn [length]. rewrite IH1, IH2. lia.
Qed.
Lemma chebyshev_poly_length n : length (chebyshev_poly n) = S n.
Proof.
  induction n as [| |n IH1 IH2] using pair_induction; [reflexivity | reflexivity |].
  rewrite chebyshev_poly_SS, padd_length, !pscale_length. unfold pshift. cbn [length]. rewrite IH1, IH2. lia.
Qed.
(* every order: P_n and T_n are polynomials in x with n+1 coefficients (degree <= n) *)
Lemma legendre_is_polynomial n : exists p, length p = S n /\ forall x, legendre_rec n x == peval p x.
Proof. exists (legendre_poly n). split; [apply legendre_poly_length | intros x; apply legendre_poly_ok]. Qed.
Lemma chebyshev_is_polynomial n : exists p, length p = S n /\ forall x, chebyshev_rec n x == peval p x.
Proof. exists (chebyshev_poly n). split; [apply chebyshev_poly_length | intros x; apply chebyshev_poly_ok]. Qed.
