(* C03 round 6 -- the `comments` option of yanny.write() in all three forms (list / tuple of strings, ONE string, None).
   Model.do_write covers the list form (the header is one "# c" line per element).  Here: the text each form puts
   under the "#%yanny" line (comment_text), write() over that text (do_write_c), the SOURCE's write() skeleton
   (Generated/YannyOps.write_skel) executed with the comments value the caller passed (run_write_c), and the
   correspondence cases.  DEFINITIONS ONLY; proofs in C03/Comments.v. *)
From Coq Require Import String.
From Coq Require Import NArith ZArith List Bool.
Import ListNotations.
From PV Require Import Yanny.Bytes Yanny.Types Yanny.Parse Yanny.Render C03.SkelLang C03.Model C03.SkelSem.
Open Scope N_scope.
Open Scope list_scope.

Inductive cmt :=
  | CmtList (l : list bytes)                 (* a list / tuple of strings: "# c" per element, joined by newlines, one final newline *)
  | CmtStr (s : bytes)                       (* ONE string: verbatim; "# " in front unless it starts with '#', a final newline unless it has one *)
  | CmtNone (basefile clock : bytes).        (* None: the time-stamped default header *)

Definition S_CREATED : bytes := Eval compute in bs "# Created by pydl.pydlutils.yanny.yanny"%string.

Definition norm_str (s : bytes) : bytes :=
  let s1 := if starts_withb [HASH] s then s else HASH :: SP :: s in
  if ends_with [NL] s1 then s1 else s1 ++ [NL].

(* what follows the "#%yanny\n" line *)
Definition comment_text (c : cmt) : bytes :=
  match c with
  | CmtList l => join [NL] (map (fun x => HASH :: SP :: x) l) ++ [NL]
  | CmtStr s => norm_str s
  | CmtNone b t => [HASH; NL] ++ (HASH :: SP :: b) ++ [NL] ++ [HASH; NL] ++ S_CREATED ++ [NL] ++ [HASH; NL]
                   ++ (HASH :: SP :: t) ++ [NL] ++ [HASH; NL]
  end.

Definition render_obj_h (h : bytes) (p : pdoc) : bytes :=
  (S_MAGIC ++ [NL] ++ h) ++ concat (map render_pair (pd_pairs p))
  ++ render_block (pd_enums p) ++ render_block (pd_structs p) ++ [NL]
  ++ concat (map (fun t => concat (map (render_row (pt_name t)) (pt_rows t))) (pd_tables p)).

(* write(newfile, comments=<any form>) : Model.do_write with the header text of the form *)
Definition do_write_c (fs : fsys) (o : obj) (newfile : option path) (c : cmt) : fsys * obj * outcome :=
  let target := match newfile with Some q => q | None => o_file o end in
  match target with
  | [] => (fs, o, ValueErr)
  | _ =>
    match fs_get fs target with
    | Some _ => (fs, o, Refused)
    | None =>
        let t := render_obj_h (comment_text c) (o_state o) in
        let fs' := fs_set fs target t in
        match parse t with
        | Some p' => (fs', mkobj target t (o_raw o) p', Ok)
        | None => (fs', mkobj target t (o_raw o) (o_state o), Crashed)
        end
    end
  end.

(* the Python value the caller passes *)
Definition cmt_val (c : cmt) : val := match c with CmtList l => VList l | CmtStr s => VStr s | CmtNone _ _ => VNone end.
Definition cmt_clock (c : cmt) : bytes := match c with CmtNone _ t => t | _ => [] end.

(* par.write(newfile, comments=<value>) by EXECUTING a skeleton of write() *)
Definition run_write_c (skel : list st) (fs : fsys) (o : obj) (newfile : option path) (c : cmt) : fsys * obj * outcome :=
  finish (fs, o)
    (exec_list (cmt_clock c) skel
       (mkenv fs o [("newfile"%string, match newfile with Some p => VStr p | None => VNone end); ("comments"%string, cmt_val c)] false)).

(* the model of the call as the check evaluates it: list and string forms by executing the source's skeleton (the None
   branch computes its text with os.path.basename and an f-string, which the skeleton carries as opaque source text:
   that form is the hand transliteration comment_text (CmtNone ..), tied by the bytes of the written file) *)
Definition model_write_c (skel : list st) (fs : fsys) (o : obj) (newfile : option path) (c : cmt) : fsys * obj * outcome :=
  match c with CmtNone _ _ => do_write_c fs o newfile c | _ => run_write_c skel fs o newfile c end.

(* every line of a header text is a comment line (starts with '#'): such a text adds nothing to the content *)
Fixpoint lines_of (acc : bytes) (s : bytes) : list bytes :=
  match s with
  | [] => match acc with [] => [] | _ => [rev acc] end
  | c :: s' => if c =? NL then rev acc :: lines_of [] s' else lines_of (c :: acc) s'
  end.
Definition header_text_ok (h : bytes) : bool :=
  forallb (fun l => match l with c :: _ => c =? HASH | [] => false end && comment_ok l) (lines_of [] h).

(* ---- correspondence case: a history prefix run by Model.run, then ONE write with a comments value of any form.
   verdict +1: model differs from the implementation (outcome, file name, file bytes, object state);
           +2: the object after the write is not the history content before it (a write adds nothing: failing input);
           +4: header text outside header_text_ok (generator slip). *)
Inductive ccase :=
  CWriteC (d0 : doc) (p0 : path) (raw : bool) (extra : fsys) (pre : list op) (nf : option path) (c : cmt) (ob : obs).

Definition run_ccase (skel : list st) (x : ccase) : Z :=
  match x with
  | CWriteC d0 p0 raw extra pre nf c ob =>
      match init_state d0 p0 raw with
      | None => 8%Z
      | Some s =>
          let '(fs1, o1) := run (fst s ++ extra, snd s) pre in
          let '(fs, o, out) := model_write_c skel fs1 o1 nf c in
          let m := Z.eqb (out_code out) (ob_out ob) && beq (o_file o) (ob_file ob)
                   && opt_eqb beq (fs_get fs (o_file o)) (ob_bytes ob) && state_agrees (o_state o) (ob_state ob) in
          let sp := match spec_state d0 pre with Some p => state_agrees p (ob_state ob) | None => false end in
          ((if m then 0 else 1) + (if sp then 0 else 2) + (if header_text_ok (comment_text c) then 0 else 4))%Z
      end
  end.

From PV Require Generated.YannyOps.
Definition run_ccases (l : list ccase) : list Z := map (run_ccase YannyOps.write_skel) l.
