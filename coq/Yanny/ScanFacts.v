(* Yanny/ScanFacts.v -- the two pre-passes of _parse over the whole text of a rendered file:
   typedef extraction (findall / sub) and line splitting. *)
From Coq Require Import NArith ZArith List Bool Lia.
Import ListNotations.
From PV Require Import Yanny.Bytes Yanny.BytesFacts Yanny.Types Yanny.Parse Yanny.Render
  Yanny.TokenFacts Yanny.RowFacts.
Open Scope N_scope.

(* ---- a pattern cannot start in x and run over a separator character that is not in the pattern ---- *)
Lemma mem_tail c x p : mem c (x :: p) = false -> mem c p = false.
Proof. unfold mem. cbn [existsb]. intros H. now apply orb_false_iff in H as [_ H]. Qed.

Lemma starts_with_nil s : starts_with [] s = true.
Proof. reflexivity. Qed.

Lemma starts_with_cons x p y s : starts_with (x :: p) (y :: s) = (x =? y) && starts_with p s.
Proof. unfold starts_with. cbn [prefix]. destruct (x =? y); reflexivity. Qed.

Lemma starts_with_sep p : forall x c r, p <> [] -> mem c p = false -> starts_with p x = false ->
  starts_with p (x ++ c :: r) = false.
Proof.
  induction p as [|a p IH]; intros x c r Hp Hc Hx; [congruence|].
  destruct x as [|y x].
  - cbn [app]. rewrite starts_with_cons. unfold mem in Hc. cbn [existsb] in Hc. apply orb_false_iff in Hc as [Hc _].
    rewrite N.eqb_sym, Hc. reflexivity.
  - cbn [app]. rewrite starts_with_cons in *. destruct (a =? y) eqn:E; [|reflexivity]. cbn [andb] in *.
    destruct p as [|b p].
    + rewrite starts_with_nil in Hx. discriminate.
    + apply IH; auto; [discriminate|]. now apply mem_tail in Hc.
Qed.

Lemma contains_nil_false p : p <> [] -> contains p [] = false.
Proof. destruct p; [congruence|]. reflexivity. Qed.

Lemma contains_cons p y s : contains p (y :: s) = starts_with p (y :: s) || contains p s.
Proof. reflexivity. Qed.

Lemma contains_sep p x c r : p <> [] -> mem c p = false -> contains p x = false -> contains p r = false ->
  contains p (x ++ c :: r) = false.
Proof.
  intros Hp Hc. induction x as [|y x IH]; intros Hx Hr.
  - cbn [app]. rewrite contains_cons, Hr, orb_false_r. apply (starts_with_sep p [] c r Hp Hc).
    destruct p; [congruence|reflexivity].
  - cbn [app]. rewrite contains_cons in *. apply orb_false_iff in Hx as [H1 H2]. rewrite IH by auto.
    rewrite orb_false_r. apply (starts_with_sep p (y :: x) c r); auto.
Qed.

Lemma contains_app_nl p a b : p <> [] -> contains p a = false -> contains p b = false ->
  (exists a0 c, a = a0 ++ [c] /\ mem c p = false) \/ a = [] -> contains p (a ++ b) = false.
Proof.
  intros Hp Ha Hb H. destruct H as [H|H]; [|subst a; exact Hb]. destruct H as [a0 [c [E Hc]]]. subst a.
  rewrite <- app_assoc. cbn [app]. apply contains_sep; auto.
  (* contains p a0 = false from contains p (a0 ++ [c]) = false *)
  clear -Ha Hp. induction a0 as [|y a0 IH]; [now apply contains_nil_false|].
  cbn [app] in Ha. rewrite contains_cons in *. apply orb_false_iff in Ha as [H1 H2]. rewrite IH by auto. rewrite orb_false_r.
  unfold starts_with in *. destruct (prefix p (y :: a0)) eqn:E; auto.
  apply prefix_spec in E. change (y :: a0 ++ [c]) with ((y :: a0) ++ [c]) in H1. rewrite E in H1.
  rewrite <- app_assoc in H1. now rewrite prefix_app in H1.
Qed.

Definition no_td (s : bytes) : bool := negb (contains KW_TYPEDEF s).
Definition sep_ok (c : N) : bool := negb (mem c KW_TYPEDEF).

Lemma no_td_sep x c r : no_td x = true -> sep_ok c = true -> no_td r = true -> no_td (x ++ c :: r) = true.
Proof.
  unfold no_td, sep_ok. rewrite !negb_true_iff. intros. apply contains_sep; auto. discriminate.
Qed.
Lemma no_td_nil : no_td [] = true.
Proof. reflexivity. Qed.
Lemma no_td_no_t s : mem 116 s = false -> no_td s = true.
Proof. intros H. unfold no_td, KW_TYPEDEF. now rewrite contains_no_head. Qed.
Lemma no_td_end x c : no_td x = true -> sep_ok c = true -> no_td (x ++ [c]) = true.
Proof. intros. apply no_td_sep; auto. Qed.
Lemma no_td_cons c r : sep_ok c = true -> no_td r = true -> no_td (c :: r) = true.
Proof. intros. apply (no_td_sep [] c r); auto. Qed.

(* ---- scanning over text in which no typedef can start ---- *)
Lemma prefix_none_of_starts p s : starts_with p s = false -> prefix p s = None.
Proof. unfold starts_with. destruct (prefix p s); [discriminate|reflexivity]. Qed.

Lemma match_typedef_none kw s : starts_with KW_TYPEDEF s = false -> match_typedef kw s = None.
Proof. intros H. unfold match_typedef. now rewrite prefix_none_of_starts. Qed.

(* text a, ending in a separator, in which the keyword does not occur: both passes copy it *)
Lemma scan_plain kw a c b : no_td (a ++ [c]) = true -> sep_ok c = true ->
  findall_td kw 0 ((a ++ [c]) ++ b) = findall_td kw 0 b /\
  remove_td kw 0 ((a ++ [c]) ++ b) = (a ++ [c]) ++ remove_td kw 0 b.
Proof.
  intros Ha Hc. induction a as [|y a IH].
  - cbn [app]. cbn [findall_td remove_td].
    assert (M : match_typedef kw (c :: b) = None).
    { apply match_typedef_none. unfold KW_TYPEDEF. rewrite starts_with_cons. unfold sep_ok, mem, KW_TYPEDEF in Hc. cbn [existsb] in Hc.
      apply negb_true_iff in Hc. apply orb_false_iff in Hc as [Hc _]. rewrite N.eqb_sym in Hc. now rewrite Hc. }
    rewrite M. split; reflexivity.
  - cbn [app] in *. assert (Ha' : no_td (a ++ [c]) = true).
    { unfold no_td in *. apply negb_true_iff in Ha. rewrite contains_cons in Ha. apply orb_false_iff in Ha as [_ Ha]. now rewrite Ha. }
    destruct (IH Ha') as [I1 I2]. cbn [findall_td remove_td].
    assert (M : match_typedef kw (y :: (a ++ [c]) ++ b) = None).
    { apply match_typedef_none. change (y :: (a ++ [c]) ++ b) with ((y :: a) ++ c :: b) || idtac.
      replace (y :: (a ++ [c]) ++ b) with ((y :: a) ++ c :: b) by (cbn [app]; now rewrite <- app_assoc).
      apply starts_with_sep; [discriminate| |].
      - unfold sep_ok in Hc. now apply negb_true_iff in Hc.
      - unfold no_td in Ha. apply negb_true_iff in Ha. rewrite contains_cons in Ha. apply orb_false_iff in Ha as [Ha _].
        unfold starts_with in *. destruct (prefix KW_TYPEDEF (y :: a)) eqn:E; auto.
        apply prefix_spec in E. change (y :: a ++ [c]) with ((y :: a) ++ [c]) in Ha. rewrite E in Ha.
        rewrite <- app_assoc in Ha. now rewrite prefix_app in Ha. }
    rewrite M. rewrite I1, I2. split; reflexivity.
Qed.

(* ---- a rendered typedef ---- *)
Definition td_text (kw body name : bytes) : bytes :=
  KW_TYPEDEF ++ [SP] ++ kw ++ [SP; LBRACE] ++ body ++ [RBRACE; SP] ++ name ++ [SEMI].

Lemma findall_skip kw m : forall b, findall_td kw (length m) (m ++ b) = findall_td kw 0 b.
Proof. induction m as [|c m IH]; intros b; [reflexivity|]. cbn [length app findall_td]. apply IH. Qed.
Lemma remove_skip kw m : forall b, remove_td kw (length m) (m ++ b) = remove_td kw 0 b.
Proof. induction m as [|c m IH]; intros b; [reflexivity|]. cbn [length app remove_td]. apply IH. Qed.

Lemma match_typedef_text kw body name b :
  kw = KW_STRUCT \/ kw = KW_ENUM -> body <> [] -> mem RBRACE body = false -> name <> [] -> forallb is_word name = true ->
  match_typedef kw (td_text kw body name ++ b) = Some (td_text kw body name, body, name, b).
Proof.
  intros Hkw Hb Hr Hn Hw. unfold match_typedef, td_text. rewrite <- !app_assoc. rewrite prefix_app.
  cbn [app span]. change (is_ws SP) with true. cbv iota.
  assert (K : span is_ws (kw ++ SP :: LBRACE :: body ++ RBRACE :: SP :: name ++ SEMI :: b)
              = ([], kw ++ SP :: LBRACE :: body ++ RBRACE :: SP :: name ++ SEMI :: b)).
  { destruct Hkw as [-> | ->]; reflexivity. }
  rewrite K. rewrite prefix_app. cbn [span]. change (is_ws SP) with true. cbv iota.
  change (is_ws LBRACE) with false. cbv iota. change (LBRACE =? LBRACE) with true. cbv iota.
  rewrite span_app_stop; [| |unfold not_c; now rewrite N.eqb_refl].
  2:{ apply mem_false_forallb in Hr. eapply forallb_impl; [|exact Hr]. auto. }
  destruct body as [|b0 body]; [congruence|].
  cbn [span]. change (is_ws SP) with true. cbv iota.
  assert (Hh : head_not_ws (name ++ SEMI :: b)).
  { destruct name as [|c name]; [congruence|]. cbn [app head_not_ws]. cbn [forallb] in Hw. apply andb_true_iff in Hw as [Hc _].
    now apply word_not_ws. }
  assert (S1 : span is_ws (name ++ SEMI :: b) = ([], name ++ SEMI :: b)).
  { destruct (name ++ SEMI :: b) as [|c t]; [reflexivity|]. cbn [head_not_ws] in Hh. cbn [span]. now rewrite Hh. }
  rewrite S1. rewrite span_app_stop; auto. destruct name as [|n0 name]; [congruence|].
  cbn [span]. change (is_ws SEMI) with false. cbv iota. change (SEMI =? SEMI) with true. cbv iota. reflexivity.
Qed.

Lemma match_typedef_other kw kw' body name b : kw = KW_STRUCT /\ kw' = KW_ENUM \/ kw = KW_ENUM /\ kw' = KW_STRUCT ->
  match_typedef kw (td_text kw' body name ++ b) = None.
Proof.
  intros [[-> ->]|[-> ->]]; unfold match_typedef, td_text; rewrite <- !app_assoc; rewrite prefix_app; reflexivity.
Qed.

Lemma td_text_cons kw body name : exists t, td_text kw body name = 116 :: t /\
  t = [121; 112; 101; 100; 101; 102] ++ [SP] ++ kw ++ [SP; LBRACE] ++ body ++ [RBRACE; SP] ++ name ++ [SEMI].
Proof. eexists. split; reflexivity. Qed.

Lemma td_tail_no_td kw body name : kw = KW_STRUCT \/ kw = KW_ENUM -> no_td body = true -> no_td name = true ->
  no_td ([121; 112; 101; 100; 101; 102] ++ [SP] ++ kw ++ [SP; LBRACE] ++ body ++ [RBRACE; SP] ++ name ++ [SEMI]) = true.
Proof.
  intros Hkw Hb Hn. apply no_td_sep; [reflexivity|reflexivity|].
  apply no_td_sep; [destruct Hkw as [-> | ->]; reflexivity|reflexivity|].
  apply no_td_cons; [reflexivity|]. apply no_td_sep; [exact Hb|reflexivity|].
  apply no_td_cons; [reflexivity|]. now apply no_td_end.
Qed.

(* ---- the file as a sequence of segments ---- *)
Inductive seg := Plain (a : bytes) (c : N) | Td (kw body name : bytes).
Definition seg_text (s : seg) : bytes := match s with Plain a c => a ++ [c] | Td kw body name => td_text kw body name end.
Definition seg_ok (s : seg) : Prop :=
  match s with
  | Plain a c => no_td (a ++ [c]) = true /\ sep_ok c = true
  | Td kw body name => (kw = KW_STRUCT \/ kw = KW_ENUM) /\ body <> [] /\ mem RBRACE body = false /\ name <> [] /\
                       forallb is_word name = true /\ no_td body = true /\ no_td name = true
  end.
Definition flat (l : list seg) : bytes := concat (map seg_text l).
Definition is_td (kw : bytes) (s : seg) : bool := match s with Td kw' _ _ => beq kw kw' | Plain _ _ => false end.

Lemma kw_beq kw kw' : (kw = KW_STRUCT \/ kw = KW_ENUM) -> (kw' = KW_STRUCT \/ kw' = KW_ENUM) ->
  (beq kw kw' = true /\ kw = kw') \/ (beq kw kw' = false /\ (kw = KW_STRUCT /\ kw' = KW_ENUM \/ kw = KW_ENUM /\ kw' = KW_STRUCT)).
Proof. intros [-> | ->] [-> | ->]; [left|right|right|left]; split; auto. Qed.

Theorem scan_segs kw segs : kw = KW_STRUCT \/ kw = KW_ENUM -> Forall seg_ok segs ->
  findall_td kw 0 (flat segs) = map seg_text (filter (is_td kw) segs) /\
  remove_td kw 0 (flat segs) = flat (filter (fun s => negb (is_td kw s)) segs).
Proof.
  intros Hkw H. induction H as [|s segs Hs _ [I1 I2]]; [split; reflexivity|].
  unfold flat in *. cbn [map concat]. destruct s as [a c|kw' body name].
  - destruct Hs as [Ha Hc]. cbn [seg_text filter is_td negb map concat].
    destruct (scan_plain kw a c (concat (map seg_text segs)) Ha Hc) as [-> ->]. rewrite I1, I2. split; reflexivity.
  - destruct Hs as [Hk' [Hb [Hr [Hn [Hw [Nb Nn]]]]]]. cbn [seg_text filter is_td].
    destruct (kw_beq kw kw' Hkw Hk') as [[E <-]|[E Hd]]; rewrite E; cbn [negb map concat seg_text].
    + (* our kind: matched and skipped *)
      destruct (td_text_cons kw body name) as [t [Et _]].
      assert (M := match_typedef_text kw body name (concat (map seg_text segs)) Hkw Hb Hr Hn Hw).
      rewrite Et in *. cbn [app findall_td remove_td]. cbn [app] in M. rewrite M.
      cbn [length Nat.pred]. rewrite findall_skip, remove_skip. rewrite I1, I2. split; reflexivity.
    + (* the other kind: position 0 does not match, the rest cannot *)
      destruct (td_text_cons kw' body name) as [t [Et Ett]].
      assert (M := match_typedef_other kw kw' body name (concat (map seg_text segs)) Hd).
      rewrite Et in *. cbn [app findall_td remove_td]. cbn [app] in M. rewrite M.
      assert (T : no_td t = true) by (rewrite Ett; now apply td_tail_no_td).
      assert (exists t0, t = t0 ++ [SEMI]) as [t0 Et0].
      { rewrite Ett. eexists ([121; 112; 101; 100; 101; 102] ++ [SP] ++ kw' ++ [SP; LBRACE] ++ body ++ [RBRACE; SP] ++ name).
        now rewrite <- !app_assoc. }
      rewrite Et0 in *. destruct (scan_plain kw t0 SEMI (concat (map seg_text segs)) T eq_refl) as [-> ->].
      rewrite I1, I2. split; reflexivity.
Qed.

(* ---- lines ---- *)
Lemma split_on_line l rest : mem NL l = false -> split_on NL (l ++ NL :: rest) = l :: split_on NL rest.
Proof.
  induction l as [|c l IH]; intros H.
  - cbn [app split_on]. now rewrite N.eqb_refl.
  - apply mem_cons_false in H as [Hc Hl]. cbn [app split_on]. rewrite IH by auto. now rewrite Hc.
Qed.

Definition unlines (ls : list bytes) : bytes := concat (map (fun l => l ++ [NL]) ls).

Lemma split_on_unlines ls : forallb (fun l => negb (mem NL l)) ls = true -> split_on NL (unlines ls) = ls ++ [[]].
Proof.
  induction ls as [|l ls IH]; [reflexivity|]. cbn [forallb]. intros H. apply andb_true_iff in H as [Hl Hls].
  unfold unlines in *. cbn [map concat]. rewrite <- app_assoc. cbn [app]. rewrite split_on_line by (now apply negb_true_iff).
  now rewrite IH.
Qed.

Lemma unlines_app a b : unlines (a ++ b) = unlines a ++ unlines b.
Proof. unfold unlines. now rewrite map_app, concat_app. Qed.

Lemma process_lines_app sy st a b :
  process_lines sy st (a ++ b) = match process_lines sy st a with Some st' => process_lines sy st' b | None => None end.
Proof.
  revert st. induction a as [|l a IH]; intros st; [reflexivity|]. cbn [app process_lines].
  destruct (process_line sy st l); auto.
Qed.
