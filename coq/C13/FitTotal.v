(* C13: func_fit ANSWERS (in the model) on every well-posed problem -- at least two good points, non-negative weights,
   no shape error, and a basis of full column rank on the good points -- because the Gauss-Jordan elimination is
   complete (GJProofs).  Together with the optimality theorems this makes "the returned coefficients are the weighted
   least-squares coefficients" unconditional on the run-time checker of solve_checked. *)
From Coq Require Import QArith Qabs Lqa List Bool Lia ZArith.
From PV Require Import Lib.WLS C13.LinAlg C13.LinAlgProofs C13.GJProofs Generated.Trace C13.Model C13.FitProofs C13.FitProofs2 C13.FitGenProofs.
Import ListNotations.
Open Scope Q_scope.

Theorem fit_core_total rows w y ncfit ia ans :
  rows_len ncfit rows -> (ncfit <= length ia)%nat -> Forall (fun v => 0 <= v) w ->
  full_rank (count_true (firstn ncfit ia)) (free_problem rows w y (firstn ncfit ia) (fixed_part ans ia)) ->
  exists res yfit, fit_core rows w y ncfit ia ans = Some (res, yfit).
Proof.
  intros Hr Hl Hw FR. unfold fit_core.
  destruct (wls_solve_complete _ _ (free_problem_wf rows w y ncfit ia (fixed_part ans ia) Hr Hl Hw) FR) as [sol E].
  rewrite E. eexists. eexists. reflexivity.
Qed.

Theorem func_fit_ref_total f x y w ncoeff ia ans ifunc :
  (2 <= ngood_of y w)%nat -> (ncoeff <= length ia)%nat -> Forall (fun v => 0 <= v) w ->
  let ncfit := Nat.min (ngood_of y w) ncoeff in
  let rows := scale_rows ifunc (map (basis_row f ncfit) x) in
  let iaf := firstn ncfit ia in
  let D := free_problem rows w y iaf (fixed_part ans ia) in
  (forallb id iaf = true \/ (length ans = ncoeff /\ ncfit = ncoeff)) ->
  full_rank (count_true iaf) D ->
  exists res yfit, func_fit_ref f x y w ncoeff ia ans ifunc = Some (res, yfit).
Proof.
  unfold ngood_of, func_fit_ref. intros Hg Hia Hw.
  destruct (length (filter (fun p => Qlt_bool 0 (snd p)) (combine y w))) as [|[|k]] eqn:E; try lia.
  cbv zeta. intros Hshape FR.
  set (ncfit := Nat.min (S (S k)) ncoeff) in *.
  assert (Hs : negb (forallb id (firstn ncfit ia)) && negb (Nat.eqb (length ans) ncoeff && Nat.eqb ncfit ncoeff) = false).
  { destruct Hshape as [H|[H1 H2]].
    - rewrite H. reflexivity.
    - rewrite H1, H2, !Nat.eqb_refl. simpl. apply andb_false_r. }
  rewrite Hs.
  destruct (fit_core_total (scale_rows ifunc (map (basis_row f ncfit) x)) w y ncfit ia ans) as [res [yfit E2]].
  - apply rows_len_scale, rows_len_basis.
  - unfold ncfit. lia.
  - exact Hw.
  - exact FR.
  - rewrite E2. eexists. eexists. reflexivity.
Qed.

(* the same for func_fit as assembled from the source's expressions *)
Theorem func_fit_total f x y w ncoeff ia ans ifunc :
  (2 <= ngood_of y w)%nat -> (ncoeff <= length ia)%nat -> Forall (fun v => 0 <= v) w ->
  let ncfit := Nat.min (ngood_of y w) ncoeff in
  let rows := scale_rows ifunc (map (basis_row f ncfit) x) in
  let iaf := firstn ncfit ia in
  let D := free_problem rows w y iaf (fixed_part ans ia) in
  (forallb id iaf = true \/ (length ans = ncoeff /\ ncfit = ncoeff)) ->
  full_rank (count_true iaf) D ->
  exists res yfit, func_fit f x y w ncoeff ia ans ifunc = Some (res, yfit).
Proof. intros. rewrite func_fit_eq_ref. apply func_fit_ref_total; assumption. Qed.

(* unconditional optimality: on a well-posed problem func_fit answers AND the answer minimises the weighted chi-square
   of (data - fixed part) over all vectors of free coefficients; any other minimiser of the normal equations equals it *)
Theorem func_fit_total_optimal f x y w ncoeff ia ans ifunc :
  (2 <= ngood_of y w)%nat -> (ncoeff <= length ia)%nat -> Forall (fun v => 0 <= v) w ->
  let ncfit := Nat.min (ngood_of y w) ncoeff in
  let rows := scale_rows ifunc (map (basis_row f ncfit) x) in
  let iaf := firstn ncfit ia in
  let D := free_problem rows w y iaf (fixed_part ans ia) in
  (forallb id iaf = true \/ (length ans = ncoeff /\ ncfit = ncoeff)) ->
  full_rank (count_true iaf) D ->
  exists res yfit sol, func_fit f x y w ncoeff ia ans ifunc = Some (res, yfit) /\
    res = scatter 0 iaf sol ans ++ zeros (ncoeff - ncfit) /\
    yfit = map (fun r => dot r (scatter 0 iaf sol ans)) rows /\
    length sol = count_true iaf /\
    forall z, length z = count_true iaf -> chi2 D sol <= chi2 D z.
Proof.
  intros Hg Hia Hw ncfit rows iaf D Hshape FR.
  destruct (func_fit_total f x y w ncoeff ia ans ifunc Hg Hia Hw Hshape FR) as [res [yfit E]].
  destruct (gen_func_fit_optimal f x y w ncoeff ia ans ifunc res yfit E Hg Hia Hw) as [sol [E1 [E2 [E3 E4]]]].
  exists res, yfit, sol. repeat split; assumption.
Qed.

Lemma full_rank_example : full_rank 2 [([1; 0], 1, 5); ([1; 1], 1, 7); ([1; 2], 0, 9)].
Proof.
  intros z Lz H. destruct z as [|a [|b [|c z]]]; try discriminate.
  pose proof (Forall_inv H) as H1. pose proof (Forall_inv (Forall_inv_tail H)) as H2.
  simpl in H1, H2. specialize (H1 ltac:(reflexivity)). specialize (H2 ltac:(reflexivity)).
  constructor; [lra | constructor; [lra | constructor]].
Qed.
