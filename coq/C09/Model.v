(* C09 -- correspondence cases: bspline.fit against the certified dense weighted least-squares solve
   (BSpline/Fit.v: fit_coeff, certified optimal and unique by FitProofs.v), the banded assembly, the
   status logic, and the certified checkers chol_ok / solve_ok on cholesky_band / cholesky_solve outputs.
   Definitions only. *)
From Coq Require Import QArith Qround Qabs List Bool Arith ZArith Lia.
Import ListNotations.
From PV Require Import Lib.WLS BSpline.Eval BSpline.Fit.
Open Scope Q_scope.

Definition rtol7 : Q := 1 # 10000000.
Definition rtol9 : Q := 1 # 1000000000.

(* ---- IEEE doubles as far as the screening of cholesky_band needs them: finite values are exact rationals *)
Inductive xq := XFin (q : Q) | XPInf | XNInf | XNaN.
(* IEEE a <= b: false as soon as a NaN is involved *)
Definition xle (a b : xq) : bool :=
  match a, b with
  | XNaN, _ => false
  | _, XNaN => false
  | XNInf, _ => true
  | _, XPInf => true
  | XPInf, _ => false
  | XFin _, XNInf => false
  | XFin p, XFin q => Qle_bool p q
  end.
Definition xfinite (a : xq) : bool := match a with XFin _ => true | _ => false end.

(* What fit() must return when cholesky_band's screening fires, in IEEE arithmetic: the columns reported are those whose diagonal
   entry compares <= mininf (possibly NONE when the band is non-finite without such an entry: NaN never compares); the status is
   what maskpoints makes of that list -- for the empty list: -2 and an unchanged breakpoint mask.  None = the screening does not
   fire (finite band, no diagonal entry <= mininf): the factorisation is attempted (CFit / CStatus are about that). *)
Definition screen_status_model (bmask : list bool) (k : nat) (diag : list xq) (mininf : xq) (allfinite : bool)
  : option (Z * list bool) :=
  let nn := length (filter (fun b => b) (skipn k bmask)) in
  if (nn <? k)%nat then Some ((-2)%Z, bmask)
  else
    let bad := filter (fun j => xle (nth j diag XNaN) mininf) (seq 0 (length diag)) in
    if negb (length bad =? 0)%nat || negb allfinite then
      let good := good_positions bmask 0 in
      let '(st, targets) := maskpoints_model (length good) k bad in
      Some (st, mask_positions good targets bmask)
    else None.

Inductive case :=
  (* well-supported fit on sorted data: gb = good knots, observed (status, coeff, yfit) and the banded
     matrix alpha handed to cholesky_band *)
| CFit (gb : list Q) (k : nat) (xs ys ws : list Q) (status : Z) (coeff yfit : list Q) (alpha : list (list Q))
  (* cholesky_band returned (-1, L) on the band matrix ab (n = size), cholesky_solve(L, b) returned x *)
| CChol (ab L : list (list Q)) (n : nat) (x b : list Q)
  (* ill-posed fit caught by the diagonal screening: observed status and breakpoint mask after fit() *)
| CStatus (bk : list Q) (bmask : list bool) (k : nat) (xs ws : list Q) (mininf : Q) (status : Z) (newmask : list bool)
  (* a fit whose normal equations are NOT finite (NaN / +-inf in invvar or xdata): diag = the IEEE diagonal alpha[0, 0:n] handed to
     cholesky_band, mininf its IEEE threshold, allfinite = whether the whole band is finite; observed status and breakpoint mask *)
| CNonFin (bmask : list bool) (k : nat) (diag : list xq) (mininf : xq) (allfinite : bool) (status : Z) (newmask : list bool).

Definition diag_of (m : nat) (D : list obs) : list Q :=
  map (fun j => nthQ (Avec m D (unit m j)) j) (seq 0 m).

(* norm-wise comparison: every component within rtol * (1 + max |b|) *)
Definition maxabs (b : list Q) : Q := fold_left (fun acc v => if Qltb acc (Qabs v) then Qabs v else acc) b 0.
Definition close_norm (rtol : Q) (a b : list Q) : bool :=
  let tol := rtol * (1 + maxabs b) in all2 (close tol) a b.

Definition band_close (a b : list (list Q)) : bool := all2 (all2 (close_rel rtol9)) a b.
Definition band_eq (a b : list (list Q)) : bool := all2 (all2 Qeq_bool) a b.

(* verdict: +1 model differs from the implementation; +2 the implementation contradicts the specification
   (the certified least-squares optimum / L L^T = A / A x = b) *)
Definition run_case (c : case) : Z :=
  match c with
  | CFit gb k xs ys ws status coeff yfit alpha =>
      let m := (length gb - k)%nat in
      let D := fit_obs gb k xs ys ws in
      let band_ok := band_close alpha (band_assemble gb k xs ws)
                     && band_eq (band_assemble gb k xs ws) (band_of k m (normal_matrix m D)) in
      match fit_fast m D with
      | None => 1%Z       (* the generator promised a well-supported problem: the model must solve it *)
      | Some c0 =>
          let s_ok := Z.eqb status 0 && close_norm rtol7 coeff c0
                      && close_norm rtol7 yfit (yfit_of gb k c0 xs) in
          ((if band_ok then 0 else 1) + (if s_ok then 0 else 2))%Z
      end
  | CChol ab L n x b =>
      ((if chol_ok rtol9 ab L n && solve_ok rtol7 ab n x b then 0 else 2))%Z
  | CStatus bk bmask k xs ws mininf status newmask =>
      let gb := select bmask bk in
      let m := (length gb - k)%nat in
      let D := fit_obs gb k xs (map (fun _ => 0) xs) ws in
      let '(st, nm) := fit_status_model bmask k (diag_of m D) mininf in
      (if Z.eqb st status && all2 Bool.eqb nm newmask then 0 else 1)%Z
  | CNonFin bmask k diag mininf allfinite status newmask =>
      (* specification (the property itself): a non-finite band is a failed factorisation -- the status is -1 or -2, and -1 only
         together with a breakpoint mask that lost at least one breakpoint and gained none *)
      let nonfinite := negb allfinite || negb (xfinite mininf) in
      let lost := existsb (fun p => fst p && negb (snd p)) (combine bmask newmask) in
      let gained := existsb (fun p => negb (fst p) && snd p) (combine bmask newmask) in
      let s_ok := negb nonfinite ||
                  ((length newmask =? length bmask)%nat && negb gained &&
                   ((Z.eqb status (-2) && negb lost) || (Z.eqb status (-1) && lost))) in
      let m_ok := match screen_status_model bmask k diag mininf allfinite with
                  | Some (st, nm) => Z.eqb st status && all2 Bool.eqb nm newmask
                  | None => true
                  end in
      ((if m_ok then 0 else 1) + (if s_ok then 0 else 2))%Z
  end.

Definition run_cases : list case -> list Z := map run_case.

Definition diagnose (c : case) : list bool :=
  match c with
  | CFit gb k xs ys ws status coeff yfit alpha =>
      let m := (length gb - k)%nat in
      let D := fit_obs gb k xs ys ws in
      [band_close alpha (band_assemble gb k xs ws);
       band_eq (band_assemble gb k xs ws) (band_of k m (normal_matrix m D));
       match fit_fast m D with Some _ => true | None => false end;
       Z.eqb status 0;
       match fit_fast m D with Some c0 => close_norm rtol7 coeff c0 | None => false end;
       match fit_fast m D with Some c0 => close_norm rtol7 yfit (yfit_of gb k c0 xs) | None => false end]
  | CChol ab L n x b => [chol_ok rtol9 ab L n; solve_ok rtol7 ab n x b]
  | CStatus bk bmask k xs ws mininf status newmask =>
      let gb := select bmask bk in
      let m := (length gb - k)%nat in
      let D := fit_obs gb k xs (map (fun _ => 0) xs) ws in
      let '(st, nm) := fit_status_model bmask k (diag_of m D) mininf in
      [Z.eqb st status; all2 Bool.eqb nm newmask]
  | CNonFin bmask k diag mininf allfinite status newmask =>
      match screen_status_model bmask k diag mininf allfinite with
      | Some (st, nm) => [true; Z.eqb st status; all2 Bool.eqb nm newmask]
      | None => [false]
      end
  end.
