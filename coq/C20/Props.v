(* C20 -- a failing pipeline call leaves the process environment as it found it.
   window_score_skel / template_input_skel / window_read_skel / template_input_main_skel and the call-graph lists are
   GENERATED from /repo on every run (Generated/EnvSkeletons.v): the theorems about them hold or fail with the source. *)
From Coq Require Import List Bool String.
Import ListNotations.
From PV Require Import C20.Model C20.Proofs C20.Accepts C20.Sound C20.Nested C20.Regress C20.Tie Generated.EnvSkeletons.

(* soundness of the decision procedure, for every program, schedule (fault point, branch choices) and
   initial environment: if the check passes, EVERY environment variable is back to its entry value/absence *)
Theorem C20_environment_restored : forall vars p,
  restores_check vars p = true -> writes_within vars p = true ->
  forall env0 sc st' o sc', exec p sc (env0, fun _ => None) = (st', o, sc') ->
  forall v, fst st' v = env0 v.
Proof. exact environment_restored. Qed.
Print Assumptions C20_environment_restored.

(* the two clauses of the statement separately: after a FAILING call, and "just as after a successful run"
   (normal end or `return`) *)
Theorem C20_restored_on_failure : forall vars p,
  restores_check vars p = true -> writes_within vars p = true ->
  forall env0 sc st' sc', exec p sc (env0, fun _ => None) = (st', E, sc') -> forall v, fst st' v = env0 v.
Proof. exact (fun vars p Hc Hw env0 sc st' sc' H => environment_restored vars p Hc Hw env0 sc st' E sc' H). Qed.
Print Assumptions C20_restored_on_failure.

Theorem C20_restored_on_return : forall vars p,
  restores_check vars p = true -> writes_within vars p = true ->
  forall env0 sc st' o sc', o <> E -> exec p sc (env0, fun _ => None) = (st', o, sc') -> forall v, fst st' v = env0 v.
Proof. exact (fun vars p Hc Hw env0 sc st' o sc' _ H => environment_restored vars p Hc Hw env0 sc st' o sc' H). Qed.
Print Assumptions C20_restored_on_return.

(* the two entry points, as extracted from the current source *)
Theorem C20_window_score_restores :
  restores_check window_score_vars window_score_skel = true /\ writes_within window_score_vars window_score_skel = true.
Proof. exact (conj (eq_refl true) (eq_refl true)). Qed.
Print Assumptions C20_window_score_restores.

Theorem C20_template_input_restores :
  restores_check template_input_vars template_input_skel = true /\ writes_within template_input_vars template_input_skel = true.
Proof. exact (conj (eq_refl true) (eq_refl true)). Qed.
Print Assumptions C20_template_input_restores.

(* hence: for every fault point and every initial state of the variables *)
Theorem C20_window_score_env : forall env0 sc st' o sc',
  exec window_score_skel sc (env0, fun _ => None) = (st', o, sc') -> forall v, fst st' v = env0 v.
Proof. exact (environment_restored _ _ (proj1 C20_window_score_restores) (proj2 C20_window_score_restores)). Qed.
Print Assumptions C20_window_score_env.

Theorem C20_template_input_env : forall env0 sc st' o sc',
  exec template_input_skel sc (env0, fun _ => None) = (st', o, sc') -> forall v, fst st' v = env0 v.
Proof. exact (environment_restored _ _ (proj1 C20_template_input_restores) (proj2 C20_template_input_restores)). Qed.
Print Assumptions C20_template_input_env.

(* nested routes into the entry points: window_read calls window_score (inlined under Scope), the command-line
   wrapper template_input_main calls template_input (which inlines _template_input, which inlines template_metadata) *)
Theorem C20_window_read_env : forall env0 sc st' o sc',
  exec window_read_skel sc (env0, fun _ => None) = (st', o, sc') -> forall v, fst st' v = env0 v.
Proof. exact (environment_restored window_read_vars window_read_skel (eq_refl true) (eq_refl true)). Qed.
Print Assumptions C20_window_read_env.

Theorem C20_template_input_main_env : forall env0 sc st' o sc',
  exec template_input_main_skel sc (env0, fun _ => None) = (st', o, sc') -> forall v, fst st' v = env0 v.
Proof. exact (environment_restored template_input_main_vars template_input_main_skel (eq_refl true) (eq_refl true)). Qed.
Print Assumptions C20_template_input_main_env.

(* collaborators do not write the environment -- as a checked obligation.  The translator's call graph over the whole
   package lists every function reachable from an entry point that contains an os.environ write (item assignment,
   del, pop, setdefault, update, clear, putenv/unsetenv, or a use it cannot classify); each must be an entry point or
   inlined in a skeleton, and no reference to such a function may be left that the skeleton could not place (inside a
   loop, through an attribute, as a value ...) *)
Theorem C20_collaborators_do_not_write :
  uninlined_writers = [] /\
  forallb (fun w => existsb (String.eqb w) covered_functions) reachable_env_writers = true.
Proof. exact (conj (eq_refl (@nil string)) (eq_refl true)). Qed.
Print Assumptions C20_collaborators_do_not_write.

(* nested calls, semantically (no abstract interpreter involved): a caller that snapshots variables into locals of
   its own, runs ANY callee under try/finally and puts the snapshots back restores them whatever the callee does *)
Theorem C20_guard_restores_any_callee : forall gs body,
  NoDup (map snd gs) -> (forall s, In s (map snd gs) -> ~ In s (prog_slots body)) ->
  forall env0 sl sc st' o sc', exec (guard gs body) sc (env0, sl) = (st', o, sc') ->
  (forall v, In v (map fst gs) -> fst st' v = env0 v) /\
  (forall w, ~ In w (map fst gs) -> ~ In w (prog_writes body) -> fst st' w = env0 w).
Proof. exact guard_restores. Qed.
Print Assumptions C20_guard_restores_any_callee.

(* ... and the generated template_input has exactly that shape around _template_input / template_metadata *)
Theorem C20_template_input_is_guard :
  exists body, template_input_skel = guard [(0, 0); (1, 1)] body
               /\ nodupb (map snd [(0, 0); (1, 1)]) = true /\ slots_free [(0, 0); (1, 1)] body = true.
Proof. exact template_input_is_guard. Qed.
Print Assumptions C20_template_input_is_guard.

Theorem C20_template_input_restores_by_guard :
  forall env0 sl sc st' o sc', exec template_input_skel sc (env0, sl) = (st', o, sc') ->
  forall v, In v [0; 1] -> fst st' v = env0 v.
Proof. exact template_input_restores_by_guard. Qed.
Print Assumptions C20_template_input_restores_by_guard.

(* the `return` of an inlined callee ends the callee only *)
Theorem C20_callee_return_stays_in_callee : forall p sc st, snd (fst (exec (Scope p) sc st)) <> R.
Proof. exact scope_never_returns. Qed.
Print Assumptions C20_callee_return_stays_in_callee.

(* the return path and the failing-after-a-write path are reachable in the generated skeletons *)
Theorem C20_paths_reachable :
  returns_somehow window_score_skel (single_faults 64) = true /\ fails_after_write window_score_skel (single_faults 64) = true /\
  returns_somehow template_input_skel (single_faults 400) = true /\ fails_after_write template_input_skel (single_faults 400) = true /\
  returns_somehow window_read_skel (single_faults 64) = true /\ fails_after_write window_read_skel (all_scheds 10) = true.
Proof. exact entry_points_paths_reachable. Qed.
Print Assumptions C20_paths_reachable.

(* the trace matcher used by the correspondence run is complete: the os.environ operations of ANY execution of a
   skeleton (any fault schedule, any initial state) are accepted with the outcome class of that execution; so an
   observed run that is rejected is certainly not a behaviour of the generated skeleton *)
Theorem C20_accepts_complete : forall p sc st st' o sc',
  exec p sc st = (st', o, sc') ->
  accepts p (exec_ev p sc st) (match o with E => true | _ => false end) = true.
Proof. exact accepts_complete. Qed.
Print Assumptions C20_accepts_complete.

(* ... and sound: it accepts exactly the control-flow language `runs` of the skeleton (every operation's success flag
   left open), of which every execution is a member *)
Theorem C20_accepts_iff_runs : forall p tr raised,
  accepts p tr raised = true <-> exists o, runs p tr o /\ raised = raised_of o.
Proof. exact accepts_iff_runs. Qed.
Print Assumptions C20_accepts_iff_runs.

Theorem C20_exec_runs : forall p sc st st' o sc', exec p sc st = (st', o, sc') -> runs p (exec_ev p sc st) o.
Proof. exact exec_runs. Qed.
Print Assumptions C20_exec_runs.

(* what acceptance does NOT give: the data flow between operations; this accepted trace belongs to no execution *)
Theorem C20_runs_not_exec_sound :
  let p := Seq (I (ReadReq 0)) (I (ReadReq 0)) in
  let tr := [EvGet 0 true; EvGet 0 false] in
  accepts p tr true = true /\ forall sc st, exec_ev p sc st <> tr.
Proof. exact runs_not_exec_sound. Qed.
Print Assumptions C20_runs_not_exec_sound.

(* the presence part of that data flow is checked on every observed trace by `consistent`; it holds of every execution *)
Theorem C20_exec_trace_consistent : forall p sc env0 sl st' o sc',
  exec p sc (env0, sl) = (st', o, sc') ->
  consistent (fun v => is_some (env0 v)) (exec_ev p sc (env0, sl)) = true.
Proof. exact exec_ev_consistent. Qed.
Print Assumptions C20_exec_trace_consistent.

(* regression obligations: the two historical defects (skeletons recorded from the source before cbb0f60 / 9322e2d)
   are rejected by the checker, and really leak *)
Theorem C20_window_score_cbb0f60_rejected : restores_check [0; 1] window_score_pre_cbb0f60 = false.
Proof. exact window_score_cbb0f60_rejected. Qed.
Print Assumptions C20_window_score_cbb0f60_rejected.

Theorem C20_window_score_cbb0f60_leaks :
  exists sc env0, fst (fst (fst (exec window_score_pre_cbb0f60 sc (env0, fun _ => None)))) 0 <> env0 0.
Proof. exact window_score_cbb0f60_leaks. Qed.
Print Assumptions C20_window_score_cbb0f60_leaks.

Theorem C20_template_input_9322e2d_rejected : restores_check [0; 1] template_input_pre_9322e2d = false.
Proof. exact template_input_9322e2d_rejected. Qed.
Print Assumptions C20_template_input_9322e2d_rejected.

Theorem C20_template_input_9322e2d_leaks :
  exists sc env0, fst (fst (fst (exec template_input_pre_9322e2d sc (env0, fun _ => None)))) 0 <> env0 0.
Proof. exact template_input_9322e2d_leaks. Qed.
Print Assumptions C20_template_input_9322e2d_leaks.

(* non-vacuity: the checker rejects a program that restores only on the straight-line path, and the
   semantics really leaves the variable deleted when the call in between fails *)
Example C20_checker_rejects_straight_line :
  restores_check [0] (Seq (I (SaveStrict 0 0)) (Seq (I (Del 0)) (Seq (I (Call 1)) (I (Restore 0 0))))) = false
  /\ fst (fst (fst (exec (Seq (I (SaveStrict 0 0)) (Seq (I (Del 0)) (Seq (I (Call 1)) (I (Restore 0 0)))))
                        [true] (fun _ => Some 7, fun _ => None)))) 0 = None.
Proof. split; reflexivity. Qed.
Example C20_checker_accepts_try_finally :
  restores_check [0] (Seq (I (SaveStrict 0 0)) (Seq (I (Del 0)) (TryFinally (I (Call 1)) (I (Restore 0 0))))) = true.
Proof. reflexivity. Qed.
(* a guard around a callee that overwrites and never restores (template_metadata in miniature) *)
Example C20_guard_example :
  let callee := Scope (Seq (I (SaveOpt 0 5)) (Seq (I (SetC 0 1)) (Seq (I (Call 1)) Ret))) in
  restores_check [0] (guard [(0, 0)] callee) = true /\ restores_check [0] callee = false
  /\ fst (fst (fst (exec (guard [(0, 0)] callee) [true] (fun _ => None, fun _ => None)))) 0 = None.
Proof. repeat split; reflexivity. Qed.
(* accepted and rejected traces of the generated window_score: the failing path with its restore; a write to a second
   variable; a run without the `del` *)
Example C20_matcher_on_window_score :
  accepts window_score_skel [EvGet 0 true; EvDel 0 true; EvGet 1 false; EvSet 0] true = true /\
  accepts window_score_skel [EvGet 0 true; EvDel 0 true; EvGet 1 false; EvSet 0; EvSet 1] true = false /\
  accepts window_score_skel [EvGet 0 true; EvGet 1 false; EvSet 0] true = false /\
  consistent (pres_of [true; false]) [EvGet 0 true; EvDel 0 true; EvGet 1 false; EvSet 0] = true /\
  consistent (pres_of [true; true]) [EvGet 0 true; EvDel 0 true; EvGet 1 false; EvSet 0] = false.
Proof. repeat split; reflexivity. Qed.
