(* C06 -- SDSS objID/specObjID packing is a bijection with the documented bit layout.
   Property theorems only; each is closed by `exact` and followed by Print Assumptions.
   The expressions and range checks objid_expr, objid_checks, unwrap_..., run2d_..., mjd_offset_...
   are GENERATED from /repo on every run (Generated/SdssIds.v). *)
From Coq Require Import ZArith List Bool.
Import ListNotations.
From PV Require Import Lib.Bits Lib.NumpyInt Generated.SdssIds C06.Model C06.Proofs C06.Typed C06.TypedProofs.
Open Scope Z_scope.

(* the range checks in the source are exactly the documented ranges *)
Theorem C06_objid_checks_are_documented : forall s rr r c f fi o,
  checks_ok objid_checks [s; rr; r; c; f; fi; o] = objid_doc_ranges [s; rr; r; c; f; fi; o].
Proof. exact objid_checks_are_documented. Qed.
Print Assumptions C06_objid_checks_are_documented.

(* packed value = documented layout: each field at its own position *)
Theorem C06_objid_layout : forall s rr r c f fi o,
  checks_ok objid_checks [s; rr; r; c; f; fi; o] = true ->
  objid_expr s rr r c f fi o = pack objid_table [s; rr; r; c; f; fi; o].
Proof. exact objid_layout. Qed.
Print Assumptions C06_objid_layout.

(* ... and no other bit set: every bit of the ID is owned by the field whose range contains it *)
Theorem C06_objid_bits : forall s rr r c f fi o b,
  checks_ok objid_checks [s; rr; r; c; f; fi; o] = true -> 0 <= b ->
  Z.testbit (objid_expr s rr r c f fi o) b = bit_owner objid_table [s; rr; r; c; f; fi; o] b.
Proof. exact objid_bits. Qed.
Print Assumptions C06_objid_bits.

(* the int64 arithmetic never wraps (bit 63 stays clear) *)
Theorem C06_objid_no_wrap : forall s rr r c f fi o,
  checks_ok objid_checks [s; rr; r; c; f; fi; o] = true -> 0 <= objid_expr s rr r c f fi o < 2 ^ 63.
Proof. exact objid_no_wrap. Qed.
Print Assumptions C06_objid_no_wrap.

Theorem C06_unwrap_objid_pack : forall s rr r c f fi o,
  checks_ok objid_checks [s; rr; r; c; f; fi; o] = true ->
  unwrap_objid_model (objid_expr s rr r c f fi o) = [s; rr; r; c; f; fi; o].
Proof. exact unwrap_objid_pack. Qed.
Print Assumptions C06_unwrap_objid_pack.

Theorem C06_pack_unwrap_objid : forall id, 0 <= id < 2 ^ 63 -> objid_of (unwrap_objid_model id) = id.
Proof. exact pack_unwrap_objid. Qed.
Print Assumptions C06_pack_unwrap_objid.

(* out-of-range => ValueError in the model, never an ID *)
Theorem C06_objid_model_rejects : forall d run camcol field objnum rerun sky ff ids,
  objid_model d (Sc run) (Sc camcol) (Sc field) (Sc objnum) (Sc rerun) (Sc sky) (Sc ff) = Ok ids ->
  objid_doc_ranges [sky; rerun; run; camcol; ff; field; objnum] = true.
Proof. exact objid_model_rejects. Qed.
Print Assumptions C06_objid_model_rejects.

Theorem C06_specobjid_checks_are_documented : forall p f m r l i,
  checks_ok specobjid_checks [p; f; m; r; l; i] = specobjid_doc_ranges [p; f; m; r; l; i].
Proof. exact specobjid_checks_are_documented. Qed.
Print Assumptions C06_specobjid_checks_are_documented.

Theorem C06_specobjid_layout : forall p f m r l i,
  checks_ok specobjid_checks [p; f; m; r; l; i] = true -> (l = 0 \/ i = 0) ->
  specobjid_expr p f m r l i = pack specobjid_table [p; f; m; r; l + i].
Proof. exact specobjid_layout. Qed.
Print Assumptions C06_specobjid_layout.

Theorem C06_specobjid_bits : forall p f m r l i b,
  checks_ok specobjid_checks [p; f; m; r; l; i] = true -> (l = 0 \/ i = 0) -> 0 <= b ->
  Z.testbit (specobjid_expr p f m r l i) b = bit_owner specobjid_table [p; f; m; r; l + i] b.
Proof. exact specobjid_bits. Qed.
Print Assumptions C06_specobjid_bits.

(* the uint64 arithmetic never wraps *)
Theorem C06_specobjid_no_wrap : forall p f m r l i,
  checks_ok specobjid_checks [p; f; m; r; l; i] = true -> (l = 0 \/ i = 0) ->
  0 <= specobjid_expr p f m r l i < 2 ^ 64.
Proof. exact specobjid_no_wrap. Qed.
Print Assumptions C06_specobjid_no_wrap.

Theorem C06_unwrap_specobjid_pack : forall p f m r l i,
  checks_ok specobjid_checks [p; f; m; r; l; i] = true -> (l = 0 \/ i = 0) ->
  let id := specobjid_expr p f m r l i in
  unwrap_spec_plate id = p /\ unwrap_spec_fiber id = f /\ unwrap_spec_mjd id = m + 50000 /\
  unwrap_spec_run2d_int id = r /\ unwrap_spec_line id = l + i.
Proof. exact unwrap_specobjid_pack. Qed.
Print Assumptions C06_unwrap_specobjid_pack.

Theorem C06_pack_unwrap_specobjid : forall id, 0 <= id < 2 ^ 64 ->
  specobjid_expr (unwrap_spec_plate id) (unwrap_spec_fiber id) (unwrap_spec_mjd id - 50000)
                 (unwrap_spec_run2d_int id) (unwrap_spec_line id) 0 = id.
Proof. exact pack_unwrap_specobjid. Qed.
Print Assumptions C06_pack_unwrap_specobjid.

(* run2d: string form vN_M_P <-> integer form *)
Theorem C06_run2d_roundtrip : forall N M P, 0 <= M <= 99 -> 0 <= P <= 99 -> 5 <= N ->
  let r := run2d_of_NMP N M P in run2d_N r = N /\ run2d_M r = M /\ run2d_P r = P.
Proof. exact run2d_roundtrip. Qed.
Print Assumptions C06_run2d_roundtrip.

Theorem C06_run2d_roundtrip_inv : forall r, 0 <= r -> run2d_of_NMP (run2d_N r) (run2d_M r) (run2d_P r) = r.
Proof. exact run2d_roundtrip_inv. Qed.
Print Assumptions C06_run2d_roundtrip_inv.

Theorem C06_run2d_is_documented : forall N M P, run2d_of_NMP N M P = (N - 5) * 10000 + M * 100 + P.
Proof. exact run2d_is_documented. Qed.
Print Assumptions C06_run2d_is_documented.

(* MJD is a true MJD (> 50000) in both calling conventions *)
Theorem C06_mjd_conventions_agree : mjd_offset_scalar = 50000 /\ mjd_offset_array = 50000.
Proof. exact mjd_conventions_agree. Qed.
Print Assumptions C06_mjd_conventions_agree.

Theorem C06_specobjid_scalar_array_agree : forall p f m r,
  specobjid_model (Sc p) (Sc f) (Sc m) (R2int r) None None
  = specobjid_model (Ar [p]) (Ar [f]) (Ar [m]) (R2arr [r]) None None.
Proof. exact specobjid_scalar_array_agree. Qed.
Print Assumptions C06_specobjid_scalar_array_agree.

(* array calling convention, every length: the glue model is the row-wise documented behaviour *)
Theorem C06_objid_model_arrays : forall d r c f o rr s ff,
  objid_model d (Ar r) (Ar c) (Ar f) (Ar o) (Ar rr) (Ar s) (Ar ff) =
  let n := length r in
  let cols := [s; rr; r; c; ff; f; o] in
  if forallb (fun col => Nat.eqb (length col) n) cols then
    let rows := zip_rows cols n in
    if forallb objid_doc_ranges rows then Ok (map (pack objid_table) rows) else ValueError
  else ValueError.
Proof. exact objid_model_arrays. Qed.
Print Assumptions C06_objid_model_arrays.

Theorem C06_specobjid_model_arrays : forall p f m r (line : option (list Z)),
  specobjid_model (Ar p) (Ar f) (Ar m) (R2arr r) (option_map Ar line) None =
  let n := length p in
  let l := match line with Some l => l | None => repeat 0 n end in
  let cols := [p; f; map (fun z => z - 50000) m; r; l; repeat 0 n] in
  if forallb (fun col => Nat.eqb (length col) n) cols then
    let rows := zip_rows cols n in
    if forallb specobjid_doc_ranges rows then Ok (map spec_row_pack rows) else ValueError
  else ValueError.
Proof. exact specobjid_model_arrays. Qed.
Print Assumptions C06_specobjid_model_arrays.

(* ---- storage types: the same results in NumPy's fixed-width arithmetic, for array arguments of ANY integer type
   (int8 .. uint64) whose values are the given numbers.  objid_texpr / specobjid_texpr / mjd_array_texpr are the
   GENERATED typed expressions (they keep the astype casts of the source). ---- *)

(* the range analysis that licenses replacing fixed-width by unbounded arithmetic is sound, for every expression *)
Theorem C06_range_analysis_sound : forall ivs e st lo hi, tcheck ivs e = Some (st, lo, hi) ->
  forall env, env_ok ivs env ->
  exists t, teval env e = TVal t (zeval (map snd env) e)
            /\ match st with Some T => t = T | None => True end
            /\ lo <= zeval (map snd env) e <= hi.
Proof. exact tcheck_sound. Qed.
Print Assumptions C06_range_analysis_sound.

Theorem C06_objid_any_integer_type : forall ts vs, length vs = 7%nat -> all_fit ts vs ->
  objid_doc_ranges vs = true ->
  objid_typed_row (combine ts vs) = TOk I64 (pack objid_table vs).
Proof. exact objid_typed_layout. Qed.
Print Assumptions C06_objid_any_integer_type.

Theorem C06_objid_any_integer_type_rejects : forall ts vs, length vs = 7%nat -> length ts = 7%nat ->
  objid_doc_ranges vs = false -> objid_typed_row (combine ts vs) = TValueError.
Proof. exact objid_typed_rejects. Qed.
Print Assumptions C06_objid_any_integer_type_rejects.

(* m is the TRUE MJD; the conversion to MJD-50000 happens inside, in fixed-width arithmetic *)
Theorem C06_specobjid_any_integer_type : forall ts p f m r l i, all_fit ts [p; f; m; r; l; i] ->
  specobjid_doc_ranges [p; f; m - 50000; r; l; i] = true -> l = 0 \/ i = 0 ->
  specobjid_typed_row (combine ts [p; f; m; r; l; i]) = TOk U64 (pack specobjid_table [p; f; m - 50000; r; l + i]).
Proof. exact specobjid_typed_layout. Qed.
Print Assumptions C06_specobjid_any_integer_type.

(* an out-of-range value can never be wrapped into the accepted range by the fixed-width MJD conversion *)
Theorem C06_specobjid_any_integer_type_rejects : forall ts p f m r l i, all_fit ts [p; f; m; r; l; i] ->
  specobjid_doc_ranges [p; f; m - 50000; r; l; i] = false ->
  specobjid_typed_row (combine ts [p; f; m; r; l; i]) = TValueError.
Proof. exact specobjid_typed_rejects. Qed.
Print Assumptions C06_specobjid_any_integer_type_rejects.

(* non-vacuity: the documented example IDs satisfy the hypotheses *)
Example C06_example_objid :
  checks_ok objid_checks [2; 301; 3704; 3; 0; 91; 146] = true /\
  objid_expr 2 301 3704 3 0 91 146 = 1237661382772195474.
Proof. split; vm_compute; reflexivity. Qed.
Example C06_example_specobjid :
  checks_ok specobjid_checks [4055; 408; 5359; 700; 0; 0] = true /\
  specobjid_expr 4055 408 5359 700 0 0 = 4565636362342690816.
Proof. split; vm_compute; reflexivity. Qed.
