(* C03 -- meaning of the statement language of C03/SkelLang.v: an interpreter over the abstract file system and the
   object of C03/Model.v.  `run_write` / `run_append` execute a skeleton (the one translate/c03.py regenerates from
   yanny.py, Generated/YannyOps.v) the way Python executes the method body: statement by statement, a `raise` leaves
   whatever was modified before it modified.  C03/Skel.v proves that running the source's skeletons IS Model.do_write /
   Model.do_append.  DEFINITIONS ONLY. *)
From Coq Require Import String.
From Coq Require Import NArith ZArith List Bool.
Import ListNotations.
From PV Require Import Yanny.Bytes Yanny.Types Yanny.Parse Yanny.Render C03.SkelLang C03.Model.
Open Scope N_scope.
Open Scope list_scope.

(* values of locals *)
Inductive val := VNone | VStr (b : bytes) | VList (l : list bytes) | VDict (d : adata)
               | VRows (rows : list (list cell)) | VOpaque.

Record env := mkenv { e_fs : fsys; e_obj : obj; e_loc : list (string * val); e_warned : bool }.

Fixpoint lookup (l : list (string * val)) (v : string) : option val :=
  match l with [] => None | (w, x) :: l' => if String.eqb v w then Some x else lookup l' v end.
(* assignment: replace the binding in place, else add it at the end *)
Fixpoint upd (l : list (string * val)) (v : string) (x : val) : list (string * val) :=
  match l with
  | [] => [(v, x)]
  | (w, y) :: l' => if String.eqb v w then (w, x) :: l' else (w, y) :: upd l' v x
  end.
Definition bind (e : env) (v : string) (x : val) : env := mkenv (e_fs e) (e_obj e) (upd (e_loc e) v x) (e_warned e).
(* the body of a loop has block scope: names first bound inside an iteration (the loop variable, `datasym`, `columns`)
   are dropped when the iteration ends; a later statement that reads one of them is stuck (outside the model) *)
Definition restrict (before : env) (after : env) : env :=
  mkenv (e_fs after) (e_obj after)
        (filter (fun p => existsb (String.eqb (fst p)) (map fst (e_loc before))) (e_loc after)) (e_warned after).
Definition set_obj (e : env) (o : obj) : env := mkenv (e_fs e) o (e_loc e) (e_warned e).

(* str.format with positional fields {0} .. {9} *)
Fixpoint fmt_apply (fmt : bytes) (args : list bytes) : bytes :=
  match fmt with
  | c :: rest =>
      match rest with
      | d :: c' :: rest' =>
          if (c =? 123) && (c' =? 125) && (48 <=? d) && (d <=? 57)
          then nth (N.to_nat (d - 48)) args [] ++ fmt_apply rest' args
          else c :: fmt_apply rest args
      | _ => c :: fmt_apply rest args
      end
  | [] => []
  end.

(* the per-row loops of write() and append(), as ast.unparse prints them: Render.render_row is the transliteration of
   exactly these texts (line = [sym] + one datum per column, protect() on every scalar, braces around arrays, joined by
   single blanks, one newline) *)
Definition ROWS_SELF : string :=
"for k in range(self.size(sym)):
    line = list()
    line.append(sym)
    for col in columns:
        if self.isarray(sym, col):
            datum = '{' + ' '.join([self.protect(x) for x in self[sym][col][k]]) + '}'
        else:
            datum = self.protect(self[sym][col][k])
        line.append(datum)
    contents += '{0}\n'.format(' '.join(line))".
Definition ROWS_DATA : string :=
"for k in range(len(datatable[datasym][columns[0]])):
    line = list()
    line.append(sym)
    for col in columns:
        if self.isarray(sym, col):
            datum = '{' + ' '.join([self.protect(x) for x in datatable[datasym][col][k]]) + '}'
        else:
            datum = self.protect(datatable[datasym][col][k])
        line.append(datum)
    contents += '{0}\n'.format(' '.join(line))".

Definition strs (l : list (option val)) : option (list bytes) :=
  omap (fun x => match x with Some (VStr b) => Some b | _ => None end) l.

(* expressions; `clock` is what datetime...strftime() returns during this call.
   self[key] / d[key] are defined for the key variable of the enclosing loop: the value that belongs to that key *)
Fixpoint evx (clock : bytes) (e : env) (x : sx) : option val :=
  match x with
  | XLit s => Some (VStr (bs s))
  | XLocal v => lookup (e_loc e) v
  | XSelf a => if String.eqb a "filename" then Some (VStr (o_file (e_obj e)))
               else if String.eqb a "_contents" then Some (VStr (o_contents (e_obj e))) else None
  | XCat a b => match evx clock e a, evx clock e b with Some (VStr p), Some (VStr q) => Some (VStr (p ++ q)) | _, _ => None end
  | XFmt fmt args => option_map (fun l => VStr (fmt_apply (bs fmt) l)) (strs (map (evx clock e) args))
  | XNow _ => Some (VStr clock)
  | XJoin sep l => match evx clock e l with Some (VList ls) => Some (VStr (join (bs sep) ls)) | _ => None end
  | XMapFmt fmt l => match evx clock e l with Some (VList ls) => Some (VList (map (fun c => fmt_apply (bs fmt) [c]) ls)) | _ => None end
  | XSymbols kind => if String.eqb kind "enum" then Some (VList (pd_enums (o_state (e_obj e))))
                     else if String.eqb kind "struct" then Some (VList (pd_structs (o_state (e_obj e)))) else None
  | XSelfItem (XLocal v) => lookup (e_loc e) (v ++ "$self")%string
  | XSelfItem _ => None
  | XItem d (XLocal v) => lookup (e_loc e) (v ++ "$" ++ d)%string
  | XItem _ _ => None
  | XUpper a => match evx clock e a with Some (VStr p) => Some (VStr (upper p)) | _ => None end
  | XLower a => match evx clock e a with Some (VStr p) => Some (VStr (lower p)) | _ => None end
  | XOpaque _ => Some VOpaque
  end.

Definition starts_withb (prefix s : bytes) : bool := beq prefix (firstn (length prefix) s).

Fixpoint evg (clock : bytes) (e : env) (g : sg) : option bool :=
  match g with
  | GIsNone v => match lookup (e_loc e) v with Some VNone => Some true | Some _ => Some false | None => None end
  | GLenPos a => match evx clock e a with
                 | Some (VStr b) => Some (match b with [] => false | _ => true end)
                 | Some (VList l) => Some (match l with [] => false | _ => true end)
                 | _ => None end
  | GLenZero a => match evx clock e a with
                  | Some (VStr b) => Some (match b with [] => true | _ => false end)
                  | Some (VList l) => Some (match l with [] => true | _ => false end)
                  | _ => None end
  | GAccess p mode =>
      (* os.access: F_OK and W_OK are both "the file exists" on the abstract file system *)
      if String.eqb mode "F_OK" || String.eqb mode "W_OK"
      then match evx clock e p with Some (VStr q) => Some (match fs_get (e_fs e) q with Some _ => true | None => false end) | _ => None end
      else None
  | GNot a => option_map negb (evg clock e a)
  | GOr a b => match evg clock e a with Some true => Some true | Some false => evg clock e b | None => None end
  | GAnd a b => match evg clock e a with Some false => Some false | Some true => evg clock e b | None => None end
  | GEq a b => match evx clock e a, evx clock e b with Some (VStr p), Some (VStr q) => Some (beq p q) | _, _ => None end
  | GIn a c =>
      match evx clock e a, c with
      | Some (VStr k), CSelfTables => Some (existsb (beq k) (table_names (o_state (e_obj e))))
      | Some (VStr k), CName d => match lookup (e_loc e) d with
                                  | Some (VDict dd) => Some (match adata_get dd k with Some _ => true | None => false end)
                                  | _ => None end
      | _, _ => None
      end
  | GIsInstance v ty =>
      match lookup (e_loc e) v with
      | None => None
      | Some x => if String.eqb ty "dict" then Some (match x with VDict _ => true | _ => false end)
                  else if String.eqb ty "(str,)" then Some (match x with VStr _ => true | _ => false end) else None
      end
  | GEndsWith a suffix => match evx clock e a with Some (VStr p) => Some (ends_with (bs suffix) p) | _ => None end
  | GStartsWith a prefix => match evx clock e a with Some (VStr p) => Some (starts_withb (bs prefix) p) | _ => None end
  | GOpaque _ => None
  end.

(* how a statement ends *)
Inductive res := RNext (e : env) | RCont (e : env) | RRet (e : env) | RRaise (e : env) (exc : string)
               | RCrash (e : env) | RStuck.

(* what a loop iterates over: (value of the loop variable, value of `container[loop variable]`, name of the container) *)
Definition items (e : env) (it : siter) : option (list (val * val) * string) :=
  match it with
  | ISelfPairs => Some (map (fun kv => (VStr (fst kv), VStr (snd kv))) (pd_pairs (o_state (e_obj e))), "self"%string)
  | ISelfTables => Some (map (fun t => (VStr (pt_name t), VRows (pt_rows t))) (pd_tables (o_state (e_obj e))), "self"%string)
  | IDictKeys d => match lookup (e_loc e) d with
                   | Some (VDict dd) => Some (map (fun kv => (VStr (fst kv), match snd kv with AText t => VStr t | ARows r => VRows r end)) dd, d)
                   | _ => None end
  | IOpaque _ => None
  end.

Definition add_contents (e : env) (b : bytes) : res :=
  match lookup (e_loc e) "contents"%string with Some (VStr c) => RNext (bind e "contents"%string (VStr (c ++ b))) | _ => RStuck end.

Definition exec_rows (e : env) (src : string) : res :=
  match lookup (e_loc e) "sym"%string with
  | Some (VStr sym) =>
      if String.eqb src ROWS_SELF then
        match lookup (e_loc e) "sym$self"%string with
        | Some (VRows rows) => add_contents e (concat (map (render_row sym) rows))
        | _ => RStuck end
      else if String.eqb src ROWS_DATA then
        match lookup (e_loc e) "datatable"%string, lookup (e_loc e) "datasym"%string with
        | Some (VDict dd), Some (VStr ds) =>
            match adata_get dd ds with
            | Some (ARows rows) => add_contents e (concat (map (render_row sym) rows))
            | _ => RStuck        (* indexing a string by a column name raises: not modelled *)
            end
        | _, _ => RStuck end
      else RStuck
  | _ => RStuck
  end.

Fixpoint exec (clock : bytes) (s : st) (e : env) {struct s} : res :=
  let fix execs (l : list st) (e : env) {struct l} : res :=
      match l with
      | [] => RNext e
      | s' :: l' => match exec clock s' e with RNext e' => execs l' e' | r => r end
      end in
  match s with
  | SIf g a b => match evg clock e g with Some true => execs a e | Some false => execs b e | None => RStuck end
  | SRaise exc => RRaise e exc
  | SWarn _ => RNext (mkenv (e_fs e) (e_obj e) (e_loc e) true)
  | SReturn => RRet e
  | SContinue => RCont e
  | SAssign v x => match evx clock e x with Some y => RNext (bind e v y) | None => RStuck end
  | SAug v x => match lookup (e_loc e) v, evx clock e x with
                | Some (VStr a), Some (VStr b) => RNext (bind e v (VStr (a ++ b)))
                | _, _ => RStuck end
  | SSetSelf a x =>
      match evx clock e x with
      | Some (VStr b) =>
          let o := e_obj e in
          if String.eqb a "filename" then RNext (set_obj e (mkobj b (o_contents o) (o_raw o) (o_state o)))
          else if String.eqb a "_contents" then RNext (set_obj e (mkobj (o_file o) b (o_raw o) (o_state o)))
          else RStuck
      | _ => RStuck end
  | SAugSelf a x =>
      match evx clock e x with
      | Some (VStr b) =>
          let o := e_obj e in
          if String.eqb a "_contents" then RNext (set_obj e (mkobj (o_file o) (o_contents o ++ b) (o_raw o) (o_state o)))
          else RStuck
      | _ => RStuck end
  | SOpenWrite px mode dx =>
      match evx clock e px, evx clock e dx with
      | Some (VStr p), Some (VStr data) =>
          if String.eqb mode "w" then RNext (mkenv (fs_set (e_fs e) p data) (e_obj e) (e_loc e) (e_warned e))
          else if String.eqb mode "a"
          then RNext (mkenv (fs_set (e_fs e) p (match fs_get (e_fs e) p with Some old => old | None => [] end ++ data))
                            (e_obj e) (e_loc e) (e_warned e))
          else RStuck
      | _, _ => RStuck end
  | SParse =>
      let o := e_obj e in
      match parse (o_contents o) with
      | Some p' => RNext (set_obj e (mkobj (o_file o) (o_contents o) (o_raw o) p'))
      | None => RCrash e
      end
  | SFor v it body =>
      match items e it with
      | None => RStuck
      | Some (its, cname) =>
          (fix loop (its : list (val * val)) (e : env) {struct its} : res :=
             match its with
             | [] => RNext e
             | (k, x) :: its' =>
                 match execs body (bind (bind e v k) (v ++ "$" ++ cname)%string x) with
                 | RNext e' | RCont e' => loop its' (restrict e e')
                 | r => r
                 end
             end) its e
      end
  | SRows src => exec_rows e src
  | SOpaque _ => RStuck
  end.

Fixpoint exec_list (clock : bytes) (l : list st) (e : env) : res :=
  match l with
  | [] => RNext e
  | s :: l' => match exec clock s e with RNext e' => exec_list clock l' e' | r => r end
  end.

Definition exc_outcome (exc : string) : outcome :=
  if String.eqb exc "ValueError" then ValueErr else if String.eqb exc "PydlutilsException" then Refused else Unmodelled.

(* an exception leaves the state as it is at that moment; a stuck run (a form outside the model) is Unmodelled *)
Definition finish (s0 : fsys * obj) (r : res) : fsys * obj * outcome :=
  match r with
  | RNext e | RRet e => (e_fs e, e_obj e, if e_warned e then Warned else Ok)
  | RRaise e exc => (e_fs e, e_obj e, exc_outcome exc)
  | RCrash e => (e_fs e, e_obj e, Crashed)
  | RCont _ | RStuck => (fst s0, snd s0, Unmodelled)
  end.

(* par.write(newfile, comments=<list>) *)
Definition run_write (skel : list st) (fs : fsys) (o : obj) (newfile : option path) (cmts : list bytes) : fsys * obj * outcome :=
  finish (fs, o)
    (exec_list [] skel (mkenv fs o [("newfile"%string, match newfile with Some p => VStr p | None => VNone end); ("comments"%string, VList cmts)] false)).

(* par.append(datatable) at time `clock` *)
Definition run_append (skel : list st) (fs : fsys) (o : obj) (d : adata) (clock : bytes) : fsys * obj * outcome :=
  finish (fs, o) (exec_list clock skel (mkenv fs o [("datatable"%string, VDict d)] false)).
