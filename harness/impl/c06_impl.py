"""Runs the four SDSS ID functions of the repository under test on a list of calls (stdin JSON)."""
import json
import re
import sys

import numpy as np

from pydl.pydlutils.sdss import sdss_objid, sdss_specobjid, unwrap_specobjid, default_skyversion
from pydl.photoop.photoobj import unwrap_objid
import pydl

MODP = 2305843009213693951


def checksum(ids):
    acc = 0
    for v in ids:
        acc = (acc * 1000003 + int(v) + 1) % MODP
    return acc


def lay(arr, layout):
    """The same values in another memory layout."""
    if not layout or layout == 'native':
        return arr
    if layout == 'bigendian':
        return arr.astype(arr.dtype.newbyteorder('>'))
    if layout == 'strided':                   # every other element of a larger buffer
        buf = np.zeros(2 * arr.size, dtype=arr.dtype)
        buf[::2] = arr
        return buf[::2]
    if layout == 'reversed':                  # negative stride
        buf = arr[::-1].copy()
        return buf[::-1]
    if layout == 'bigendian-reversed':
        buf = arr[::-1].astype(arr.dtype.newbyteorder('>'))
        return buf[::-1]
    if layout == 'readonly':
        out = arr.copy()
        out.setflags(write=False)
        return out
    if layout == '2d-transposed':             # logical shape (n/2, 2) (n even) stored in Fortran order
        n = arr.size
        if n % 2 or n == 0:
            return arr
        return np.asfortranarray(arr.reshape(n // 2, 2))
    raise ValueError('layout ' + layout)


def conv(a, dtype=np.int64):
    """Argument descriptor -> the Python object handed to pydl.
    {'s': v} Python int; with 'form': 'bool' Python bool, 'np:<dtype>' NumPy scalar, '0d:<dtype>' zero-dimensional array;
    {'a': [...]} ndarray (dtype 'dt', memory layout 'layout'); with 'form': 'list' a Python list; {'str': text} a string."""
    if a is None:
        return None
    if 's' in a:
        v = int(a['s'])
        form = a.get('form')
        if not form:
            return v
        if form == 'bool':
            assert v in (0, 1)
            return bool(v)
        kind, dt = form.split(':')
        sc = np.dtype(dt).type(v)
        assert int(sc) == v
        return sc if kind == 'np' else np.array(sc)
    if 'str' in a:
        return a['str']
    if a.get('form') == 'list':
        return [int(x) for x in a['a']]
    arr = np.array([int(x) for x in a['a']], dtype=np.dtype(a['dt']) if a.get('dt') else dtype)
    return lay(arr, a.get('layout'))


def flat(r):
    """Result rows in logical (C) order, whatever the shape (0-d included)."""
    return [int(x) for x in np.asarray(r).ravel(order='C')]


def same_array(x, y):
    return isinstance(x, np.ndarray) and isinstance(y, np.ndarray) and x.dtype == y.dtype and x.shape == y.shape and np.array_equal(x, y)


def refill(arrs, new):
    """Class A: the caller refills its arrays in place between two calls."""
    for x, d in zip(arrs, new):
        if isinstance(x, np.ndarray) and d is not None and 'a' in d:
            x[...] = np.array([int(v) for v in d['a']], dtype=x.dtype).reshape(x.shape)


def two_step(fn, pa, kw, c):
    """call, let the caller overwrite the argument arrays in place, call again with the very same objects"""
    r1 = fn(*pa, **kw)
    out = {'ok': flat(r1), 'dtype': str(r1.dtype), 'shape': list(np.shape(r1))}
    a2 = c['args2']
    refill(pa, [a2.get(k) for k in c['order'][:len(pa)]])
    refill(list(kw.values()), [a2.get(k) for k in kw])
    if flat(r1) != out['ok']:
        out['first_result_changed'] = True       # the result aliases an argument
    try:
        r2 = fn(*pa, **kw)
        out['step2'] = {'ok': flat(r2), 'dtype': str(r2.dtype)}
        if flat(r1) != out['ok']:
            out['first_result_changed'] = True   # the second call wrote into the first result
    except Exception as e2:  # noqa: BLE001
        out['step2'] = err(e2)
    return out


def err(e):
    return {'err': type(e).__name__, 'msg': str(e)[:120]}


def unwrap_objs(f, c, arr):
    if f == 'unobj':
        return (unwrap_objid(arr),)
    return (unwrap_specobjid(arr, run2d_integer=True, specLineIndex=bool(c.get('index'))),
            unwrap_specobjid(arr, run2d_integer=False))


def col(u, k):
    return np.asarray(u[k]).ravel(order='C')


def rows_of(f, c, objs, n):
    """rows in logical (C) order of the input, whatever its shape"""
    if f == 'unobj':
        u = objs[0]
        cols = [col(u, k) for k in ('skyversion', 'rerun', 'run', 'camcol', 'firstfield', 'frame', 'id')]
        return [[int(cc[j]) for cc in cols] for j in range(n)]
    ui, us = objs
    lk = 'index' if c.get('index') else 'line'
    ci = [col(ui, k) for k in ('plate', 'fiber', 'mjd', 'run2d', lk)]
    cs = [col(us, k) for k in ('plate', 'fiber', 'mjd', 'line', 'run2d')]
    rows = []
    for j in range(n):
        m = re.fullmatch(r'v(-?\d+)_(-?\d+)_(-?\d+)', str(cs[4][j]))
        nmp = [int(g) for g in m.groups()] if m else [-999, -999, -999]
        row_i = [int(ci[0][j]), int(ci[1][j]), int(ci[2][j]), int(ci[3][j])] + nmp + [int(ci[4][j])]
        agree = (int(cs[0][j]), int(cs[1][j]), int(cs[2][j]), int(cs[3][j])) == \
            (row_i[0], row_i[1], row_i[2], row_i[7])
        if not agree:
            row_i.append(-1)  # string and integer modes disagree -> guaranteed mismatch
        rows.append(row_i)
    return rows


def unwrap_rows(f, c, arr, n):
    return rows_of(f, c, unwrap_objs(f, c, arr), n)


def descr(rec):
    return [[n, str(t)] for n, t in rec.dtype.descr]


def call(c):
    f = c['f']
    try:
        if f == 'specstr':
            # scalar call, run2d given as an arbitrary string
            r = sdss_specobjid(int(c['p']), int(c['fb']), int(c['m']), c['s'])
            return {'ok': [int(x) for x in r], 'dtype': str(r.dtype)}
        if f in ('unobjstr', 'unspecstr'):
            # one ID given as an arbitrary string in a str ('U') or bytes ('S') array
            arr = np.array([c['s'].encode('latin-1')]) if c.get('bytes') else np.array([c['s']])
            kind = arr.dtype.kind
            rows = unwrap_rows('unobj' if f == 'unobjstr' else 'unspec', {}, arr, 1)
            return {'ok': rows, 'kind': kind}
        if f == 'objid':
            a = c['args']
            kw = {}
            for k in ('rerun', 'skyversion', 'firstfield'):
                if a.get(k) is not None:
                    kw[k] = conv(a[k])
            pa = [conv(a['run']), conv(a['camcol']), conv(a['field']), conv(a['objnum'])]
            allargs = pa + list(kw.values())
            if c.get('args2'):
                return two_step(sdss_objid, pa, kw, c)
            before = [x.copy() if isinstance(x, np.ndarray) else x for x in allargs]
            r = sdss_objid(*pa, **kw)
            out = {'ok': flat(r), 'dtype': str(r.dtype), 'shape': list(np.shape(r))}
            if any(isinstance(x, np.ndarray) and not same_array(x, y) for x, y in zip(allargs, before)):
                out['inputs_modified'] = ['some array argument']
            try:
                r2 = sdss_objid(*pa, **kw)
                if flat(r2) != out['ok']:
                    out['repeat_differs'] = [int(x) for x in r2]
            except Exception as e2:  # noqa: BLE001
                out['repeat_differs'] = type(e2).__name__
            return out
        if f == 'spec':
            a = c['args']
            kw = {}
            for k in ('line', 'index'):
                if a.get(k) is not None:
                    kw[k] = conv(a[k])
            pa = [conv(a['plate']), conv(a['fiber']), conv(a['mjd']), conv(a['run2d'])]
            if c.get('args2'):
                return two_step(sdss_specobjid, pa, kw, c)
            allargs = pa + list(kw.values())
            before = [x.copy() if isinstance(x, np.ndarray) else x for x in allargs]
            r = sdss_specobjid(*pa, **kw)
            out = {'ok': flat(r), 'dtype': str(r.dtype), 'shape': list(np.shape(r))}
            # the caller's arrays must not be modified, and a second call with the very same objects must agree
            changed = [n for n, x, y in zip(('plate', 'fiber', 'mjd', 'run2d', 'line/index'), allargs, before)
                       if isinstance(x, np.ndarray) and not same_array(x, y)]
            if changed:
                out['inputs_modified'] = changed
            try:
                r2 = sdss_specobjid(*pa, **kw)
                if flat(r2) != out['ok']:
                    out['repeat_differs'] = [int(x) for x in r2]
            except Exception as e2:  # noqa: BLE001
                out['repeat_differs'] = type(e2).__name__
            return out
        if f in ('unobj', 'unspec'):
            ids = c['ids']
            base = np.int64 if f == 'unobj' else np.uint64
            if c.get('as_str') == 'bytes':
                arr = np.array([str(i).encode('ascii') for i in ids])       # dtype 'S': what FITS/ASCII tables deliver
            elif c.get('as_str'):
                arr = np.array([str(i) for i in ids])
            else:
                arr = lay(np.array(ids, dtype=np.dtype(c['dt']) if c.get('dt') else base), c.get('layout'))
            before = arr.copy()
            objs = unwrap_objs(f, c, arr)
            out = {'ok': rows_of(f, c, objs, len(ids))}
            if any(tuple(o.shape) != tuple(arr.shape) for o in objs):
                out['shape_differs'] = [list(o.shape) for o in objs]
            if c.get('ids2'):
                # class A: the caller overwrites its ID array in place; the record already returned must not change,
                # and unwrapping the same array object again gives the rows of the NEW values
                if arr.flags.writeable:
                    if arr.dtype.kind in 'SU':
                        arr[...] = np.array([str(i) for i in c['ids2']]).astype(arr.dtype).reshape(arr.shape)
                    else:
                        arr[...] = np.array(c['ids2'], dtype=arr.dtype).reshape(arr.shape)
                    if rows_of(f, c, objs, len(ids)) != out['ok']:
                        out['first_result_changed'] = True
                    try:
                        out['step2'] = {'ok': unwrap_rows(f, c, arr, len(ids))}
                    except Exception as e2:  # noqa: BLE001
                        out['step2'] = err(e2)
                    return out
            # record dtypes (field names, storage types) and, for specObjID, the run2d tags exactly as stored
            if f == 'unobj':
                out['dtypes'] = {'record': descr(unwrap_objid(arr))}
            else:
                us = unwrap_specobjid(arr, run2d_integer=False)
                out['dtypes'] = {'integer': descr(unwrap_specobjid(arr, run2d_integer=True)), 'string': descr(us),
                                 'index': descr(unwrap_specobjid(arr, run2d_integer=True, specLineIndex=True))}
                out['tags'] = [str(x) for x in us.run2d]
            if not np.array_equal(arr, before):
                out['inputs_modified'] = ['ids']
            try:
                again = unwrap_rows(f, c, arr, len(ids))
                if again != out['ok']:
                    out['repeat_differs'] = again[:3]
            except Exception as e2:  # noqa: BLE001
                out['repeat_differs'] = type(e2).__name__
            return out
        if f in ('tobj', 'tspec'):
            # one row, every argument a 1-element array of its own integer type
            arrs = [np.array([int(v)], dtype=np.dtype(dt)) for v, dt in zip(c['vals'], c['dts'])]
            before = [x.copy() for x in arrs]
            if f == 'tobj':
                sky, rr, r, cc, ff, fi, o = arrs
                res = sdss_objid(r, cc, fi, o, rerun=rr, skyversion=sky, firstfield=ff)
            else:
                pl, fb, mj, r2, li, ix = arrs
                kw = {}
                if c.get('use') == 'line':
                    kw['line'] = li
                elif c.get('use') == 'index':
                    kw['index'] = ix
                res = sdss_specobjid(pl, fb, mj, r2, **kw)
            out = {'ok': [int(x) for x in res], 'dtype': str(res.dtype)}
            if any(not np.array_equal(x, y) or x.dtype != y.dtype for x, y in zip(arrs, before)):
                out['inputs_modified'] = ['some array argument']
            return out
        if f in ('sweepobj', 'sweepspec'):
            i, lo, n, others = c['i'], c['lo'], c['n'], c['others']
            bad = None
            cols = [np.full(n, int(o), dtype=np.int64) for o in others]
            cols[i] = np.arange(lo, lo + n, dtype=np.int64)
            if f == 'sweepobj':
                sky, rr, r, cc, ff, fi, o = cols
                ids = sdss_objid(r, cc, fi, o, rerun=rr, skyversion=sky, firstfield=ff)
                # round trip through the real unwrap
                u = unwrap_objid(ids)
                rt = all(np.array_equal(np.asarray(u[k], dtype=np.int64), col) for k, col in
                         zip(('skyversion', 'rerun', 'run', 'camcol', 'firstfield', 'frame', 'id'), cols))
            else:
                p, fb, m, r2, li, ix = cols
                kw = {}
                if c.get('use') == 'line':
                    kw['line'] = li
                elif c.get('use') == 'index':
                    kw['index'] = ix
                ids = sdss_specobjid(p, fb, m + 50000, r2, **kw)
                u = unwrap_specobjid(ids, run2d_integer=True)
                rt = (np.array_equal(np.asarray(u.plate, dtype=np.int64), p) and
                      np.array_equal(np.asarray(u.fiber, dtype=np.int64), fb) and
                      np.array_equal(np.asarray(u.mjd, dtype=np.int64), m + 50000) and
                      np.array_equal(np.asarray(u.run2d, dtype=np.int64), r2) and
                      np.array_equal(np.asarray(u.line, dtype=np.int64), li + ix if not kw else (li if 'line' in kw else ix)))
                if i == 3 and rt:
                    # the string form of run2d, for every code of the sweep: 'vN_M_P' packs to the same ID as the
                    # integer, and the default (string) unwrap gives back exactly that tag
                    us = unwrap_specobjid(ids, run2d_integer=False)
                    for j in range(n):
                        code = int(r2[j])
                        tag = 'v%d_%d_%d' % (code // 10000 + 5, (code % 10000) // 100, code % 100)
                        one = sdss_specobjid(int(p[j]), int(fb[j]), int(m[j]) + 50000, tag)
                        if int(one[0]) != int(ids[j]) or str(us.run2d[j]) != tag:
                            rt = False
                            bad = {'run2d_code': code, 'tag': tag, 'packed_from_tag': int(one[0]), 'packed_from_int': int(ids[j]),
                                   'unwrapped_tag': str(us.run2d[j])}
                            break
            out = {'sum': checksum(ids), 'n': int(len(ids)), 'roundtrip': bool(rt),
                   'first': int(ids[0]), 'last': int(ids[-1])}
            if bad:
                out['roundtrip_counterexample'] = bad
            return out
        return {'err': 'BadCall'}
    except Exception as e:  # noqa: BLE001 - the error class is the observation
        return err(e)


def main():
    calls = json.load(sys.stdin)
    out = {'pydl_file': pydl.__file__, 'default_skyversion': int(default_skyversion()),
           'results': [call(c) for c in calls]}
    json.dump(out, sys.stdout)


if __name__ == '__main__':
    main()
