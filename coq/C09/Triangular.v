(* C09 round 5: back substitution (the mirror image of forward substitution) and the complete Cholesky solve:
   for A = L L^T with L lower triangular and a non-zero diagonal, forward substitution followed by back substitution
   returns x with A x = b. *)
From Coq Require Import QArith Qabs Lqa List Bool Arith Lia.
Import ListNotations.
From PV Require Import Lib.WLS BSpline.Eval BSpline.Fit C09.Model C09.Proofs.
Open Scope Q_scope.

Lemma sumf_head g n : sumf g (S n) == g 0%nat + sumf (fun c => g (S c)) n.
Proof.
  induction n as [|n IH]; [cbn [sumf]; ring|].
  change (sumf g (S (S n))) with (sumf g (S n) + g (S n)). rewrite IH. cbn [sumf]. ring.
Qed.

Lemma sumf_rev f n : sumf (fun c => f (n - 1 - c)%nat) n == sumf f n.
Proof.
  induction n as [|n IH]; [reflexivity|].
  rewrite sumf_head. cbn [sumf].
  replace (S n - 1 - 0)%nat with n by lia.
  rewrite <- IH. rewrite Qplus_comm. apply Qplus_comp; [|reflexivity].
  apply sumf_ext. intros c Hc. replace (S n - 1 - S c)%nat with (n - 1 - c)%nat by lia. reflexivity.
Qed.

(* U upper triangular (n x n) read backwards is lower triangular *)
Definition flip (n : nat) (U : nat -> nat -> Q) (i c : nat) : Q :=
  if (i <? n)%nat && (c <? n)%nat then U (n - 1 - i)%nat (n - 1 - c)%nat else 0.

(* x_i = (b_i - sum_{c>i} U_ic x_c) / U_ii, i = n-1 ... 0 *)
Definition back_list (U : nat -> nat -> Q) (b : nat -> Q) (n : nat) : list Q :=
  rev (fwd_list (flip n U) (fun i => b (n - 1 - i)%nat) n).

Lemma back_list_length U b n : length (back_list U b n) = n.
Proof. unfold back_list. rewrite rev_length. apply fwd_list_length. Qed.

Theorem back_substitution_solves (n : nat) (U : nat -> nat -> Q) (b : nat -> Q) :
  (forall i c, (c < i)%nat -> U i c == 0) ->             (* upper triangular *)
  (forall i, (i < n)%nat -> ~ U i i == 0) ->
  let x := fun c => nth c (back_list U b n) 0 in
  forall i, (i < n)%nat -> sumf (fun c => U i c * x c) n == b i.
Proof.
  intros Htri Hd x i Hi.
  set (L := flip n U). set (b' := fun i => b (n - 1 - i)%nat).
  assert (HL : forall i c, (i < c)%nat -> L i c == 0).
  { intros a c Hac. unfold L, flip.
    destruct (a <? n)%nat eqn:Ea; [|reflexivity]. destruct (c <? n)%nat eqn:Ec; [|reflexivity].
    apply Nat.ltb_lt in Ea, Ec. cbn [andb]. apply Htri. lia. }
  assert (HLd : forall i, (i < n)%nat -> ~ L i i == 0).
  { intros a Ha. unfold L, flip. pose proof Ha as Hb. apply Nat.ltb_lt in Hb. rewrite Hb. cbn [andb]. apply Hd. lia. }
  pose proof (forward_substitution_solves n L b' HL HLd (n - 1 - i)%nat ltac:(lia)) as F.
  cbv zeta in F. unfold b' in F at 2. replace (n - 1 - (n - 1 - i))%nat with i in F by lia.
  rewrite <- F. rewrite <- (sumf_rev (fun c => L (n - 1 - i)%nat c * nth c (fwd_list L b' n) 0) n).
  apply sumf_ext. intros c Hc.
  unfold x, back_list. fold L. fold b'.
  rewrite rev_nth by (rewrite fwd_list_length; exact Hc). rewrite fwd_list_length.
  replace (n - S c)%nat with (n - 1 - c)%nat by lia.
  apply Qmult_comp; [|reflexivity].
  unfold L, flip.
  assert (E1 : (n - 1 - i <? n)%nat = true) by (apply Nat.ltb_lt; lia).
  assert (E2 : (n - 1 - c <? n)%nat = true) by (apply Nat.ltb_lt; lia).
  rewrite E1, E2. cbn [andb].
  replace (n - 1 - (n - 1 - i))%nat with i by lia. replace (n - 1 - (n - 1 - c))%nat with c by lia. reflexivity.
Qed.

(* the whole solve: A = L L^T, L lower triangular with non-zero diagonal; y by forward, x by back substitution => A x = b *)
Definition chol_solve_list (L : nat -> nat -> Q) (b : nat -> Q) (n : nat) : list Q :=
  let y := fun c => nth c (fwd_list L b n) 0 in
  back_list (fun i c => L c i) y n.

Theorem cholesky_solve_solves (n : nat) (L A : nat -> nat -> Q) (b : nat -> Q) :
  (forall i j, (i < n)%nat -> (j < n)%nat -> A i j == sumf (fun c => L i c * L j c) n) ->
  (forall i c, (i < c)%nat -> L i c == 0) ->
  (forall i, (i < n)%nat -> ~ L i i == 0) ->
  let x := fun c => nth c (chol_solve_list L b n) 0 in
  forall i, (i < n)%nat -> sumf (fun j => A i j * x j) n == b i.
Proof.
  intros HA Htri Hd x i Hi.
  set (y := fun c => nth c (fwd_list L b n) 0).
  apply (llt_solves n L A x y b HA).
  - intros a Ha. apply (forward_substitution_solves n L b Htri Hd a Ha).
  - intros c Hc. unfold x, chol_solve_list. fold y.
    apply (back_substitution_solves n (fun i c => L c i) y).
    + intros a d Hda. apply Htri. exact Hda.
    + intros a Ha. apply Hd. exact Ha.
    + exact Hc.
  - exact Hi.
Qed.
