(* de Boor's BSPLVN loop (Eval.bsplvn) computes the textbook Cox-de Boor B-splines (Eval.B, Eval.Bl),
   and Eval.eval_at computes the spline sum (Eval.spline, Eval.spline_left).  Proofs only. *)
From Coq Require Import QArith Qround Qabs List Bool Arith Lia Lqa Setoid Morphisms.
Import ListNotations.
From PV Require Import Lib.WLS BSpline.Eval.
Open Scope Q_scope.

Definition nondecr (t : list Q) :=
  forall i j, (i <= j)%nat -> (j < length t)%nat -> nthQ t i <= nthQ t j.

(* ------------------------------------------------------------------ generic Cox-de Boor recursion,
   parametrised by the order-1 base function b *)
Fixpoint G (t : list Q) (b : nat -> Q -> Q) (m i : nat) (x : Q) : Q :=
  match m with
  | O => b i x
  | S m' =>
      (x - nthQ t i) / (nthQ t (i + m' + 1) - nthQ t i) * G t b m' i x
      + (nthQ t (i + m' + 2) - x) / (nthQ t (i + m' + 2) - nthQ t (S i)) * G t b m' (S i) x
  end.

Definition bB (t : list Q) (i : nat) (x : Q) : Q :=
  if Qle_bool (nthQ t i) x && Qltb x (nthQ t (S i)) then 1 else 0.
Definition bBl (t : list Q) (i : nat) (x : Q) : Q :=
  if Qltb (nthQ t i) x && Qle_bool x (nthQ t (S i)) then 1 else 0.

Lemma B_is_G t m : forall i x, B t m i x = G t (bB t) m i x.
Proof. induction m; intros; cbn [B G]; [reflexivity | rewrite !IHm; reflexivity]. Qed.

Lemma Bl_is_G t m : forall i x, Bl t m i x = G t (bBl t) m i x.
Proof. induction m; intros; cbn [Bl G]; [reflexivity | rewrite !IHm; reflexivity]. Qed.

(* ------------------------------------------------------------------ list helpers *)
Lemma Forall2_Qeq_nth u w : Forall2 Qeq u w -> forall r, nthQ u r == nthQ w r.
Proof.
  unfold nthQ. induction 1; intros [|r]; cbn [nth]; try reflexivity; auto.
Qed.

Lemma nthQ_map_seq (f : nat -> Q) s n r : (r < n)%nat -> nthQ (map f (seq s n)) r = f (s + r)%nat.
Proof.
  intros Hr. unfold nthQ. rewrite (nth_indep _ 0 (f O)) by (rewrite map_length, seq_length; exact Hr).
  rewrite map_nth, seq_nth by exact Hr. reflexivity.
Qed.

Lemma dot_Forall2 u w : Forall2 Qeq u w -> forall c, dot u c == dot w c.
Proof.
  induction 1; intros [|a c]; cbn [dot]; try reflexivity. rewrite H, (IHForall2 c). reflexivity.
Qed.

Lemma map_seq_shift (f : nat -> Q) s n : map f (seq (S s) n) = map (fun q => f (S q)) (seq s n).
Proof. rewrite <- seq_shift, map_map. reflexivity. Qed.

(* pass respects pointwise == on v and == on the carried value *)
Lemma pass_congr : forall v v', Forall2 Qeq v v' -> forall dp dmr a a', a == a' ->
  Forall2 Qeq (pass v dp dmr a) (pass v' dp dmr a').
Proof.
  induction 1 as [|y y' v v' Hy Hv IH]; intros dp dmr a a' Ha.
  - cbn [pass]. constructor; [exact Ha | constructor].
  - destruct dp as [|p dp]; [cbn [pass]; constructor; [exact Ha | constructor]|].
    destruct dmr as [|m dmr]; [cbn [pass]; constructor; [exact Ha | constructor]|].
    cbn [pass]. constructor.
    + rewrite !Qred_correct, Hy, Ha. reflexivity.
    + apply IH. rewrite !Qred_correct, Hy. reflexivity.
Qed.

(* ------------------------------------------------------------------ spline_from helpers *)
Lemma spline_from_ext Bf Bf' x : forall c s,
  (forall i, (s <= i)%nat -> (i < s + length c)%nat -> Bf i x == Bf' i x) ->
  spline_from Bf c s x == spline_from Bf' c s x.
Proof.
  induction c as [|a c IH]; intros s H; cbn [spline_from]; [reflexivity|].
  assert (E1 : Bf s x == Bf' s x) by (apply H; cbn [length]; lia).
  assert (E2 : spline_from Bf c (S s) x == spline_from Bf' c (S s) x)
    by (apply IH; intros; apply H; cbn [length]; lia).
  rewrite E1, E2. reflexivity.
Qed.

Lemma spline_from_skip Bf x : forall n c s,
  (forall i, (s <= i)%nat -> (i < s + n)%nat -> (i < s + length c)%nat -> Bf i x == 0) ->
  spline_from Bf c s x == spline_from Bf (skipn n c) (s + n) x.
Proof.
  induction n; intros c s H.
  - cbn [skipn]. replace (s + 0)%nat with s by lia. reflexivity.
  - destruct c as [|a c]; cbn [skipn spline_from]; [reflexivity|].
    assert (E1 : Bf s x == 0) by (apply H; cbn [length]; lia).
    assert (E2 : spline_from Bf c (S s) x == spline_from Bf (skipn n c) (S s + n) x)
      by (apply IHn; intros; apply H; cbn [length]; lia).
    rewrite E1, E2. replace (S s + n)%nat with (s + S n)%nat by lia. ring.
Qed.

Lemma spline_from_window Bf x : forall k c s,
  (forall i, (s + k <= i)%nat -> (i < s + length c)%nat -> Bf i x == 0) ->
  spline_from Bf c s x == dot (map (fun q => Bf (s + q)%nat x) (seq 0 k)) c.
Proof.
  induction k; intros c s H.
  - cbn [seq map dot].
    rewrite (spline_from_skip Bf x (length c) c s), skipn_all; [reflexivity|].
    intros; apply H; lia.
  - destruct c as [|a c]; cbn [seq map dot spline_from]; [reflexivity|].
    rewrite map_seq_shift.
    assert (E : spline_from Bf c (S s) x == dot (map (fun q => Bf (S s + q)%nat x) (seq 0 k)) c)
      by (apply IHk; intros; apply H; cbn [length]; lia).
    rewrite E. replace (s + 0)%nat with s by lia.
    replace (map (fun q => Bf (s + S q)%nat x) (seq 0 k))
      with (map (fun q => Bf (S s + q)%nat x) (seq 0 k))
      by (apply map_ext; intros; f_equal; lia).
    ring.
Qed.

(* ------------------------------------------------------------------ the generic development *)
Section Generic.
Variables (t : list Q) (x : Q) (b : nat -> Q -> Q) (off : nat -> nat -> Prop) (l : nat).
Hypothesis off_l : forall i j, (S i < length t)%nat -> off i j -> off (S i) j.
Hypothesis off_r : forall i j, (S j < length t)%nat -> off i (S j) -> off i j.
Hypothesis base_off : forall i, (S i < length t)%nat -> off i (S i) -> b i x == 0.

Lemma G_support : forall m i, (i + m + 1 < length t)%nat -> off i (i + m + 1) -> G t b m i x == 0.
Proof.
  induction m; intros i Hlen Hoff; cbn [G].
  - replace (i + 0 + 1)%nat with (S i) in * by lia. auto.
  - replace (i + S m + 1)%nat with (S (i + m + 1)) in * by lia.
    assert (E1 : G t b m i x == 0) by (apply IHm; [lia | apply off_r; [lia | exact Hoff]]).
    assert (E2 : G t b m (S i) x == 0).
    { apply IHm; [lia|]. replace (S i + m + 1)%nat with (S (i + m + 1)) by lia.
      apply off_l; [lia | exact Hoff]. }
    rewrite E1, E2. ring.
Qed.

Hypothesis cell_one : b l x == 1.
Hypothesis cell_lo : forall i j, (j <= l)%nat -> off i j.
Hypothesis cell_hi : forall i j, (S l <= i)%nat -> (i < length t)%nat -> off i j.

Lemma pass_spec j i1 : (S i1 + j = l)%nat -> (S l + j + 1 < length t)%nat ->
  forall n r v vmprev, (r + n = S j)%nat ->
  Forall2 Qeq v (map (fun q => G t b j (S i1 + q) x) (seq r n)) ->
  vmprev == (x - nthQ t (i1 + r)) / (nthQ t (i1 + r + j + 1) - nthQ t (i1 + r)) * G t b j (i1 + r) x ->
  Forall2 Qeq
    (pass v (map (fun q => nthQ t (l + q + 1) - x) (seq r n))
            (map (fun q => x - nthQ t (S i1 + q)) (seq r n)) vmprev)
    (map (fun q => G t b (S j) (i1 + q) x) (seq r (S n))).
Proof.
  intros Hl Hlen. induction n; intros r v vmprev Hrn Hv Hvm.
  - cbn [seq map] in *. inversion Hv; subst v. cbn [pass].
    constructor; [|constructor]. rewrite Hvm. cbn [G].
    assert (E : G t b j (S (i1 + r)) x == 0) by (apply G_support; [lia | apply cell_hi; lia]).
    rewrite E. ring.
  - cbn [seq map] in Hv |- *. inversion Hv as [|a a' v' w' Ha Hv' Ev Ew]; subst v. cbn [pass].
    constructor.
    + rewrite !Qred_correct, Ha, Hvm. cbn [G].
      replace (S i1 + r)%nat with (S (i1 + r)) by lia.
      replace (i1 + r + j + 2)%nat with (l + r + 1)%nat by lia.
      setoid_replace (nthQ t (l + r + 1) - x + (x - nthQ t (S (i1 + r))))
        with (nthQ t (l + r + 1) - nthQ t (S (i1 + r))) by ring.
      unfold Qdiv. ring.
    + apply (IHn (S r)); [lia | exact Hv' |].
      rewrite !Qred_correct, Ha.
      replace (i1 + S r + j + 1)%nat with (l + r + 1)%nat by lia.
      replace (S i1 + r)%nat with (S (i1 + r)) by lia.
      replace (i1 + S r)%nat with (S (i1 + r)) by lia.
      setoid_replace (nthQ t (l + r + 1) - x + (x - nthQ t (S (i1 + r))))
        with (nthQ t (l + r + 1) - nthQ t (S (i1 + r))) by ring.
      unfold Qdiv. ring.
Qed.

Lemma loop_spec : forall steps j i0 v dp dmr,
  (i0 + j = l)%nat -> (steps <= i0)%nat -> (l + j + steps + 1 < length t)%nat ->
  Forall2 Qeq v (map (fun q => G t b j (i0 + q) x) (seq 0 (S j))) ->
  dp = map (fun q => nthQ t (l + q + 1) - x) (seq 0 j) ->
  dmr = map (fun q => x - nthQ t (i0 + 1 + q)) (seq 0 j) ->
  Forall2 Qeq (bsplvn_loop steps j t x l v dp dmr)
    (map (fun q => G t b (j + steps) (i0 - steps + q) x) (seq 0 (S (j + steps)))).
Proof.
  induction steps; intros j i0 v dp dmr Hl Hst Hlen Hv Hdp Hdm.
  - cbn [bsplvn_loop]. replace (j + 0)%nat with j by lia. replace (i0 - 0)%nat with i0 by lia. exact Hv.
  - cbn [bsplvn_loop]. destruct i0 as [|i1]; [lia|].
    replace (l - j)%nat with (S i1) by lia. subst dp dmr.
    assert (Edp : map (fun q => nthQ t (l + q + 1) - x) (seq 0 j) ++ [nthQ t (l + j + 1) - x]
                  = map (fun q => nthQ t (l + q + 1) - x) (seq 0 (S j))).
    { rewrite seq_S, map_app. reflexivity. }
    assert (Edm : (x - nthQ t (S i1)) :: map (fun q => x - nthQ t (S i1 + 1 + q)) (seq 0 j)
                  = map (fun q => x - nthQ t (S i1 + q)) (seq 0 (S j))).
    { cbn [seq map]. replace (S i1 + 0)%nat with (S i1) by lia. f_equal.
      rewrite map_seq_shift. apply map_ext. intros q. do 2 f_equal. lia. }
    rewrite Edp, Edm.
    replace (j + S steps)%nat with (S j + steps)%nat by lia.
    replace (S i1 - S steps)%nat with (i1 - steps)%nat by lia.
    apply IHsteps; try lia.
    + apply (pass_spec j i1 Hl ltac:(lia) (S j) 0%nat v 0); [lia | exact Hv |].
      assert (E : G t b j (i1 + 0) x == 0) by (apply G_support; [lia | apply cell_lo; lia]).
      rewrite E. ring.
    + reflexivity.
    + apply map_ext. intros q. do 2 f_equal. lia.
Qed.

Lemma bsplvn_generic k : (1 <= k)%nat -> (k - 1 <= l)%nat -> (l + k < length t)%nat ->
  Forall2 Qeq (bsplvn t k x l) (map (fun q => G t b (k - 1) (l - (k - 1) + q) x) (seq 0 k)).
Proof.
  intros Hk Hkl Hlen. unfold bsplvn.
  replace (seq 0 k) with (seq 0 (S (0 + (k - 1)))) by (f_equal; lia).
  change (k - 1)%nat with (0 + (k - 1))%nat at 2.
  apply (loop_spec (k - 1) 0%nat l [1] [] []); try lia; try reflexivity.
  cbn [seq map]. constructor; [|constructor]. cbn [G].
  replace (l + 0)%nat with l by lia. symmetry. exact cell_one.
Qed.

Lemma G_outside k i : (1 <= k)%nat -> (k - 1 <= l)%nat -> (i + k < length t)%nat ->
  (i < l - (k - 1) \/ l < i)%nat -> G t b (k - 1) i x == 0.
Proof.
  intros Hk Hkl Hlen Hi. apply G_support; [lia|].
  destruct Hi; [apply cell_lo | apply cell_hi]; lia.
Qed.

Lemma eval_generic k c : (1 <= k)%nat -> (k - 1 <= l)%nat -> (l + k < length t)%nat ->
  length c = (length t - k)%nat ->
  eval_at t k c x l == spline_from (G t b (k - 1)) c 0 x.
Proof.
  intros Hk Hkl Hlen Hc. unfold eval_at. rewrite Qred_correct.
  rewrite (dot_Forall2 _ _ (bsplvn_generic k Hk Hkl Hlen)).
  rewrite (spline_from_skip (G t b (k - 1)) x (l - (k - 1)) c 0).
  - rewrite (spline_from_window (G t b (k - 1)) x k); [reflexivity|].
    intros i Hi1 Hi2. rewrite skipn_length in Hi2. apply G_outside; lia.
  - intros i _ Hi1 Hi2. apply G_outside; lia.
Qed.

End Generic.

(* ------------------------------------------------------------------ the two instances *)
Lemma Qltb_true a b : Qltb a b = true <-> a < b.
Proof.
  unfold Qltb. rewrite negb_true_iff. split; intros H.
  - apply Qnot_le_lt. intros H1. apply Qle_bool_iff in H1. congruence.
  - destruct (Qle_bool b a) eqn:E; [|reflexivity].
    apply Qle_bool_iff in E. exfalso. exact (Qlt_not_le _ _ H E).
Qed.

Definition offB (t : list Q) (x : Q) (i j : nat) : Prop := x < nthQ t i \/ nthQ t j <= x.
Definition offBl (t : list Q) (x : Q) (i j : nat) : Prop := x <= nthQ t i \/ nthQ t j < x.

Section Instances.
Variables (t : list Q) (x : Q).
Hypothesis Hmono : nondecr t.

Lemma offB_l i j : (S i < length t)%nat -> offB t x i j -> offB t x (S i) j.
Proof.
  intros Hi [H|H]; [left | right; exact H].
  assert (nthQ t i <= nthQ t (S i)) by (apply Hmono; lia). lra.
Qed.
Lemma offB_r i j : (S j < length t)%nat -> offB t x i (S j) -> offB t x i j.
Proof.
  intros Hj [H|H]; [left; exact H | right].
  assert (nthQ t j <= nthQ t (S j)) by (apply Hmono; lia). lra.
Qed.
Lemma bB_off i : (S i < length t)%nat -> offB t x i (S i) -> bB t i x == 0.
Proof.
  intros _ H. unfold bB.
  destruct (Qle_bool (nthQ t i) x) eqn:E1; [|reflexivity].
  destruct (Qltb x (nthQ t (S i))) eqn:E2; [|reflexivity].
  apply Qle_bool_iff in E1. apply Qltb_true in E2. destruct H; lra.
Qed.
Lemma offBl_l i j : (S i < length t)%nat -> offBl t x i j -> offBl t x (S i) j.
Proof.
  intros Hi [H|H]; [left | right; exact H].
  assert (nthQ t i <= nthQ t (S i)) by (apply Hmono; lia). lra.
Qed.
Lemma offBl_r i j : (S j < length t)%nat -> offBl t x i (S j) -> offBl t x i j.
Proof.
  intros Hj [H|H]; [left; exact H | right].
  assert (nthQ t j <= nthQ t (S j)) by (apply Hmono; lia). lra.
Qed.
Lemma bBl_off i : (S i < length t)%nat -> offBl t x i (S i) -> bBl t i x == 0.
Proof.
  intros _ H. unfold bBl.
  destruct (Qltb (nthQ t i) x) eqn:E1; [|reflexivity].
  destruct (Qle_bool x (nthQ t (S i))) eqn:E2; [|reflexivity].
  apply Qle_bool_iff in E2. apply Qltb_true in E1. destruct H; lra.
Qed.

Lemma B_support_sec m i : (i + m + 1 < length t)%nat ->
  (x < nthQ t i \/ nthQ t (i + m + 1) <= x) -> B t m i x == 0.
Proof.
  intros Hlen H. rewrite B_is_G.
  exact (G_support t x (bB t) (offB t x) offB_l offB_r bB_off m i Hlen H).
Qed.

Lemma Bl_support_sec m i : (i + m + 1 < length t)%nat ->
  (x <= nthQ t i \/ nthQ t (i + m + 1) < x) -> Bl t m i x == 0.
Proof.
  intros Hlen H. rewrite Bl_is_G.
  exact (G_support t x (bBl t) (offBl t x) offBl_l offBl_r bBl_off m i Hlen H).
Qed.

Variable l : nat.
Hypothesis Hl : (S l < length t)%nat.

Section Right.
Hypothesis Hlo : nthQ t l <= x.
Hypothesis Hhi : x < nthQ t (S l).

Lemma bB_one : bB t l x == 1.
Proof.
  unfold bB. apply Qle_bool_iff in Hlo. apply Qltb_true in Hhi. rewrite Hlo, Hhi. reflexivity.
Qed.
Lemma offB_lo i j : (j <= l)%nat -> offB t x i j.
Proof. intros Hj. right. assert (nthQ t j <= nthQ t l) by (apply Hmono; lia). lra. Qed.
Lemma offB_hi i j : (S l <= i)%nat -> (i < length t)%nat -> offB t x i j.
Proof. clear Hl. intros Hi Hi'. left. assert (nthQ t (S l) <= nthQ t i) by (apply Hmono; lia). lra. Qed.
End Right.

Section Left.
Hypothesis Hlo : nthQ t l < x.
Hypothesis Hhi : x <= nthQ t (S l).

Lemma bBl_one : bBl t l x == 1.
Proof.
  unfold bBl. apply Qle_bool_iff in Hhi. apply Qltb_true in Hlo. rewrite Hlo, Hhi. reflexivity.
Qed.
Lemma offBl_lo i j : (j <= l)%nat -> offBl t x i j.
Proof. intros Hj. right. assert (nthQ t j <= nthQ t l) by (apply Hmono; lia). lra. Qed.
Lemma offBl_hi i j : (S l <= i)%nat -> (i < length t)%nat -> offBl t x i j.
Proof. clear Hl. intros Hi Hi'. left. assert (nthQ t (S l) <= nthQ t i) by (apply Hmono; lia). lra. Qed.
End Left.

End Instances.

(* ------------------------------------------------------------------ 1. support *)
Theorem B_support : forall t m i x, nondecr t -> (i + m + 1 < length t)%nat ->
  (x < nthQ t i \/ nthQ t (i + m + 1) <= x) -> B t m i x == 0.
Proof. intros t m i x Hm. apply B_support_sec. exact Hm. Qed.

Theorem Bl_support : forall t m i x, nondecr t -> (i + m + 1 < length t)%nat ->
  (x <= nthQ t i \/ nthQ t (i + m + 1) < x) -> Bl t m i x == 0.
Proof. intros t m i x Hm. apply Bl_support_sec. exact Hm. Qed.

(* ------------------------------------------------------------------ 2./3. BSPLVN = Cox-de Boor *)
Lemma bsplvn_B_Forall2 : forall t k x l, nondecr t -> (1 <= k)%nat -> (k - 1 <= l)%nat ->
  (l + k < length t)%nat -> nthQ t l <= x -> x < nthQ t (S l) ->
  Forall2 Qeq (bsplvn t k x l) (map (fun q => B t (k - 1) (l - (k - 1) + q) x) (seq 0 k)).
Proof.
  intros t k x l Hm Hk Hkl Hlen Hlo Hhi.
  assert (Hl : (S l < length t)%nat) by lia.
  replace (map (fun q => B t (k - 1) (l - (k - 1) + q) x) (seq 0 k))
    with (map (fun q => G t (bB t) (k - 1) (l - (k - 1) + q) x) (seq 0 k))
    by (apply map_ext; intros; symmetry; apply B_is_G).
  apply (bsplvn_generic t x (bB t) (offB t x) l (offB_l t x Hm) (offB_r t x Hm) (bB_off t x)
           (bB_one t x l Hlo Hhi) (offB_lo t x Hm l Hl Hlo) (offB_hi t x Hm l Hhi) k Hk Hkl Hlen).
Qed.

Lemma bsplvn_Bl_Forall2 : forall t k x l, nondecr t -> (1 <= k)%nat -> (k - 1 <= l)%nat ->
  (l + k < length t)%nat -> nthQ t l < x -> x <= nthQ t (S l) ->
  Forall2 Qeq (bsplvn t k x l) (map (fun q => Bl t (k - 1) (l - (k - 1) + q) x) (seq 0 k)).
Proof.
  intros t k x l Hm Hk Hkl Hlen Hlo Hhi.
  assert (Hl : (S l < length t)%nat) by lia.
  replace (map (fun q => Bl t (k - 1) (l - (k - 1) + q) x) (seq 0 k))
    with (map (fun q => G t (bBl t) (k - 1) (l - (k - 1) + q) x) (seq 0 k))
    by (apply map_ext; intros; symmetry; apply Bl_is_G).
  apply (bsplvn_generic t x (bBl t) (offBl t x) l (offBl_l t x Hm) (offBl_r t x Hm) (bBl_off t x)
           (bBl_one t x l Hlo Hhi) (offBl_lo t x Hm l Hl Hlo) (offBl_hi t x Hm l Hhi) k Hk Hkl Hlen).
Qed.

Theorem bsplvn_is_coxdeboor : forall t k x l, nondecr t -> (1 <= k)%nat -> (k - 1 <= l)%nat ->
  (l + k < length t)%nat -> nthQ t l <= x -> x < nthQ t (S l) ->
  forall r, (r < k)%nat -> nthQ (bsplvn t k x l) r == B t (k - 1) (l - (k - 1) + r) x.
Proof.
  intros t k x l Hm Hk Hkl Hlen Hlo Hhi r Hr.
  rewrite (Forall2_Qeq_nth _ _ (bsplvn_B_Forall2 t k x l Hm Hk Hkl Hlen Hlo Hhi) r).
  rewrite nthQ_map_seq by exact Hr. reflexivity.
Qed.

Theorem bsplvn_is_coxdeboor_left : forall t k x l, nondecr t -> (1 <= k)%nat -> (k - 1 <= l)%nat ->
  (l + k < length t)%nat -> nthQ t l < x -> x <= nthQ t (S l) ->
  forall r, (r < k)%nat -> nthQ (bsplvn t k x l) r == Bl t (k - 1) (l - (k - 1) + r) x.
Proof.
  intros t k x l Hm Hk Hkl Hlen Hlo Hhi r Hr.
  rewrite (Forall2_Qeq_nth _ _ (bsplvn_Bl_Forall2 t k x l Hm Hk Hkl Hlen Hlo Hhi) r).
  rewrite nthQ_map_seq by exact Hr. reflexivity.
Qed.

(* the length needs no hypothesis on the knots or on x *)
Lemma pass_length : forall v dp dmr vmprev,
  length (pass v dp dmr vmprev) = S (Nat.min (length v) (Nat.min (length dp) (length dmr))).
Proof.
  induction v as [|a v IH]; intros [|p dp] [|m dmr] vmprev; cbn [pass length Nat.min]; try reflexivity.
  rewrite IH. reflexivity.
Qed.

Lemma bsplvn_loop_length : forall steps j t x l v dp dmr,
  length v = S j -> length dp = j -> length dmr = j ->
  length (bsplvn_loop steps j t x l v dp dmr) = S (j + steps).
Proof.
  induction steps; intros j t x l v dp dmr Hv Hdp Hdm; cbn [bsplvn_loop]; [lia|].
  rewrite IHsteps; [lia | | |].
  - rewrite pass_length, app_length. cbn [length]. lia.
  - rewrite app_length. cbn [length]. lia.
  - cbn [length]. lia.
Qed.

Theorem bsplvn_length : forall t k x l, (1 <= k)%nat -> length (bsplvn t k x l) = k.
Proof.
  intros t k x l Hk. unfold bsplvn. rewrite bsplvn_loop_length; cbn [length]; lia.
Qed.

(* ------------------------------------------------------------------ 4. eval_at = spline *)
Theorem eval_at_is_spline : forall t k c x l, nondecr t -> (1 <= k)%nat -> (k - 1 <= l)%nat ->
  (l + k < length t)%nat -> length c = (length t - k)%nat ->
  nthQ t l <= x -> x < nthQ t (S l) -> eval_at t k c x l == spline t c k x.
Proof.
  intros t k c x l Hm Hk Hkl Hlen Hc Hlo Hhi.
  assert (Hl : (S l < length t)%nat) by lia.
  unfold spline.
  rewrite (spline_from_ext (B t (k - 1)) (G t (bB t) (k - 1)) x c 0)
    by (intros; rewrite B_is_G; reflexivity).
  apply (eval_generic t x (bB t) (offB t x) l (offB_l t x Hm) (offB_r t x Hm) (bB_off t x)
           (bB_one t x l Hlo Hhi) (offB_lo t x Hm l Hl Hlo) (offB_hi t x Hm l Hhi) k c Hk Hkl Hlen Hc).
Qed.

Theorem eval_at_is_spline_left : forall t k c x l, nondecr t -> (1 <= k)%nat -> (k - 1 <= l)%nat ->
  (l + k < length t)%nat -> length c = (length t - k)%nat ->
  nthQ t l < x -> x <= nthQ t (S l) -> eval_at t k c x l == spline_left t c k x.
Proof.
  intros t k c x l Hm Hk Hkl Hlen Hc Hlo Hhi.
  assert (Hl : (S l < length t)%nat) by lia.
  unfold spline_left.
  rewrite (spline_from_ext (Bl t (k - 1)) (G t (bBl t) (k - 1)) x c 0)
    by (intros; rewrite Bl_is_G; reflexivity).
  apply (eval_generic t x (bBl t) (offBl t x) l (offBl_l t x Hm) (offBl_r t x Hm) (bBl_off t x)
           (bBl_one t x l Hlo Hhi) (offBl_lo t x Hm l Hl Hlo) (offBl_hi t x Hm l Hhi) k c Hk Hkl Hlen Hc).
Qed.

(* ------------------------------------------------------------------ 5. order >= 2: the conventions agree *)
Lemma Qltb_false a b : Qltb a b = false -> b <= a.
Proof.
  unfold Qltb. rewrite negb_false_iff. apply Qle_bool_iff.
Qed.
Lemma Qle_bool_false a b : Qle_bool a b = false -> b < a.
Proof.
  intros H. apply Qnot_le_lt. intros H1. apply Qle_bool_iff in H1. congruence.
Qed.

Lemma order2_agree a b c x : a < b -> b < c ->
  (x - a) / (b - a) * (if Qltb a x && Qle_bool x b then 1 else 0)
  + (c - x) / (c - b) * (if Qltb b x && Qle_bool x c then 1 else 0)
  == (x - a) / (b - a) * (if Qle_bool a x && Qltb x b then 1 else 0)
  + (c - x) / (c - b) * (if Qle_bool b x && Qltb x c then 1 else 0).
Proof.
  intros Hab Hbc.
  destruct (Qltb a x) eqn:E1; [apply Qltb_true in E1 | apply Qltb_false in E1];
  (destruct (Qle_bool x b) eqn:E2; [apply Qle_bool_iff in E2 | apply Qle_bool_false in E2]);
  try (exfalso; lra);
  (destruct (Qltb b x) eqn:E3; [apply Qltb_true in E3 | apply Qltb_false in E3]);
  try (exfalso; lra);
  (destruct (Qle_bool x c) eqn:E4; [apply Qle_bool_iff in E4 | apply Qle_bool_false in E4]);
  try (exfalso; lra);
  (destruct (Qle_bool a x) eqn:E5; [apply Qle_bool_iff in E5 | apply Qle_bool_false in E5]);
  try (exfalso; lra);
  (destruct (Qltb x b) eqn:E6; [apply Qltb_true in E6 | apply Qltb_false in E6]);
  try (exfalso; lra);
  (destruct (Qle_bool b x) eqn:E7; [apply Qle_bool_iff in E7 | apply Qle_bool_false in E7]);
  try (exfalso; lra);
  (destruct (Qltb x c) eqn:E8; [apply Qltb_true in E8 | apply Qltb_false in E8]);
  try (exfalso; lra);
  cbn [andb];
  first
    [ unfold Qdiv; ring
    | assert (E : x == a) by lra; rewrite E; field; repeat split; intro; lra
    | assert (E : x == b) by lra; rewrite E; field; repeat split; intro; lra
    | assert (E : x == c) by lra; rewrite E; field; repeat split; intro; lra ].
Qed.

Lemma B_S t m i x : B t (S m) i x =
  (x - nthQ t i) / (nthQ t (i + m + 1) - nthQ t i) * B t m i x
  + (nthQ t (i + m + 2) - x) / (nthQ t (i + m + 2) - nthQ t (S i)) * B t m (S i) x.
Proof. reflexivity. Qed.
Lemma Bl_S t m i x : Bl t (S m) i x =
  (x - nthQ t i) / (nthQ t (i + m + 1) - nthQ t i) * Bl t m i x
  + (nthQ t (i + m + 2) - x) / (nthQ t (i + m + 2) - nthQ t (S i)) * Bl t m (S i) x.
Proof. reflexivity. Qed.

Theorem Bl_eq_B : forall t m i x,
  (forall i, (S i < length t)%nat -> nthQ t i < nthQ t (S i)) ->
  (1 <= m)%nat -> (i + m + 1 < length t)%nat -> Bl t m i x == B t m i x.
Proof.
  intros t m i x Hs Hm. destruct m as [|m]; [lia|]. clear Hm. revert i.
  induction m; intros i Hlen.
  - cbn [Bl B]. replace (i + 0 + 1)%nat with (S i) by lia. replace (i + 0 + 2)%nat with (S (S i)) by lia.
    apply order2_agree; apply Hs; lia.
  - rewrite (Bl_S t (S m)), (B_S t (S m)).
    assert (E1 : Bl t (S m) i x == B t (S m) i x) by (apply IHm; lia).
    assert (E2 : Bl t (S m) (S i) x == B t (S m) (S i) x) by (apply IHm; lia).
    rewrite E1, E2. reflexivity.
Qed.

Theorem spline_left_eq_spline : forall t c k x,
  (forall i, (S i < length t)%nat -> nthQ t i < nthQ t (S i)) ->
  (2 <= k)%nat -> length c = (length t - k)%nat -> spline_left t c k x == spline t c k x.
Proof.
  intros t c k x Hs Hk Hc. unfold spline_left, spline.
  apply spline_from_ext. intros i _ Hi. apply Bl_eq_B; [exact Hs | lia | lia].
Qed.

Print Assumptions B_support.
Print Assumptions Bl_support.
Print Assumptions bsplvn_is_coxdeboor.
Print Assumptions bsplvn_is_coxdeboor_left.
Print Assumptions bsplvn_length.
Print Assumptions eval_at_is_spline.
Print Assumptions eval_at_is_spline_left.
Print Assumptions Bl_eq_B.
Print Assumptions spline_left_eq_spline.
