(* C15: badness never increases in a g-step without smoothing (epsilon None or <= 0):
   chi2_mat regrouped by columns, each column being minimised by gstep_col_ref. *)
From Coq Require Import QArith Qabs Lqa List Bool Lia ZArith.
From PV Require Import Lib.WLS C13.LinAlg C13.LinAlgProofs C15.Model C15.Chi2Proofs C15.HmfProofs C15.HmfProofs2.
Import ListNotations.
Open Scope Q_scope.

Lemma vsum_map_le {A : Type} (f h : A -> Q) l : (forall k, In k l -> f k <= h k) -> vsum (map f l) <= vsum (map h l).
Proof.
  unfold vsum. induction l as [|a l IH]; intros H; simpl; [lra|].
  pose proof (H a (or_introl eq_refl)). assert (fold_right Qplus 0 (map f l) <= fold_right Qplus 0 (map h l)).
  { apply IH. intros k Hk. apply H. right. exact Hk. }
  lra.
Qed.
Lemma vsum_map_zero {A : Type} (f : A -> Q) l : (forall k, f k == 0) -> vsum (map f l) == 0.
Proof. intros H. unfold vsum. induction l as [|a l IH]; simpl; [reflexivity|]. rewrite H, IH. ring. Qed.

(* a row of chi2_mat as a sum over the pixel index *)
Lemma rowterm_as_sum (G : nat -> Q) M : forall s si wi, length si = M -> length wi = M ->
  vsum (map2 (fun p mij => sqr (fst p - mij) * snd p) (combine si wi) (map G (seq s M)))
  == vsum (map (fun j => nth (j - s) wi 0 * ((G j - nth (j - s) si 0) * (G j - nth (j - s) si 0))) (seq s M)).
Proof.
  induction M as [|M IH]; intros s si wi Ls Lw.
  - destruct si; [|discriminate]. reflexivity.
  - destruct si as [|x si]; [discriminate|]. destruct wi as [|y wi]; [discriminate|]. simpl.
    unfold vsum in *. simpl. rewrite (IH (S s) si wi) by (simpl in *; lia).
    rewrite Nat.sub_diag. simpl.
    assert (E : fold_right Qplus 0 (map (fun j => nth (j - S s) wi 0 * ((G j - nth (j - S s) si 0) * (G j - nth (j - S s) si 0))) (seq (S s) M))
                == fold_right Qplus 0 (map (fun j => nth (j - s) (y :: wi) 0 * ((G j - nth (j - s) (x :: si) 0) * (G j - nth (j - s) (x :: si) 0))) (seq (S s) M))).
    { apply (vsum_map_ext _ _ (seq (S s) M)). intros k Hk. apply in_seq in Hk.
      replace (k - s)%nat with (S (k - S s)) by lia. reflexivity. }
    rewrite E. unfold sqr. apply Qplus_comp; [ring | reflexivity].
Qed.

Definition colsum (s w a : mat) (M : nat) (X : nat -> vec) : Q :=
  vsum (map (fun j => chi2 (hmf_col_data a (col j w) (col j s)) (X j)) (seq 0 M)).

(* chi2_mat regrouped by columns, for rectangular data *)
Lemma chi2_mat_cols g M : ncols g = M -> forall s w a,
  Forall (fun r => length r = M) s -> Forall (fun r => length r = M) w ->
  length w = length s -> length a = length s ->
  chi2_mat s w a g == colsum s w a M (fun j => col j g).
Proof.
  intros Hg. induction s as [|si s IH]; intros w a Hs Hw Lw La.
  - destruct w; [|discriminate]. destruct a; [|discriminate]. unfold chi2_mat, colsum. simpl.
    symmetry. apply vsum_map_zero. intros k. reflexivity.
  - destruct w as [|wi w]; [discriminate|]. destruct a as [|ai a]; [discriminate|].
    inversion Hs as [|? ? Hsi Hs']; inversion Hw as [|? ? Hwi Hw'].
    assert (E1 : chi2_mat (si :: s) (wi :: w) (ai :: a) g
                 == vsum (map2 (fun p mij => sqr (fst p - mij) * snd p) (combine si wi) (map (fun c => dot ai c) (transpose g)))
                    + chi2_mat s w a g).
    { unfold chi2_mat, mat_mul, vsum. simpl. reflexivity. }
    rewrite E1. rewrite IH by (try assumption; simpl in *; lia).
    unfold transpose. rewrite map_map. rewrite Hg.
    rewrite (rowterm_as_sum (fun j => dot ai (col j g)) M 0 si wi Hsi Hwi).
    unfold colsum. rewrite vsum_map_add. apply vsum_map_ext. intros j _.
    rewrite Nat.sub_0_r. unfold hmf_col_data. simpl. ring.
Qed.

(* column j of the transposed list of solved columns is that column *)
Lemma list_as_nth_seq (x : vec) : map (fun k => nth k x 0) (seq 0 (length x)) = x.
Proof.
  induction x as [|a x IH]; simpl; [reflexivity|]. f_equal. rewrite <- seq_shift, map_map. exact IH.
Qed.

Lemma col_transpose cols K j x : ncols cols = K -> nth_error cols j = Some x -> length x = K ->
  col j (transpose cols) = x.
Proof.
  intros HK Hx Lx. unfold transpose, col. rewrite map_map. rewrite HK. rewrite <- Lx.
  rewrite <- (list_as_nth_seq x) at 2. apply map_ext_in. intros k Hk.
  assert (Hj : (j < length cols)%nat) by (apply nth_error_Some; congruence).
  rewrite (nth_indep _ 0 (nth k [] 0)) by (rewrite map_length; exact Hj).
  rewrite (map_nth (fun r => nth k r 0) cols [] j). rewrite (nth_error_nth cols j [] Hx). reflexivity.
Qed.

(* badness_nonincreasing (g-step, no smoothing) *)
Theorem badness_nonincreasing_gstep s w a g eps gnew :
  gstep_ref s w a g eps = Some gnew -> eps_active eps = None ->
  (0 < length s)%nat -> (0 < ncols s)%nat ->
  Forall (fun r => length r = ncols s) s -> Forall (fun r => length r = ncols s) w ->
  length w = length s -> length a = length s -> rows_len (ncols a) a ->
  length g = ncols a -> ncols g = ncols s ->
  Forall (Forall (fun v => 0 <= v)) w ->
  chi2_mat s w a gnew <= chi2_mat s w a g.
Proof.
  intros H He Hs0 HM0 Hs Hw Lw La Ha Lg Ng Hpos.
  destruct (gstep_optimal_colwise s w a g eps gnew H Ha Hpos) as [cols [Eg [Lc Hopt]]].
  set (M := ncols s) in *. set (K := ncols a) in *.
  assert (Ncols : ncols cols = K).
  { destruct cols as [|c0 cols]; [simpl in Lc; lia|]. simpl. destruct (Hopt O c0 eq_refl) as [L _]. exact L. }
  assert (Ngnew : ncols gnew = M).
  { subst gnew. unfold transpose. rewrite Ncols.
    assert (0 < K)%nat.
    { unfold K. destruct a as [|a0 a]; [simpl in La; lia|]. simpl.
      destruct s as [|s0 s]; [simpl in Hs0; lia|].
      (* a row of a has the length of g which is K; K = 0 would make ncols a = 0: allowed? exclude via g *)
      destruct (Nat.eq_dec (length a0) 0) as [Z|Z]; [|lia]. exfalso.
      unfold K in Lg. simpl in Lg. rewrite Z in Lg. destruct g; [|discriminate]. unfold M in *. simpl in *. lia. }
    destruct K as [|K']; [lia|]. simpl. rewrite col_length. exact Lc. }
  rewrite (chi2_mat_cols gnew M Ngnew s w a Hs Hw Lw La).
  rewrite (chi2_mat_cols g M Ng s w a Hs Hw Lw La).
  unfold colsum. apply vsum_map_le. intros j Hj. apply in_seq in Hj.
  assert (Hjc : (j < length cols)%nat) by lia.
  destruct (nth_error cols j) as [x|] eqn:Ex; [|apply nth_error_None in Ex; lia].
  destruct (Hopt j x Ex) as [Lx O].
  rewrite Eg. rewrite (col_transpose cols K j x Ncols Ex Lx).
  specialize (O (col j g)). unfold gstep_objective in O. rewrite He, app_nil_r in O.
  apply O. rewrite col_length. exact Lg.
Qed.

Corollary badness_nonincreasing_gstep_None s w a g gnew :
  gstep_ref s w a g None = Some gnew ->
  (0 < length s)%nat -> (0 < ncols s)%nat ->
  Forall (fun r => length r = ncols s) s -> Forall (fun r => length r = ncols s) w ->
  length w = length s -> length a = length s -> rows_len (ncols a) a ->
  length g = ncols a -> ncols g = ncols s ->
  Forall (Forall (fun v => 0 <= v)) w ->
  badness s w a gnew None <= badness s w a g None.
Proof.
  intros. unfold badness, penalty.
  assert (chi2_mat s w a gnew <= chi2_mat s w a g) by (eapply badness_nonincreasing_gstep; eauto). lra.
Qed.
