"""Fail-closed extraction of the index arithmetic of chunks.assign() / chunks.getbounds() / chunks.get()
(pydl/pydlutils/spheregroup.py) into coq/Generated/Chunks.v.

Extracted (each from the AST, nothing is assumed about the text):
  assign()    the two  for raChunk in range(A, B)  loops (reset / fill): A and B as functions of
              lo = raChunkMin[decChunk-decChunkMin], hi = raChunkMax[decChunk-decChunkMin];
              the if / elif / else that computes currRaChunk (the RA wrap) and the validity test on currRaChunk
  getbounds() the two floor-binning expressions (declination slice, RA cell), the tests of the two declination
              while loops and of the two RA walks
  get()       its two floor-binning expressions
Anything that does not have exactly the expected shape raises Unrecognised: the previous Generated/Chunks.v is kept and
the run relies on the correspondence check alone.
"""
import ast
import os

from translate import pyexpr as P

U = P.Unrecognised


def sub_names(node, table):
    """replace sub-trees by Names: table = list of (predicate(node) -> name or None)"""
    class T(ast.NodeTransformer):
        def generic_visit(self, n):
            for pred in table:
                nm = pred(n)
                if nm is not None:
                    return ast.copy_location(ast.Name(id=nm, ctx=ast.Load()), n)
            return super().generic_visit(n)

        def visit(self, n):
            for pred in table:
                nm = pred(n)
                if nm is not None:
                    return ast.copy_location(ast.Name(id=nm, ctx=ast.Load()), n)
            return super().visit(n)
    import copy
    return T().visit(copy.deepcopy(node))


def is_sub(n, base):
    """n is  base[...]  where base is a Name or self.<attr>"""
    if not isinstance(n, ast.Subscript):
        return False
    v = n.value
    if isinstance(v, ast.Name):
        return v.id == base
    if isinstance(v, ast.Attribute) and isinstance(v.value, ast.Name) and v.value.id == 'self':
        return v.attr == base
    return False


def self_attr(n, attr):
    return isinstance(n, ast.Attribute) and isinstance(n.value, ast.Name) and n.value.id == 'self' and n.attr == attr


# ---------------------------------------------------------------- integer expressions / conditions (Z)

CMP = {ast.Lt: 'Z.ltb', ast.LtE: 'Z.leb', ast.Gt: 'Z.gtb', ast.GtE: 'Z.geb', ast.Eq: 'Z.eqb'}


def zcond(node, env):
    if isinstance(node, ast.BoolOp) and isinstance(node.op, ast.And):
        return '(' + ' && '.join(zcond(v, env) for v in node.values) + ')'
    if isinstance(node, ast.Compare) and len(node.ops) == 1 and type(node.ops[0]) in CMP:
        return '(%s %s %s)' % (CMP[type(node.ops[0])], P.to_gallina(node.left, env), P.to_gallina(node.comparators[0], env))
    raise U('integer condition %s' % ast.dump(node)[:80])


# ---------------------------------------------------------------- float expressions / conditions (Q, exact)

QBIN = {ast.Add: 'Qplus', ast.Sub: 'Qminus', ast.Mult: 'Qmult', ast.Div: 'Qdiv'}


def qexpr(node, env):
    if isinstance(node, ast.Name):
        if node.id in env:
            return env[node.id]
        raise U('free name %s' % node.id)
    if isinstance(node, ast.BinOp) and type(node.op) in QBIN:
        return '(%s %s %s)' % (QBIN[type(node.op)], qexpr(node.left, env), qexpr(node.right, env))
    if isinstance(node, ast.Call) and isinstance(node.func, ast.Name) and node.func.id == 'float' and len(node.args) == 1:
        return qexpr(node.args[0], env)
    raise U('float expression %s' % ast.dump(node)[:80])


def floor_index(node, env):
    """int(np.floor(E)) -> Qfloor E"""
    if not (isinstance(node, ast.Call) and isinstance(node.func, ast.Name) and node.func.id == 'int' and len(node.args) == 1):
        raise U('int(...) expected')
    f = node.args[0]
    if not (isinstance(f, ast.Call) and isinstance(f.func, ast.Attribute) and f.func.attr == 'floor' and len(f.args) == 1):
        raise U('np.floor(...) expected')
    return '(Qfloor %s)' % qexpr(f.args[0], env)


def qlt(node, env):
    if isinstance(node, ast.Compare) and len(node.ops) == 1 and isinstance(node.ops[0], ast.Lt):
        return '(Qlt_bool %s %s)' % (qexpr(node.left, env), qexpr(node.comparators[0], env))
    raise U('float comparison %s' % ast.dump(node)[:80])


# ---------------------------------------------------------------- assign()

def ra_loops(fn):
    """the `for raChunk in range(A, B)` loops nested in `for decChunk in range(decChunkMin, decChunkMax+1)`"""
    out = []
    for n in ast.walk(fn):
        if isinstance(n, ast.For) and isinstance(n.target, ast.Name) and n.target.id == 'decChunk':
            it = n.iter
            if not (isinstance(it, ast.Call) and isinstance(it.func, ast.Name) and it.func.id == 'range' and len(it.args) == 2):
                raise U('decChunk loop is not range(a, b)')
            if not (isinstance(it.args[0], ast.Name) and it.args[0].id == 'decChunkMin'):
                raise U('decChunk loop does not start at decChunkMin')
            b = it.args[1]
            if not (isinstance(b, ast.BinOp) and isinstance(b.op, ast.Add) and isinstance(b.left, ast.Name) and
                    b.left.id == 'decChunkMax' and P.const_value(b.right) == 1):
                raise U('decChunk loop does not end at decChunkMax+1')
            inner = [m for m in n.body if isinstance(m, ast.For)]
            if len(inner) != 1 or len(n.body) != 1:
                raise U('decChunk loop body')
            out.append(inner[0])
    if len(out) != 2:
        raise U('expected two decChunk loops in assign(), found %d' % len(out))
    return out


def lohi(n):
    if is_sub(n, 'raChunkMin'):
        return 'lo'
    if is_sub(n, 'raChunkMax'):
        return 'hi'
    if is_sub(n, 'nRa'):
        return 'nra'
    return None


def check_row_index(loop):
    """raChunkMin[decChunk-decChunkMin] / self.nRa[decChunk]: the subscripts the model assumes"""
    for n in ast.walk(loop):
        if is_sub(n, 'raChunkMin') or is_sub(n, 'raChunkMax'):
            s = n.slice
            if not (isinstance(s, ast.BinOp) and isinstance(s.op, ast.Sub) and isinstance(s.left, ast.Name) and s.left.id == 'decChunk'
                    and isinstance(s.right, ast.Name) and s.right.id == 'decChunkMin'):
                raise U('raChunkMin/Max subscript')
        if is_sub(n, 'nRa'):
            if not (isinstance(n.slice, ast.Name) and n.slice.id == 'decChunk'):
                raise U('nRa subscript')


def ra_loop(loop, tag):
    if not (isinstance(loop.target, ast.Name) and loop.target.id == 'raChunk'):
        raise U('inner loop variable')
    check_row_index(loop)
    it = loop.iter
    if not (isinstance(it, ast.Call) and isinstance(it.func, ast.Name) and it.func.id == 'range' and len(it.args) == 2):
        raise U('raChunk loop is not range(a, b)')
    env = {'lo': 'lo', 'hi': 'hi', 'nra': 'nra', 'raChunk': 'r', 'currRaChunk': 'c'}
    a = P.to_gallina(sub_names(it.args[0], [lohi]), env)
    b = P.to_gallina(sub_names(it.args[1], [lohi]), env)
    if len(loop.body) != 2 or not isinstance(loop.body[0], ast.If) or not isinstance(loop.body[1], ast.If):
        raise U('raChunk loop body (%s)' % tag)
    w = loop.body[0]

    def assigned(body):
        if len(body) == 1 and isinstance(body[0], ast.Assign) and len(body[0].targets) == 1 and \
                isinstance(body[0].targets[0], ast.Name) and body[0].targets[0].id == 'currRaChunk':
            return P.to_gallina(sub_names(body[0].value, [lohi]), env)
        raise U('currRaChunk assignment (%s)' % tag)
    if len(w.orelse) != 1 or not isinstance(w.orelse[0], ast.If):
        raise U('wrap elif (%s)' % tag)
    w2 = w.orelse[0]
    wrap = '(if %s then %s else if %s then %s else %s)' % (
        zcond(sub_names(w.test, [lohi]), env), assigned(w.body),
        zcond(sub_names(w2.test, [lohi]), env), assigned(w2.body), assigned(w2.orelse))
    valid = zcond(sub_names(loop.body[1].test, [lohi]), env)
    if loop.body[1].orelse:
        raise U('validity test has an else branch (%s)' % tag)
    return a, b, wrap, valid


# ---------------------------------------------------------------- getbounds() / get()

def bound_names(dec_or_ra):
    """self.decBounds[0] -> lo, self.decBounds[self.nDec] -> hi, float(self.nDec) -> n   (and the raBounds[i] analogues)"""
    def pred(n):
        if dec_or_ra == 'dec':
            if is_sub(n, 'decBounds'):
                s = n.slice
                if isinstance(s, ast.Constant) and s.value == 0:
                    return 'lo'
                if self_attr(s, 'nDec'):
                    return 'hi'
                raise U('decBounds subscript in binning expression')
            if self_attr(n, 'nDec'):
                return 'n'
        else:
            if isinstance(n, ast.Subscript) and is_sub(n.value, 'raBounds'):
                s = n.slice
                if isinstance(s, ast.Constant) and s.value == 0:
                    return 'lo'
                if is_sub(s, 'nRa'):
                    return 'hi'
                raise U('raBounds subscript in binning expression')
            if is_sub(n, 'nRa'):
                return 'n'
        return None
    return pred


def first_assign(fn, target_pred):
    for n in ast.walk(fn):
        if isinstance(n, ast.Assign) and len(n.targets) == 1 and target_pred(n.targets[0]):
            return n
    raise U('assignment not found')


def walk_tests(fn):
    """tests of the two declination while loops and of the keepGoing assignments"""
    whiles = [n for n in ast.walk(fn) if isinstance(n, ast.While)]
    dec = [w for w in whiles if not (isinstance(w.test, ast.BoolOp) and any(isinstance(v, ast.Name) and v.id == 'keepGoing' for v in w.test.values))]
    if len(dec) != 2:
        raise U('expected two declination while loops, found %d' % len(dec))
    out = {}

    def decpred(n):
        if is_sub(n, 'decBounds'):
            return 'b'
        return None
    for w, key, idx_ok in ((dec[0], 'dec_down', lambda s: isinstance(s, ast.Name) and s.id == 'decChunkMin'),
                           (dec[1], 'dec_up', lambda s: isinstance(s, ast.BinOp) and isinstance(s.op, ast.Add) and
                            isinstance(s.left, ast.Name) and s.left.id == 'decChunkMax' and P.const_value(s.right) == 1)):
        t = w.test
        if not (isinstance(t, ast.BoolOp) and isinstance(t.op, ast.And) and len(t.values) == 2):
            raise U('declination while test')
        for n in ast.walk(t.values[0]):
            if is_sub(n, 'decBounds') and not idx_ok(n.slice):
                raise U('declination bound index in %s' % key)
        out[key] = qlt(sub_names(t.values[0], [decpred]), {'dec': 'x', 'b': 'b', 'marginSize': 'm'})
        guard = sub_names(t.values[1], [lambda n: 'n' if self_attr(n, 'nDec') else None])
        out[key + '_guard'] = zcond(guard, {'decChunkMin': 'c', 'decChunkMax': 'c', 'n': 'n'})
    keep = [n for n in ast.walk(fn) if isinstance(n, ast.Assign) and len(n.targets) == 1 and isinstance(n.targets[0], ast.Name)
            and n.targets[0].id == 'keepGoing' and isinstance(n.value, ast.Compare)]
    if len(keep) != 2:
        raise U('expected two keepGoing comparisons, found %d' % len(keep))

    def rapred(n):
        if isinstance(n, ast.Subscript) and is_sub(n.value, 'raBounds'):
            return 'b'
        return None
    for k, key, idx_ok in ((keep[0], 'ra_down', lambda s: isinstance(s, ast.Name) and s.id == 'raCheck'),
                           (keep[1], 'ra_up', lambda s: isinstance(s, ast.BinOp) and isinstance(s.op, ast.Add) and
                            isinstance(s.left, ast.Name) and s.left.id == 'raCheck' and P.const_value(s.right) == 1)):
        for n in ast.walk(k.value):
            if isinstance(n, ast.Subscript) and is_sub(n.value, 'raBounds') and not idx_ok(n.slice):
                raise U('RA bound index in %s' % key)
        out[key] = qlt(sub_names(k.value, [rapred]), {'ra': 'x', 'b': 'b', 'raMargin': 'm', 'marginSize': 'm0', 'cosDecMin': 'cosDecMin'})
    return out


def defn(name, args, typ, body):
    return 'Definition %s %s : %s :=\n  %s.\n' % (name, args, typ, body)


def generate(repo):
    info = {'recognised': True, 'detail': []}
    src = open(os.path.join(repo, 'pydl/pydlutils/spheregroup.py')).read()
    out = ['(* GENERATED by translate/c04.py from pydl/pydlutils/spheregroup.py (chunks.assign, getbounds, get) -- do not edit *)',
           'From Coq Require Import ZArith QArith Qround Bool.', 'From PV Require Import C04.Model.',
           'Close Scope Q_scope. Open Scope Z_scope.', '']
    try:
        tree = ast.parse(src)
        cls = [n for n in tree.body if isinstance(n, ast.ClassDef) and n.name == 'chunks']
        if len(cls) != 1:
            raise U('class chunks')
        f_assign = P.find_function(cls[0], 'assign')
        f_gb = P.find_function(cls[0], 'getbounds')
        f_get = P.find_function(cls[0], 'get')
        reset, fill = ra_loops(f_assign)
        for loop, tag in ((reset, 'reset'), (fill, 'fill')):
            a, b, wrap, valid = ra_loop(loop, tag)
            out.append('(* assign(), %s loop, source line %d *)' % (tag, loop.lineno))
            out.append(defn('gen_%s_from' % tag, '(lo hi : Z)', 'Z', a))
            out.append(defn('gen_%s_to' % tag, '(lo hi : Z)', 'Z', b))
            out.append(defn('gen_%s_wrap' % tag, '(nra r : Z)', 'Z', wrap))
            out.append(defn('gen_%s_valid' % tag, '(nra c : Z)', 'bool', valid))
        # the fill loop must append under `if not chunkDone[...]` and set it; the reset loop must clear it
        srcfill = ast.dump(fill)
        if 'append' not in srcfill or 'chunkDone' not in srcfill:
            raise U('fill loop does not append under chunkDone')
        qenv = {'dec': 'x', 'ra': 'x', 'lo': 'lo', 'hi': 'hi', 'n': 'n'}
        a1 = first_assign(f_gb, lambda t: isinstance(t, ast.Name) and t.id == 'decChunkMin')
        out.append('(* getbounds(), declination slice, source line %d *)' % a1.lineno)
        out.append(defn('gen_gb_dec_index', '(x lo hi n : Q)', 'Z', floor_index(sub_names(a1.value, [bound_names('dec')]), qenv)))
        a2 = first_assign(f_gb, lambda t: is_sub(t, 'raChunkMin'))
        out.append('(* getbounds(), RA cell, source line %d *)' % a2.lineno)
        out.append(defn('gen_gb_ra_index', '(x lo hi n : Q)', 'Z', floor_index(sub_names(a2.value, [bound_names('ra')]), qenv)))
        a3 = first_assign(f_get, lambda t: isinstance(t, ast.Name) and t.id == 'decChunk')
        out.append(defn('gen_get_dec_index', '(x lo hi n : Q)', 'Z', floor_index(sub_names(a3.value, [bound_names('dec')]), qenv)))
        a4 = first_assign(f_get, lambda t: isinstance(t, ast.Name) and t.id == 'raChunk')

        def get_ra(n):
            # self.raBounds[decChunk][0], self.raBounds[decChunk][self.nRa[decChunk]], float(self.nRa[decChunk])
            return bound_names('ra')(n)
        out.append(defn('gen_get_ra_index', '(x lo hi n : Q)', 'Z', floor_index(sub_names(a4.value, [get_ra]), qenv)))
        wt = walk_tests(f_gb)
        out.append('(* getbounds(), walk tests: x = dec or ra of the point, b = the bound compared with, m = marginSize resp. raMargin *)')
        for key in ('dec_down', 'dec_up', 'ra_down', 'ra_up'):
            if 'cosDecMin' in wt[key] or 'm0' in wt[key]:
                raise U('%s test is not of the form (difference) < margin' % key)
            out.append(defn('gen_%s_test' % key, '(x b m : Q)', 'bool', wt[key]))
        out.append(defn('gen_dec_down_guard', '(c n : Z)', 'bool', wt['dec_down_guard']))
        out.append(defn('gen_dec_up_guard', '(c n : Z)', 'bool', wt['dec_up_guard']))
        # the two maxmatch passes of spherematch(), compiled by the generic statement compiler of translate/c05.py
        from translate import c05 as T5
        out.append('(* spherematch(): the two maxmatch passes as statements of C05/Imp.v *)')
        out.append('From Coq Require Import String.')
        out.append('From PV Require Import C05.Imp.')
        out.append('Open Scope string_scope.')
        out += T5.generate_greedy(repo)
        out.append('Definition chunks_recognised : bool := true.')
    except (U, SyntaxError, KeyError, IndexError, AttributeError) as e:
        info['recognised'] = False
        info['detail'].append('%s: %s' % (type(e).__name__, e))
        return None, info
    return '\n'.join(out) + '\n', info


if __name__ == '__main__':
    import sys
    text, info = generate(sys.argv[1] if len(sys.argv) > 1 else '/repo')
    print(info)
    print(text)
