#!/bin/bash
# regenerate coq/Generated from /repo (so that a file left by a run against a scratch tree is never committed), then commit
cd "$(dirname "$0")/.."
env -u PYDL_REPO /venv/bin/python -m harness.regen >/dev/null 2>&1
git add -A >/dev/null
git commit -qm "$1" && echo committed
